#!/usr/bin/env python3
"""Shared machinery for /verif checks: scratch dirs, harness build, TLC runs, evidence, findings.

Contract (DESIGN.md Appendix A.4):
  exit 0  property held on everything explored (KNOWN-FINDING lines allowed)
  exit 1  a VIOLATION line was printed (real code contradicts the R layer, reproduced)
  exit 2  infrastructure trouble (build failure, TLC failure, timeout, dead driver) - never a verdict
"""
import atexit, hashlib, json, os, re, shutil, signal, subprocess, sys, time

VERIF = os.path.dirname(os.path.abspath(__file__))
REPO = os.environ.get("VERIF_REPO", "/repo")
SPEC = os.path.join(VERIF, "spec")
HARNESS = os.path.join(VERIF, "harness")
HOOKS = os.path.join(VERIF, "hooks")
MODULE = "github.com/jsightapi/jsight-schema-go-library"
TLAJAR = "/opt/veriftools/tla/tla2tools.jar:/opt/veriftools/tla/CommunityModules-deps.jar"


def goenv():
    e = dict(os.environ)
    e.update(GOFLAGS="-mod=mod", GOPROXY="off", GOSUMDB="off", GOTOOLCHAIN="local", CGO_ENABLED=e.get("CGO_ENABLED", "0"))
    return e


def seed():
    try:
        return int(os.environ.get("VERIF_SEED", "1"))
    except ValueError:
        return 1


class Infra(Exception):
    pass


def die_infra(msg):
    print("INFRA-ERROR: " + msg, flush=True)
    sys.exit(2)


class Work:
    """Private scratch directory under /verif/.work, removed on exit."""

    def __init__(self, pid):
        self.prop = pid if re.fullmatch(r"C\d\d", pid) else None
        self.dir = os.path.join(VERIF, ".work", "%s-%d" % (pid, os.getpid()))
        shutil.rmtree(self.dir, ignore_errors=True)
        os.makedirs(self.dir)
        atexit.register(self.cleanup)
        self.t0 = time.time()

    def cleanup(self):
        if os.environ.get("VERIF_KEEP"):
            return
        shutil.rmtree(self.dir, ignore_errors=True)

    def path(self, *p):
        return os.path.join(self.dir, *p)


# ------------------------------------------------------------------------------------------------
# Go harness build: from /repo's current working tree, tag verif, overlay-injected export files


# hook groups: build tag of the harness -> overlay files it needs. A check is built with every group; if that build fails
# (the repository changed an internal interface a hook file relies on) it is built once more with only the groups the
# property itself needs, so that one broken hook does not take the other properties' checks with it.
HOOK_GROUPS = {
    "hscan": ["notations/jschema/verif_scan.go", "rules/enum/verif_scan.go"],
    "hcons": ["notations/jschema/verif_constraints.go"],
    "hnum": ["verifhooks/number.go"],
    "hyield": ["verifhooks/yield.go"],
}
HOOKS_NEEDED = {"C06": ["hscan"], "C07": ["hscan"], "C17": ["hscan"], "C10": ["hnum"], "C12": ["hyield"], "C19": ["hcons"]}


def overlay_map(groups=None):
    """hooks/<relative path in repo> -> injected at REPO/<relative path> (only the files of the given hook groups)."""
    m = {}
    known = {f for fs in HOOK_GROUPS.values() for f in fs}
    wanted = known if groups is None else {f for g in groups for f in HOOK_GROUPS[g]}
    for root, _, files in os.walk(HOOKS):
        for f in files:
            if not f.endswith(".go"):
                continue
            src = os.path.join(root, f)
            rel = os.path.relpath(src, HOOKS)
            if rel in known and rel not in wanted:
                continue
            m[os.path.join(REPO, rel)] = src
    return m


def build_harness(work, race=False, extra_overlay=None, name="harness"):
    out, log = _build_harness(work, race, extra_overlay, name, sorted(HOOK_GROUPS))
    if out is None:
        prop = getattr(work, "prop", None)
        need = HOOKS_NEEDED.get(prop, []) if prop else None
        if need is not None and sorted(need) != sorted(HOOK_GROUPS):
            out2, log2 = _build_harness(work, race, extra_overlay, name, need)
            if out2 is not None:
                print("NOTE: the harness did not build with every hook group; built with %s only" % (need or "no hooks"), flush=True)
                return out2
            log = log2
        die_infra("harness build failed:\n" + log[-4000:])
    return out


def _build_harness(work, race, extra_overlay, name, groups):
    ov = overlay_map(groups)
    if extra_overlay:
        ov.update(extra_overlay)
    ovf = work.path("overlay-%s.json" % name)
    with open(ovf, "w") as f:
        json.dump({"Replace": ov}, f)
    # go.sum of the harness module follows the repository's
    try:
        shutil.copy(os.path.join(REPO, "go.sum"), os.path.join(HARNESS, "go.sum"))
    except OSError:
        pass
    out = work.path(name)
    cmd = ["go", "build", "-tags", ",".join(["verif"] + list(groups)), "-overlay", ovf, "-o", out]
    if REPO != "/repo":
        # scratch worktree of the repository (seeded-change trials): same harness, module replaced through a private go.mod
        mf = work.path("go-%s.mod" % name)
        txt = open(os.path.join(HARNESS, "go.mod")).read().replace("=> /repo", "=> " + REPO)
        open(mf, "w").write(txt)
        shutil.copy(os.path.join(REPO, "go.sum"), work.path("go-%s.sum" % name))
        cmd += ["-modfile", mf]
    e = goenv()
    if race:
        cmd.insert(2, "-race")
        e["CGO_ENABLED"] = "1"
    cmd.append(".")
    p = subprocess.run(cmd, cwd=HARNESS, env=e, stdout=subprocess.PIPE, stderr=subprocess.STDOUT, text=True)
    if p.returncode != 0:
        return None, p.stdout
    return out, ""


def run_harness(binpath, args, stdin_path=None, stdout_path=None, timeout=3600, env_extra=None, input_bytes=None):
    e = goenv()
    e["VERIF_SEED"] = str(seed())
    if env_extra:
        e.update(env_extra)
    fin = open(stdin_path, "rb") if stdin_path else None
    fout = open(stdout_path, "wb") if stdout_path else subprocess.PIPE
    try:
        p = subprocess.run([binpath] + args, stdin=fin, stdout=fout, stderr=subprocess.PIPE, timeout=timeout,
                           env=e, input=input_bytes)
    except subprocess.TimeoutExpired:
        raise Infra("harness timeout: %s" % " ".join(args))
    finally:
        if fin:
            fin.close()
        if stdout_path:
            fout.close()
    return p


# ------------------------------------------------------------------------------------------------
# TLC


class TLCResult:
    def __init__(self):
        self.out = ""
        self.generated = 0
        self.distinct = 0
        self.depth = 0
        self.rc = 0
        self.violation = False
        self.lines = []

    def tagged(self, tag):
        n = len(tag)
        return [l[n:].strip() for l in self.lines if l.startswith(tag)]


_STATE_RE = re.compile(r"(\d+) states generated, (\d+) distinct states found")
_DEPTH_RE = re.compile(r"The depth of the complete state graph search is (\d+)")


def tlc(work, module, cfg, timeout=600, workers=1, extra=None, consts=None, heap="8g", to_file=None,
        allow_violation=False, jvm=None, simulate=None):
    """Run TLC on spec/<module>.tla with spec/<cfg> in a scratch copy of spec/. Returns TLCResult.

    consts: dict NAME -> TLA+ expression text, substituted for lines `NAME = ...` marked `\* @param` in cfg
    to_file: stream stdout to this path instead of keeping it (for big @@CASE emissions)."""
    sdir = work.path("spec-%s-%s" % (module, os.path.splitext(os.path.basename(cfg))[0]))
    if os.path.exists(sdir):
        shutil.rmtree(sdir)
    shutil.copytree(SPEC, sdir)
    cfgp = os.path.join(sdir, cfg)
    runmod = module
    if consts:
        # constants given as TLA+ expressions: wrapper module MC_<module> defines mc_X == expr, cfg says X <- mc_X
        txt = open(cfgp).read()
        defs = []
        for k, v in consts.items():
            txt, n = re.subn(r"(?m)^(\s*(?:CONSTANTS?\s+)?%s)\s*(?:=|<-).*$" % re.escape(k),
                             lambda m: m.group(1) + " <- mc_" + k, txt)
            if n == 0:
                raise Infra("constant %s not in %s" % (k, cfg))
            defs.append("mc_%s == %s" % (k, v))
        open(cfgp, "w").write(txt)
        runmod = "MC_" + module
        with open(os.path.join(sdir, runmod + ".tla"), "w") as f:
            f.write("---- MODULE %s ----\nEXTENDS %s\n%s\n====\n" % (runmod, module, "\n".join(defs)))
    meta = os.path.join(sdir, "meta")
    cmd = ["java", "-XX:+UseParallelGC", "-Xmx" + heap, "-Xss512m", "-Dfile.encoding=UTF-8"]      # (strings outside ASCII are printed as they are, not as "?")
    if jvm:
        cmd += jvm
    cmd += ["-cp", TLAJAR, "tlc2.TLC", "-metadir", meta, "-workers", str(workers), "-config", cfg]
    if simulate:
        cmd += ["-simulate", simulate]
    if extra:
        cmd += extra
    cmd.append(runmod + ".tla")
    r = TLCResult()
    t0 = time.time()
    try:
        if to_file:
            with open(to_file, "wb") as fo:
                p = subprocess.run(cmd, cwd=sdir, stdout=fo, stderr=subprocess.STDOUT, timeout=timeout)
            # keep only non-case lines in memory
            keep = []
            with open(to_file, "r", encoding="utf-8", errors="replace") as fi:
                for l in fi:
                    if not l.startswith("@@"):
                        keep.append(l.rstrip("\n"))
            r.lines = keep
            r.out = "\n".join(keep)
        else:
            p = subprocess.run(cmd, cwd=sdir, stdout=subprocess.PIPE, stderr=subprocess.STDOUT, timeout=timeout)
            r.out = p.stdout.decode("utf-8", "replace")
            # TLC quotes PrintT strings: "@@X ..." -> strip the quotes
            r.lines = [unq(l) for l in r.out.split("\n")]
    except subprocess.TimeoutExpired:
        raise Infra("TLC timeout (%ds) on %s/%s" % (timeout, module, cfg))
    r.rc = p.returncode
    r.wall = time.time() - t0
    for m in _STATE_RE.finditer(r.out):
        r.generated, r.distinct = int(m.group(1)), int(m.group(2))
    m = _DEPTH_RE.search(r.out)
    if m:
        r.depth = int(m.group(1))
    r.violation = ("is violated" in r.out) or ("Invariant" in r.out and "violated" in r.out)
    bad = ("Error:" in r.out and not r.violation) or (r.rc != 0 and not r.violation)
    if "Parsing or semantic analysis failed" in r.out or "Semantic errors" in r.out:
        bad = True
    if bad or (r.violation and not allow_violation):
        i = r.out.find("Error:")
        msg = "\n".join(l for l in r.out[max(i, 0):].split("\n") if not l.startswith("State ") and not l.startswith("l = ") and l.strip())
        raise Infra("TLC failed on %s/%s (rc=%d):\n%s" % (module, cfg, r.rc, msg[:2500]))
    shutil.rmtree(meta, ignore_errors=True)
    return r


def unq(l):
    l = l.rstrip("\r")
    if len(l) >= 2 and l[0] == '"' and l[-1] == '"' and l.startswith('"@@'):
        # TLC prints strings with TLA+ escapes: \" and \\ ; undo
        s = l[1:-1]
        return s.replace('\\"', '"').replace("\\\\", "\\")
    return l


def tagged_file(path, tag):
    """Iterate payloads of lines `"@@TAG payload"` (TLC-quoted) or `@@TAG payload` in a file."""
    with open(path, "r", encoding="utf-8", errors="replace") as f:
        for l in f:
            l = unq(l.rstrip("\n"))
            if l.startswith(tag):
                yield l[len(tag):].strip()


# ------------------------------------------------------------------------------------------------
# Known findings, violations, evidence

_KF = None


def known_findings(prop=None):
    global _KF
    if _KF is None:
        p = os.path.join(VERIF, "known_findings.json")
        _KF = json.load(open(p))["findings"] if os.path.exists(p) else []
    return [f for f in _KF if prop is None or f["property"] == prop]


class Report:
    def __init__(self, prop, tier, level="model_checking"):
        self.prop, self.tier, self.level = prop, tier, level
        self.t0 = time.time()
        self.cov = {"states": 0, "transitions": 0, "traces_validated_against_impl": 0, "samples": [],
                    "evaluations": 0, "distinct_nontrivial": 0, "rule": ""}
        self.assumptions = []
        self.violations = 0
        self.kf_seen = {}
        self.drift = []
        self.notes = {}
        # replay files of earlier runs of this property are stale: every run writes its own
        d = os.path.join(os.environ.get("VERIF_REPLAY_DIR", os.path.join(VERIF, "replays")), self.prop)
        if os.path.isdir(d):
            for fn in os.listdir(d):
                if fn.endswith(".json"):
                    try:
                        os.remove(os.path.join(d, fn))
                    except OSError:
                        pass

    def add_tlc(self, r, label=None):
        self.cov["states"] += r.distinct
        self.cov["transitions"] += r.generated
        self.notes.setdefault("tlc_runs", []).append(
            {"run": label or "", "generated": r.generated, "distinct": r.distinct, "depth": r.depth,
             "wall_s": round(getattr(r, "wall", 0), 1)})

    def sample(self, s, cap=8):
        if len(self.cov["samples"]) < cap:
            self.cov["samples"].append(s)

    def known(self, fid, what, count=1):
        if fid not in self.kf_seen:
            self.kf_seen[fid] = 0
            print("KNOWN-FINDING: property=%s %s" % (self.prop, what), flush=True)
        self.kf_seen[fid] += count

    def violation(self, case, why):
        self.violations += 1
        d = os.path.join(os.environ.get("VERIF_REPLAY_DIR", os.path.join(VERIF, "replays")), self.prop)
        os.makedirs(d, exist_ok=True)
        blob = json.dumps({"property": self.prop, "why": why, "case": case}, sort_keys=True, indent=1)
        h = hashlib.sha1(blob.encode()).hexdigest()[:12]
        path = os.path.join(d, h + ".json")
        with open(path, "w") as f:
            f.write(blob)
        if self.violations <= 20:
            print("VIOLATION property=%s replay=%s" % (self.prop, path), flush=True)
            # printable ASCII only: inputs may hold control bytes and the line is read by tools
            shown = "".join(ch if 32 <= ord(ch) < 127 else "\\x%02x" % (ord(ch) & 0xFF) if ord(ch) < 256 else "\\u%04x" % ord(ch) for ch in why[:400])
            print("  why: %s" % (shown,), flush=True)

    def write(self):
        ev = {
            "property_id": self.prop, "tier": self.tier, "seed": seed(), "level": self.level,
            "coverage": dict(self.cov), "assumptions": self.assumptions,
            "wall_s": round(time.time() - self.t0, 2), "violations": self.violations,
        }
        ev["coverage"]["known_findings_seen"] = self.kf_seen
        ev["coverage"]["model_drift"] = self.drift
        for k, v in self.notes.items():
            ev["coverage"][k] = v
        if not ev["coverage"]["samples"]:
            ev["coverage"]["samples"] = ["(none)"]
        evdir = os.environ.get("VERIF_EVIDENCE_DIR", os.path.join(VERIF, "evidence"))
        os.makedirs(evdir, exist_ok=True)
        with open(os.path.join(evdir, self.prop + ".json"), "w") as f:
            json.dump(ev, f, indent=1, sort_keys=True, default=str)

    def finish(self):
        self.write()
        print("%s %s: evaluations=%d states=%d violations=%d known=%s wall=%.1fs" % (
            self.prop, self.tier, self.cov["evaluations"], self.cov["states"], self.violations,
            dict(self.kf_seen), time.time() - self.t0), flush=True)
        sys.exit(1 if self.violations else 0)


def read_ndjson(path):
    with open(path, "r", errors="replace") as f:
        for l in f:
            l = l.strip()
            if l:
                yield json.loads(l)
