// Command maporder rewrites every `for k, v := range <map>` of the packages of a Go module into iteration over an
// explicitly ordered key snapshot (order chosen at run time by VERIF_MAPORDER: asc | desc | rot<n>), skipping keys that
// were deleted meanwhile. Any order is a legal Go iteration order, so a result that changes is a real dependence on it.
// Output: rewritten files under -out and an overlay JSON mapping the originals to them (go build -overlay).
package main

import (
	"bytes"
	"encoding/json"
	"flag"
	"fmt"
	"go/ast"
	"go/format"
	"go/token"
	"go/types"
	"os"
	"path/filepath"
	"strings"

	"golang.org/x/tools/go/packages"
)

const helperPkg = "internal/verifmaporder"

const helperSrc = `// Package verifmaporder is injected by /verif/maporder (never part of the repository).
package verifmaporder

import (
	"fmt"
	"os"
	"sort"
	"strconv"
	"strings"
)

// Keys returns the keys of m in the order selected by VERIF_MAPORDER (asc, desc, rot<n>).
func Keys[K comparable, V any](m map[K]V) []K {
	keys := make([]K, 0, len(m))
	for k := range m {
		keys = append(keys, k)
	}
	sort.Slice(keys, func(i, j int) bool { return fmt.Sprintf("%v", keys[i]) < fmt.Sprintf("%v", keys[j]) })
	mode := os.Getenv("VERIF_MAPORDER")
	switch {
	case mode == "desc":
		for i, j := 0, len(keys)-1; i < j; i, j = i+1, j-1 {
			keys[i], keys[j] = keys[j], keys[i]
		}
	case strings.HasPrefix(mode, "rot") && len(keys) > 1:
		n, _ := strconv.Atoi(mode[3:])
		n = n % len(keys)
		keys = append(keys[n:], keys[:n]...)
	}
	return keys
}
`

func main() {
	dir := flag.String("dir", "/repo", "module root")
	out := flag.String("out", "", "output directory")
	flag.Parse()
	cfg := &packages.Config{Mode: packages.NeedName | packages.NeedFiles | packages.NeedSyntax | packages.NeedTypes | packages.NeedTypesInfo | packages.NeedCompiledGoFiles, Dir: *dir}
	pkgs, err := packages.Load(cfg, "./...")
	if err != nil {
		fmt.Fprintln(os.Stderr, err)
		os.Exit(2)
	}
	overlay := map[string]string{}
	sites := 0
	var modPath string
	for _, p := range pkgs {
		if modPath == "" || len(p.PkgPath) < len(modPath) {
			modPath = p.PkgPath
		}
	}
	for _, p := range pkgs {
		if len(p.Errors) > 0 || strings.Contains(p.PkgPath, "/internal/cmd/") || strings.HasSuffix(p.PkgPath, "/mocks") {
			continue
		}
		for i, f := range p.Syntax {
			fname := p.CompiledGoFiles[i]
			if strings.HasSuffix(fname, "_test.go") {
				continue
			}
			n := 0
			ast.Inspect(f, func(node ast.Node) bool {
				rs, ok := node.(*ast.RangeStmt)
				if !ok || rs.Tok != token.DEFINE && rs.Tok != token.ILLEGAL && rs.Tok != token.ASSIGN {
					return true
				}
				tv, ok := p.TypesInfo.Types[rs.X]
				if !ok {
					return true
				}
				if _, isMap := tv.Type.Underlying().(*types.Map); !isMap {
					return true
				}
				// for K, V := range M { B }   =>   for _, K' := range verifmaporder.Keys(M) { V, ok := M[K']; if !ok {continue}; B }
				keyIdent := "verifK"
				if id, ok := rs.Key.(*ast.Ident); ok && id.Name != "_" && rs.Tok == token.DEFINE {
					keyIdent = id.Name
				}
				var pre []ast.Stmt
				mexpr := rs.X
				if rs.Tok == token.ASSIGN { // existing variables: assign inside the loop
					if rs.Key != nil {
						if id, ok := rs.Key.(*ast.Ident); !ok || id.Name != "_" {
							pre = append(pre, &ast.AssignStmt{Lhs: []ast.Expr{rs.Key}, Tok: token.ASSIGN, Rhs: []ast.Expr{ast.NewIdent(keyIdent)}})
						}
					}
				}
				okName := "verifOK"
				valLhs := ast.Expr(ast.NewIdent("_"))
				valTok := token.DEFINE
				if rs.Value != nil {
					if id, ok := rs.Value.(*ast.Ident); !ok || id.Name != "_" {
						valLhs = rs.Value
						if rs.Tok == token.ASSIGN {
							valTok = token.ASSIGN
						}
					}
				}
				var lookup ast.Stmt
				if valTok == token.ASSIGN {
					pre = append(pre, &ast.DeclStmt{Decl: &ast.GenDecl{Tok: token.VAR, Specs: []ast.Spec{&ast.ValueSpec{Names: []*ast.Ident{ast.NewIdent(okName)}, Type: ast.NewIdent("bool")}}}})
					lookup = &ast.AssignStmt{Lhs: []ast.Expr{valLhs, ast.NewIdent(okName)}, Tok: token.ASSIGN, Rhs: []ast.Expr{&ast.IndexExpr{X: mexpr, Index: ast.NewIdent(keyIdent)}}}
				} else {
					lookup = &ast.AssignStmt{Lhs: []ast.Expr{valLhs, ast.NewIdent(okName)}, Tok: token.DEFINE, Rhs: []ast.Expr{&ast.IndexExpr{X: mexpr, Index: ast.NewIdent(keyIdent)}}}
				}
				skip := &ast.IfStmt{Cond: &ast.UnaryExpr{Op: token.NOT, X: ast.NewIdent(okName)}, Body: &ast.BlockStmt{List: []ast.Stmt{&ast.BranchStmt{Tok: token.CONTINUE}}}}
				body := append(append(pre, lookup, skip), rs.Body.List...)
				rs.Key = ast.NewIdent("_")
				rs.Value = ast.NewIdent(keyIdent)
				rs.Tok = token.DEFINE
				rs.X = &ast.CallExpr{Fun: &ast.SelectorExpr{X: ast.NewIdent("verifmaporder"), Sel: ast.NewIdent("Keys")}, Args: []ast.Expr{mexpr}}
				rs.Body = &ast.BlockStmt{List: body}
				n++
				return true
			})
			if n == 0 {
				continue
			}
			sites += n
			// add the import
			imp := &ast.ImportSpec{Path: &ast.BasicLit{Kind: token.STRING, Value: fmt.Sprintf("%q", modPath+"/"+helperPkg)}}
			added := false
			for _, d := range f.Decls {
				if gd, ok := d.(*ast.GenDecl); ok && gd.Tok == token.IMPORT {
					gd.Specs = append(gd.Specs, imp)
					if !gd.Lparen.IsValid() {
						gd.Lparen = gd.Pos()
						gd.Rparen = gd.End()
					}
					added = true
					break
				}
			}
			if !added {
				f.Decls = append([]ast.Decl{&ast.GenDecl{Tok: token.IMPORT, Specs: []ast.Spec{imp}}}, f.Decls...)
			}
			var buf bytes.Buffer
			if err := format.Node(&buf, p.Fset, f); err != nil {
				fmt.Fprintln(os.Stderr, "format", fname, err)
				os.Exit(2)
			}
			rel, _ := filepath.Rel(*dir, fname)
			dst := filepath.Join(*out, rel)
			os.MkdirAll(filepath.Dir(dst), 0o755)
			os.WriteFile(dst, buf.Bytes(), 0o644)
			overlay[fname] = dst
		}
	}
	hdst := filepath.Join(*out, helperPkg, "keys.go")
	os.MkdirAll(filepath.Dir(hdst), 0o755)
	os.WriteFile(hdst, []byte(helperSrc), 0o644)
	overlay[filepath.Join(*dir, helperPkg, "keys.go")] = hdst
	b, _ := json.MarshalIndent(map[string]interface{}{"Replace": overlay, "sites": sites}, "", " ")
	os.WriteFile(filepath.Join(*out, "overlay.json"), b, 0o644)
	fmt.Printf("rewrote %d range-over-map sites in %d files\n", sites, len(overlay)-1)
}
