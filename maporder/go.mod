module verif/maporder

go 1.22.0

toolchain go1.23.5

require golang.org/x/tools v0.29.0

require (
	golang.org/x/mod v0.22.0 // indirect
	golang.org/x/sync v0.10.0 // indirect
)
