#!/bin/sh
# usage: runall.sh [quick|thorough]  - runs every registered check once, prints one line each
T=${1:-quick}
for i in 01 02 03 04 05 06 07 08 09 10 11 12 13 14 15 16 17 18 19; do
  s=$(date +%s)
  python3 /verif/run.py C$i $T > /tmp/runall.C$i.log 2>&1; rc=$?
  e=$(date +%s)
  echo "C$i rc=$rc $((e-s))s $(grep -c '^VIOLATION' /tmp/runall.C$i.log) violations; $(grep -c '^KNOWN-FINDING' /tmp/runall.C$i.log) known; $(tail -1 /tmp/runall.C$i.log | cut -c1-120)"
done
