#!/usr/bin/env python3
"""Refresh /verif/harness/ref: a frozen copy of the library's non-test sources (package paths rewritten to verif/harness/ref/...).

It is NOT an oracle. The differential drivers (harness diff*.go) run the copy and the current tree on the same random inputs and
pass only the inputs on which they differ to TLC, where the R layer decides which of the two - if either - is wrong. Run this
after repairing a defect in /repo so that the copy stays the best known state:   python3 mkref.py
"""
import os, re, shutil, subprocess, sys
SRC = os.environ.get("VERIF_REF_SRC", "/repo")
DST = "/verif/harness/ref"
MOD = "github.com/jsightapi/jsight-schema-go-library"
NEW = "verif/harness/ref"
shutil.rmtree(DST, ignore_errors=True)
n = 0
for root, dirs, files in os.walk(SRC):
    rel = os.path.relpath(root, SRC)
    if rel.startswith(".git") or rel.startswith("internal/cmd") or rel.startswith("test") or rel.startswith("testdata") or rel.startswith("zz"):
        continue
    for f in files:
        if not f.endswith(".go") or f.endswith("_test.go"):
            continue
        s = open(os.path.join(root, f)).read()
        s = s.replace('"' + MOD + '/', '"' + NEW + '/').replace('"' + MOD + '"', '"' + NEW + '"')
        d = os.path.join(DST, rel) if rel != "." else DST
        os.makedirs(d, exist_ok=True)
        open(os.path.join(d, f), "w").write(s)
        n += 1
head = subprocess.run(["git", "-C", SRC, "rev-parse", "--short", "HEAD"], capture_output=True, text=True).stdout.strip()
open(os.path.join(DST, "REF_COMMIT"), "w").write(head + "\n")
print("ref copy: %d files from %s at %s" % (n, SRC, head))
