#!/bin/sh
# usage: tools_matrix.sh [tier] : every confirmed seeded change against the quick check of the property it breaks
T=${1:-quick}
OUT=/verif/seeded/MATRIX.$T.txt
: > $OUT
for d in /verif/seeded/C*/; do
  id=$(basename $d); prop=$(echo $id | cut -c1-3)
  o=$(/verif/tools_try.sh $d/patch.diff $prop $T 2>&1); r=$(echo "$o" | tail -1); v=$(echo "$o" | grep -m1 "^violations:")
  echo "$id $prop $T $r $v" >> $OUT
done
# the reverse patch of every later fix: the repaired defect must be seen again
for f in /verif/seeded/_regressions/*.diff; do
  id=$(basename $f .diff); prop=$(echo $id | cut -c1-3)
  o=$(/verif/tools_try.sh $f $prop $T 2>&1); r=$(echo "$o" | tail -1); v=$(echo "$o" | grep -m1 "^violations:")
  echo "regression-$id $prop $T $r $v" >> $OUT
done
cat $OUT
