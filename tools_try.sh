#!/bin/sh
# usage: tools_try.sh <patch.diff> <Cxx> [tier]
# Applies a seeded change to a scratch worktree of /repo (never to /repo itself), runs the check against it, removes the worktree.
P=$1; C=$2; T=${3:-quick}
W=/tmp/wt/$C-$$
mkdir -p /tmp/wt
git -C /repo worktree add -q --detach $W HEAD || exit 3
if ! git -C $W apply "$P"; then echo "patch does not apply"; git -C /repo worktree remove --force $W; exit 3; fi
VERIF_REPO=$W VERIF_EVIDENCE_DIR=/tmp/wt/ev-$$ VERIF_REPLAY_DIR=/tmp/wt/rp-$$ python3 /verif/run.py $C $T > /tmp/wt/log-$$ 2>&1; rc=$?
git -C /repo worktree remove --force $W; rm -rf /tmp/wt/ev-$$ /tmp/wt/rp-$$
grep -c VIOLATION /tmp/wt/log-$$ | sed "s/^/violations: /"; grep -m3 -A1 VIOLATION /tmp/wt/log-$$ | cut -c1-400; tail -2 /tmp/wt/log-$$ | cut -c1-300; rm -f /tmp/wt/log-$$
echo "exit=$rc"
