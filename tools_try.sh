#!/bin/sh
# usage: tools_try.sh <patch.diff> <Cxx> [tier]   apply a seeded change to /repo, run the check, undo it
P=$1; C=$2; T=${3:-quick}
git -C /repo apply "$P" || { echo "patch does not apply"; exit 3; }
python3 /verif/run.py $C $T > /tmp/try.$$.log 2>&1; rc=$?
git -C /repo checkout -- . ; git -C /repo clean -fdq
grep -c VIOLATION /tmp/try.$$.log | sed "s/^/violations: /"; grep -m3 -A1 VIOLATION /tmp/try.$$.log; tail -2 /tmp/try.$$.log; rm -f /tmp/try.$$.log
echo "exit=$rc"
