"""C10 - exact decimal arithmetic on every JSON numeral. DESIGN.md section 3 / C10."""
import json
import vlib

PROP = "C10"
ALPHA = "{45,48,49,53,57,46,101,69,43}"   # - 0 1 5 9 . e E +
KF_ID = "C10-zero-mantissa-exp"


def summary_of(stderr):
    for l in stderr.decode("utf-8", "replace").split("\n"):
        if l.startswith("@@SUMMARY "):
            return json.loads(l[len("@@SUMMARY "):])
    raise vlib.Infra("harness gave no summary: " + stderr.decode("utf-8", "replace")[-2000:])


def zero_mantissa_exp(s):
    t = s[1:] if s.startswith("-") else s
    return t[:2] in ("0e", "0E")


def run(tier, argv):
    rep = vlib.Report(PROP, tier)
    work = vlib.Work(PROP)
    quick = tier == "quick"
    kf = {f["id"]: f for f in vlib.known_findings(PROP) if f["status"] == "known"}
    maxlen = 5 if quick else 7
    expd = "3" if quick else "2"        # exponent digits (the normal form of 1e9999 has ten thousand digits)
    # 1. spec: implementation-shaped scanner/normaliser against the exact value on every numeral (I = R), with the
    #    recorded switch on (that is the model of the pinned tree) the only disagreement must be the recorded one
    r = vlib.tlc(work, "NumProduct", "NumProduct.cfg", consts={"Alphabet": ALPHA, "MaxLen": str(maxlen), "MaxExpDigits": expd, "ZeroMantissaExpRejected": "FALSE"},
                 timeout=3000, workers=8, heap="12g")
    rep.add_tlc(r, "NumProduct len<=%d, repaired model (SameLanguage, SameValue, SameFracLen, Canonical)" % maxlen)
    r = vlib.tlc(work, "NumPairs", "NumPairs.cfg", consts={"Alphabet": ALPHA, "PairLen": "3" if quick else "4", "ZeroMantissaExpRejected": "FALSE"},
                 timeout=3000, workers=8, heap="12g")
    rep.add_tlc(r, "NumPairs all pairs (Asymmetric, Total, CmpAgrees)")
    rv = vlib.tlc(work, "NumPairs", "NumPairs.cfg", consts={"Alphabet": ALPHA, "PairLen": "2", "SignBeforeZero": "TRUE"}, allow_violation=True, timeout=600)
    if not rv.violation:
        raise vlib.Infra("vacuous: switch SignBeforeZero no longer violates CmpAgrees")
    # 2. export cases (with the pinned-tree model's prediction pred_ok)
    raw = work.path("cases.txt")
    r = vlib.tlc(work, "NumProduct", "NumProduct.cfg", consts={"Alphabet": ALPHA, "MaxLen": str(maxlen), "MaxExpDigits": expd, "Export": "TRUE"},
                 to_file=raw, allow_violation=True, extra=["-continue"], timeout=3000, workers=1, heap="12g")
    cases = work.path("cases.ndjson")
    n = 0
    with open(cases, "w") as f:
        for l in vlib.tagged_file(raw, "@@CASE"):
            f.write(l + "\n")
            n += 1
            if n % 900 == 1:
                c = json.loads(l)
                rep.sample({"numeral": bytes(c["num"]).decode(), "nf": c["nf"]})
    if n < 100:
        raise vlib.Infra("no numerals exported")
    rep.cov["states"] += n
    hbin = vlib.build_harness(work)
    mm = work.path("mism.ndjson")
    chain = work.path("chain.ndjson")
    p = vlib.run_harness(hbin, ["c10replay", "-cases", cases, "-out", mm, "-chain", chain, "-pairs", "5" if quick else "7",
                                "-samplepairs", "2000000" if quick else "20000000"], timeout=6000)
    if p.returncode != 0:
        raise vlib.Infra("c10replay failed: " + p.stderr.decode()[-2000:])
    s = summary_of(p.stderr)
    rep.notes["replay"] = s
    bad = []
    for m in vlib.read_ndjson(mm):
        if m["what"] == "NewNumber" and not m["pred_ok"] and zero_mantissa_exp(m["num"]) and KF_ID in kf:
            rep.known(KF_ID, "NewNumber rejects numerals with a zero mantissa and an exponent (0e1, -0E5, ...): "
                             "internal/json/scanner.go stateFirstZeroFound; pinned by the repository's own suite")
            continue
        bad.append(m)
    # 3. TLC validates the chain links and the random / API trace
    tr = work.path("trace.ndjson")
    p = vlib.run_harness(hbin, ["c10trace", "-n", "1500" if quick else "40000", "-cases", cases, "-api", "1500" if quick else "30000", "-out", tr], timeout=3000)
    if p.returncode != 0:
        raise vlib.Infra("c10trace failed: " + p.stderr.decode()[-2000:])
    allt = work.path("all.ndjson")
    with open(allt, "w") as f:
        for path in (chain, tr):
            f.write(open(path).read())
    lines = list(vlib.read_ndjson(allt))
    r = vlib.tlc(work, "TraceNum", "TraceNum.cfg", consts={"TraceFile": '"%s"' % allt}, timeout=6000, heap="16g")
    rep.add_tlc(r, "TraceNum over %d links/observations" % len(lines))
    if r.distinct != len(lines) + 1:
        raise vlib.Infra("trace not consumed: %d states for %d events" % (r.distinct, len(lines)))
    for l in r.tagged("@@MISMATCH"):
        m = json.loads(l)
        e = lines[m["line"] - 1]
        e = dict(e)
        for k in ("a", "b", "bound"):
            if k in e:
                e[k] = bytes(e[k]).decode()
        bad.append({"what": "trace:" + e["op"], "num": e.get("a"), "want": m["want"], "got": e})
    # witness of the recorded finding re-run on the real code
    if KF_ID in kf:
        p = vlib.run_harness(hbin, ["c10one"], input_bytes=b"0e1\n-0E5\n")
        res = [json.loads(x) for x in p.stdout.decode().split("\n") if x.strip()]
        if all(x["newnumber_ok"] and x["validate_ok"] for x in res):
            rep.drift.append("known finding %s no longer reproduces (0e1 accepted): mark it fixed" % KF_ID)
        else:
            rep.known(KF_ID, "NewNumber rejects numerals with a zero mantissa and an exponent (0e1, -0E5, ...): "
                             "internal/json/scanner.go stateFirstZeroFound; pinned by the repository's own suite")
    total = s["numerals"] + s["pairs"] + len(lines)
    rep.cov["evaluations"] = total
    rep.cov["distinct_nontrivial"] = s["numerals"] + len(lines)
    rep.cov["traces_validated_against_impl"] = len(lines) + s["numerals"]
    rep.cov["exhaustive"] = True
    rep.cov["rule"] = ("every RFC 8259 numeral of <= %d characters over {-,0,1,5,9,.,e,E,+} (value, fractional length) by TLC-computed normal forms; "
                       "implementation-sorted chain of all of them with every adjacent link validated by TLC and every pair checked against chain "
                       "rank; random 60-digit numerals with |exponent| <= 400 and API probes (min/max/exclusive*/precision/integer) validated by TLC" % maxlen)
    for b in bad[:30]:
        rep.violation(b, "%s on %s: want %s got %s" % (b["what"], b.get("num"), b.get("want"), json.dumps(b.get("got"))[:300]))
    rep.violations = len(bad)
    rep.assumptions = ["integer classification of literals with '.' and integral value (1.0) is unspecified (pinned as float by the suite)",
                       "Number is reached through the overlay-injected package verifhooks"]
    rep.finish()
