"""C05 - a document is accepted iff it is one RFC 8259 JSON text.  DESIGN.md section 3 / C05."""
import json, os, subprocess
import vlib
from checks import jsongraph

ENUM_ALPHA = '{}[],:"\\-01.e+ tn'   # 16 symbols... plus variants below
PROP = "C05"


def summary_of(stderr):
    for l in stderr.decode("utf-8", "replace").split("\n"):
        if l.startswith("@@SUMMARY "):
            return json.loads(l[len("@@SUMMARY "):])
    raise vlib.Infra("harness gave no summary: " + stderr.decode("utf-8", "replace")[-2000:])


def reproduce(hbin, cases):
    """Re-run mismatching strings once more in a fresh process; return those that still disagree."""
    if not cases:
        return []
    inp = "\n".join(json.dumps({"bytes": c["bytes"], "trailing": c["trailing"], "drain": c.get("drain", False)}) for c in cases).encode()
    p = vlib.run_harness(hbin, ["c05one"], input_bytes=inp, timeout=600)
    if p.returncode != 0:
        raise vlib.Infra("c05one failed: " + p.stderr.decode()[-1000:])
    res = [json.loads(l) for l in p.stdout.decode().split("\n") if l.strip()]
    still = []
    for c, r in zip(cases, res):
        got = r["got"]
        if got.get("kind") in ("panic", "foreign") or got["ok"] != (c["want"] == "accept"):
            c = dict(c)
            c["got"] = got
            still.append(c)
    return still


def run(tier, argv):
    rep = vlib.Report(PROP, tier)
    work = vlib.Work(PROP)
    quick = tier == "quick"
    # 1. the specification itself: product of the implementation-shaped model and the RFC reference,
    #    full byte alphabet, state merged => all input lengths.  Switch off = repaired behaviour.
    depth = 3 if quick else 5
    for trailing in (False, True):
        r = vlib.tlc(work, "JsonProduct", "JsonProduct.cfg",
                     consts={"Alphabet": "0..255", "MaxDepth": str(depth), "Trailing": "TRUE" if trailing else "FALSE"},
                     timeout=1800, heap="12g")
        rep.add_tlc(r, "JsonProduct depth=%d trailing=%s (SameLiveness, SameAccept, StackAgrees)" % (depth, trailing))
    # the recorded defect switch must still predict the old behaviour (guards against a vacuous product)
    r = vlib.tlc(work, "JsonProduct", "JsonProduct.cfg",
                 consts={"Alphabet": "0..255", "MaxDepth": "2", "EOF_AcceptsOpenNumber": "TRUE"},
                 allow_violation=True, timeout=600)
    if not r.violation:
        raise vlib.Infra("product spec is vacuous: switch EOF_AcceptsOpenNumber no longer violates SameAccept")
    # 2. bind to the code: transition cover of the exported reference graph through Document.Check
    hbin = vlib.build_harness(work)
    mism = []
    tests = 0
    for trailing in (False, True):
        label = "t" if trailing else "n"
        gpath, g = jsongraph.export_graph(work, depth, trailing, rep, label)
        out = work.path("mism-%s.ndjson" % label)
        args = ["c05graph", "-graph", gpath, "-out", out, "-enum", "6" if quick else "7",
                "-enumalpha", '{}[],:"\\-01.eE+ tn' if not quick else '{}[],:"\\-01.e+ t']
        if trailing:
            args.append("-trailing")
        p = vlib.run_harness(hbin, args, timeout=3000)
        if p.returncode != 0:
            raise vlib.Infra("c05graph failed: " + p.stderr.decode()[-2000:])
        s = summary_of(p.stderr)
        tests += s["tests"]
        rep.cov["traces_validated_against_impl"] += s["tests"] - s["unspecified"]
        rep.notes.setdefault("cover", []).append({k: s[k] for k in ("states", "transitions", "wset", "byte_classes", "tests", "enumerated", "unspecified", "mismatches")} | {"trailing": trailing})
        for x in s["samples"]:
            rep.sample({"input": x, "trailing": trailing})
        mism += list(vlib.read_ndjson(out))
    # 3. byte-level mutational traces, validated by TLC against JsonText (mechanism B)
    n_mut = 400 if quick else 6000
    tr = work.path("mut.ndjson")
    p = vlib.run_harness(hbin, ["c05mut", "-n", str(n_mut), "-out", tr], timeout=1200)
    if p.returncode != 0:
        raise vlib.Infra("c05mut failed: " + p.stderr.decode()[-2000:])
    r = vlib.tlc(work, "TraceJsonText", "TraceJsonText.cfg", consts={"TraceFile": '"%s"' % tr}, timeout=3000, heap="12g")
    rep.add_tlc(r, "TraceJsonText over %d mutated documents" % n_mut)
    nlines = sum(1 for _ in open(tr))
    if r.distinct != nlines + 1:
        raise vlib.Infra("trace not consumed: %d states for %d events" % (r.distinct, nlines))
    rep.cov["traces_validated_against_impl"] += nlines
    tests += nlines
    for l in r.tagged("@@MISMATCH"):
        m = json.loads(l)
        ev = None
        for i, e in enumerate(vlib.read_ndjson(tr)):
            if i + 1 == m["line"]:
                ev = e
                break
        mism.append({"bytes": ev["bytes"], "trailing": ev["trailing"], "drain": ev.get("drain", False), "want": m["want"], "got": {"ok": ev["ok"]}, "what": "verdict"})
    # 4. differential amplification: texts on which the frozen copy and the current tree differ, judged by TraceJsonText
    from checks import semcommon
    for b in semcommon.lex_diff_tier(work, rep, hbin, PROP, 200000 if quick else 20000000):
        mism.append({"bytes": b["bytes"], "trailing": b["trailing"], "want": b["what"], "got": {"ok": None}, "what": "verdict"})
    tests += rep.cov.get("evaluations", 0)
    rep.cov["evaluations"] = tests
    rep.cov["distinct_nontrivial"] = tests
    rep.cov["rule"] = ("every transition of the TLC-exported RFC 8259 automaton (all 256 bytes, nesting <= %d) x every suffix of a "
                       "characterisation set; all strings up to length %d over a byte-class alphabet; mutated documents up to 4 KiB "
                       "validated by TLC" % (depth, 6 if quick else 7))
    rep.cov["exhaustive"] = True
    still = reproduce(hbin, [m for m in mism if m["what"] in ("verdict", "panic")])
    for c in still[:50]:
        rep.violation(c, "Document.Check(%r, trailing=%s): reference says %s, code returned %s" % (
            bytes(c["bytes"]), c["trailing"], c["want"], json.dumps(c["got"])))
    rep.violations = len(still)
    rep.assumptions = ["bytes >= 0x80 inside strings are specified only when they form plain well-formed UTF-8 (else no verdict)",
                       "nesting deeper than the explored bound is covered by the mutational traces only"]
    rep.finish()
