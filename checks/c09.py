"""C09 - user-type references are resolved completely and recursion is decided correctly. DESIGN.md section 3 / C09."""
import json, os
import vlib
from checks import semcommon

PROP = "C09"


def run(tier, argv):
    rep = vlib.Report(PROP, tier)
    work = vlib.Work(PROP)
    quick = tier == "quick"
    hbin = vlib.build_harness(work)
    raw = work.path("gen.txt")
    consts = {"NTypes": "2", "Level": "1"} if quick else {"NTypes": "3", "Level": "1"}
    r = vlib.tlc(work, "GenGraph", "GenGraph.cfg", consts=consts, to_file=raw, timeout=6000, heap="16g")
    rep.add_tlc(r, "GenGraph %s (TypeGraph!GraphVerdict: least fixpoint of inhabitation, missing names, used names)" % consts)
    if True:
        raw2 = work.path("gen2.txt")
        r2 = vlib.tlc(work, "GenGraph", "GenGraph.cfg", consts={"NTypes": "2", "Level": "2"}, to_file=raw2, timeout=6000, heap="16g")
        rep.add_tlc(r2, "GenGraph 2 types, extended edge forms")
    # the same family with KeysAreOptionalByDefault on the root and on every type: an unmarked property is an optional edge
    rawo = work.path("gen-opt.txt")
    ro = vlib.tlc(work, "GenGraph", "GenGraph.cfg", consts={"NTypes": "2", "Level": "1" if quick else "2", "KeysOptDefault": "TRUE"}, to_file=rawo, timeout=6000, heap="16g")
    rep.add_tlc(ro, "GenGraph 2 types, keys optional by default")
    rv = vlib.tlc(work, "GenGraph", "GenGraph.cfg", consts={"NTypes": "2", "Level": "1", "KeysOptDefault": "TRUE", "OptionalOnlyByRule": "TRUE"}, allow_violation=True, timeout=1200)
    if not rv.violation:
        raise vlib.Infra("vacuous: switch OptionalOnlyByRule no longer violates MeshModelAgrees")
    # inheritance graphs and key-shortcut properties as edges (fixed types, definite verdicts)
    raw5 = work.path("gen5.txt")
    r5 = vlib.tlc(work, "GenGraph", "GenGraph.cfg", consts={"NTypes": "1", "Level": "5"}, to_file=raw5, timeout=3000, heap="8g")
    rep.add_tlc(r5, "GenGraph Level 5: a parent inherited twice / along two paths, an allOf cycle, key-shortcut properties as required and optional edges")
    raw4 = work.path("gen4.txt")
    r4 = vlib.tlc(work, "GenGraph", "GenGraph.cfg", consts={"NTypes": "2" if quick else "3", "Level": "4"}, to_file=raw4, timeout=6000, heap="16g")
    rep.add_tlc(r4, "GenGraph key-shortcut family (used names, termination)")
    if not quick:
        raw3 = work.path("gen3.txt")
        r3 = vlib.tlc(work, "GenGraph", "GenGraph.cfg", consts={"NTypes": "4", "Level": "3"}, to_file=raw3, timeout=6000, heap="16g")
        rep.add_tlc(r3, "GenGraph 4 types, object bodies with required / optional / two-alternative references, root with two required references")
    cases = work.path("cases.ndjson")
    n = 0
    wants = {}
    with open(cases, "w") as f:
        for src in [raw, work.path("gen2.txt"), rawo, raw5, work.path("gen4.txt")] + ([work.path("gen3.txt")] if not quick else []):
            for l in vlib.tagged_file(src, "@@CASE"):
                # the fixed graphs of Level 5 go through all three ways of handing the types over (the driver picks by case index mod 3)
                for _rep in range(3 if src == raw5 else 1):
                    f.write(l + "\n")
                    n += 1
                c = json.loads(l)
                wants[c["want"]] = wants.get(c["want"], 0) + 1
                if n % 300 == 5:
                    rep.sample({"root": c["schema"], "types": c["env"]["types"], "want": c["want"]})
    if n == 0:
        raise vlib.Infra("no cases")
    res = work.path("results.ndjson")
    skip, crashes, guard_iter = 0, [], 0
    while True:
        guard_iter += 1
        if guard_iter > 200:
            raise vlib.Infra("too many restarts of the C09 driver")
        p = vlib.run_harness(hbin, ["c09replay", "-cases", cases, "-skip", str(skip), "-out", res], timeout=6000)
        if p.returncode == 0:
            break
        # which run was in flight?
        last = None
        for l in open(res):
            d = json.loads(l)
            if "inflight" in d:
                last = d["inflight"]
        if last is None or last <= skip:
            raise vlib.Infra("c09replay died without progress: " + p.stderr.decode()[-1500:])
        if p.returncode != 3:
            crashes.append({"run": last, "stderr": p.stderr.decode("utf-8", "replace")[:600]})
        skip = last
        if len(crashes) >= 25:
            rep.notes["truncated"] = "stopped after 25 crashes of the library at run %d" % last
            break
    bad = []
    results = 0
    for l in open(res):
        d = json.loads(l)
        if "inflight" in d:
            continue
        results += 1
        if d.get("bad"):
            bad.append(d)
    with open(cases) as f:
        cs = [json.loads(l) for l in f]
    for c in crashes:
        i = (c["run"] - 1) // 2
        bad.append({"bad": "process crashed (fatal error) while handling this graph", "schema": json.dumps(cs[i]["schema"])[:300], "types": [json.dumps(t)[:200] for t in cs[i]["env"]["types"]],
                    "mesh": (c["run"] - 1) % 2 == 0, "want": cs[i]["want"], "stderr": c["stderr"]})
    # Known.tla: types that are handed down (R: closure of "given"; I: take-over / allOf / check passes) - every configuration replayed
    rawk = work.path("known.txt")
    rk = vlib.tlc(work, "Known", "Known.cfg", consts={"Full": "FALSE" if quick else "TRUE"}, to_file=rawk, timeout=6000, heap="16g")
    rep.add_tlc(rk, "Known (Agree: the library's three passes as algorithms = closure of given types, every configuration)")
    for sw in ("AllOfBeforeTakeover", "TakeoverSkipsNew"):
        rv = vlib.tlc(work, "Known", "Known.cfg", consts={"Full": "FALSE", sw: "TRUE"}, allow_violation=True, timeout=1200)
        if not rv.violation:
            raise vlib.Infra("vacuous: switch %s of Known.tla no longer violates Agree" % sw)
    kcases = work.path("known-cases.ndjson")
    nk = 0
    with open(kcases, "w") as f:
        for l in vlib.tagged_file(rawk, "@@CASE"):
            f.write(l + "\n")
            nk += 1
    if nk == 0:
        raise vlib.Infra("Known produced no cases")
    km = work.path("known-mism.ndjson")
    p = vlib.run_harness(hbin, ["c09known", "-cases", kcases, "-out", km], timeout=3000)
    if p.returncode != 0:
        raise vlib.Infra("c09known failed: " + p.stderr.decode()[-2000:])
    ks = json.loads([l for l in p.stderr.decode().split("\n") if l.startswith("@@SUMMARY ")][0][10:])
    if ks["judged"] == 0:
        raise vlib.Infra("c09known judged nothing")
    rep.notes["known"] = ks
    results += ks["judged"]
    n += nk
    for m in vlib.read_ndjson(km):
        bad.append({"bad": m["bad"], "schema": m["texts"]["root"], "types": ["%s = %s given %s" % (k, m["texts"][k].replace("\n", " "), m["case"]["given"][k]) for k in ("@a", "@b", "@c")],
                    "mesh": True, "handed": "given to root: %s, in the order %s" % (m["case"]["given"]["root"], m["order"]), "want": m["case"]["want"], "check": m["check"]})
    rep.notes["wants"] = wants
    rep.notes["runs"] = results
    rep.cov["evaluations"] = results
    rep.cov["distinct_nontrivial"] = n
    rep.cov["traces_validated_against_impl"] = results
    rep.cov["exhaustive"] = True
    rep.cov["rule"] = ("all type graphs over %s user types with bodies from the reference-form family (alias, or-shortcut, required/optional property, array item, "
                       "missing names%s) x 2 roots x 2 protocols (mesh: every type gets every type - for every third graph the root only gets the types its text names, for every third one every schema only the ones its own text names; star: types added to the root only)"
                       % (consts["NTypes"], "" if quick else ", or-rule member, additionalProperties type"))
    return rep, bad


KF_ID = "C09-star-nested-cycles"
KF_TEXT = ("with types added to the root only, Check accepts required reference cycles of length >= 2 and alias cycles (root @t0, @t0 = @t1, @t1 = @t0): "
           "check_recusrion.go looks nested names up in the referenced type's own, empty type list; pinned by TestSchema_Example")


KF2_ID = "C09-types-list-revisit-1303"
KF2_TEXT = ("a type rule / or rule whose referenced types name the same type twice - through a cycle with a terminating alternative "
            "(@t0 = 1 // {or: [\"@t0\", \"integer\"]}) or a mere repeated reference - is rejected with 1303: check_schema.go collectAllowedJsonTypes; pinned by check_schema_test.go")


def finish(rep, bad):
    kf = {f["id"] for f in vlib.known_findings(PROP) if f["status"] == "known"}
    rest = []
    for b in bad:
        # attributed to the recorded finding iff the implementation-shaped model (Graph.tla, switch LookupInOwnTypeTable) predicts exactly this
        if (KF_ID in kf and b.get("bad") == "Check accepts a root without finite inhabitant" and b.get("mesh") is False
                and b.get("want") == "reject" and b.get("pred_rejects") is False):
            rep.known(KF_ID, KF_TEXT)
            continue
        if (KF2_ID in kf and (b.get("bad", "").startswith("Check rejects a graph every type") or b.get("bad") == "Check fails without naming the missing type")
                and b.get("check", {}).get("code") == 1303 and b.get("pred_1303") is True):
            rep.known(KF2_ID, KF2_TEXT)
            continue
        rest.append(b)
    bad = rest
    for b in bad[:40]:
        rep.violation(b, "%s | protocol %s | root %s | %s | want %s check %s" % (b["bad"], ("mesh, handed down: %s" % b.get("handed") if b.get("handed") else "mesh") if b.get("mesh") else "star", str(b.get("schema", "")).replace("\n", " ")[:80],
                                                                               "; ".join(b.get("types") or [])[:200], b.get("want"), json.dumps(b.get("check"))[:140]))
    rep.violations = len(bad)
    rep.finish()


_run = run


def run(tier, argv):  # noqa: F811
    rep, bad = _run(tier, argv)
    finish(rep, bad)
