"""C07 - every API call returns a structured error instead of panicking. DESIGN.md section 3 / C07."""
import json
import vlib
from checks import semcommon

PROP = "C07"
KF_ID = "C07-recursion-error-bare"
KF_TEXT = ("the 'Infinity recursion detected' error of Check / Validate / GetAST / Example is a bare errors.Errorf value without position or file "
           "(notations/jschema/jschema.go compile -> checker.CheckRecursion); its plain text is pinned by TestSchema_Check")


def run(tier, argv):
    rep = vlib.Report(PROP, tier)
    work = vlib.Work(PROP)
    quick = tier == "quick"
    hbin = vlib.build_harness(work)
    files = []
    for mod, label in (("GenRules", "rules"), ("GenTypes", "types"), ("GenExample", "example")):
        docs, cases, nd, nc = semcommon.generate(work, rep, mod, mod + ".cfg", {"Level": "1"}, label)
        files.append(cases)
    # edge values of every rule on every kind of example (TLC-generated product)
    rawe = work.path("edge.txt")
    re_ = vlib.tlc(work, "GenEdge", "GenEdge.cfg", consts={"Level": "1" if quick else "2"}, to_file=rawe, timeout=3000)
    rep.add_tlc(re_, "GenEdge (example x rule x edge value x placement)")
    edge = work.path("edge.ndjson")
    ne = 0
    with open(edge, "w") as f:
        for l in vlib.tagged_file(rawe, "@@TEXT"):
            f.write(l + "\n")
            ne += 1
    if ne == 0:
        raise vlib.Infra("GenEdge produced no text")
    rep.notes["edge_texts"] = ne
    tr = work.path("trace.ndjson")
    args = ["c07trace", "-texts", edge, "-corpus", vlib.REPO + "/testdata", "-maxfiles", "60" if quick else "832", "-stride", "13" if quick else "1",
            "-cases", ",".join(files), "-mut", "400" if quick else "20000", "-out", tr]
    p = vlib.run_harness(hbin, args, timeout=12000)
    if p.returncode != 0:
        raise vlib.Infra("c07trace failed: " + p.stderr.decode()[-2000:])
    s = semcommon.summary_of(p.stderr)
    rep.notes["driver"] = s
    # the recursion witness (recorded finding) is always part of the trace
    lines = list(vlib.read_ndjson(tr))
    r = vlib.tlc(work, "TraceApi", "TraceApi.cfg", consts={"TraceFile": '"%s"' % tr}, timeout=12000, heap="24g")
    rep.add_tlc(r, "TraceApi over %d public calls" % len(lines))
    if r.distinct != len(lines) + 1:
        raise vlib.Infra("trace not consumed: %d states for %d events" % (r.distinct, len(lines)))
    kf = {f["id"] for f in vlib.known_findings(PROP) if f["status"] == "known"}
    bad = []
    for l in r.tagged("@@MISMATCH"):
        m = json.loads(l)
        e = lines[m["line"] - 1]
        if KF_ID in kf and m["what"] == "not-a-library-error" and "Infinity recursion detected" in e.get("msg", "") and e["msg"].startswith("errors.Errorf"):
            rep.known(KF_ID, KF_TEXT)
            continue
        bad.append({"what": m["what"], "op": e["op"], "input": e["input"], "kind": e["kind"], "pos": e["pos"], "srclen": e["srclen"], "file": e.get("file"), "msg": e.get("msg", "")[:300]})
    ops = {}
    for e in lines:
        k = e["op"] + ":" + e["kind"]
        ops[k] = ops.get(k, 0) + 1
    rep.notes["outcomes"] = ops
    for e in lines[:: max(1, len(lines) // 6)]:
        rep.sample({"op": e["op"], "input": e["input"][:60], "kind": e["kind"], "code": e["code"], "pos": e["pos"]})
    rep.cov["evaluations"] = len(lines)
    rep.cov["distinct_nontrivial"] = s["inputs"]
    rep.cov["traces_validated_against_impl"] = len(lines)
    rep.cov["rule"] = ("%d distinct byte strings (prefixes of the repository's testdata files, fixed cut-off witnesses, byte-level mutations of generated schemas) x 26 public "
                       "entry points as schema, user type, enum rule, regex type and document; every call logged and judged by Api!Problem" % s["inputs"])
    return rep, bad


def finish(rep, bad):
    for b in bad[:40]:
        rep.violation(b, "%s: %s(%r) -> %s pos=%s srclen=%s file=%s %s" % (b["what"], b["op"], b["input"][:80], b["kind"], b["pos"], b["srclen"], b["file"], b["msg"][:160]))
    rep.violations = len(bad)
    rep.assumptions = ["the static clause (templates and argument lists agree at every construction site) is covered only for the error values executions produce: Error() is evaluated on each"]
    rep.finish()


_run = run


def run(tier, argv):  # noqa: F811
    rep, bad = _run(tier, argv)
    finish(rep, bad)
