"""C07 - every API call returns a structured error instead of panicking. DESIGN.md section 3 / C07."""
import json
import vlib
from checks import semcommon, jsongraph

PROP = "C07"
# exit code 4 of c05graph: a call of the code under test did not return (the mismatch file holds the input): the cover ends there
HUNG = {"states": 0, "transitions": 0, "tests": 0, "mismatches": 1}
KF_ID = "C07-recursion-error-bare"
KF_TEXT = ("the 'Infinity recursion detected' error of Check / Validate / GetAST / Example is a bare errors.Errorf value without position or file "
           "(notations/jschema/jschema.go compile -> checker.CheckRecursion); its plain text is pinned by TestSchema_Check")


def run(tier, argv):
    rep = vlib.Report(PROP, tier)
    work = vlib.Work(PROP)
    quick = tier == "quick"
    hbin = vlib.build_harness(work)
    files = []
    for mod, label in (("GenRules", "rules"), ("GenTypes", "types"), ("GenExample", "example")):
        docs, cases, nd, nc = semcommon.generate(work, rep, mod, mod + ".cfg", {"Level": "1"}, label)
        files.append(cases)
    # edge values of every rule on every kind of example (TLC-generated product)
    rawe = work.path("edge.txt")
    re_ = vlib.tlc(work, "GenEdge", "GenEdge.cfg", consts={"Level": "1" if quick else "2"}, to_file=rawe, timeout=3000)
    rep.add_tlc(re_, "GenEdge (example x rule x edge value x placement)")
    edge = work.path("edge.ndjson")
    ne = 0
    with open(edge, "w") as f:
        for l in vlib.tagged_file(rawe, "@@TEXT"):
            f.write(l + "\n")
            ne += 1
    if ne == 0:
        raise vlib.Infra("GenEdge produced no text")
    rep.notes["edge_texts"] = ne
    tr = work.path("trace.ndjson")
    args = ["c07trace", "-texts", edge, "-corpus", vlib.REPO + "/testdata", "-maxfiles", "60" if quick else "832", "-stride", "13" if quick else "1",
            "-cases", ",".join(files), "-mut", "400" if quick else "20000", "-out", tr]
    p = vlib.run_harness(hbin, args, timeout=12000)
    if p.returncode != 0:
        raise vlib.Infra("c07trace failed: " + p.stderr.decode()[-2000:])
    s = semcommon.summary_of(p.stderr)
    rep.notes["driver"] = s
    # the recursion witness (recorded finding) is always part of the trace
    lines = list(vlib.read_ndjson(tr))
    r = vlib.tlc(work, "TraceApi", "TraceApi.cfg", consts={"TraceFile": '"%s"' % tr}, timeout=12000, heap="24g")
    rep.add_tlc(r, "TraceApi over %d public calls" % len(lines))
    if r.distinct != len(lines) + 1:
        raise vlib.Infra("trace not consumed: %d states for %d events" % (r.distinct, len(lines)))
    kf = {f["id"] for f in vlib.known_findings(PROP) if f["status"] == "known"}
    bad = []
    for l in r.tagged("@@MISMATCH"):
        m = json.loads(l)
        e = lines[m["line"] - 1]
        if KF_ID in kf and m["what"] == "not-a-library-error" and "Infinity recursion detected" in e.get("msg", "") and e["msg"].startswith("errors.Errorf"):
            rep.known(KF_ID, KF_TEXT)
            continue
        bad.append({"what": m["what"], "op": e["op"], "input": e["input"], "kind": e["kind"], "pos": e["pos"], "srclen": e["srclen"], "file": e.get("file"), "msg": e.get("msg", "")[:300]})
    # transition cover of the schema notation's reference automaton (SchemaText): every string of the W-method suite through the schema
    # scanner, every access string + byte through Check / Len / GetAST / Example / UsedUserTypes; only panics, foreign errors and
    # positions outside the text are reported here (also where the reference has no verdict)
    gpath, g = jsongraph.export_schema_graph(work, 1, 1, rep, "r")
    rout = work.path("robust.ndjson")
    p = vlib.run_harness(hbin, ["c05graph", "-graph", gpath, "-out", rout, "-sut", "schema", "-robust"], timeout=6000)
    if p.returncode not in (0, 4):
        raise vlib.Infra("c05graph -robust failed: " + p.stderr.decode()[-2000:])
    rs = semcommon.summary_of(p.stderr) if p.returncode == 0 else HUNG
    rep.notes["schema_cover"] = {k: rs[k] for k in ("states", "transitions", "tests", "mismatches")}
    for m in vlib.read_ndjson(rout):
        bad.append({"what": m["what"], "op": "schema scanner" if m["what"] == "robust" else "schema." + m["want"], "input": bytes(m["bytes"]).decode("latin-1"), "kind": m["got"].get("kind"),
                    "pos": m["got"].get("pos"), "srclen": len(m["bytes"]), "file": "s", "msg": (m["got"].get("msg") or m["got"].get("panic") or "")[:300]})
    gpe, ge = jsongraph.export_enum_graph(work, rep, "r")
    eout = work.path("erobust.ndjson")
    p = vlib.run_harness(hbin, ["c05graph", "-graph", gpe, "-out", eout, "-sut", "enum", "-robust"], timeout=3000)
    if p.returncode not in (0, 4):
        raise vlib.Infra("c05graph -robust (enum) failed: " + p.stderr.decode()[-2000:])
    rs2 = semcommon.summary_of(p.stderr) if p.returncode == 0 else HUNG
    rep.notes["enum_cover"] = {k: rs2[k] for k in ("states", "transitions", "tests", "mismatches")}
    for m in vlib.read_ndjson(eout):
        bad.append({"what": m["what"], "op": "enum.Check" if m["what"] == "robust" else "enum." + m["want"], "input": bytes(m["bytes"]).decode("latin-1"), "kind": m["got"].get("kind"),
                    "pos": m["got"].get("pos"), "srclen": len(m["bytes"]), "file": "e", "msg": (m["got"].get("msg") or m["got"].get("panic") or "")[:300]})
    gpr, gr = jsongraph.export_regex_graph(work, rep, "r")
    rrout = work.path("rrobust.ndjson")
    p = vlib.run_harness(hbin, ["c05graph", "-graph", gpr, "-out", rrout, "-sut", "regex", "-robust"], timeout=3000)
    if p.returncode not in (0, 4):
        raise vlib.Infra("c05graph -robust (regex) failed: " + p.stderr.decode()[-2000:])
    rs3 = semcommon.summary_of(p.stderr) if p.returncode == 0 else HUNG
    rep.notes["regex_cover"] = {k: rs3[k] for k in ("states", "transitions", "tests", "mismatches")}
    for m in vlib.read_ndjson(rrout):
        bad.append({"what": m["what"], "op": "regex.Check" if m["what"] == "robust" else "regex." + m["want"], "input": bytes(m["bytes"]).decode("latin-1"), "kind": m["got"].get("kind"),
                    "pos": m["got"].get("pos"), "srclen": len(m["bytes"]), "file": "@r", "msg": (m["got"].get("msg") or m["got"].get("panic") or "")[:300]})
    # a call that does not return would not return in the differential tier either (which has no watchdog of its own): once one was seen, the run ends here
    hung = any(b.get("kind") == "timeout" or "no-termination" in str(b.get("what")) or b.get("what") == "hang" for b in bad)
    for b in ([] if hung else semcommon.lex_diff_tier(work, rep, hbin, PROP, 200000 if quick else 20000000)):
        bad.append({"what": "panic", "op": "scanner (differential)", "input": b["text"][:200], "kind": "panic", "pos": -1, "srclen": len(b["text"]), "file": "", "msg": b["what"][:300]})
    ops = {}
    for e in lines:
        k = e["op"] + ":" + e["kind"]
        ops[k] = ops.get(k, 0) + 1
    rep.notes["outcomes"] = ops
    for e in lines[:: max(1, len(lines) // 6)]:
        rep.sample({"op": e["op"], "input": e["input"][:60], "kind": e["kind"], "code": e["code"], "pos": e["pos"]})
    rep.cov["evaluations"] = len(lines) + rs["tests"] + rs2["tests"]
    rep.cov["distinct_nontrivial"] = s["inputs"]
    rep.cov["traces_validated_against_impl"] = len(lines)
    rep.cov["rule"] = ("%d distinct byte strings (prefixes of the repository's testdata files, fixed cut-off witnesses, byte-level mutations of generated schemas) x 26 public "
                       "entry points as schema, user type, enum rule, regex type and document; every call logged and judged by Api!Problem" % s["inputs"])
    return rep, bad


def finish(rep, bad):
    for b in bad[:40]:
        rep.violation(b, "%s: %s(%r) -> %s pos=%s srclen=%s file=%s %s" % (b["what"], b["op"], b["input"][:80], b["kind"], b["pos"], b["srclen"], b["file"], b["msg"][:160]))
    rep.violations = len(bad)
    rep.assumptions = ["the static clause (templates and argument lists agree at every construction site) is covered only for the error values executions produce: Error() is evaluated on each"]
    rep.finish()


_run = run


def run(tier, argv):  # noqa: F811
    rep, bad = _run(tier, argv)
    finish(rep, bad)
