"""Export of the reference automaton (spec/JsonRef.tla) as a table for the harness (mechanism C)."""
import json
import vlib


def export_graph(work, depth, trailing, rep, label):
    out = work.path("ref-%s.txt" % label)
    r = vlib.tlc(work, "JsonRef", "JsonRef.cfg",
                 consts={"Alphabet": "0..255", "MaxDepth": str(depth), "Trailing": "TRUE" if trailing else "FALSE"},
                 to_file=out, timeout=1800, heap="12g")
    rep.add_tlc(r, "JsonRef depth=%d trailing=%s" % (depth, trailing))
    return _table(work, out, label)


def export_schema_graph(work, depth, rdepth, rep, label):
    """Reference automaton of the schema notation (spec/SchemaText.tla explored by SchemaRef.tla)."""
    out = work.path("sref-%s.txt" % label)
    r = vlib.tlc(work, "SchemaRef", "SchemaRef.cfg",
                 consts={"Alphabet": "0..255", "MaxDepth": str(depth), "MaxRDepth": str(rdepth)},
                 to_file=out, timeout=3000, heap="12g")
    rep.add_tlc(r, "SchemaRef depth=%d rules depth=%d" % (depth, rdepth))
    return _table(work, out, "s" + label)


def export_enum_graph(work, rep, label):
    """Reference automaton of the enum-rule notation (spec/EnumText.tla explored by EnumRef.tla)."""
    out = work.path("eref-%s.txt" % label)
    r = vlib.tlc(work, "EnumRef", "EnumRef.cfg", consts={"Alphabet": "0..255"}, to_file=out, timeout=3000, heap="12g")
    rep.add_tlc(r, "EnumRef")
    return _table(work, out, "e" + label)


def export_regex_graph(work, rep, label, maxtoken=6):
    """Reference automaton of a regex type's token (spec/RegexText.tla explored by RegexRef.tla)."""
    out = work.path("rref-%s.txt" % label)
    r = vlib.tlc(work, "RegexRef", "RegexRef.cfg", consts={"Alphabet": "0..255", "MaxToken": str(maxtoken)}, to_file=out, timeout=3000, heap="12g")
    rep.add_tlc(r, "RegexRef (token length <= %d)" % maxtoken)
    return _table(work, out, "r" + label)


def _table(work, out, label):
    ids, verdict, delta = {}, [], []

    def sid(name):
        if name not in ids:
            ids[name] = len(ids)
            verdict.append(None)
            delta.append([-1] * 256)
        return ids[name]

    init = None
    for l in vlib.tagged_file(out, "@@I"):
        n, v = l.rsplit("|", 1)
        init = sid(n)
        verdict[init] = v
    for l in vlib.tagged_file(out, "@@T"):
        a, c, b, v = l.split("|")
        s, t = sid(a), sid(b)
        verdict[t] = v
        delta[s][int(c)] = t
    if init is None or not delta:
        raise vlib.Infra("reference graph export is empty")
    names = [None] * len(ids)
    for k, v in ids.items():
        names[v] = k
    g = {"n": len(ids), "init": init, "verdict": verdict, "delta": delta, "alphabet": list(range(256)),
         "dead": [n.startswith('"dead"') for n in names], "names": names}
    p = work.path("graph-%s.json" % label)
    json.dump(g, open(p, "w"))
    return p, g
