"""C02 - scalar rules admit exactly the values their definitions describe. DESIGN.md section 3 / C02."""
import json
import vlib
from checks import semcommon

PROP = "C02"


def run(tier, argv):
    rep = vlib.Report(PROP, tier)
    work = vlib.Work(PROP)
    quick = tier == "quick"
    hbin = vlib.build_harness(work)
    docs, cases, nd, nc = semcommon.generate(work, rep, "GenRules", "GenRules.cfg", {"Level": "1" if quick else "2"}, "rules")
    s, bad = semcommon.replay(work, hbin, docs, cases, "rules")
    rep.notes["replay"] = s
    with open(cases) as f:
        for i, l in enumerate(f):
            if i % 150 == 7:
                rep.sample({"schema": json.loads(l)["schema"]})
    rep.cov["evaluations"] = s["evaluations"]
    rep.cov["distinct_nontrivial"] = s["evaluations"]
    rep.cov["traces_validated_against_impl"] = s["evaluations"]
    rep.cov["exhaustive"] = True
    rep.cov["rule"] = ("%d scalar schemas (rule-set families: min/max/exclusive*, precision, lengths, regex, enum, const, five formats, nullable, "
                       "false-valued rules) x %d probe values on/inside/outside every boundary; verdict vectors by Sem!ScalarVerdict "
                       "(three-valued, %d unspecified cells skipped)" % (nc, nd, s["unspecified"]))
    # formats in depth: calendar / clock / zone grid and uuid position sweeps
    docs2, cases2, nd2, nc2 = semcommon.generate(work, rep, "GenFormats", "GenFormats.cfg", {"Level": "1" if quick else "2"}, "formats")
    s2, bad2 = semcommon.replay(work, hbin, docs2, cases2, "formats")
    rep.notes["formats"] = s2
    bad += bad2
    rep.cov["evaluations"] += s2["evaluations"]
    rep.cov["distinct_nontrivial"] += s2["evaluations"]
    rep.cov["traces_validated_against_impl"] += s2["evaluations"]
    bad += semcommon.random_tier(work, rep, hbin, False, (300 if quick else 60000))
    bad += semcommon.diff_tier(work, rep, hbin, PROP, 30000 if quick else 1500000)
    for b in bad[:40]:
        rep.violation(b, "%s | doc %s | want %s got %s" % (b["schema"].replace("\n", "\\n")[:200], b.get("doc"), b["want"], json.dumps(b["got"])[:200]))
    rep.violations = len(bad)
    rep.finish()
