"""C15 - Example() emits well-formed JSON that its own schema accepts. DESIGN.md section 3 / C15."""
import json
import vlib
from checks import semcommon

PROP = "C15"


KF_DUP = "C15-key-shortcut-example-equals-another-key"
KF_DUP_TEXT = ("Example() writes the same key twice when the example of a key-shortcut type is also a named key of the object (or the example of "
               "another key-shortcut type of it): {\"a\": 2, @KE2: 1} with @KE2 = \"a\" // {enum: [\"a\", \"b\"]} gives {\"a\":2,\"a\":1}, which the "
               "schema rejects; notations/jschema/example.go buildObjectKey always takes the key type's own example")


def dup_key_signature(node, env):
    """the recorded finding's shape: an object one of whose key shortcuts has a string type whose example is a named key of the
    same object or the example of another of its key shortcuts"""
    types = {t["name"]: t["n"] for t in env.get("types", [])}

    def key_example(tname):
        n = types.get(tname)
        if n and n.get("t") == "lit" and n["v"].get("t") == "str":
            return tuple(n["v"].get("c") or [])
        return None

    def walk(n):
        if n.get("t") == "obj":
            named = [tuple(p["k"]) for p in n.get("props", []) if not p.get("sc")]
            shorts = [key_example(p["kt"]) for p in n.get("props", []) if p.get("sc")]
            shorts = [x for x in shorts if x is not None]
            if any(x in named for x in shorts) or len(set(shorts)) < len(shorts):
                return True
            return any(walk(p["n"]) for p in n.get("props", []))
        if n.get("t") == "arr":
            return any(walk(i) for i in n.get("items", []))
        return False
    return walk(node) or any(walk(t) for t in types.values())


def run(tier, argv):
    rep = vlib.Report(PROP, tier)
    work = vlib.Work(PROP)
    quick = tier == "quick"
    hbin = vlib.build_harness(work)
    lvl = {"Level": "1" if quick else "2"}
    files = []
    for mod, label in (("GenTypes", "types"), ("GenRules", "rules"), ("GenShape", "shape"), ("GenExample", "example")):
        docs, cases, nd, nc = semcommon.generate(work, rep, mod, mod + ".cfg", lvl, label)
        files.append(cases)
    # the type-graph families of C09 (optional recursion through one, two and three types, arrays, or-alternatives): Example of every accepted graph
    for gl, consts in ((("g1", {"NTypes": "2", "Level": "1"}), ("go", {"NTypes": "2", "Level": "1", "KeysOptDefault": "TRUE"})) if quick else (("g1", {"NTypes": "3", "Level": "1"}), ("g2", {"NTypes": "2", "Level": "2"}), ("go", {"NTypes": "2", "Level": "2", "KeysOptDefault": "TRUE"}))):
        raw = work.path("gen-%s.txt" % gl)
        r = vlib.tlc(work, "GenGraph", "GenGraph.cfg", consts=consts, to_file=raw, timeout=6000, heap="16g")
        rep.add_tlc(r, "GenGraph %s" % consts)
        cases = work.path("cases-%s.ndjson" % gl)
        k = 0
        with open(cases, "w") as f:
            for l in vlib.tagged_file(raw, "@@CASE"):
                if json.loads(l)["want"] in ("accept", "unspec"):      # unspec: whether Check accepts is another property's; if it does, the example must be valid
                    f.write(l + "\n")
                    k += 1
        if k == 0:
            raise vlib.Infra("GenGraph gave no accepted graph")
        files.append(cases)
    # the builder as an algorithm (ExBuild, I layer): TLC has just checked ExampleValid on every accepted graph above; the switch that
    # restores the pinned tree's behaviour (a required key dropped where the recursion is cut) must still break it
    rv = vlib.tlc(work, "GenGraph", "GenGraph.cfg", consts={"NTypes": "2", "Level": "1", "DropRequiredAtCut": "TRUE"}, allow_violation=True, timeout=1200)
    if not rv.violation:
        raise vlib.Infra("vacuous: switch DropRequiredAtCut no longer violates ExampleValid")
    rv = vlib.tlc(work, "GenGraph", "GenGraph.cfg", consts={"NTypes": "2", "Level": "1", "ShiftItemsAtCut": "TRUE"}, allow_violation=True, timeout=1200)
    if not rv.violation:
        raise vlib.Infra("vacuous: switch ShiftItemsAtCut no longer violates ExampleValid")
    tr = work.path("trace.ndjson")
    p = vlib.run_harness(hbin, ["c15trace", "-cases", ",".join(files), "-out", tr], timeout=3000)
    if p.returncode != 0:
        raise vlib.Infra("c15trace failed: " + p.stderr.decode()[-2000:])
    s = semcommon.summary_of(p.stderr)
    rep.notes["driver"] = s
    lines = list(vlib.read_ndjson(tr))
    r = vlib.tlc(work, "TraceSem", "TraceSem.cfg", consts={"TraceFile": '"%s"' % tr}, timeout=6000, heap="16g")
    rep.add_tlc(r, "TraceSem over %d Example() calls" % len(lines))
    if r.distinct != len(lines) + 1:
        raise vlib.Infra("trace not consumed: %d states for %d events" % (r.distinct, len(lines)))
    bad = []
    for l in r.tagged("@@MISMATCH"):
        m = json.loads(l)
        e = lines[m["line"] - 1]
        bad.append({"what": m["what"], "schema": e["text"], "out": e.get("out"), "error": e.get("error"), "abstract": e["schema"], "env": e["env"]})
    for e in lines:
        # the statement's literal wording: Validate on the same schema accepts the example (two key shortcuts in one schema may overlap:
        # which of them a key then belongs to is left open, see Sem!KeyMatches)
        if e.get("parsed") and e.get("self_ok") is False and json.dumps(e["schema"]).count('"sc": true') < 2:
            bad.append({"what": "rejected-by-its-own-Validate", "schema": e["text"], "out": e.get("out"), "error": None, "abstract": e["schema"], "env": e["env"]})
        if e.get("error"):
            bad.append({"what": "error", "schema": e["text"], "out": None, "error": e["error"], "abstract": e["schema"], "env": e["env"]})
    # the recorded finding: attributed by its shape, everything else stays a violation
    kf = {f["id"] for f in vlib.known_findings(PROP) if f["status"] == "known"}
    kept, seen_dup = [], 0
    for b in bad:
        if KF_DUP in kf and b["what"] in ("duplicate-keys", "rejected-by-its-own-Validate") and dup_key_signature(b["abstract"], b["env"]) \
                and b.get("out") and _has_dup_keys(b["out"]):
            seen_dup += 1
            continue
        kept.append(b)
    bad = kept
    if seen_dup:
        rep.known(KF_DUP, KF_DUP_TEXT, seen_dup)
    elif KF_DUP in kf:
        rep.drift.append("the recorded finding %s was not observed" % KF_DUP)
    for b in semcommon.diff_tier(work, rep, hbin, PROP, 30000 if quick else 1000000):
        bad.append({"what": b["want"] + " (differs from the frozen copy)", "schema": b["schema"], "out": b.get("doc"), "error": None, "abstract": b["abstract"], "env": b["env"]})
    for e in lines[:: max(1, len(lines) // 6)]:
        rep.sample({"schema": e["text"], "example": e.get("out")})
    rep.cov["evaluations"] = len(lines)
    rep.cov["distinct_nontrivial"] = len(lines)
    rep.cov["traces_validated_against_impl"] = len(lines)
    rep.cov["rule"] = ("Example() of every Check-accepted schema of the GenTypes / GenRules / GenShape / GenExample domains and of every accepted type graph of the GenGraph family; TLC runs the RFC 8259 "
                       "recogniser over the returned bytes, Sem!Verdict on the parsed value, and for plain-JSON schemas equality with the example and absence of blanks")
    return rep, bad


def _has_dup_keys(text):
    dup = []

    def hook(pairs):
        ks = [k for k, _ in pairs]
        if len(set(ks)) < len(ks):
            dup.append(1)
        return dict(pairs)
    try:
        json.loads(text, object_pairs_hook=hook)
    except ValueError:
        return False
    return bool(dup)


def finish(rep, bad):
    for b in bad[:40]:
        rep.violation(b, "%s: %s => %s %s" % (b["what"], b["schema"].replace("\n", "\\n")[:200], b.get("out"), json.dumps(b.get("error"))[:200] if b.get("error") else ""))
    rep.violations = len(bad)
    rep.finish()


_run = run


def run(tier, argv):  # noqa: F811
    rep, bad = _run(tier, argv)
    finish(rep, bad)
