"""C06 - lexical events faithfully describe the scanned text. DESIGN.md section 3 / C06."""
import json
import vlib

PROP = "C06"


def summary_of(stderr):
    for l in stderr.decode("utf-8", "replace").split("\n"):
        if l.startswith("@@SUMMARY "):
            return json.loads(l[len("@@SUMMARY "):])
    raise vlib.Infra("harness gave no summary: " + stderr.decode("utf-8", "replace")[-2000:])


def run(tier, argv):
    rep = vlib.Report(PROP, tier)
    work = vlib.Work(PROP)
    quick = tier == "quick"
    hbin = vlib.build_harness(work)
    # A: TLC enumerates token lists and the events the requirement demands; real scanners must produce them
    raw = work.path("gen.txt")
    r = vlib.tlc(work, "GenJson", "GenJson.cfg", consts={"Width": "2" if quick else "3", "Deep": "FALSE" if quick else "TRUE"},
                 to_file=raw, timeout=3000, heap="12g")
    rep.add_tlc(r, "GenJson (domain + ASSUME Sane: WellNested, SpansInside, Rebuildable on the requirement itself)")
    cases = work.path("cases.ndjson")
    n = 0
    with open(cases, "w") as f:
        for l in vlib.tagged_file(raw, "@@CASE"):
            f.write(l + "\n")
            n += 1
            if n % 1500 == 1:
                k = json.loads(l)
                rep.sample({"text_hex": "".join(t["h"] for t in k["toks"]), "events": k["events"][:6]})
    if n == 0:
        raise vlib.Infra("GenJson produced no cases")
    mm = work.path("mism.ndjson")
    p = vlib.run_harness(hbin, ["c06replay", "-cases", cases, "-out", mm], timeout=3000)
    if p.returncode != 0:
        raise vlib.Infra("c06replay failed: " + p.stderr.decode()[-2000:])
    s = summary_of(p.stderr)
    rep.notes["replay"] = s
    rep.cov["states"] += n
    rep.cov["transitions"] += n
    bad = list(vlib.read_ndjson(mm))
    # B: random texts to depth 8 x width 8, validated by TLC (TraceEvents)
    nb = 600 if quick else 12000
    tr = work.path("trace.ndjson")
    p = vlib.run_harness(hbin, ["c06trace", "-n", str(nb), "-out", tr], timeout=3000)
    if p.returncode != 0:
        raise vlib.Infra("c06trace failed: " + p.stderr.decode()[-2000:])
    lines = list(vlib.read_ndjson(tr))
    r = vlib.tlc(work, "TraceEvents", "TraceEvents.cfg", consts={"TraceFile": '"%s"' % tr}, timeout=3000, heap="16g")
    rep.add_tlc(r, "TraceEvents over %d scans" % len(lines))
    if r.distinct != len(lines) + 1:
        raise vlib.Infra("trace not consumed: %d states for %d events" % (r.distinct, len(lines)))
    for l in r.tagged("@@MISMATCH"):
        m = json.loads(l)
        e = lines[m["line"] - 1]
        bad.append({"scanner": e["scanner"], "text": e["text"], "what": m["what"], "got": e["events"][:40]})
    # the schema scanner and the enum-rule scanner on every spelling of the Gaps token lists (annotations, comments, shortcuts included):
    # the events of a spelling are the events of the compact spelling - kinds, order, token text - new-line events aside, spans inside the text
    rawg = work.path("gaps.txt")
    rg = vlib.tlc(work, "Gaps", "Gaps.cfg", consts={"Strength": "1" if quick else "2"}, to_file=rawg, timeout=3000, workers=1, heap="8g")
    rep.add_tlc(rg, "Gaps (spellings whose event streams are compared with the compact spelling's)")
    gcases = work.path("gaps.ndjson")
    with open(gcases, "w") as f:
        for l in vlib.tagged_file(rawg, "@@CASE"):
            f.write(l + "\n")
    gm = work.path("gaps-events.ndjson")
    p = vlib.run_harness(hbin, ["c06gaps", "-cases", gcases, "-out", gm], timeout=3000)
    if p.returncode != 0:
        raise vlib.Infra("c06gaps failed: " + p.stderr.decode()[-2000:])
    sg = summary_of(p.stderr) if "summary_of" in globals() else json.loads([l for l in p.stderr.decode().split("\n") if l.startswith("@@SUMMARY ")][0][10:])
    rep.notes["gaps_events"] = sg
    for m in vlib.read_ndjson(gm):
        bad.append({"scanner": "schema / enum (spelling)", "text": m["schema"], "what": m["where"], "got": []})
    total = s["json"] + s.get("embedded", 0) + s["schema"] + s["enum"] + len(lines) + sg["spellings"]
    rep.cov["traces_validated_against_impl"] = total
    rep.cov["evaluations"] = total
    rep.cov["distinct_nontrivial"] = n + len(lines)
    rep.cov["rule"] = ("TLC-enumerated JSON texts (all scalar forms, nesting <= %d, 3 layouts) with TLC-computed expected events, replayed through "
                       "the JSON, schema and enum scanners; random texts to depth 8 x width 8 validated line by line by TLC" % (2 if quick else 3))
    for b in bad[:30]:
        rep.violation(b, "%s scanner events differ from Events(tokens) on %r" % (b.get("scanner"), b.get("text", "")[:80]))
    rep.violations = len(bad)
    rep.assumptions = ["schema scanner compared on numerals without exponent, enum scanner on arrays of scalars (their languages)",
                       "export of the two internal scanners through overlay-injected files hooks/notations/jschema/verif_scan.go, hooks/rules/enum/verif_scan.go"]
    rep.finish()
