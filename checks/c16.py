"""C16 - GetAST mirrors the schema text. DESIGN.md section 3 / C16."""
import json
import vlib
from checks import semcommon

PROP = "C16"


def run(tier, argv):
    rep = vlib.Report(PROP, tier)
    work = vlib.Work(PROP)
    quick = tier == "quick"
    hbin = vlib.build_harness(work)
    cases = work.path("cases.ndjson")
    n = 0
    seen = set()
    with open(cases, "w") as f:
        for lvl in (("1",) if quick else ("1", "2")):
            raw = work.path("gen%s.txt" % lvl)
            r = vlib.tlc(work, "GenAst", "GenAst.cfg", consts={"Level": lvl}, to_file=raw, timeout=3000, heap="12g")
            rep.add_tlc(r, "GenAst level %s (Ast!RootAST over rule families + special shapes%s)" % (lvl, "" if lvl == "1" else ", each scalar schema inside five container contexts"))
            for l in vlib.tagged_file(raw, "@@CASE"):
                if l in seen:
                    continue
                seen.add(l)
                f.write(l + "\n")
                n += 1
                if n % 130 == 9:
                    c = json.loads(l)
                    rep.sample({"schema": c["schema"], "ast_root": {k: c["ast"][k] for k in ("tt", "st", "v")}})
    if n == 0:
        raise vlib.Infra("no cases")
    mm = work.path("mism.ndjson")
    p = vlib.run_harness(hbin, ["c16replay", "-cases", cases, "-out", mm], timeout=3000)
    if p.returncode != 0:
        raise vlib.Infra("c16replay failed: " + p.stderr.decode()[-2000:])
    s = semcommon.summary_of(p.stderr)
    rep.notes["replay"] = s
    bad = list(vlib.read_ndjson(mm))
    rep.cov["evaluations"] = n
    rep.cov["distinct_nontrivial"] = n
    rep.cov["traces_validated_against_impl"] = s["trees"]
    rep.cov["exhaustive"] = True
    rep.cov["rule"] = "%d schemas (rule families + notes, named/inline enums, allOf, shortcuts, or rule-sets, nested containers, escaped keys) with the AST computed by Ast!RootAST" % n
    for b in bad[:40]:
        rep.violation(b, "%s | %s" % (b["schema"].replace("\n", "\\n")[:160], b["where"][:400]))
    rep.violations = len(bad)
    rep.finish()
