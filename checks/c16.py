"""C16 - GetAST mirrors the schema text. DESIGN.md section 3 / C16."""
import json
import vlib
from checks import semcommon

PROP = "C16"


def run(tier, argv):
    rep = vlib.Report(PROP, tier)
    work = vlib.Work(PROP)
    quick = tier == "quick"
    hbin = vlib.build_harness(work)
    cases = work.path("cases.ndjson")
    n = 0
    seen = set()
    with open(cases, "w") as f:
        for lvl in (("1",) if quick else ("1", "2")):
            raw = work.path("gen%s.txt" % lvl)
            r = vlib.tlc(work, "GenAst", "GenAst.cfg", consts={"Level": lvl}, to_file=raw, timeout=3000, heap="12g")
            rep.add_tlc(r, "GenAst level %s (Ast!RootAST over rule families + special shapes%s)" % (lvl, "" if lvl == "1" else ", each scalar schema inside five container contexts"))
            for l in vlib.tagged_file(raw, "@@CASE"):
                if l in seen:
                    continue
                seen.add(l)
                f.write(l + "\n")
                n += 1
                if n % 130 == 9:
                    c = json.loads(l)
                    rep.sample({"schema": c["schema"], "ast_root": {k: c["ast"][k] for k in ("tt", "st", "v")}})
    if n == 0:
        raise vlib.Infra("no cases")
    mm = work.path("mism.ndjson")
    p = vlib.run_harness(hbin, ["c16replay", "-cases", cases, "-out", mm], timeout=3000)
    if p.returncode != 0:
        raise vlib.Infra("c16replay failed: " + p.stderr.decode()[-2000:])
    s = semcommon.summary_of(p.stderr)
    rep.notes["replay"] = s
    bad = list(vlib.read_ndjson(mm))
    rep.cov["evaluations"] = n
    rep.cov["distinct_nontrivial"] = n
    rep.cov["traces_validated_against_impl"] = s["trees"]
    rep.cov["exhaustive"] = True
    rep.cov["rule"] = "%d schemas (rule families + notes, named/inline enums, allOf, shortcuts, or rule-sets, nested containers, escaped keys) with the AST computed by Ast!RootAST" % n
    # which node an annotation belongs to: Bind.tla (I = R on every layout, both switches still violate), every layout through the real loader
    ma = "2" if quick else "4"
    rb = vlib.tlc(work, "Bind", "Bind.cfg", consts={"MaxAnn": ma}, timeout=3000, heap="8g")
    rep.add_tlc(rb, "Bind: loader algorithm = reading of the notation on every layout with <= %s annotations (Agree)" % ma)
    for sw in ("NoteAfterBraceToLast", "NoteBeforeValueToPrev"):
        rv = vlib.tlc(work, "Bind", "Bind.cfg", consts={"MaxAnn": "2", sw: "TRUE"}, allow_violation=True, timeout=1200)
        if not rv.violation:
            raise vlib.Infra("vacuous: switch %s no longer violates Bind!Agree" % sw)
    rawb = work.path("bind.txt")
    rb = vlib.tlc(work, "Bind", "Bind.cfg", consts={"MaxAnn": "2" if quick else "4", "Export": "TRUE"}, to_file=rawb, timeout=3000, workers=1, heap="8g")
    bcases = work.path("bind.ndjson")
    nb = 0
    with open(bcases, "w") as f:
        for l in vlib.tagged_file(rawb, "@@CASE"):
            f.write(l + "\n")
            nb += 1
    if nb == 0:
        raise vlib.Infra("Bind exported no layout")
    bm = work.path("bind-mism.ndjson")
    p = vlib.run_harness(hbin, ["c16bind", "-cases", bcases, "-out", bm], timeout=3000)
    if p.returncode != 0:
        raise vlib.Infra("c16bind failed: " + p.stderr.decode()[-2000:])
    rep.notes["bind"] = semcommon.summary_of(p.stderr)
    rep.cov["evaluations"] += nb
    rep.cov["traces_validated_against_impl"] += rep.notes["bind"]["judged"]
    for b in vlib.read_ndjson(bm):
        bad.append({"schema": b["schema"], "where": "annotation binding: " + b["where"]})
    for b in bad[:40]:
        rep.violation(b, "%s | %s" % (b["schema"].replace("\n", "\\n")[:160], b["where"][:400]))
    rep.violations = len(bad)
    rep.finish()
