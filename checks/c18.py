"""C18 - named enum rules and regex types behave like their inline forms. DESIGN.md section 3 / C18."""
import json
import vlib
from checks import semcommon, jsongraph

PROP = "C18"


def run(tier, argv):
    rep = vlib.Report(PROP, tier)
    work = vlib.Work(PROP)
    quick = tier == "quick"
    hbin = vlib.build_harness(work)
    docs, cases, nd, nc = semcommon.generate(work, rep, "GenNamed", "GenNamed.cfg", {"Level": "1" if quick else "2"}, "named")
    mm, tr = work.path("mism.ndjson"), work.path("trace.ndjson")
    p = vlib.run_harness(hbin, ["c18replay", "-docs", docs, "-cases", cases, "-out", mm, "-trace", tr], timeout=6000)
    if p.returncode != 0:
        raise vlib.Infra("c18replay failed: " + p.stderr.decode()[-2000:])
    s = semcommon.summary_of(p.stderr)
    rep.notes["replay"] = s
    bad = list(vlib.read_ndjson(mm))
    lines = list(vlib.read_ndjson(tr))
    r = vlib.tlc(work, "TraceSem", "TraceSem.cfg", consts={"TraceFile": '"%s"' % tr}, timeout=3000)
    rep.add_tlc(r, "TraceSem over %d regex Example() values" % len(lines))
    if r.distinct != len(lines) + 1:
        raise vlib.Infra("trace not consumed")
    for l in r.tagged("@@MISMATCH"):
        m = json.loads(l)
        e = lines[m["line"] - 1]
        bad.append({"kind": "regex", "text": e["text"], "what": "Example() %r does not match the pattern" % bytes(e["example"]).decode("latin1")})
    # the token of a regex type byte by byte: reference automaton of RegexText walked through regex.New(..).Check / Len
    gpr, gr = jsongraph.export_regex_graph(work, rep, "a", 6 if quick else 9)
    rout = work.path("rtoken.ndjson")
    p = vlib.run_harness(hbin, ["c05graph", "-graph", gpr, "-out", rout, "-sut", "regex"], timeout=3000)
    if p.returncode != 0:
        raise vlib.Infra("c05graph (regex) failed: " + p.stderr.decode()[-2000:])
    rs = semcommon.summary_of(p.stderr)
    rep.notes["regex_token"] = {k: rs[k] for k in ("states", "transitions", "tests", "unspecified", "lenient", "strict", "mismatches")}
    for m in vlib.read_ndjson(rout):
        if m["what"] == "len":
            bad.append({"kind": "regex", "text": bytes(m["bytes"]).decode("latin-1"), "what": "%s, the library says %s" % (m["want"], m["got"].get("msg") or m["got"].get("pos"))})
        elif m["what"] == "panic":
            bad.append({"kind": "regex", "text": bytes(m["bytes"]).decode("latin-1"), "what": "panic / foreign error: " + json.dumps(m["got"])[:200]})
    with open(cases) as f:
        for i, l in enumerate(f):
            if i % 170 == 3:
                c = json.loads(l)
                rep.sample({k: c[k] for k in ("kind", "items", "layout", "dup") if k in c} if c["kind"] == "enum" else {"kind": "regex", "re": c["re"]})
    rep.cov["evaluations"] = s["validations"] + len(lines) + rs["tests"]
    rep.cov["distinct_nontrivial"] = nc
    rep.cov["traces_validated_against_impl"] = s["validations"] + len(lines)
    rep.cov["exhaustive"] = True
    rep.cov["rule"] = ("%d cases: every value list of length <= %s over 10 literals of all scalar kinds (duplicates included) in 4 layouts with inline and block comments, "
                       "and 12 patterns of the abstract regex grammar (escaped slash, quote, backslash before the closing slash); named and inline spellings validated "
                       "against %d documents and compared with each other and with Sem!Member3 / Sem!Search; Values/GetAST order; Len with trailing text; Example "
                       "matched by TLC" % (nc, "2" if quick else "3", nd))
    for b in bad[:40]:
        rep.violation(b, "%s %s: %s %s" % (b["kind"], b["text"].replace("\n", "\\n")[:120], b["what"][:200], b.get("doc", "")))
    rep.violations = len(bad)
    rep.finish()
