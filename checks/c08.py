"""C08 - Check enforces rule applicability and mutual consistency, order-independently. DESIGN.md section 3 / C08."""
import json
import vlib
from checks import semcommon

PROP = "C08"


def run(tier, argv):
    rep = vlib.Report(PROP, tier)
    work = vlib.Work(PROP)
    quick = tier == "quick"
    # the implementation-shaped pipeline over the implementation-shaped ordered map: order independent and equal to the requirement
    r = vlib.tlc(work, "Pipeline", "Pipeline.cfg", timeout=1200)
    rep.add_tlc(r, "Pipeline over OMapImpl (OrderIndependent, MatchesRequirement) on all rule lists <= 3 of 8 instances")
    rv = vlib.tlc(work, "Pipeline", "Pipeline.cfg", consts={"FilterRangesWhileDeleting": "TRUE"}, allow_violation=True, timeout=1200)
    if not rv.violation:
        raise vlib.Infra("vacuous: switch FilterRangesWhileDeleting no longer makes the pipeline order dependent")
    hbin = vlib.build_harness(work)
    raw = work.path("gen.txt")
    r = vlib.tlc(work, "GenChk", "GenChk.cfg", consts={"MaxRules": "2" if quick else "3"}, to_file=raw, timeout=6000, heap="16g")
    rep.add_tlc(r, "GenChk (Chk!Structure + Sem!Verdict on the own example; OrderFree on the requirement)")
    cases = work.path("cases.ndjson")
    n = 0
    with open(cases, "w") as f:
        for l in vlib.tagged_file(raw, "@@CASE"):
            f.write(l + "\n")
            n += 1
            if n % 9000 == 77:
                c = json.loads(l)
                rep.sample({"kind": c["kind"], "pos": c["pos"], "rules": c["rules"], "want": c["want"]})
    if n == 0:
        raise vlib.Infra("no cases")
    mm = work.path("mism.ndjson")
    p = vlib.run_harness(hbin, ["c08replay", "-cases", cases, "-out", mm], timeout=6000)
    if p.returncode != 0:
        raise vlib.Infra("c08replay failed: " + p.stderr.decode()[-2000:])
    s = semcommon.summary_of(p.stderr)
    rep.notes["replay"] = s
    bad = list(vlib.read_ndjson(mm))
    rep.cov["evaluations"] = n
    rep.cov["distinct_nontrivial"] = n
    rep.cov["traces_validated_against_impl"] = n
    rep.cov["exhaustive"] = True
    rep.cov["rule"] = ("9 node kinds x 3 positions x every ordered list of <= %s rule instances from a pool of 43 (in/out-of-range parameters, unknown and "
                       "duplicated names); expected verdict by Chk!Structure and Sem!Verdict; every permutation class must also agree with itself"
                       % ("2" if quick else "2 (full pool) and 3 (23-instance pool)"))
    dbad = semcommon.diff_tier(work, rep, hbin, PROP, 30000 if quick else 1500000)
    for b in dbad[:20]:
        rep.violation(b, "%s: %s | %s" % (b["want"], b["schema"].replace("\n", "\\n")[:200], json.dumps(b["got"])[:160]))
    for b in bad[:40]:
        rep.violation(b, "%s: %s | want %s got %s %s" % (b["what"], b["schema"].replace("\n", "\\n")[:200], b["want"], json.dumps(b["got"])[:160], b.get("other", "")[:100]))
    rep.violations = len(bad) + len(dbad)
    rep.finish()
