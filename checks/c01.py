"""C01 - Validate accepts exactly the documents shaped like the schema's EXAMPLE. DESIGN.md section 3 / C01."""
import json
import vlib
from checks import semcommon

PROP = "C01"


def run(tier, argv):
    rep = vlib.Report(PROP, tier)
    work = vlib.Work(PROP)
    quick = tier == "quick"
    hbin = vlib.build_harness(work)
    if not quick:
        r = vlib.tlc(work, "GenShape", "GenShapeThm.cfg", consts={"Level": "1"}, timeout=3000, workers=1, heap="12g")
        rep.add_tlc(r, "GenShape theorems: OrderIndependent, OptOnlyRelaxes on the level-1 domain")
    docs, cases, nd, nc = semcommon.generate(work, rep, "GenShape", "GenShape.cfg", {"Level": "1" if quick else "2"}, "shape")
    s, bad = semcommon.replay(work, hbin, docs, cases, "shape")
    rep.notes["replay"] = s
    with open(cases) as f:
        for i, l in enumerate(f):
            if i % 400 == 3:
                rep.sample({"schema": json.loads(l)["schema"]})
    rep.cov["evaluations"] = s["evaluations"]
    rep.cov["distinct_nontrivial"] = s["evaluations"]
    rep.cov["traces_validated_against_impl"] = s["evaluations"]
    rep.cov["exhaustive"] = True
    rep.cov["rule"] = ("every schema of the TLC-enumerated rule-free fragment (%d schema x configuration cases) against every enumerated document (%d), "
                       "verdict vector computed by Sem!AcceptsShape" % (nc, nd))
    # corners: numeral spellings against integer / float examples, the empty property name
    docsx, casesx, ndx, ncx = semcommon.generate(work, rep, "GenShapeX", "GenShapeX.cfg", None, "shapex")
    sx, badx = semcommon.replay(work, hbin, docsx, casesx, "shapex")
    rep.notes["corners"] = sx
    bad += badx
    for k in ("evaluations", "distinct_nontrivial", "traces_validated_against_impl"):
        rep.cov[k] += sx["evaluations"]
    bad += semcommon.random_tier(work, rep, hbin, False, (500 if quick else 20000))
    bad += semcommon.diff_tier(work, rep, hbin, PROP, 30000 if quick else 1500000)
    for b in bad[:40]:
        rep.violation(b, "%s | doc %s | want %s got %s" % (b["schema"].replace("\n", "\\n")[:200], b.get("doc"), b["want"], json.dumps(b["got"])[:200]))
    rep.violations = len(bad)
    rep.finish()
