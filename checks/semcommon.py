"""Shared driver for 'TLC enumerates schemas x documents with verdict vectors -> replay through Validate'."""
import json
import vlib


def summary_of(stderr):
    for l in stderr.decode("utf-8", "replace").split("\n"):
        if l.startswith("@@SUMMARY "):
            return json.loads(l[len("@@SUMMARY "):])
    raise vlib.Infra("harness gave no summary: " + stderr.decode("utf-8", "replace")[-2000:])


def generate(work, rep, module, cfg, consts, label, workers=1, timeout=3000):
    raw = work.path("gen-%s.txt" % label)
    r = vlib.tlc(work, module, cfg, consts=consts, to_file=raw, timeout=timeout, workers=workers, heap="16g")
    rep.add_tlc(r, "%s %s" % (module, consts))
    docs, cases = work.path("docs-%s.ndjson" % label), work.path("cases-%s.ndjson" % label)
    nd = nc = 0
    with open(docs, "w") as f:
        for l in vlib.tagged_file(raw, "@@DOC"):
            f.write(l + "\n")
            nd += 1
    with open(cases, "w") as f:
        for l in vlib.tagged_file(raw, "@@CASE"):
            f.write(l + "\n")
            nc += 1
    if nd == 0 or nc == 0:
        raise vlib.Infra("%s produced %d docs / %d cases" % (module, nd, nc))
    return docs, cases, nd, nc


def replay(work, hbin, docs, cases, label, mesh=True):
    mm = work.path("mism-%s.ndjson" % label)
    p = vlib.run_harness(hbin, ["semreplay", "-docs", docs, "-cases", cases, "-out", mm, "-mesh=%s" % ("true" if mesh else "false")], timeout=6000)
    if p.returncode != 0:
        raise vlib.Infra("semreplay failed: " + p.stderr.decode()[-2000:])
    return summary_of(p.stderr), list(vlib.read_ndjson(mm))


def random_tier(work, rep, hbin, rich, n):
    """Mechanism B: seeded random deep schemas + near-conforming documents, every Validate call judged by TLC (TraceSem)."""
    tr = work.path("rand-%s.ndjson" % ("rich" if rich else "plain"))
    p = vlib.run_harness(hbin, ["semrand", "-n", str(n), "-rich=%s" % ("true" if rich else "false"), "-out", tr], timeout=6000)
    if p.returncode != 0:
        raise vlib.Infra("semrand failed: " + p.stderr.decode()[-2000:])
    s = summary_of(p.stderr)
    lines = list(vlib.read_ndjson(tr))
    r = vlib.tlc(work, "TraceSem", "TraceSem.cfg", consts={"TraceFile": '"%s"' % tr}, timeout=12000, heap="24g")
    rep.add_tlc(r, "TraceSem over %d random Validate calls (%s)" % (len(lines), "types/or/additionalProperties" if rich else "shape + scalar rules"))
    if r.distinct != len(lines) + 1:
        raise vlib.Infra("trace not consumed: %d states for %d events" % (r.distinct, len(lines)))
    rep.notes.setdefault("random", []).append(s)
    rep.cov["traces_validated_against_impl"] += len(lines)
    rep.cov["evaluations"] += len(lines)
    rep.cov["distinct_nontrivial"] += len(lines)
    bad = []
    for l in r.tagged("@@MISMATCH"):
        m = json.loads(l)
        e = lines[m["line"] - 1]
        bad.append({"schema": e["text"], "doc": e["doctext"], "want": m["what"], "got": {"ok": e.get("ok", e.get("oks")), "code": e.get("code")}, "abstract": e.get("schema"), "env": e.get("env"), "opt": e.get("opt"), "what": "random"})
    if lines:
        rep.sample({"random_schema": lines[len(lines) // 2]["text"], "doc": lines[len(lines) // 2]["doctext"], "ok": lines[len(lines) // 2].get("ok")})
    return bad
