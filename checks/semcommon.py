"""Shared driver for 'TLC enumerates schemas x documents with verdict vectors -> replay through Validate'."""
import json, os
import vlib


def summary_of(stderr):
    for l in stderr.decode("utf-8", "replace").split("\n"):
        if l.startswith("@@SUMMARY "):
            return json.loads(l[len("@@SUMMARY "):])
    raise vlib.Infra("harness gave no summary: " + stderr.decode("utf-8", "replace")[-2000:])


def generate(work, rep, module, cfg, consts, label, workers=1, timeout=3000):
    raw = work.path("gen-%s.txt" % label)
    r = vlib.tlc(work, module, cfg, consts=consts, to_file=raw, timeout=timeout, workers=workers, heap="16g")
    rep.add_tlc(r, "%s %s" % (module, consts))
    docs, cases = work.path("docs-%s.ndjson" % label), work.path("cases-%s.ndjson" % label)
    nd = nc = 0
    with open(docs, "w") as f:
        for l in vlib.tagged_file(raw, "@@DOC"):
            f.write(l + "\n")
            nd += 1
    with open(cases, "w") as f:
        for l in vlib.tagged_file(raw, "@@CASE"):
            f.write(l + "\n")
            nc += 1
    if nd == 0 or nc == 0:
        raise vlib.Infra("%s produced %d docs / %d cases" % (module, nd, nc))
    return docs, cases, nd, nc


def replay(work, hbin, docs, cases, label, mesh=True):
    mm = work.path("mism-%s.ndjson" % label)
    p = vlib.run_harness(hbin, ["semreplay", "-docs", docs, "-cases", cases, "-out", mm, "-mesh=%s" % ("true" if mesh else "false")], timeout=6000)
    if p.returncode != 0:
        raise vlib.Infra("semreplay failed: " + p.stderr.decode()[-2000:])
    return summary_of(p.stderr), list(vlib.read_ndjson(mm))


def random_tier(work, rep, hbin, rich, n):
    """Mechanism B: seeded random deep schemas + near-conforming documents, every Validate call judged by TLC (TraceSem)."""
    tr = work.path("rand-%s.ndjson" % ("rich" if rich else "plain"))
    p = vlib.run_harness(hbin, ["semrand", "-n", str(n), "-rich=%s" % ("true" if rich else "false"), "-out", tr], timeout=6000)
    if p.returncode != 0:
        raise vlib.Infra("semrand failed: " + p.stderr.decode()[-2000:])
    s = summary_of(p.stderr)
    lines = list(vlib.read_ndjson(tr))
    r = vlib.tlc(work, "TraceSem", "TraceSem.cfg", consts={"TraceFile": '"%s"' % tr}, timeout=12000, heap="24g")
    rep.add_tlc(r, "TraceSem over %d random Validate calls (%s)" % (len(lines), "types/or/additionalProperties" if rich else "shape + scalar rules"))
    if r.distinct != len(lines) + 1:
        raise vlib.Infra("trace not consumed: %d states for %d events" % (r.distinct, len(lines)))
    rep.notes.setdefault("random", []).append(s)
    rep.cov["traces_validated_against_impl"] += len(lines)
    rep.cov["evaluations"] += len(lines)
    rep.cov["distinct_nontrivial"] += len(lines)
    bad = []
    for l in r.tagged("@@MISMATCH"):
        m = json.loads(l)
        e = lines[m["line"] - 1]
        if m["what"].startswith("position:") != (rep.prop == "C17"):
            continue          # where an error points is C17's question, and C17 asks only that here
        bad.append({"schema": e["text"], "doc": e["doctext"], "want": m["what"], "got": {"ok": e.get("ok", e.get("oks")), "code": e.get("code"), "pos": e.get("pos")}, "abstract": e.get("schema"), "env": e.get("env"), "opt": e.get("opt"), "what": "random"})
    if lines:
        rep.sample({"random_schema": lines[len(lines) // 2]["text"], "doc": lines[len(lines) // 2]["doctext"], "ok": lines[len(lines) // 2].get("ok")})
    return bad


def _schema_class(schema, env):
    """C03 if the schema composes types (references, or, allOf, additionalProperties, key shortcuts), C02 if it has scalar rules, else C01."""
    txt = json.dumps([schema, env])
    if any(k in txt for k in ('"t": "ref"', '"t": "tref"', '"n": "or"', '"n": "allOf"', '"n": "additionalProperties"', '"sc": true')):
        return "C03"
    shape_only = {"optional", "nullable"}
    names = set()

    def walk(n):
        if isinstance(n, dict):
            if "rules" in n and isinstance(n["rules"], list):
                for r in n["rules"]:
                    if isinstance(r, dict) and "n" in r:
                        if r["n"] == "type" and isinstance(r.get("v"), dict) and r["v"].get("s") == "any":
                            continue
                        names.add(r["n"])
            for v in n.values():
                walk(v)
        elif isinstance(n, list):
            for v in n:
                walk(v)
    walk(schema)
    return "C01" if names <= shape_only else "C02"


def diff_tier(work, rep, hbin, prop, n):
    """Differential amplification: the frozen copy (harness/ref) and the current tree on n random schemas x documents at Go speed; the calls on
    which they differ are judged by TLC (TraceSem). Only the differences that fall into this property's fragment are reported by it."""
    tr = work.path("diff.ndjson")
    p = vlib.run_harness(hbin, ["diffsem", "-n", str(n), "-out", tr], timeout=6000)
    if p.returncode != 0:
        raise vlib.Infra("diffsem failed: " + p.stderr.decode()[-2000:])
    s = summary_of(p.stderr)
    rep.notes["differential"] = {k: s[k] for k in ("schemas", "calls", "validate_differences", "check_differences", "example_differences")}
    rep.cov["evaluations"] += s["calls"]
    lines = list(vlib.read_ndjson(tr))
    bad = []
    if not lines:
        return bad
    r = vlib.tlc(work, "TraceSem", "TraceSem.cfg", consts={"TraceFile": '"%s"' % tr}, timeout=12000, heap="24g")
    rep.add_tlc(r, "TraceSem over %d calls on which the frozen copy and the current tree differ" % len(lines))
    if r.distinct != len(lines) + 1:
        raise vlib.Infra("trace not consumed: %d states for %d events" % (r.distinct, len(lines)))
    for l in r.tagged("@@MISMATCH"):
        m = json.loads(l)
        e = lines[m["line"] - 1]
        cls = _schema_class(e["schema"], e["env"])
        if e["op"] == "example":
            cls = "C15"
        elif e["op"] == "check":
            cls = "C04" if "violating-example" in m["what"] else "C08"
        if cls != prop:
            continue
        bad.append({"schema": e["text"], "doc": e.get("doctext", e.get("out")), "want": m["what"], "got": {"ok": e.get("ok"), "code": e.get("code")}, "abstract": e["schema"], "env": e["env"],
                    "opt": e["opt"], "what": "differs from the frozen copy and from the requirement"})
    return bad


def lex_diff_tier(work, rep, hbin, prop, n):
    """Differential amplification at the byte level (difflex): texts on which the frozen copy and the current tree differ are judged by
    TraceJsonText (verdict: C05, position: C17), TraceLen / TraceSchemaLen / TraceEnumLen (C14); a panic of the current tree is C07's."""
    d = work.path("difflex")
    os.makedirs(d, exist_ok=True)
    p = vlib.run_harness(hbin, ["difflex", "-corpus", os.path.join(vlib.REPO, "testdata"), "-n", str(n), "-outdir", d], timeout=6000)
    if p.returncode == 4:
        # a call on the current tree (or on the frozen copy) did not return: C07's, whatever property asked
        hang = [l for l in p.stderr.decode("utf-8", "replace").split("\n") if l.startswith("@@HANG ")]
        if prop == "C07":
            return [{"kind": "panic", "text": hang[0][7:] if hang else "", "what": "a scanner call did not return within 60 s"}]
        raise vlib.Infra("difflex: a call did not return (reported by C07): " + (hang[0] if hang else ""))
    if p.returncode != 0:
        raise vlib.Infra("difflex failed: " + p.stderr.decode()[-2000:])
    s = summary_of(p.stderr)
    rep.notes["differential_texts"] = s
    rep.cov["evaluations"] += s["texts"] * 6
    bad = []

    def judge(fname, module, handler):
        path = os.path.join(d, fname)
        lines = list(vlib.read_ndjson(path))
        if not lines:
            return
        if prop == "C07":
            for e in lines:
                if e.get("panic") or str(e.get("msg", "")).startswith("panic") or (e.get("msg") and not e.get("ok") and fname != "diff-jsoncheck.ndjson" and "panic" in str(e.get("msg"))):
                    bad.append({"kind": "panic", "text": e["text"], "what": "panic: " + str(e.get("panic") or e.get("msg"))})
            return
        r = vlib.tlc(work, module, module + ".cfg", consts={"TraceFile": '"%s"' % path}, timeout=12000, heap="24g")
        rep.add_tlc(r, "%s over %d calls on which the frozen copy and the current tree differ" % (module, len(lines)))
        if r.distinct != len(lines) + 1:
            raise vlib.Infra("trace not consumed: %d states for %d events" % (r.distinct, len(lines)))
        for l in r.tagged("@@MISMATCH"):
            m = json.loads(l)
            handler(lines[m["line"] - 1], m)

    def h_json(e, m):
        w = str(m.get("want", ""))
        if w.startswith("position:"):
            if prop == "C17":
                bad.append({"kind": "position", "text": e["text"], "what": "error at %s, first dead byte at %s" % (e.get("pos"), w[9:]), "bytes": e["bytes"], "trailing": e["trailing"]})
        elif prop == "C05":
            bad.append({"kind": "verdict", "text": e["text"], "what": "Check says %s, the grammar says %s" % (e["ok"], w), "bytes": e["bytes"], "trailing": e["trailing"]})

    def h_len(e, m):
        if prop == "C14":
            bad.append({"kind": "len", "text": e["text"], "what": str(m.get("what")), "ok": e["ok"], "len": e["len"], "msg": e.get("msg")})

    judge("diff-jsoncheck.ndjson", "TraceJsonText", h_json)
    if prop in ("C14", "C07"):
        judge("diff-jsonlen.ndjson", "TraceLen", h_len)
        judge("diff-schemalen.ndjson", "TraceSchemaLen", h_len)
        judge("diff-enumlen.ndjson", "TraceEnumLen", h_len)
    return bad
