"""C04 - Check accepts a schema only if its own EXAMPLE obeys its rules. DESIGN.md section 3 / C04."""
import json
import vlib
from checks import semcommon

PROP = "C04"


def run(tier, argv):
    rep = vlib.Report(PROP, tier)
    work = vlib.Work(PROP)
    quick = tier == "quick"
    hbin = vlib.build_harness(work)
    raw = work.path("gen.txt")
    r = vlib.tlc(work, "GenCheck", "GenCheck.cfg", consts={"Level": "1" if quick else "2"}, to_file=raw, timeout=3000, heap="12g")
    rep.add_tlc(r, "GenCheck (GoodObeys, BadViolates: the generator is sound w.r.t. Sem!Verdict)")
    cases = work.path("cases.ndjson")
    n = 0
    with open(cases, "w") as f:
        for l in vlib.tagged_file(raw, "@@CASE"):
            f.write(l + "\n")
            n += 1
            if n % 1500 == 9:
                c = json.loads(l)
                rep.sample({"schema": c["schema"], "good": c["good"], "path": c["path"]})
    if n == 0:
        raise vlib.Infra("no cases")
    mm = work.path("mism.ndjson")
    p = vlib.run_harness(hbin, ["c04replay", "-cases", cases, "-out", mm], timeout=3000)
    if p.returncode != 0:
        raise vlib.Infra("c04replay failed: " + p.stderr.decode()[-2000:])
    s = semcommon.summary_of(p.stderr)
    rep.notes["replay"] = s
    bad = list(vlib.read_ndjson(mm))
    rep.cov["evaluations"] = n
    rep.cov["distinct_nontrivial"] = n
    rep.cov["traces_validated_against_impl"] = n
    rep.cov["exhaustive"] = True
    rep.cov["rule"] = ("%d schemas whose examples obey their rules (Check must pass and Validate must accept the schema's own example) and %d "
                       "single-rule corruptions in 4-7 container contexts (Check must fail at the offset of the corrupted value); the "
                       "obey/violate classification is checked by TLC against Sem!Verdict" % (s["good"], s["bad"]))
    dbad = semcommon.diff_tier(work, rep, hbin, PROP, 30000 if quick else 1500000)
    for b in dbad[:20]:
        rep.violation(b, "%s: %s | %s" % (b["want"], b["schema"].replace("\n", "\\n")[:200], json.dumps(b["got"])[:160]))
    for b in bad[:40]:
        rep.violation(b, "%s: %s | want_pos %s got %s" % (b["what"], b["schema"].replace("\n", "\\n")[:200], b["want_pos"], json.dumps(b["got"])[:200]))
    rep.violations = len(bad) + len(dbad)
    rep.finish()
