"""C13 - meaning is invariant under surface syntax of schema and document. DESIGN.md section 3 / C13."""
import json
import vlib
from checks import semcommon

PROP = "C13"


def run(tier, argv):
    rep = vlib.Report(PROP, tier)
    work = vlib.Work(PROP)
    quick = tier == "quick"
    hbin = vlib.build_harness(work)
    raw = work.path("layouts.txt")
    r = vlib.tlc(work, "Surface", "Surface.cfg", consts={"Strength": "1" if quick else "2"}, to_file=raw, timeout=600)
    rep.add_tlc(r, "Surface (layout vectors with <= %s deviations from the house style; document spellings)" % ("1" if quick else "2"))
    lay = work.path("layouts.ndjson")
    nl = 0
    with open(lay, "w") as f:
        for tag in ("@@LAYOUT", "@@DOCSPELL"):
            for l in vlib.tagged_file(raw, tag):
                f.write(tag[2:] + " " + l + "\n")
                nl += 1
    if nl < 10:
        raise vlib.Infra("no layouts")
    bad = []
    tot = {"schemas": 0, "spellings": 0, "validations": 0}
    for mod, label, stride in (("GenRules", "rules", 4 if quick else 1), ("GenShape", "shape", 25 if quick else 5), ("GenTypes", "types", 1), ("GenExample", "example", 1)):
        docs, cases, nd, nc = semcommon.generate(work, rep, mod, mod + ".cfg", {"Level": "1"}, label)
        mm = work.path("mism-%s.ndjson" % label)
        p = vlib.run_harness(hbin, ["c13replay", "-docs", docs, "-cases", cases, "-layouts", lay, "-stride", str(stride), "-docstride", "9" if quick else "4", "-out", mm], timeout=6000)
        if p.returncode != 0:
            raise vlib.Infra("c13replay failed: " + p.stderr.decode()[-2000:])
        s = semcommon.summary_of(p.stderr)
        for k in tot:
            tot[k] += s[k]
        bad += list(vlib.read_ndjson(mm))
    # line structure: hand-written compact spellings against the house-style rendering of the same abstract schema (GenSpell)
    rawg = work.path("gen-spell.txt")
    r = vlib.tlc(work, "GenSpell", "GenSpell.cfg", to_file=rawg, timeout=600)
    rep.add_tlc(r, "GenSpell (compact spellings)")
    gcases = work.path("cases-spell.ndjson")
    ng = 0
    with open(gcases, "w") as f:
        for l in vlib.tagged_file(rawg, "@@CASE"):
            f.write(l + "\n")
            ng += 1
    if ng == 0:
        raise vlib.Infra("GenSpell produced no case")
    mmg = work.path("mism-spell.ndjson")
    p = vlib.run_harness(hbin, ["c13alt", "-cases", gcases, "-out", mmg], timeout=600)
    if p.returncode != 0:
        raise vlib.Infra("c13alt failed: " + p.stderr.decode()[-2000:])
    rep.notes["compact_spellings"] = semcommon.summary_of(p.stderr)
    bad += list(vlib.read_ndjson(mmg))
    tot["spellings"] += ng
    # fillers in the gaps between the tokens of seven schemas (Gaps.tla): one gap filled in the quick tier, every pair in the thorough one
    rawg = work.path("gaps.txt")
    rg = vlib.tlc(work, "Gaps", "Gaps.cfg", consts={"Strength": "1" if quick else "2"}, to_file=rawg, timeout=3000, workers=1, heap="8g")
    rep.add_tlc(rg, "Gaps: every gap (pair of gaps) of seven token lists x its fillers")
    gcases = work.path("gaps.ndjson")
    ngap = 0
    with open(gcases, "w") as f:
        for l in vlib.tagged_file(rawg, "@@CASE"):
            f.write(l + "\n")
            ngap += 1
    if ngap == 0:
        raise vlib.Infra("Gaps exported nothing")
    gpairs = work.path("gaps-pairs.ndjson")
    with open(gpairs, "w") as f:
        for l in vlib.tagged_file(rawg, "@@PAIR"):
            f.write(l + "\n")
    gm = work.path("gaps-mism.ndjson")
    p = vlib.run_harness(hbin, ["c13gaps", "-cases", gcases, "-pairs", gpairs, "-out", gm], timeout=3000)
    if p.returncode != 0:
        raise vlib.Infra("c13gaps failed: " + p.stderr.decode()[-2000:])
    sg = semcommon.summary_of(p.stderr)
    rep.notes["gaps"] = sg
    tot["spellings"] += sg["spellings"]
    tot["validations"] += sg["evaluations"]
    for b in vlib.read_ndjson(gm):
        bad.append({"what": "gap filler", "house": b["base"], "spelling": b["schema"], "doc": None, "detail": b["where"]})
    rep.notes["replay"] = tot
    rep.sample({"layout_count": nl})
    rep.cov["evaluations"] = tot["spellings"] + tot["validations"]
    rep.cov["distinct_nontrivial"] = tot["spellings"]
    rep.cov["traces_validated_against_impl"] = tot["validations"]
    rep.cov["rule"] = ("%d schemas x every layout vector TLC enumerated (line ends, indentation, inline/block/spread annotations, # and ### comments, notes, quoted rule "
                       "names, trailing comma, reversed rules, blanks inside empty brackets and around ':' ','): Check, AST (comments aside, rule maps unordered) and "
                       "verdicts against the TLC verdict vectors; documents in 18 spellings (whitespace, property order, escapes)" % tot["schemas"])
    return rep, bad


def finish(rep, bad):
    for b in bad[:40]:
        rep.violation(b, "%s: %s | spelling %s | doc %s | %s" % (b["what"], b["house"].replace("\n", "\\n")[:100], b["spelling"].replace("\n", "\\n").replace("\r", "\\r")[:160], (b.get("doc") or "")[:60], b["detail"][:200]))
    rep.violations = len(bad)
    rep.finish()


_run = run


def run(tier, argv):  # noqa: F811
    rep, bad = _run(tier, argv)
    finish(rep, bad)
