"""C19 - ordered maps behave as insertion-ordered maps. DESIGN.md section 3 / C19."""
import json
import vlib

PROP = "C19"


def summary_of(stderr):
    for l in stderr.decode("utf-8", "replace").split("\n"):
        if l.startswith("@@SUMMARY "):
            return json.loads(l[len("@@SUMMARY "):])
    raise vlib.Infra("harness gave no summary: " + stderr.decode("utf-8", "replace")[-2000:])


def run(tier, argv):
    rep = vlib.Report(PROP, tier)
    work = vlib.Work(PROP)
    quick = tier == "quick"
    # 1. the specification: implementation-shaped map (Go slice semantics) against the reference map, all histories
    r = vlib.tlc(work, "OMapProduct", "OMapProduct.cfg", timeout=900)
    rep.add_tlc(r, "OMapProduct 3 keys x 2 values (RefWellFormed, SameItems, SameLen, OrderMonotone)")
    for sw in ("DeleteAbsentDropsLast", "FilterRangesWhileDeleting", "FilterDeletesBeforePanic"):
        rv = vlib.tlc(work, "OMapProduct", "OMapProduct.cfg", consts={sw: "TRUE"}, allow_violation=True, timeout=900)
        if not rv.violation:
            raise vlib.Infra("vacuous product: switch %s no longer violates SameItems" % sw)
    # 2. export the reference graph with every state's observer outputs
    raw = work.path("graph.txt")
    r = vlib.tlc(work, "OMapProduct", "OMapProduct.cfg", consts={"Export": "TRUE"}, to_file=raw, timeout=900)
    rep.add_tlc(r, "OMapProduct export")
    gp = work.path("graph.ndjson")
    n = 0
    with open(gp, "w") as f:
        for tag, kind in (("@@S", "S"), ("@@T", "T")):
            for l in vlib.tagged_file(raw, tag):
                f.write('{"kind":"%s",%s\n' % (kind, l[1:]))
                n += 1
    if n < 100:
        raise vlib.Infra("reference graph export too small")
    # 3. all operation sequences on the real maps
    hbin = vlib.build_harness(work)
    mm = work.path("mism.ndjson")
    p = vlib.run_harness(hbin, ["c19", "-graph", gp, "-len", "4" if quick else "6", "-random", "400" if quick else "20000", "-out", mm], timeout=6000)
    if p.returncode != 0:
        raise vlib.Infra("c19 failed: " + p.stderr.decode()[-2000:])
    s = summary_of(p.stderr)
    rep.notes["replay"] = {k: v for k, v in s.items() if k != "samples"}
    for x in s["samples"]:
        rep.sample(x)
    bad = list(vlib.read_ndjson(mm))
    # 4. goroutine mixes under the race detector (observed, not modelled: DESIGN section 7)
    hr = vlib.build_harness(work, race=True, name="harness-race")
    p = vlib.run_harness(hr, ["c19race", "-rounds", "12" if quick else "120"], timeout=3000, env_extra={"GORACE": "halt_on_error=0 exitcode=66"})
    err = p.stderr.decode("utf-8", "replace")
    races = err.count("WARNING: DATA RACE")
    if p.returncode == 67:
        i = err.find("@@HANG")
        bad.append({"map": "concurrent", "ops": ["goroutine mix"], "what": "the goroutines never finished (they block each other): " + err[i:i + 200].split("\n")[0] + ("; race detector: %d reports" % races)})
    elif p.returncode == 68:
        i = err.find("@@INCONSISTENT")
        bad.append({"map": "concurrent", "ops": ["goroutine mix"], "what": "after the goroutines finished the map is no insertion-ordered map: " + err[i:i + 400].split("\n")[0]})
    elif p.returncode not in (0, 66):
        raise vlib.Infra("c19race failed: " + err[-2000:])
    if races:
        i = err.find("WARNING: DATA RACE")
        bad.append({"map": "concurrent", "ops": ["goroutine mix"], "what": "race detector: %d reports; first: %s" % (races, err[i:i + 900])})
    elif p.returncode not in (67, 68):
        rep.notes["race_calls"] = summary_of(p.stderr)["calls"]
    rep.cov["evaluations"] = s["sequences"]
    rep.cov["distinct_nontrivial"] = s["sequences"]
    rep.cov["traces_validated_against_impl"] = s["sequences"]
    rep.cov["exhaustive"] = True
    rep.cov["rule"] = ("all sequences of length <= %s over 16 mutator instances (Set 3x2, Update 3, Delete 3, Filter 2, Map 2 incl. a failing callback) on "
                       "ASTNodes, RuleASTNodes (zero value and MakeRuleASTNodes) and schema.Constraints, every observer compared with the TLC-exported "
                       "reference state after the last operation; random length-200 sequences observed after every step; goroutine mixes under -race"
                       % ("4" if quick else "6"))
    for b in bad[:30]:
        rep.violation(b, "%s after %s: %s" % (b["map"], " ; ".join(b["ops"][-8:]), b["what"]))
    rep.violations = len(bad)
    rep.assumptions = ["data-race freedom is observed with the Go race detector on harness-produced schedules, not proved",
                       "schema.Constraints is driven through the overlay-injected file hooks/notations/jschema/verif_constraints.go"]
    rep.finish()
