"""C17 - errors point at the offending byte and render correctly. DESIGN.md section 3 / C17."""
import json
import vlib
from checks import semcommon, jsongraph

PROP = "C17"


def language_differences(notes_path, part):
    """A text the reference automaton rejects - it cannot be continued, or it ends early - has a parsing error (the statement says where);
    a text it accepts has none. The scanner-level call has nothing to refuse in a text without any value yet (blanks, comments only:
    that is Check's business), every other difference of the two languages is a violation. (At most two texts per state are kept.)"""
    out = []
    for m in vlib.read_ndjson(notes_path):
        want, _, where = m["want"].partition(" in ")
        state = where.split("/")[0].strip('"')
        no_value_yet = state == "lead" or '"lead"' in where
        if m["got"]["ok"] and want == "reject" and no_value_yet:
            continue
        out.append({"part": part, "what": "no parsing error" if m["got"]["ok"] else "parsing error in a text that can be continued", "content": m["bytes"], "pos": m.get("want_pos", -1),
                    "want": m["want"][:80], "got": json.dumps(m["got"])[:160], "trailing": False})
    return out


def run(tier, argv):
    rep = vlib.Report(PROP, tier)
    work = vlib.Work(PROP)
    quick = tier == "quick"
    hbin = vlib.build_harness(work)
    bad = []
    # (iii) rendering: every content over {a, sp, tab, LF, CR} up to 5 / 7 bytes x every position, plus long lines
    raw = work.path("gen.txt")
    r = vlib.tlc(work, "GenErr", "GenErr.cfg", consts={"MaxLen": "5" if quick else "7"}, to_file=raw, timeout=6000, heap="16g")
    rep.add_tlc(r, "GenErr (Err!Render)")
    cases = work.path("cases.ndjson")
    n = 0
    with open(cases, "w") as f:
        for l in vlib.tagged_file(raw, "@@CASE"):
            f.write(l + "\n")
            n += 1
            if n % 4000 == 17:
                rep.sample(json.loads(l))
    mm = work.path("mism.ndjson")
    p = vlib.run_harness(hbin, ["c17render", "-cases", cases, "-out", mm], timeout=6000)
    if p.returncode != 0:
        raise vlib.Infra("c17render failed: " + p.stderr.decode()[-2000:])
    s = semcommon.summary_of(p.stderr)
    rep.notes["render"] = s
    for m in vlib.read_ndjson(mm):
        m["part"] = "render"
        bad.append(m)
    # (i) parse errors: position = first byte that cannot continue the text (last byte when the input ends early),
    #     on the transition cover of the TLC-exported RFC 8259 automaton (same machinery as C05, positions compared)
    depth = 2 if quick else 4
    tests = 0
    for trailing in (False, True):
        label = "t" if trailing else "n"
        gpath, g = jsongraph.export_graph(work, depth, trailing, rep, label)
        out = work.path("pos-%s.ndjson" % label)
        args = ["c05graph", "-graph", gpath, "-out", out, "-positions", "-enum", "5" if quick else "6", "-enumalpha", '{}[],:"\\-01.e+ t']
        if trailing:
            args.append("-trailing")
        p = vlib.run_harness(hbin, args, timeout=3000)
        if p.returncode != 0:
            raise vlib.Infra("c05graph failed: " + p.stderr.decode()[-2000:])
        for l in p.stderr.decode().split("\n"):
            if l.startswith("@@SUMMARY "):
                sm = json.loads(l[10:])
                tests += sm["tests"] - sm["unspecified"]
                rep.notes.setdefault("positions", []).append({k: sm[k] for k in ("states", "transitions", "tests", "mismatches")})
        for m in vlib.read_ndjson(out):
            if m["what"] == "position":
                bad.append({"part": "parse-position", "what": "position", "content": m["bytes"], "pos": m["want_pos"], "want": str(m["want_pos"]), "got": str(m["got"].get("pos")), "trailing": m["trailing"]})
    # (i') parse errors of the schema notation: the reference automaton of SchemaText (annotations, comments, shortcuts, rule objects),
    #      walked through the real schema scanner; wherever both reject, the position is the first dead byte / the last byte
    sd, srd = (1, 1) if quick else (2, 1)
    gpath, g = jsongraph.export_schema_graph(work, sd, srd, rep, "a")
    out = work.path("spos.ndjson")
    notes = work.path("snotes.ndjson")
    # real texts as well: every prefix of every filled spelling of the Gaps token lists (schemas only)
    rawg = work.path("gaps.txt")
    rg = vlib.tlc(work, "Gaps", "Gaps.cfg", consts={"Strength": "1"}, to_file=rawg, timeout=3000, workers=1, heap="8g")
    rep.add_tlc(rg, "Gaps (texts whose prefixes are located)")
    ptexts = work.path("prefix-texts.ndjson")
    with open(ptexts, "w") as f:
        for l in vlib.tagged_file(rawg, "@@CASE"):
            c = json.loads(l)
            if c["kind"] == "schema":
                f.write(json.dumps(c["text"]) + "\n")
    p = vlib.run_harness(hbin, ["c05graph", "-graph", gpath, "-out", out, "-positions", "-sut", "schema", "-notes", notes, "-prefixes", ptexts], timeout=6000)
    if p.returncode != 0:
        raise vlib.Infra("c05graph (schema) failed: " + p.stderr.decode()[-2000:])
    for l in p.stderr.decode().split("\n"):
        if l.startswith("@@SUMMARY "):
            sm = json.loads(l[10:])
            if sm["located"] == 0:
                raise vlib.Infra("vacuous: no schema parse error was located")
            tests += sm["located"]
            rep.notes["schema_positions"] = {k: sm[k] for k in ("states", "transitions", "tests", "located", "unspecified", "lenient", "strict", "mismatches")}
    for m in vlib.read_ndjson(out):
        if m["what"] == "position":
            bad.append({"part": "schema-parse-position", "what": "position", "content": m["bytes"], "pos": m["want_pos"], "want": str(m["want_pos"]), "got": str(m["got"].get("pos")), "trailing": False})
        elif m["what"] == "panic":
            bad.append({"part": "schema-parse-position", "what": "panic", "content": m["bytes"], "pos": m["want_pos"], "want": m["want"], "got": json.dumps(m["got"])[:160], "trailing": False})
    rep.notes["schema_language_differences"] = [{"text": bytes(m["bytes"]).decode("latin-1"), "spec": m["want"], "scanner_ok": m["got"]["ok"]} for m in list(vlib.read_ndjson(notes))[:12]]
    bad += language_differences(notes, "schema-parse-position")
    # (i'') parse errors of the enum-rule notation: reference automaton of EnumText through Enum.Check
    gpe, ge = jsongraph.export_enum_graph(work, rep, "a")
    oute = work.path("epos.ndjson")
    enotes = work.path("enotes.ndjson")
    p = vlib.run_harness(hbin, ["c05graph", "-graph", gpe, "-out", oute, "-positions", "-sut", "enum", "-notes", enotes], timeout=3000)
    if p.returncode != 0:
        raise vlib.Infra("c05graph (enum) failed: " + p.stderr.decode()[-2000:])
    for l in p.stderr.decode().split("\n"):
        if l.startswith("@@SUMMARY "):
            sm = json.loads(l[10:])
            if sm["located"] == 0:
                raise vlib.Infra("vacuous: no enum parse error was located")
            tests += sm["located"]
            rep.notes["enum_positions"] = {k: sm[k] for k in ("states", "transitions", "tests", "located", "unspecified", "lenient", "strict", "mismatches")}
    for m in vlib.read_ndjson(oute):
        if m["what"] in ("position", "panic"):
            bad.append({"part": "enum-parse-position", "what": m["what"], "content": m["bytes"], "pos": m["want_pos"], "want": str(m["want_pos"]), "got": json.dumps(m["got"])[:160], "trailing": False})
    bad += language_differences(enotes, "enum-parse-position")
    # (i-regex) the token of a regex type
    gpr, gr = jsongraph.export_regex_graph(work, rep, "a")
    outr = work.path("rpos.ndjson")
    p = vlib.run_harness(hbin, ["c05graph", "-graph", gpr, "-out", outr, "-positions", "-sut", "regex"], timeout=3000)
    if p.returncode != 0:
        raise vlib.Infra("c05graph (regex) failed: " + p.stderr.decode()[-2000:])
    for l in p.stderr.decode().split("\n"):
        if l.startswith("@@SUMMARY "):
            sm = json.loads(l[10:])
            tests += sm["located"]
            rep.notes["regex_positions"] = {k: sm[k] for k in ("states", "transitions", "tests", "located", "unspecified", "mismatches")}
    for m in vlib.read_ndjson(outr):
        if m["what"] in ("position", "panic"):
            bad.append({"part": "regex-parse-position", "what": m["what"], "content": m["bytes"], "pos": m["want_pos"], "want": str(m["want_pos"]), "got": json.dumps(m["got"])[:160], "trailing": False})
    # (i-diff) differential amplification: documents on which the frozen copy and the current tree report different positions
    for b in semcommon.lex_diff_tier(work, rep, hbin, PROP, 200000 if quick else 20000000):
        bad.append({"part": "parse-position (differential)", "what": "position", "content": b["bytes"], "pos": -1, "want": b["what"], "got": "", "trailing": b.get("trailing", False)})
    # (ii) validation errors: position = start of the offending value / key / enclosing object (first violation in document order)
    docs, pcases, nd, nc = semcommon.generate(work, rep, "GenErrPos", "GenErrPosQuick.cfg" if quick else "GenErrPos.cfg", {"Level": "1"}, "pos")
    pm = work.path("posmism.ndjson")
    p = vlib.run_harness(hbin, ["c17pos", "-docs", docs, "-cases", pcases, "-out", pm], timeout=6000)
    if p.returncode != 0:
        raise vlib.Infra("c17pos failed: " + p.stderr.decode()[-2000:])
    sp = semcommon.summary_of(p.stderr)
    rep.notes["validation_positions"] = sp
    for m in vlib.read_ndjson(pm):
        bad.append({"part": "validation-position", "what": m["at"], "content": list(m["doc"].encode()), "pos": m["want_pos"], "want": str(m["want_pos"]),
                    "got": json.dumps(m["got"])[:160], "schema": m["schema"]})
    tests += sp["located_violations"]
    # (ii') one rule broken by one value (bound, length, enum, pattern, item count) at the root, in objects and in arrays
    docs2, cases2, nd2, nc2 = semcommon.generate(work, rep, "GenErrPosRules", "GenErrPosRules.cfg", None, "posrules")
    pm2 = work.path("posmism2.ndjson")
    p = vlib.run_harness(hbin, ["c17pos", "-docs", docs2, "-cases", cases2, "-out", pm2], timeout=600)
    if p.returncode != 0:
        raise vlib.Infra("c17pos (rules) failed: " + p.stderr.decode()[-2000:])
    sp2 = semcommon.summary_of(p.stderr)
    if sp2["located_violations"] != nc2:
        raise vlib.Infra("rule positions: %d of %d cases were run (a fixture schema is rejected by Check)" % (sp2["located_violations"], nc2))
    rep.notes["rule_violation_positions"] = sp2
    for m in vlib.read_ndjson(pm2):
        bad.append({"part": "validation-position", "what": m["at"] + " (rule)", "content": list(m["doc"].encode()), "pos": m["want_pos"], "want": str(m["want_pos"]),
                    "got": json.dumps(m["got"])[:160], "schema": m["schema"]})
    tests += sp2["located_violations"]
    rep.cov["evaluations"] = n + tests
    rep.cov["distinct_nontrivial"] = n + tests
    # the error of a type that does not load, converted: file, position and code of the type's own Check (every prefix of four type texts)
    cm = work.path("conv.ndjson")
    p = vlib.run_harness(hbin, ["c17conv", "-out", cm], timeout=600)
    if p.returncode != 0:
        raise vlib.Infra("c17conv failed: " + p.stderr.decode()[-2000:])
    rep.notes["converted_addtype_errors"] = semcommon.summary_of(p.stderr)
    for m in vlib.read_ndjson(cm):
        bad.append({"part": "converted-error", "what": m["what"], "content": m["content"], "pos": -1, "want": m["want"], "got": m["got"]})
    # positions far into long documents: arrays of up to 70 000 items with one odd item, the error must be at its offset (TraceSem)
    for b in semcommon.random_tier(work, rep, hbin, False, 0):
        bad.append({"part": "validation-position (long arrays)", "what": "position", "content": list(b["doc"].encode()), "pos": b["want"], "want": b["want"], "got": json.dumps(b["got"])})
    rep.cov["traces_validated_against_impl"] = n + tests
    rep.cov["exhaustive"] = True
    rep.cov["rule"] = ("rendering: all contents over {a, space, tab, LF, CR} up to %s bytes x all positions + long lines around the 200-byte cut (%d cases), expected "
                       "line / text / caret by Err!Render; parse positions: transition cover of the exported RFC 8259 automaton (nesting <= %d) with the first "
                       "dead byte as expected position, and of the exported automaton of the schema notation (SchemaText: annotations, comments, shortcuts, rule objects) "
                       "through the schema scanner (%d strings located)" % ("5" if quick else "7", n, depth, tests))
    return rep, bad


def finish(rep, bad):
    for b in bad[:40]:
        rep.violation(b, "%s/%s: content %r pos %s want %s got %s" % (b["part"], b["what"], bytes(b["content"])[:60], b["pos"], b["want"], b["got"]))
    rep.violations = len(bad)
    rep.assumptions = ["line numbers only for pure LF / CR / CRLF contents; text of all-blank lines, caret inside indentation and truncation of indented long lines are unspecified"]
    rep.finish()


_run = run


def run(tier, argv):  # noqa: F811
    rep, bad = _run(tier, argv)
    finish(rep, bad)
