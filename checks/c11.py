"""C11 - results are deterministic, history-independent and stable. DESIGN.md section 3 / C11."""
import json
import vlib
from checks import semcommon

PROP = "C11"
KF_SHARED = "C11-shared-allof-type-compiled-in-place"
KF_SHARED_TEXT = ("a user-type object with an allOf rule that was added to two roots is expanded in place by the first root that compiles: a root that lacks the "
                  "inherited type (@item = '{ // {allOf: \"@base\"} \"id\": 1 }' in s5 without @base, in s6 with it) fails with 1302 when it compiles first "
                  "but compiles when s6 compiled before it; compiler_all_of.go processNode / extendWith (same root cause as the C12 finding)")


def run(tier, argv):
    rep = vlib.Report(PROP, tier)
    work = vlib.Work(PROP)
    quick = tier == "quick"
    hbin = vlib.build_harness(work)
    raw = work.path("gen.txt")
    L = "3" if quick else "4"
    r = vlib.tlc(work, "Life", "Life.cfg", consts={"MaxLen": L}, to_file=raw, timeout=6000, heap="24g")
    rep.add_tlc(r, "Life: all histories of length %s over 51 operation instances (NoHistoryNeeded; cursor expectations)" % L)
    raws = work.path("gen-shared.txt")
    Ls = "4" if quick else "5"
    r = vlib.tlc(work, "Life", "Life.cfg", consts={"MaxLen": Ls, "World": '"shared"'}, to_file=raws, timeout=6000, heap="24g")
    rep.add_tlc(r, "Life, shared world: all histories of length %s over two roots holding the same user-type object (one of them fails to compile)" % Ls)
    raws2 = work.path("gen-shared2.txt")
    r = vlib.tlc(work, "Life", "Life.cfg", consts={"MaxLen": Ls, "World": '"shared2"'}, to_file=raws2, timeout=6000, heap="24g")
    rep.add_tlc(r, "Life, shared2 world: all histories of length %s over a root naming @A and a root inheriting from @A and @B (same type objects)" % Ls)
    raws3 = work.path("gen-shared3.txt")
    r = vlib.tlc(work, "Life", "Life.cfg", consts={"MaxLen": Ls, "World": '"shared3"'}, to_file=raws3, timeout=6000, heap="24g")
    rep.add_tlc(r, "Life, shared3 world: all histories of length %s over a root with KeysAreOptionalByDefault and a root without it (same type object)" % Ls)
    raws4 = work.path("gen-shared4.txt")
    r = vlib.tlc(work, "Life", "Life.cfg", consts={"MaxLen": Ls, "World": '"shared4"'}, to_file=raws4, timeout=6000, heap="24g")
    rep.add_tlc(r, "Life, shared4 world: all histories of length %s over two roots holding one type object that refers to a type only one of them has" % Ls)
    rawd = work.path("gen-docs.txt")
    Ld = "4" if quick else "5"
    r = vlib.tlc(work, "Life", "Life.cfg", consts={"MaxLen": Ld, "World": '"docs"'}, to_file=rawd, timeout=6000, heap="24g")
    rep.add_tlc(r, "Life, documents only: all histories of length %s over Check / Len / NextLexeme / drain / Validate on three persistent documents" % Ld)
    cases, docs = work.path("cases.ndjson"), work.path("docs.json")
    n = 0
    with open(cases, "w") as f:
        for src in (raw, raws, raws2, raws3, raws4, rawd):
            for l in vlib.tagged_file(src, "@@CASE"):
                f.write(l + "\n")
                n += 1
                if n % 30000 == 11:
                    rep.sample(json.loads(l))
    for l in vlib.tagged_file(raw, "@@DOCS"):
        open(docs, "w").write(l)
    mm = work.path("mism.ndjson")
    p = vlib.run_harness(hbin, ["c11replay", "-cases", cases, "-docs", docs, "-out", mm], timeout=6000)
    if p.returncode != 0:
        raise vlib.Infra("c11replay failed: " + p.stderr.decode()[-2000:])
    s = semcommon.summary_of(p.stderr)
    rep.notes["replay"] = s
    bad = []
    kf = {f["id"] for f in vlib.known_findings(PROP) if f["status"] == "known"}
    for m in vlib.read_ndjson(mm):
        if m.get("predicted"):
            if KF_SHARED in kf:
                continue
            m.pop("predicted")
        bad.append(m)
    if s.get("predicted_deviations", 0) > 0 and KF_SHARED in kf:
        rep.known(KF_SHARED, KF_SHARED_TEXT, s["predicted_deviations"])
    elif KF_SHARED in kf:
        rep.drift.append("the recorded finding %s was not observed: the switch SharedTypeCompiledInPlace no longer describes the tree" % KF_SHARED)
    # the requirement itself (switch off) predicts no deviation anywhere
    rq = vlib.tlc(work, "Life", "LifeReq.cfg", consts={"MaxLen": "3", "World": '"shared"'}, timeout=3000)
    rep.add_tlc(rq, "Life, shared world, switch off: NoDeviation")
    rep.cov["evaluations"] = s["steps"]
    rep.cov["distinct_nontrivial"] = s["histories"]
    rep.cov["traces_validated_against_impl"] = s["histories"]
    rep.cov["exhaustive"] = True
    rep.cov["rule"] = ("every history of exactly %s operations over 4 schemas (valid with types, invalid, optional recursion, overlapping key shortcuts), 3 fresh and 3 persistent "
                       "documents (valid, cut off, trailing garbage), an enum rule and a regex type; each step compared with the same call on fresh objects or with the "
                       "lexeme TLC computed for the document cursor; returned slices / ASTs / lists re-read at the end; "
                       "plus every history of %s operations over two roots that hold the same user-type object, one of which cannot be compiled, and every history of %s operations on the persistent documents alone" % (L, Ls, Ld))
    # scenarios built from scratch again and again in one process: every map iteration is randomised, the result must not move
    p = vlib.run_harness(hbin, ["c11fresh", "-reps", "150" if quick else "1500"], timeout=3000)
    if p.returncode != 0:
        raise vlib.Infra("c11fresh failed: " + p.stderr.decode()[-2000:])
    fresh = [json.loads(l) for l in p.stdout.decode().split("\n") if l.strip()]
    if not fresh:
        raise vlib.Infra("c11fresh gave no scenario")
    rep.notes["fresh_build_scenarios"] = [{"name": f["name"], "distinct_results": len(f["results"])} for f in fresh]
    for f in fresh:
        if len(f["results"]) > 1:
            ks = sorted(f["results"], key=lambda k: -f["results"][k])
            bad.append({"history": ["fresh build, repeated: " + f["name"]], "step": 0, "kind": "depends on map iteration", "want": "%s (%d times)" % (ks[0][:200], f["results"][ks[0]]),
                        "got": "%s (%d times)" % (ks[1][:200], f["results"][ks[1]])})
    bad += maporder_stage(work, rep, hbin, quick)
    return rep, bad


def canon(path, drop=("inflight",)):
    """order-insensitive canonical form of a result / mismatch file"""
    out = []
    try:
        for d in vlib.read_ndjson(path):
            if any(k in d for k in drop):
                continue
            for k in ("fresh_ok",):
                d.pop(k, None)
            out.append(json.dumps(d, sort_keys=True))
    except FileNotFoundError:
        pass
    return sorted(out)


def maporder_stage(work, rep, hbin, quick):
    """Force every range-over-map site of the library to ascending / descending / rotated order and re-run case files."""
    import os, subprocess
    tool = work.path("maporder")
    p = subprocess.run(["go", "build", "-o", tool, "."], cwd=os.path.join(vlib.VERIF, "maporder"), env=vlib.goenv(), stdout=subprocess.PIPE, stderr=subprocess.STDOUT, text=True)
    if p.returncode != 0:
        raise vlib.Infra("maporder tool build failed: " + p.stdout[-2000:])
    modir = work.path("mo")
    p = subprocess.run([tool, "-dir", vlib.REPO, "-out", modir], env=vlib.goenv(), stdout=subprocess.PIPE, stderr=subprocess.STDOUT, text=True)
    if p.returncode != 0:
        raise vlib.Infra("maporder rewrite failed: " + p.stdout[-2000:])
    ov = json.load(open(os.path.join(modir, "overlay.json")))
    rep.notes["maporder"] = {"sites": ov["sites"], "files": sorted(os.path.relpath(k, vlib.REPO) for k in ov["Replace"])}
    if ov["sites"] < 1:
        raise vlib.Infra("no range-over-map site found: rewriter broken?")
    hmo = vlib.build_harness(work, extra_overlay=ov["Replace"], name="harness-mo")
    jobs = []
    d, c, _, _ = semcommon.generate(work, rep, "GenTypes", "GenTypes.cfg", {"Level": "1"}, "mo-types")
    jobs.append(("types", lambda out, d=d, c=c: ["semreplay", "-docs", d, "-cases", c, "-out", out]))
    raw = work.path("mo-chk.txt")
    r = vlib.tlc(work, "GenChk", "GenChk.cfg", consts={"MaxRules": "2"}, to_file=raw, timeout=3000, heap="12g")
    rep.add_tlc(r, "GenChk (case file for the map-order runs)")
    cc = work.path("mo-chk.ndjson")
    with open(cc, "w") as f:
        for i, l in enumerate(vlib.tagged_file(raw, "@@CASE")):
            if quick and i % 4:
                continue
            f.write(l + "\n")
    jobs.append(("chk", lambda out, cc=cc: ["c08replay", "-cases", cc, "-out", out]))
    raw = work.path("mo-graph.txt")
    r = vlib.tlc(work, "GenGraph", "GenGraph.cfg", consts={"NTypes": "2", "Level": "2"}, to_file=raw, timeout=3000, heap="12g")
    rep.add_tlc(r, "GenGraph (case file for the map-order runs)")
    gc = work.path("mo-graph.ndjson")
    with open(gc, "w") as f:
        for l in vlib.tagged_file(raw, "@@CASE"):
            f.write(l + "\n")
    jobs.append(("graph", lambda out, gc=gc: ["c09replay", "-cases", gc, "-out", out]))
    raw = work.path("mo-graph4.txt")
    r = vlib.tlc(work, "GenGraph", "GenGraph.cfg", consts={"NTypes": "2", "Level": "4"}, to_file=raw, timeout=3000, heap="12g")
    rep.add_tlc(r, "GenGraph key-shortcut / rule-set family (case file for the map-order runs)")
    gc4 = work.path("mo-graph4.ndjson")
    with open(gc4, "w") as f:
        for l in vlib.tagged_file(raw, "@@CASE"):
            f.write(l + "\n")
    jobs.append(("graph4", lambda out, gc4=gc4: ["c09replay", "-cases", gc4, "-out", out]))
    bad = []
    runs = 0
    for label, mk in jobs:
        base = None
        for order in ("asc", "desc", "rot1", "rot2"):
            out = work.path("mo-%s-%s.ndjson" % (label, order))
            p = vlib.run_harness(hmo, mk(out), timeout=3000, env_extra={"VERIF_MAPORDER": order})
            if p.returncode not in (0,):
                raise vlib.Infra("map-order run %s/%s failed: %s" % (label, order, p.stderr.decode()[-1500:]))
            runs += 1
            cur = canon(out)
            if base is None:
                base = cur
            elif cur != base:
                diff = sorted(set(cur) ^ set(base))[:3]
                bad.append({"history": ["map order %s vs asc on the %s case file" % (order, label)], "step": 0, "kind": "map-iteration order changes results",
                            "want": "identical results", "got": " || ".join(x[:300] for x in diff)})
    rep.notes["maporder"]["runs"] = runs
    return bad


def finish(rep, bad):
    for b in bad[:40]:
        rep.violation(b, "%s | step %s (%s): want %s got %s" % (" ; ".join(b["history"]), b["step"], b["kind"], str(b["want"])[:160], str(b["got"])[:160]))
    rep.violations = len(bad)
    rep.finish()


_run = run


def run(tier, argv):  # noqa: F811
    rep, bad = _run(tier, argv)
    finish(rep, bad)
