"""C12 - a loaded schema can be shared by concurrent goroutines. DESIGN.md section 3 / C12."""
import json
import vlib
from checks import semcommon

PROP = "C12"
KF_ID = "C12-allof-shared-first-compile"
KF_TEXT = ("two schemas to which the same user-type object with an allOf rule was added, compiled for the first time concurrently: the second goroutine extends the "
           "shared type again and fails with a spurious 402 'Duplicate keys' (and the shared nodes are written without synchronisation): "
           "loader/compiler_all_of.go processNode is not atomic on a shared type")


KF2_ID = "C12-type-object-used-while-roots-compile"
KF2_TEXT = ("a type object that has an added type with an or rule, used directly (Check / Validate / ...) while roots that were given it compile for the first "
            "time: the type object's own compile adds the unnamed types of its added types to its table (loader.AddUnnamedTypes -> schema.AddType) while a "
            "root's compile reads that table (sortedTypeNames) - a data race on the map; results were equal in every run")


def run(tier, argv):
    rep = vlib.Report(PROP, tier)
    work = vlib.Work(PROP)
    quick = tier == "quick"
    kf = {f["id"] for f in vlib.known_findings(PROP) if f["status"] == "known"}
    bad = []
    # 1. the model with the repaired switches: every call returns its sequential result, compile body once, no shared buffer
    procs = '{"p1", "p2"}' if quick else '{"p1", "p2", "p3"}'
    r = vlib.tlc(work, "Conc", "Conc.cfg", consts={"Procs": procs}, timeout=3000, workers=8, heap="16g")
    rep.add_tlc(r, "Conc %s (CompiledOnce, OwnBytes, NoSpuriousError, NoSharedBuffer)" % procs)
    for sw, inv in (("CopyAfterPut", "OwnBytes"), ("AllOfNotAtomic", "NoSpuriousError")):
        rv = vlib.tlc(work, "Conc", "Conc.cfg", consts={sw: "TRUE"}, allow_violation=True, timeout=600)
        if not rv.violation:
            raise vlib.Infra("vacuous model: switch %s no longer violates %s" % (sw, inv))
    # 2. the pinned tree's model (processNode not atomic): every complete schedule of two first compiles, replayed through the gates
    raw = work.path("sched.txt")
    r = vlib.tlc(work, "Conc", "ConcExport.cfg", to_file=raw, timeout=600)
    rep.add_tlc(r, "Conc export of all two-compile schedules (AllOfNotAtomic)")
    scheds = [json.loads(l) for l in vlib.tagged_file(raw, "@@SCHED")]
    if not scheds:
        raise vlib.Infra("no schedules exported")
    sf = work.path("sched.ndjson")
    with open(sf, "w") as f:
        for s in scheds:
            f.write(json.dumps(s["sched"]) + "\n")
    hbin = vlib.build_harness(work)
    p = vlib.run_harness(hbin, ["c12sched", "-sched", sf], timeout=1200)
    if p.returncode != 0:
        raise vlib.Infra("c12sched failed: " + p.stderr.decode()[-2000:])
    res = [json.loads(l) for l in p.stdout.decode().split("\n") if l.strip()]
    if len(res) != len(scheds):
        raise vlib.Infra("schedule replay incomplete")
    predicted_fail = reproduced = 0
    for s, o in zip(scheds, res):
        pred = any(s["failed"].values())
        differs = o["concurrent"] != o["sequential"]
        predicted_fail += pred
        if differs and pred and KF_ID in kf:
            reproduced += 1
            rep.known(KF_ID, KF_TEXT)
        elif differs:
            bad.append({"what": "schedule gives a result the sequential run does not", "schedule": o["schedule"], "sequential": o["sequential"], "concurrent": o["concurrent"], "model_predicts_failure": pred})
        elif pred:
            rep.drift.append("model predicts a spurious error for %s, the real code returned the sequential result" % o["schedule"])
    rep.notes["schedules"] = {"replayed": len(scheds), "model_predicts_spurious_error": predicted_fail, "reproduced": reproduced}
    rep.sample({"schedule": res[0]["schedule"], "concurrent": res[0]["concurrent"]})
    # 3. goroutine mixes under the race detector
    hr = vlib.build_harness(work, race=True, name="harness-race")
    calls = 0
    for scenario in ("shared", "private", "sharedtypes", "sharedallof", "typeobject"):
        p = vlib.run_harness(hr, ["c12mix", "-scenario", scenario, "-rounds", "25" if quick else "400"], timeout=6000, env_extra={"GORACE": "halt_on_error=0 exitcode=66"})
        err = p.stderr.decode("utf-8", "replace")
        if p.returncode not in (0, 66):
            # (the race detector's reports and the runtime's last words share stderr and may be interleaved)
            i = err.find("fatal error: concurrent map")
            if i < 0 and "fatal error:" in err and "concurrent map" in err:
                i = err.find("fatal error:")
            in_allof = "compiler_all_of" in err[max(i, 0):max(i, 0) + 3000]
            if i >= 0 and not (scenario == "sharedallof" and KF_ID in kf and in_allof):
                # the Go runtime itself names unsynchronised access to a map: the run is evidence, not a dead driver
                bad.append({"what": "goroutine mix: the Go runtime aborted the process: " + err[i:i + 60].split("\n")[0], "scenario": scenario, "first_race": err[i:i + 1500]})
                rep.notes.setdefault("mixes", []).append({"scenario": scenario, "aborted": True})
                continue
            heads = [l for l in err.split("\n") if l.startswith("fatal error:") or l.startswith("panic:")]
            raise vlib.Infra("c12mix failed: %s ... %s" % (heads[:3], err[-2000:]))
        races = err.count("WARNING: DATA RACE")
        sm = None
        for l in err.split("\n"):
            if l.startswith("@@SUMMARY "):
                sm = json.loads(l[10:])
        if sm is None:
            raise vlib.Infra("c12mix gave no summary: " + err[-1500:])
        calls += sm["calls"]
        rep.notes.setdefault("mixes", []).append({"scenario": scenario, "calls": sm["calls"], "result_differences": sm["diffs"], "race_reports": races})
        if races or sm["diffs"]:
            blocks = err.split("WARNING: DATA RACE")[1:]
            if scenario == "sharedallof" and KF_ID in kf:
                rep.known(KF_ID, KF_TEXT)
            elif scenario == "typeobject" and KF2_ID in kf and not sm["diffs"] and all("AddUnnamedTypes" in b for b in blocks):
                # the recorded finding: every report is the type object's table written by its own compile and read by a root's
                rep.known(KF2_ID, KF2_TEXT, len(blocks))
            else:
                i = err.find("WARNING: DATA RACE")
                bad.append({"what": "goroutine mix: %d race reports, %d result differences" % (races, sm["diffs"]), "scenario": scenario, "first_diff": sm.get("first_diff"),
                            "first_race": err[i:i + 1200] if i >= 0 else ""})
    rep.sample({"mix": rep.notes.get("mixes", [None])[0]})
    rep.cov["evaluations"] = calls + len(scheds)
    rep.cov["distinct_nontrivial"] = len(scheds) + 4
    rep.cov["traces_validated_against_impl"] = len(scheds)
    rep.cov["rule"] = ("every complete schedule TLC finds for two first compiles of roots sharing an allOf type, replayed through the committed scheduling points; "
                       "2..32 goroutines x 12 calls x rounds on a shared schema, private schemas, schemas sharing type objects (with and without allOf) under -race, each "
                       "result compared with the sequential run")
    return rep, bad


def finish(rep, bad):
    for b in bad[:40]:
        rep.violation(b, json.dumps(b)[:700])
    rep.violations = len(bad)
    rep.assumptions = ["data-race freedom is observed with the Go race detector on harness-produced schedules, not proved"]
    rep.finish()


_run = run


def run(tier, argv):  # noqa: F811
    rep, bad = _run(tier, argv)
    finish(rep, bad)
