"""C14 - Len reports exactly where an embedded schema, document or enum ends. DESIGN.md section 3 / C14."""
import json
import vlib
from checks import semcommon, jsongraph

PROP = "C14"


def run(tier, argv):
    rep = vlib.Report(PROP, tier)
    work = vlib.Work(PROP)
    quick = tier == "quick"
    hbin = vlib.build_harness(work)
    lvl = {"Level": "1"}
    files = []
    for mod, label in (("GenRules", "rules"), ("GenTypes", "types"), ("GenExample", "example")):
        docs, cases, nd, nc = semcommon.generate(work, rep, mod, mod + ".cfg", lvl, label)
        files.append(cases)
    docs, ecases, nd, nc = semcommon.generate(work, rep, "GenNamed", "GenNamed.cfg", lvl, "named")
    tr = work.path("trace.ndjson")
    p = vlib.run_harness(hbin, ["c14trace", "-cases", ",".join(files), "-enums", ecases, "-n", "400" if quick else "6000", "-out", tr], timeout=3000)
    if p.returncode != 0:
        raise vlib.Infra("c14trace failed: " + p.stderr.decode()[-2000:])
    lines = list(vlib.read_ndjson(tr))
    r = vlib.tlc(work, "TraceLen", "TraceLen.cfg", consts={"TraceFile": '"%s"' % tr}, timeout=6000, heap="16g")
    rep.add_tlc(r, "TraceLen over %d Len() calls" % len(lines))
    if r.distinct != len(lines) + 1:
        raise vlib.Infra("trace not consumed: %d states for %d events" % (r.distinct, len(lines)))
    bad = []
    for l in r.tagged("@@MISMATCH"):
        m = json.loads(l)
        e = lines[m["line"] - 1]
        bad.append({"what": m["what"], "dialect": e["dialect"], "text": e["text"], "ok": e["ok"], "len": e["len"], "msg": e.get("msg"),
                    "last": e.get("last"), "sep": e.get("sep")})
    for e in lines:
        if str(e.get("msg", "")).startswith("panic"):
            bad.append({"what": "panic", "dialect": e["dialect"], "text": e["text"], "ok": False, "len": -1, "msg": e["msg"]})
    # the schema dialect with the whole notation: access string of every state of the SchemaText automaton + separator + foreign tail,
    # judged on the bytes by TraceSchemaLen (SchemaText run by TLC over the logged text)
    gpath, g = jsongraph.export_schema_graph(work, 1, 1 if quick else 2, rep, "l")
    tr2 = work.path("slen.ndjson")
    p = vlib.run_harness(hbin, ["c14slen", "-graph", gpath, "-out", tr2], timeout=3000)
    if p.returncode != 0:
        raise vlib.Infra("c14slen failed: " + p.stderr.decode()[-2000:])
    lines2 = list(vlib.read_ndjson(tr2))
    r = vlib.tlc(work, "TraceSchemaLen", "TraceSchemaLen.cfg", consts={"TraceFile": '"%s"' % tr2}, timeout=6000, heap="16g")
    rep.add_tlc(r, "TraceSchemaLen over %d Schema.Len() calls" % len(lines2))
    if r.distinct != len(lines2) + 1:
        raise vlib.Infra("trace not consumed: %d states for %d events" % (r.distinct, len(lines2)))
    for l in r.tagged("@@MISMATCH"):
        m = json.loads(l)
        e = lines2[m["line"] - 1]
        bad.append({"what": m["what"], "dialect": "schema (notation automaton)", "text": e["text"], "ok": e["ok"], "len": e["len"], "msg": e.get("msg")})
    for e in lines2:
        if str(e.get("msg", "")).startswith("panic"):
            bad.append({"what": "panic", "dialect": "schema (notation automaton)", "text": e["text"], "ok": False, "len": -1, "msg": e["msg"]})
    lines = lines + [dict(e, dialect="schema-notation") for e in lines2]
    # the enum dialect the same way (EnumText)
    gpe, ge = jsongraph.export_enum_graph(work, rep, "l")
    tr3 = work.path("elen.ndjson")
    p = vlib.run_harness(hbin, ["c14slen", "-graph", gpe, "-dialect", "enum", "-out", tr3], timeout=3000)
    if p.returncode != 0:
        raise vlib.Infra("c14slen (enum) failed: " + p.stderr.decode()[-2000:])
    lines3 = list(vlib.read_ndjson(tr3))
    r = vlib.tlc(work, "TraceEnumLen", "TraceEnumLen.cfg", consts={"TraceFile": '"%s"' % tr3}, timeout=6000, heap="16g")
    rep.add_tlc(r, "TraceEnumLen over %d Enum.Len() calls" % len(lines3))
    if r.distinct != len(lines3) + 1:
        raise vlib.Infra("trace not consumed: %d states for %d events" % (r.distinct, len(lines3)))
    for l in r.tagged("@@MISMATCH"):
        m = json.loads(l)
        e = lines3[m["line"] - 1]
        bad.append({"what": m["what"], "dialect": "enum (notation automaton)", "text": e["text"], "ok": e["ok"], "len": e["len"], "msg": e.get("msg")})
    lines = lines + [dict(e, dialect="enum-notation") for e in lines3]
    # a regex type is a schema too: its Len is the length of the /P/ token whatever follows (reference automaton RegexText)
    gpr, gr = jsongraph.export_regex_graph(work, rep, "l", 6 if quick else 9)
    rout = work.path("rlen.ndjson")
    p = vlib.run_harness(hbin, ["c05graph", "-graph", gpr, "-out", rout, "-sut", "regex"], timeout=3000)
    if p.returncode != 0:
        raise vlib.Infra("c05graph (regex) failed: " + p.stderr.decode()[-2000:])
    rs = semcommon.summary_of(p.stderr)
    rep.notes["regex_token"] = {k: rs[k] for k in ("states", "transitions", "tests", "unspecified", "mismatches")}
    for m in vlib.read_ndjson(rout):
        if m["what"] == "len":
            bad.append({"what": m["want"], "dialect": "regex type", "text": bytes(m["bytes"]).decode("latin-1"), "ok": m["got"].get("ok"), "len": m["got"].get("pos"), "msg": m["got"].get("msg")})
    # every spelling of the Gaps token lists (schemas and the enum rule) that ends with its last token, followed by a line break and
    # foreign text: Len is the length of the spelling
    rawg = work.path("gaps.txt")
    rg = vlib.tlc(work, "Gaps", "Gaps.cfg", consts={"Strength": "1" if quick else "2"}, to_file=rawg, timeout=3000, workers=1, heap="8g")
    rep.add_tlc(rg, "Gaps (spellings followed by foreign text)")
    gcases = work.path("gaps.ndjson")
    with open(gcases, "w") as f:
        for l in vlib.tagged_file(rawg, "@@CASE"):
            f.write(l + "\n")
    gm = work.path("gaps-len.ndjson")
    p = vlib.run_harness(hbin, ["c13gaps", "-len", "-cases", gcases, "-out", gm], timeout=3000)
    if p.returncode != 0:
        raise vlib.Infra("c13gaps -len failed: " + p.stderr.decode()[-2000:])
    rep.notes["gaps_len"] = semcommon.summary_of(p.stderr)
    for m in vlib.read_ndjson(gm):
        bad.append({"what": m["where"][:120], "dialect": "spelling + foreign text", "text": m["schema"], "ok": None, "len": None, "msg": ""})
    for b in semcommon.lex_diff_tier(work, rep, hbin, PROP, 200000 if quick else 20000000):
        bad.append({"what": b["what"] + " (differs from the frozen copy)", "dialect": "differential", "text": b["text"], "ok": b.get("ok"), "len": b.get("len"), "msg": b.get("msg")})
    by = {}
    for e in lines:
        by[e["dialect"]] = by.get(e["dialect"], 0) + 1
    rep.notes["calls"] = by
    for e in lines[:: max(1, len(lines) // 6)]:
        rep.sample({"dialect": e["dialect"], "text": e["text"][:80], "len": e["len"], "ok": e["ok"]})
    rep.cov["evaluations"] = len(lines)
    rep.cov["distinct_nontrivial"] = len(lines)
    rep.cov["traces_validated_against_impl"] = len(lines)
    rep.cov["rule"] = ("random JSON texts (with separators, directive-like tails, truncations at random offsets, byte mutations) through Document.Len, and as plain schemas / "
                       "scalar arrays through Schema.Len / Enum.Len, judged on the bytes by the RFC 8259 automaton; generated schemas (rules, types, shortcuts, notes) "
                       "and enum rules in 4 layouts x 9 separators x 14 tails judged by LenSpec!InDomain; the access string of every state of the schema notation's reference automaton "
                       "(annotations, comments, shortcuts, rule objects) x separators x tails judged on the bytes by SchemaText")
    return rep, bad


def finish(rep, bad):
    for b in bad[:40]:
        rep.violation(b, "%s %s: %r -> ok=%s len=%s %s (last=%s sep=%s)" % (b["dialect"], b["what"], b["text"][:100], b["ok"], b["len"], (b.get("msg") or "")[:80], b.get("last"), b.get("sep")))
    rep.violations = len(bad)
    rep.finish()


_run = run


def run(tier, argv):  # noqa: F811
    rep, bad = _run(tier, argv)
    finish(rep, bad)
