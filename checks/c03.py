"""C03 - scalar rules admit exactly the values their definitions describe. DESIGN.md section 3 / C03."""
import json
import vlib
from checks import semcommon

PROP = "C03"


def run(tier, argv):
    rep = vlib.Report(PROP, tier)
    work = vlib.Work(PROP)
    quick = tier == "quick"
    # the implementation-shaped leaf discipline of validator/tree.go agrees with the requirement (and the recorded switch still breaks it)
    r = vlib.tlc(work, "ValTree", "ValTree.cfg", timeout=1200, workers=8)
    rep.add_tlc(r, "ValTree (Agree: parallel leaves with merging = Acc) over 54 array schemas x 40 documents")
    rv = vlib.tlc(work, "ValTree", "ValTree.cfg", consts={"DoneLeavesNotMerged": "TRUE"}, allow_violation=True, workers=8, timeout=1200)
    if not rv.violation:
        raise vlib.Infra("vacuous: switch DoneLeavesNotMerged no longer violates Agree")
    hbin = vlib.build_harness(work)
    docs, cases, nd, nc = semcommon.generate(work, rep, "GenTypes", "GenTypes.cfg", {"Level": "1" if quick else "2"}, "types")
    s, bad = semcommon.replay(work, hbin, docs, cases, "types")
    rep.notes["replay"] = s
    with open(cases) as f:
        for i, l in enumerate(f):
            if i % 150 == 7:
                rep.sample({"schema": json.loads(l)["schema"]})
    rep.cov["evaluations"] = s["evaluations"]
    rep.cov["distinct_nontrivial"] = s["evaluations"]
    rep.cov["traces_validated_against_impl"] = s["evaluations"]
    rep.cov["exhaustive"] = True
    rep.cov["rule"] = ("%d scalar schemas (rule-set families: min/max/exclusive*, precision, lengths, regex, enum, const, five formats, nullable, "
                       "false-valued rules) x %d probe values on/inside/outside every boundary; verdict vectors by Sem!ScalarVerdict "
                       "(three-valued, %d unspecified cells skipped)" % (nc, nd, s["unspecified"]))
    bad += semcommon.random_tier(work, rep, hbin, True, (500 if quick else 20000))
    bad += semcommon.diff_tier(work, rep, hbin, PROP, 30000 if quick else 1500000)
    for b in bad[:40]:
        rep.violation(b, "%s | doc %s | want %s got %s" % (b["schema"].replace("\n", "\\n")[:200], b.get("doc"), b["want"], json.dumps(b["got"])[:200]))
    rep.violations = len(bad)
    rep.finish()
