#!/bin/bash
# usage: tools_vet.sh <mutant dir with patch.diff demo_test.go demo.txt> <name>
# Confirms a seeded change in a scratch worktree of /repo HEAD: the patch applies, builds, the suite fails only in TestEnum_String,
# the demonstration fails with the patch and passes without it. Prints one line  VET <name> ok|<reason>.  Never touches /repo.
export GOFLAGS=-mod=mod GOPROXY=off GOSUMDB=off GOTOOLCHAIN=local
D=$1; NAME=$2
WT=/tmp/wt/vet-$NAME-$$
mkdir -p /tmp/wt
git -C /repo worktree add -q --detach $WT HEAD || { echo "VET $NAME worktree-failed"; exit 2; }
cleanup() { git -C /repo worktree remove --force $WT >/dev/null 2>&1; rm -rf $WT; }
trap cleanup EXIT
cd $WT
git apply --check $D/patch.diff 2>/dev/null || { echo "VET $NAME patch-does-not-apply"; exit 1; }
# place the demo
place=$(grep -o 'zz_demo[a-zA-Z0-9_/]*\|notations/[a-zA-Z0-9_/]*\|formats/[a-zA-Z0-9_/]*\|rules/[a-zA-Z0-9_/]*\|internal/[a-zA-Z0-9_/]*' $D/demo.txt | head -1)
pkgline=$(grep -m1 '^package ' $D/demo_test.go | awk '{print $2}')
if grep -q "zz_demo" $D/demo.txt; then DIR=zz_demo; else DIR=""; fi
if [ -z "$DIR" ]; then
  # derive the directory from the demo.txt "go test ... ./path" argument
  DIR=$(grep -o '\./[a-zA-Z0-9_/.]*' $D/demo.txt | grep -v '\.go' | head -1 | sed 's#^\./##; s#/\.\.\.$##; s#/$##')
fi
[ -z "$DIR" ] && DIR=zz_demo
mkdir -p $DIR
cp $D/demo_test.go $DIR/zz_demo_vet_test.go
RACE=""; grep -q -- "-race" $D/demo.txt && RACE="-race"
RUN=$(grep -o -- '-run [A-Za-z0-9_|]*' $D/demo.txt | head -1)
[ "$DIR" != "zz_demo" ] && [ -z "$RUN" ] && RUN="-run Demo"
[ "$DIR" = "zz_demo" ] && RUN=""
run_demo() { timeout 600 go test $RACE -vet=off -count=1 $RUN ./$DIR/ > /tmp/wt/vet-$NAME-$$.log 2>&1; }
run_demo; base=$?
[ $base -ne 0 ] && { echo "VET $NAME demo-fails-on-baseline (dir=$DIR)"; tail -5 /tmp/wt/vet-$NAME-$$.log; rm -f /tmp/wt/vet-$NAME-$$.log; exit 1; }
git apply $D/patch.diff
go build ./... > /tmp/wt/vet-$NAME-$$.log 2>&1 || { echo "VET $NAME does-not-build"; rm -f /tmp/wt/vet-$NAME-$$.log; exit 1; }
run_demo; mut=$?
[ $mut -eq 0 ] && { echo "VET $NAME demo-passes-with-patch (dir=$DIR)"; rm -f /tmp/wt/vet-$NAME-$$.log; exit 1; }
rm -f $DIR/zz_demo_vet_test.go; rmdir $DIR 2>/dev/null
fails=$(go test -vet=off -count=1 ./... 2>&1 | grep '^--- FAIL' | sort -u | tr '\n' ' ')
rm -f /tmp/wt/vet-$NAME-$$.log
if [ "$(echo "$fails" | sed -E "s/\([0-9.]+s\)//g")" != "--- FAIL: TestEnum_String  " ]; then echo "VET $NAME suite-differs: $fails"; exit 1; fi
echo "VET $NAME ok"
