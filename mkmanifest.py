#!/usr/bin/env python3
"""Regenerates MANIFEST.json from the table below (single place to keep it valid)."""
import json, os, subprocess

HERE = os.path.dirname(os.path.abspath(__file__))
ALL = ["C%02d" % i for i in range(1, 20)]

# property -> (technique, level text, level note, design ref)
CLAIMED = {
    "C05": ("TLA+ product automaton (ScanJson x JsonText) model-checked by TLC for all input lengths; TLC-exported RFC 8259 "
            "reference graph replayed as a W-method transition cover through Document.Check; TLC trace validation of mutated documents",
            "TLC proves language equality of the implementation-shaped scanner model and the RFC 8259 reference over all 256 bytes "
            "(state-merged, hence every input length, nesting bounded); the real code is bound to the reference by one generated test "
            "per transition x characterisation suffix, by exhaustive short strings, and by TLC validating traces of real Check calls.",
            "Assumes the real scanner has no more control states than the W-method bound; UTF-8 ill-formed bytes inside strings are unspecified; "
            "deep nesting only sampled.", "3/C05"),
    "C06": ("TLA+ requirement Events(tokens) (JsonEvents.tla); TLC enumerates bounded JSON token lists with expected events (GenJson) "
            "replayed through the JSON, schema and enum scanners; TLC trace validation (TraceEvents) of random deep texts",
            "Every text of the TLC-enumerated domain (all scalar forms, nesting <= 2/3, three layouts) must yield exactly the event list "
            "the specification computes, under 24 call preludes, and the same events when it stands embedded in foreign text under AllowTrailingNonSpaceCharacters; random texts to depth 8 x width 8 are validated event-for-event by TLC, "
            "which also evaluates nesting, span and rebuild clauses on the observed events.",
            "Internal schema/enum scanners are reached through overlay-injected export files (build tag verif); schema scanner compared only "
            "on exponent-free numerals and enum scanner only on duplicate-free scalar arrays (their input languages).", "3/C06"),
    "C19": ("TLA+ reference map (OMap) and implementation-shaped map with Go slice semantics (OMapImpl) explored in lock step by TLC over all "
            "histories; TLC-exported reference graph with observer outputs replayed over all operation sequences on the real generated maps; race detector",
            "TLC shows the implementation-shaped map equals the reference map through every observer after every history over 3 keys x 2 values "
            "(state-merged: every length) and that the two recorded defect switches still break it; every operation sequence up to length 4/6 is "
            "executed on ASTNodes, RuleASTNodes and schema.Constraints and all 13 methods are compared with the exported reference state.",
            "Data-race freedom is observed with the Go race detector on harness-produced goroutine mixes, not proved; Constraints.MarshalJSON is "
            "compared on entry count and key order only (it prints integer keys unquoted).", "3/C19"),
    "C10": ("TLA+ exact-decimal requirement (Num) vs implementation-shaped scanner/normaliser/Cmp (NumScan) checked by TLC on every numeral "
            "and all short pairs; TLC-computed normal forms replayed through the Number hook; implementation-sorted chain with TLC-validated links; "
            "TLC trace validation of random long numerals and API probes",
            "TLC checks value, fractional length and canonical form of the implementation-shaped model on every RFC numeral up to 5/7 characters and "
            "Cmp on all pairs up to 3/4 characters; the real Number is compared with TLC's normal form for every numeral, every adjacent link of the "
            "implementation-sorted chain is validated by TLC and every pair is checked against chain rank, so all pairs are decided.",
            "Number reached through an overlay-injected re-export package; integer classification of '1.0'-like literals unspecified; one recorded "
            "finding (0e1 rejected) is attributed only when the pinned-tree model predicts it.", "3/C10"),
    "C01": ("TLA+ denotational requirement Sem!AcceptsShape; TLC enumerates the rule-free fragment (schemas x documents x both key-optionality "
            "configurations) with verdict vectors; every pair replayed through jschema.Validate",
            "Every schema of the enumerated fragment (kinds, nullable/optional/any incl. explicit false values and any on empty containers, key orders, "
            "arrays to length 2, one/two nesting levels) is validated against every enumerated document (repeated keys, extra/missing keys, longer and "
            "shorter arrays, int/float/null swaps) and the verdict must equal the one TLC computed; TLC also checks order-independence and "
            "monotonicity of KeysAreOptionalByDefault on the requirement itself.",
            "Exhaustive only below the enumeration bounds (depth 2/3, width 2/3); deeper nesting covered by the random trace tier of C03's driver.", "3/C01"),
    "C02": ("TLA+ three-valued rule semantics (Sem!ScalarVerdict over exact decimals, decoded strings, an RE2-style regex matcher and format "
            "recognisers written in TLA+); TLC enumerates rule-set families x boundary probes with verdict vectors; replay through jschema.Validate",
            "Every generated scalar schema (numeric bounds with all exclusive/nullable/false-valued variants, decimal precision, string lengths, "
            "nine regexes, five formats, enum, const) is validated against every probe value placed on, just inside and just outside each "
            "boundary (long decimals, escape-heavy strings, kind confusions, null) and must give the verdict TLC computed; unspecified cells "
            "(other spellings of equal numerals in const/enum, non-core format strings, non-ASCII lengths) derive no verdict.",
            "Exhaustive over the enumerated families only; format accept/reject sets are core sets, the exact languages of net/mail, net/url, "
            "time.Parse and RE2 are not re-specified.", "3/C02"),
    "C03": ("TLA+ denotational requirement Sem!Verdict (union over referenced types / or-members with a least-fixpoint guard, transitive allOf, "
            "additionalProperties modes, key shortcuts judged by their string type); TLC enumerates roots x documents over a family of 19 user "
            "types with verdict vectors; replay through jschema.Validate (mesh protocol)",
            "Every enumerated value position (single and multiple references with and without nullable, type-rule references, or rules over "
            "references / kinds / inline rule-sets, arrays with item bounds, property positions, 13 additionalProperties modes, six key-shortcut "
            "objects, allOf chains and diamonds, optional recursion) is validated against every enumerated document and must give the TLC verdict; "
            "TLC also checks on the requirement that a multi-reference position is exactly the union of its single references.",
            "Exhaustive over the enumerated family only (<= 19 types in one environment); cells the statement leaves open (required shortcut "
            "without a matching key, keys matching several shortcuts with disagreeing entries, integers under additionalProperties float, "
            "non-empty containers for or-member object/array) derive no verdict.", "3/C03"),
    "C04": ("TLA+ requirement Sem!Verdict applied to a schema's own example (ExampleOf); TLC enumerates obeying schemas and single-rule "
            "corruptions in container / added-type contexts and proves the obey/violate classification; replay through Check, Validate and Position",
            "For every generated schema whose example obeys its rules: if the real Check succeeds the real Validate must accept the schema's "
            "own example text. For every single-rule corruption (bounds, exclusive bounds, precision, lengths, regex, formats, enum incl. "
            "same-text-other-kind, declared type, or without matching alternative, type reference of another kind, item counts) placed at the "
            "root, in properties, array positions, objects with additionalProperties, and inside added user types: Check must fail and report "
            "the offset of the corrupted value (type-local offset for values inside a type).",
            "Exhaustive over the enumerated rule families and 15 contexts only; Check rejecting an obeying schema is counted, not judged "
            "(that is C08's matrix).", "3/C04"),
    "C15": ("TLC trace validation (TraceSem): the RFC 8259 recogniser of JsonText and the denotational requirement Sem!Verdict are evaluated by TLC "
            "on the bytes / parsed value of every real Example() call over the TLC-enumerated schema domains",
            "For every Check-accepted schema of the GenTypes, GenRules, GenShape and GenExample domains (user types, or-alternatives of which only "
            "a later one terminates, key shortcuts, enum rules, allOf, optional recursion through first/middle/last property and array items, keys "
            "needing escapes) TLC decides that the returned bytes are one well-formed JSON text, that the requirement accepts the parsed value, "
            "and for plain-JSON schemas that the value is the example itself with no blank outside strings.",
            "Bytes are parsed into the abstract value by the harness (encoding/json token stream, order and numeral spelling kept) - TLC checks "
            "well-formedness independently on the raw bytes; exhaustive only over the enumerated domains.", "3/C15"),
    "C16": ("TLA+ requirement Ast!RootAST (one node per example value, token kind, literal text, schema type, rules as written with nested "
            "items, notes, generated rules of shortcuts); TLC enumerates schemas with their expected trees; structural replay of GetAST(). "
            "TLA+ module Bind: the loader's annotation binding as a two-layer model (reading of the notation = loader algorithm on every layout, "
            "two defect switches), every layout replayed through the real loader",
            "For every schema of the rule families and the special shapes (notes on every node kind, named and inline enums, allOf, key "
            "shortcuts, or rule-sets with nested enum, references with one/several names, nested and empty containers, escaped keys, "
            "non-canonical numerals in rule values, false-valued rules) the tree returned by GetAST() must equal the tree TLC computed, "
            "field by field, rule by rule, in order.",
            "Token kind of a quoted user-type name inside a rule (reference vs string) is left open by the statement and accepted either way; "
            "exhaustive only over the enumerated schemas.", "3/C16"),
    "C08": ("TLA+ three-valued requirement Chk!Structure (known / once / applicability by node kind and position / pair ordering / exclusive "
            "flags / precision-decimal / formats vs length rules / exclusivity of enum, or, any, type references; inert false-valued rules; "
            "rule-sets inside or) combined with Sem!Verdict on the node's own example; TLC enumerates kinds x positions x ordered rule lists; "
            "replay through Check with a per-permutation-class agreement test",
            "Every ordered list of up to 2 (quick) / 3 (thorough) rule instances on 9 node kinds in 3 positions gets the verdict TLC computed "
            "from the statement; TLC proves the requirement itself order-free; the real verdicts of all permutations of one rule set must "
            "coincide even where the oracle is silent.",
            "Cells the statement does not pin are unspecified (enum+const, any+const, type enum/mixed next to enum/or, enum/or/any/type-ref on "
            "containers, precision on an integer example, const on containers, non-zero item counts on an empty example array, null example "
            "with a type reference); which of two simultaneous errors is reported is not compared.", "3/C08"),
    "C09": ("TLA+ requirement TypeGraph (reference sets, missing names, least-fixpoint inhabitation) and implementation-shaped model Graph "
            "(recursion DFS with per-protocol lookup table; types-list walk raising 1303) related by TLC; TLC enumerates all type graphs over a "
            "body family; replay through Check / UsedUserTypes / Example / Validate under the mesh and star protocols in a crash-isolating driver; Known.tla "
            "(types handed down: closure of the given types against the library's take-over / allOf / check passes, two defect switches) with every configuration replayed",
            "Every graph over 2 (quick) / 3 and a 4-type deep family (thorough) user types gets the TLC verdict (accept / reject / missing with the "
            "missing names); Check must agree and name a missing type, UsedUserTypes must be the duplicate-free reference set of the root text, and on "
            "accepted graphs Example and Validate must return (fatal stack overflows and hangs are pinned to the graph in flight). For every third graph the root is given only the types its text names, for every third one every schema only "
            "the ones its own text names; Known.tla decides all 52 128 (quick) / 1 449 984 (thorough) ways of giving three types to each other and the root and of writing the references. TLC checks that the "
            "implementation-shaped model agrees with the requirement under the mesh protocol; the two recorded deviations are attributed only where "
            "that model predicts them.",
            "Graphs beyond 4 types are not enumerated; uninhabited or dangling types the root cannot reach are unspecified; which of two "
            "simultaneous errors is reported is not compared.", "3/C09"),
    "C17": ("TLA+ requirements Err!Render (line / text / caret for LF, CR, CRLF files), ErrPos!Viol (place of the first violation) and the "
            "first-dead-byte of the JsonText automaton; TLC enumerates contents x positions, schema x document pairs, and exports the reference "
            "graph; replay through the public errors API, Validate and Document.Check with positions compared",
            "Rendering: every content over {a, space, tab, LF, CR} up to 5/7 bytes at every position and long lines around the 200-byte cut must "
            "render without panic with the line number, left-trimmed text and caret column TLC computed. Validation errors: for every rejected pair "
            "of the C01 domain Position() must be the start of the first offending value / key / enclosing object TLC located (TLC also checks the "
            "locator against AcceptsShape). Parse errors: on the transition cover of the exported automaton Position() must be the first dead byte "
            "(last byte at early end).",
            "Line numbers for files mixing newline conventions, text of all-blank lines, the caret for a position inside indentation and the cut "
            "of indented long lines are unspecified; error positions inside added types are C04's (type-local offset).", "3/C17"),
    "C18": ("TLA+ relational requirement: Sem!Member3 / Sem!SameScalar for value lists (duplicates = same text x kind) and Sem!Search for patterns; "
            "TLC enumerates value lists x layouts and patterns of the abstract regex grammar with verdict vectors; named and inline spellings replayed "
            "through Validate and compared with each other and with TLC; regex Example() values validated by TLC (TraceSem)",
            "For every enumerated value list in four layouts (inline, one per line with comments, block comments between items, padded) the named rule "
            "must reject duplicates at its own Check, list its literals in source order through Values/GetAST, and validate every document exactly like "
            "the inline list and like the membership TLC computed; for every pattern the regex type must report the pattern, its Len as the /P/ token "
            "length whatever follows, an Example that TLC matches against the pattern, and the same verdicts as the inline regex rule.",
            "Patterns stay inside the printable-ASCII abstract grammar (12 patterns); lists up to 2/3 items over 10 literals.", "3/C18"),
    "C14": ("TLC trace validation (TraceLen): for plain JSON texts the end of the first complete value is computed by TLC on the logged bytes with "
            "the RFC 8259 automaton of JsonText (LenSpec!JsonLen); for generated schemas and enum rules the statement's domain is the TLA+ table "
            "LenSpec!InDomain over (last token class, separator class, first tail byte)",
            "Every logged Len() call - random JSON texts alone, followed by 9 separators x 6 directive-like tails, truncated at random offsets and "
            "byte-mutated, through Document.Len (after four call preludes), Schema.Len and Enum.Len; generated schemas with rules, types, shortcuts "
            "and notes and enum rules in four layouts x separators x tails - must return exactly the length TLC derives, or an error where no "
            "complete text starts the input.",
            "Empty / blank-only texts and a foreign byte directly after a number or literal are unspecified; 'same meaning of the prefix' follows "
            "from Len = |S| and is not re-checked.", "3/C14"),
    "C13": ("TLA+ module Surface enumerates layout vectors (house style, all single deviations, line-end pairs; all pairs in the thorough tier) and "
            "document spellings; expectations are the verdict vectors of Sem / Chk computed for the abstract schema, which by construction do not "
            "depend on the spelling; replay of every spelling through Check, GetAST and Validate. TLA+ module Gaps: token lists of schemas and of "
            "an enum rule, every gap (pair of gaps) filled with every filler its kind admits, under the three line ends; same AST and verdicts as "
            "the compact spelling",
            "Every sampled schema of the GenRules / GenShape / GenTypes / GenExample domains is rendered under every layout vector; each spelling must "
            "pass Check, give the house-style AST (comments and notes aside, rule maps unordered) and the TLC verdict on a stride of documents; every "
            "selected document is re-spelled 18 ways (whitespace, property order, \\uXXXX and \\/ escapes in values and keys) and must keep its verdict.",
            "Only rewrites the statement lists, at positions the language admits; quick tier: strength-1 cover plus line-end pairs, thorough: strength 2.", "3/C13"),
    "C07": ("TLC trace validation (TraceApi / Api!Problem): every public entry point is called with arbitrary byte strings under recover and a "
            "watchdog, every call is logged with its outcome class, error code, position, the length of the source the error names and whether "
            "Error() renders; TLC accepts only ok or a library error positioned inside its source",
            "26 entry points (Schema Len/Check/GetAST/UsedUserTypes/Example/Validate, the text as added user type, as enum rule incl. AddRule, as "
            "regex type incl. AddType, as document under three schemas, kit.ConvertError) on prefixes of the repository's testdata files, cut-off "
            "witnesses and byte mutations of generated schemas; any panic, non-library error value, hang, position outside the named source or "
            "panicking Error() is reported.",
            "The static clause (message templates and argument lists agree at every construction site, every code has a template) is a fact "
            "about source text and is covered only dynamically, for the error values the executions produce.", "3/C07"),
    "C11": ("TLA+ model Life (objects with once-caches and a document cursor; TLC enumerates every history over the operation alphabet with the "
            "expectation of each step) replayed on shared objects against fresh objects; forced map-iteration orders through a go/types-driven "
            "source rewrite of every range-over-map site, re-running the TLC-derived case files under each order",
            "Every history of 3 (quick) / 4 (thorough) operations over 57 operation instances on schemas, fresh and persistent documents, an enum rule "
            "and a regex type is executed on one shared object set: each result must equal the same call on freshly built objects, each lexeme the one "
            "TLC computes from the document cursor, and every slice / AST / list handed out must be unchanged at the end. Map order: the case files of "
            "C01/C03/C08/C09 must give the TLC verdicts under ascending, descending and rotated iteration of every map the library ranges over.",
            "Re-validating a partly consumed Document and reading on after a lexeme error are unspecified; histories longer than 4 only through the "
            "structure of the model (no history argument in any result).", "3/C11"),
    "C12": ("TLA+ model Conc (goroutines as processes; atomic sections: sync.Once enter/run, buffer pool get/write/copy/put, the three steps of "
            "CompileAllOf on a type shared by two roots) model-checked by TLC; every complete schedule of the pinned tree's model replayed in the "
            "real code through scheduling points committed under the build tag verif; goroutine mixes under the race detector against the "
            "sequential results",
            "TLC proves, for 2 (quick) / 3 (thorough) goroutines, that with atomic type extension and copy-before-put every call returns its "
            "sequential result, the compile body runs once and no buffer is shared; each of the model's 50 two-compile schedules is replayed "
            "deterministically with gates and must give the sequential results unless the model predicts the recorded spurious error; 2..32 "
            "goroutines issue random operation mixes on a shared schema, on private schemas and on schemas sharing type objects under -race, and "
            "every result is compared with the sequential run.",
            "Data-race freedom is observed with the Go race detector on harness-produced schedules, not proved; one recorded finding (shared "
            "allOf type) is attributed only where the model predicts it / in the one scenario that shares an allOf type.", "3/C12"),
}

PENDING_REASON = "check under construction in this session - not claimed yet (no technique switch intended; see DESIGN.md section 3)"


def main():
    checks = []
    for pid in ALL:
        if pid not in CLAIMED:
            continue
        tech, text, note, ref = CLAIMED[pid]
        checks.append({
            "property_id": pid,
            "quick_cmd": "python3 run.py %s quick" % pid,
            "thorough_cmd": "python3 run.py %s thorough" % pid,
            "evidence_file": "/verif/evidence/%s.json" % pid,
            "replay_cmd_template": "python3 replay.py {path}",
            "engine": "tlc+harness",
            "level_claimed": {"category": "model_checking", "text": text, "design_ref": "DESIGN.md section " + ref},
            "level_note": note,
            "technique": tech,
        })
    hooks_commits = ["8b8ee29"]
    m = {
        "version": 1,
        "setup_cmd": "python3 setup.py",
        "hooks": {
            "guard": "verif",
            "enable": "go build -tags verif -overlay <generated overlay.json mapping /verif/hooks/** into /repo/**> (done by vlib.build_harness on every check run)",
            "baseline_off_cmd": "cd /repo && GOFLAGS=-mod=mod GOPROXY=off GOSUMDB=off GOTOOLCHAIN=local go test -vet=off -count=1 ./...",
            "source_commits": hooks_commits,
            "add_only": True,
        },
        "engines": [
            {"name": "tlc+harness", "path": "/verif/run.py", "serves_properties": sorted(CLAIMED),
             "kind_free_text": "TLA+ specification in /verif/spec checked by TLC; Go harness in /verif/harness replays TLC-generated "
                               "cases/graphs into the real code and records traces that TLC validates"}],
        "checks": checks,
        "not_applicable": [{"property_id": p, "reason": PENDING_REASON} for p in ALL if p not in CLAIMED],
        "notes": "Known findings: /verif/known_findings.json. Seeded changes: /verif/seeded. Design: /verif/DESIGN.md.",
    }
    json.dump(m, open(os.path.join(HERE, "MANIFEST.json"), "w"), indent=1)


if __name__ == "__main__":
    main()
