#!/usr/bin/env python3
"""MANIFEST.setup_cmd: offline build/self-check of the framework (go build of the harness, SANY parse of every spec)."""
import glob, os, subprocess, sys
sys.path.insert(0, os.path.dirname(os.path.abspath(__file__)))
import vlib

w = vlib.Work("setup")
vlib.build_harness(w)
bad = 0
for f in sorted(glob.glob(os.path.join(vlib.SPEC, "*.tla"))):
    p = subprocess.run(["java", "-cp", vlib.TLAJAR, "tla2sany.SANY", os.path.basename(f)], cwd=vlib.SPEC,
                       stdout=subprocess.PIPE, stderr=subprocess.STDOUT, text=True)
    if p.returncode != 0 or "Semantic errors" in p.stdout or "Parsing or semantic analysis failed" in p.stdout or "*** Errors" in p.stdout:
        print("SANY failed:", f, p.stdout[-1500:])
        bad += 1
print("setup ok" if not bad else "setup FAILED")
sys.exit(1 if bad else 0)
