#!/usr/bin/env python3
"""python3 run.py <Cxx> <quick|thorough> [--selftest]   (see DESIGN.md Appendix A.4)"""
import importlib, os, sys, traceback

sys.path.insert(0, os.path.dirname(os.path.abspath(__file__)))
import vlib


def main():
    if len(sys.argv) < 3:
        print(__doc__)
        sys.exit(2)
    prop, tier = sys.argv[1].upper(), sys.argv[2]
    tier = os.environ.get("VERIF_TIER", tier) if tier not in ("quick", "thorough") else tier
    try:
        mod = importlib.import_module("checks." + prop.lower())
    except ImportError as e:
        print("no check for", prop, e)
        sys.exit(2)
    try:
        mod.run(tier, sys.argv[3:])
    except vlib.Infra as e:
        vlib.die_infra(str(e))
    except SystemExit:
        raise
    except Exception:
        traceback.print_exc()
        sys.exit(2)


if __name__ == "__main__":
    main()
