---------------------------------- MODULE GenAst ----------------------------------
(* Mechanism A for C16: schemas of the RuleFamilies / GenTypes-style domains plus notes,     *)
(* named enums, allOf, key shortcuts and nested containers, each with the AST that Ast.tla   *)
(* demands.   @@CASE {schema, env, ast}                                                       *)
EXTENDS RuleFamilies, Ast
TRef(s) == [t |-> "tref", s |-> s]
ListV(items) == [t |-> "list", items |-> items]
SetV(rules) == [t |-> "set", rules |-> rules]
Ref(names, rules) == [t |-> "ref", names |-> names, rules |-> rules]
Arr(items, rules) == [t |-> "arr", items |-> items, rules |-> rules]
Obj(props, rules) == [t |-> "obj", props |-> props, rules |-> rules]
P(k, n) == [k |-> k, sc |-> FALSE, kt |-> "", n |-> n]
SC(tname, n) == [k |-> <<64>>, sc |-> TRUE, kt |-> tname, n |-> n]
OptR == R("optional", BV(TRUE))
NullR == R("nullable", BV(TRUE))
Note(n, s) == n @@ [note |-> s]
One == Lit(NumD(N1), <<>>)
Types == << [name |-> "@I", n |-> One], [name |-> "@S", n |-> Lit(StrD(Sa), <<>>)], [name |-> "@A1", n |-> Obj(<<P(Ka, One)>>, <<>>)],
            [name |-> "@A2", n |-> Obj(<<P(Kb, One)>>, <<>>)], [name |-> "@K", n |-> Lit(StrD(Sabc), <<R("minLength", NV(N1))>>)] >>
Env == [types |-> Types, enums |-> <<[name |-> "@E", items |-> <<NumD(N1), StrD(Sa), Null>>]>>]
Specials == {
  Note(One, "a note"), Note(Lit(StrD(Sa), <<R("minLength", NV(N1))>>), "note after rules"),
  Note(Obj(<<P(Ka, Note(One, "first")), P(Kb, Note(Lit(StrD(Sa), <<OptR>>), "second"))>>, <<R("additionalProperties", BV(TRUE))>>), "object note"),
  Note(Arr(<<Note(One, "i0"), Lit(StrD(Sa), <<NullR>>)>>, <<R("minItems", NV(N1)), R("maxItems", NV(N5))>>), "array note"),
  \* rules followed by a dash and nothing else: an empty note, the annotation ends with its line
  Obj(<<P(Ka, Lit(NumD(N1), <<R("min", NV(N0))>>) @@ [dash |-> TRUE]), P(Kb, Lit(NumD(N2), <<>>))>>, <<>>),
  Arr(<<Lit(NumD(N1), <<R("min", NV(N0))>>) @@ [dash |-> TRUE]>>, <<R("minItems", NV(N1))>>) @@ [dash |-> TRUE],
  \* a key shortcut after a property whose line ends in an annotation (with a note, without one)
  Obj(<<P(Ka, Note(Lit(NumD(N1), <<R("min", NV(N0))>>), "the id")), SC("@K", Lit(NumD(N2), <<>>))>>, <<>>),
  Obj(<<P(Ka, Lit(NumD(N1), <<OptR>>)), SC("@K", Lit(NumD(N2), <<OptR>>)), P(Kb, One)>>, <<>>),
  \* a named key that looks like a type name (it is quoted: no key shortcut), next to a real key shortcut
  Obj(<<P(<<64, 75>>, One), SC("@K", Lit(NumD(N2), <<>>)), P(<<64>>, Lit(StrD(Sa), <<OptR>>))>>, <<>>),
  \* a note between a key and its value (on the next line) is the note of that value, not of the property before
  Obj(<<P(Ka, Note(One, "a")), P(Kb, Lit(NumD(N2), <<>>) @@ [knote |-> "note for b"])>>, <<>>),
  Obj(<<P(Ka, One), P(Kb, Obj(<<P(Kc, Note(One, "c"))>>, <<>>) @@ [knote |-> "for the object"]), SC("@K", Lit(NumD(N2), <<>>) @@ [knote |-> "for the key type"])>>, <<>>),
  \* a note after the closing brace belongs to the object; the notes of the properties inside stay theirs
  Obj(<<P(Ka, Note(One, "x")), P(Kb, Lit(StrD(Sa), <<OptR>>))>>, <<>>) @@ [tnote |-> "after the brace"],
  Obj(<<P(Ka, Obj(<<P(Kb, Note(One, "inner"))>>, <<>>) @@ [tnote |-> "after a"]), P(Kc, Note(One, "c"))>>, <<>>) @@ [tnote |-> "end"],
  Arr(<<Obj(<<P(Ka, Note(One, "x"))>>, <<>>) @@ [tnote |-> "item"], One>>, <<>>),
  Obj(<<P(Kd, Lit(NumD(N2), <<>>))>>, <<R("allOf", TRef("@A1"))>>),
  Obj(<<P(Kd, Lit(NumD(N2), <<>>))>>, <<R("allOf", ListV(<<TRef("@A1")>>))>>),          \* a one-item array stays an array
  Obj(<<P(Kd, Lit(NumD(N2), <<OptR>>)), P(Kc, Ref(<<"@I">>, <<>>))>>, <<R("allOf", ListV(<<TRef("@A1"), TRef("@A2")>>)), R("additionalProperties", IdV("string"))>>),
  Lit(NumD(N1), <<R("enum", [t |-> "name", s |-> "@E"])>>), Lit(StrD(Sa), <<R("enum", [t |-> "name", s |-> "@E"]), NullR>>),
  Lit(NumD(N1), <<R("enum", ListV(<<EV(NumD(N1)), EV(StrD(Sa)), EV(Null), EV(BoolD(TRUE)), EV(NumD(N2_5))>>))>>),
  \* comments after the items of a list (a multi-line annotation), one of them containing the comment character itself
  Lit(NumD(N1), <<R("enum", ListV(<<EV(NumD(N1)) @@ [note |-> "one #1"], EV(NumD(N2)), EV(StrD(Sa)) @@ [note |-> "the letter"]>>))>>),
  Obj(<<P(Ka, Lit(NumD(N2), <<OptR, R("enum", ListV(<<EV(NumD(N1)) @@ [note |-> "first"], EV(NumD(N2)) @@ [note |-> "second # not a comment"]>>))>>))>>, <<>>),
  \* a comment between the opening bracket and the first item: it belongs to no item (Ast ignores the field `lead`); item comments exist for enum lists only
  Lit(StrD(Sa), <<R("enum", ListV(<<EV(StrD(Sa)) @@ [note |-> "c1"], EV(StrD(Sb)) @@ [note |-> "c2"]>>) @@ [lead |-> "c0"])>>),
  \* notes of multi-line annotations holding the characters that end them when paired: * and /
  Note(Lit(StrD(Sa), <<>>), "**bold** note") @@ [ann |-> "block"], Note(Lit(NumD(N10), <<R("min", NV(N1))>>), "net price * quantity / 2") @@ [ann |-> "block"],
  Obj(<<P(Ka, Note(Lit(NumD(N1), <<OptR>>), "a * b") @@ [ann |-> "spread"]), P(Kb, Note(One, "x*/ y") )>>, <<>>),
  \* or-alternatives named by a format / "any" next to an example of another kind
  Lit(Null, <<R("or", ListV(<<IdV("date"), IdV("null")>>))>>), Lit(NumD(N1), <<R("or", ListV(<<IdV("email"), IdV("integer"), IdV("any")>>))>>),
  Lit(BoolD(TRUE), <<R("or", ListV(<<IdV("uuid"), IdV("boolean")>>))>>), Lit(NumD(N1_5), <<R("or", ListV(<<IdV("datetime"), IdV("float"), IdV("uri")>>))>>),
  Ref(<<"@I">>, <<>>), Ref(<<"@I", "@S">>, <<NullR>>), Ref(<<"@A1", "@I", "@S">>, <<>>),
  Obj(<<SC("@K", One), P(Kx, Ref(<<"@S">>, <<OptR>>))>>, <<>>), Obj(<<SC("@K", Ref(<<"@I", "@S">>, <<>>))>>, <<>>),
  Lit(NumD(N1), <<R("type", TRef("@I"))>>), Lit(StrD(Sa), <<R("type", TRef("@S")), NullR>>),
  Lit(NumD(N1), <<R("or", ListV(<<TRef("@I"), IdV("string")>>))>>),
  Lit(NumD(N1), <<R("or", ListV(<<SetV(<<R("type", IdV("integer")), R("min", NV(N0))>>), SetV(<<R("type", TRef("@S"))>>), SetV(<<R("enum", ListV(<<EV(NumD(N1)), EV(NumD(N2))>>))>>)>>))>>),
  Arr(<<Arr(<<>>, <<>>), Obj(<<>>, <<>>), Arr(<<Obj(<<P(Ka, Arr(<<One, One>>, <<>>))>>, <<>>)>>, <<>>)>>, <<>>),
  Obj(<<P(<<97, 34, 98>>, One), P(<<233>>, Lit(StrD(<<97, 34, 92>>), <<>>))>>, <<>>),
  Lit(NumD(N1_5), <<R("type", IdV("decimal")), R("precision", NV(N2))>>), Lit(NumD(N1_5), <<R("precision", NV(N2))>>),
  Lit(BoolD(TRUE), <<>>), Lit(Null, <<>>), Lit(NumD(<<45, 48, 46, 53, 48>>), <<>>), Lit(NumD(N1), <<R("type", IdV("any"))>>),
  Arr(<<>>, <<R("type", IdV("any"))>>), Lit(NumD(N1_5), <<R("max", NV(<<50, 46, 53, 48>>)), R("min", NV(<<45, 48, 46, 48>>))>>),
  Lit(NumD(N7), <<R("const", BV(FALSE))>>), Lit(NumD(N7), <<R("const", BV(TRUE)), R("nullable", BV(FALSE))>>)
}
\* Level 2: every scalar schema also inside containers (property, array item, nested, next to siblings with notes)
Wrap(c, x) ==
  CASE c = 1 -> Obj(<<P(Ka, x)>>, <<>>)
    [] c = 2 -> Arr(<<One, x>>, <<>>)
    [] c = 3 -> Obj(<<P(Kb, Note(Lit(StrD(Sa), <<>>), "sibling")), P(Ka, Obj(<<P(Kc, x)>>, <<>>))>>, <<>>)
    [] c = 4 -> Arr(<<Obj(<<P(Ka, x), P(Kb, One)>>, <<R("additionalProperties", BV(TRUE))>>)>>, <<R("minItems", NV(N0))>>)
    [] c = 5 -> Obj(<<P(Ka, Note(x, "a note on the value")), P(Kb, Arr(<<x>>, <<>>))>>, <<>>)
Domain == Specials \cup Schemas \cup (IF Level = 2 THEN {Wrap(c, x) : c \in 1..5, x \in Schemas} ELSE {})
VARIABLE sch
Init == sch \in Domain
Next == UNCHANGED sch
Spec == Init /\ [][Next]_sch
Emit == PrintT("@@CASE " \o ToJson([schema |-> sch, env |-> Env, ast |-> RootAST(sch)]))
===================================================================================
