SPECIFICATION Spec
CONSTANT Level = 1
INVARIANT Emit
INVARIANT ExampleOK
INVARIANT NullAdmitted
CHECK_DEADLOCK FALSE
