SPECIFICATION Spec
CONSTANT Level = 1
INVARIANT Emit
INVARIANT Mixed
INVARIANT February
CHECK_DEADLOCK FALSE
