------------------------------- MODULE EnumText -------------------------------
(* Layer R.  Concrete syntax of an enum rule over BYTES: an array of JSON scalars      *)
(* (numbers without exponent), blanks and line breaks between the tokens, comments     *)
(* `// ...` to the end of the line and `/* ... */` after `[`, after an item, after a    *)
(* comma and after `]`.  Same shape as SchemaText (operators SInit, SStep, SVerdict)    *)
(* so that the export and trace modules can be shared.  Left to "unspec": a comment     *)
(* before the opening bracket, exponents, non-plain      *)
(* UTF-8 in strings.  Equal items (which the rule refuses) are not a matter of syntax:   *)
(* the harness sets such texts aside by the error code.                                   *)
EXTENDS Naturals, Sequences

Sp(c)      == c \in {32, 9}
Nl(c)      == c \in {10, 13}
IsDigit(c) == c \in 48..57
IsD19(c)   == c \in 49..57
IsHex(c)   == c \in 48..57 \/ c \in 65..70 \/ c \in 97..102
Top(s) == s[Len(s)]
Pop(s) == SubSeq(s, 1, Len(s) - 1)
Kind(f) == f[1]
Ret(f)  == f[2]

RS(st, sk) == [st |-> st, sk |-> sk, ap |-> FALSE, v |-> "live"]
RDead      == [st |-> "dead",   sk |-> <<>>, ap |-> FALSE, v |-> "dead"]
RUnspec    == [st |-> "unspec", sk |-> <<>>, ap |-> FALSE, v |-> "unspec"]
SInit == RS("lead", <<>>)

Slash(st, sk) == RS("slash1", Append(sk, <<"S", st>>))
ValueStart(c, sk, cur) ==
  CASE Sp(c) \/ Nl(c) -> RS(cur, sk)
    [] c = 34   -> RS("str", sk)
    [] c = 45   -> RS("minus", sk)
    [] c = 48   -> RS("zero", sk)
    [] IsD19(c) -> RS("int", sk)
    [] c = 116  -> RS("t1", sk)
    [] c = 102  -> RS("f1", sk)
    [] c = 110  -> RS("n1", sk)
    [] c = 47   -> Slash(cur, sk)
    [] OTHER    -> RDead
After(c, sk) ==          \* a byte after a complete item
  CASE Sp(c) \/ Nl(c) -> RS("afterItem", sk)
    [] c = 44  -> RS("aValue", sk)
    [] c = 93  -> RS("done", sk)
    [] c = 47  -> Slash("afterItem", sk)
    [] OTHER   -> RDead
Lit(c, want, nxt, sk) == IF c = want THEN RS(nxt, sk) ELSE RDead
LitEnd(c, want, sk)   == IF c = want THEN RS("afterItem", sk) ELSE RDead
InStr(c, sk) ==
  CASE c = 34 -> RS("afterItem", sk)
    [] c = 92 -> RS("strE", sk)
    [] c < 32 -> RDead
    [] c < 128 -> RS("str", sk)
    [] c \in 194..223 -> RS("strC1", sk)
    [] c \in 225..236 \/ c \in 238..239 -> RS("strC2", sk)
    [] c \in 241..243 -> RS("strC3", sk)
    [] OTHER -> RUnspec
Cont(k, c, sk) == IF c \in 128..191 THEN RS(IF k = 1 THEN "str" ELSE IF k = 2 THEN "strC1" ELSE "strC2", sk) ELSE RUnspec

SStep(s, c) ==
  LET sk == s.sk  st == s.st IN
  IF s.v # "live" THEN s
  ELSE
  CASE st = "lead"   -> IF Sp(c) \/ Nl(c) THEN RS(st, sk) ELSE IF c = 91 THEN RS("aFirst", sk) ELSE IF c = 47 THEN RUnspec ELSE RDead
    [] st = "aFirst" -> IF c = 93 THEN RS("done", sk) ELSE ValueStart(c, sk, "aFirst")
    [] st = "aValue" -> ValueStart(c, sk, "aValue")
    [] st = "afterItem" -> After(c, sk)
    [] st = "done"   -> IF Sp(c) \/ Nl(c) THEN RS(st, sk) ELSE IF c = 47 THEN Slash(st, sk) ELSE RDead
    [] st = "str"    -> InStr(c, sk)
    [] st = "strE"   -> IF c \in {34, 92, 47, 98, 102, 110, 114, 116} THEN RS("str", sk) ELSE IF c = 117 THEN RS("strU4", sk) ELSE RDead
    [] st = "strU4"  -> IF IsHex(c) THEN RS("strU3", sk) ELSE RDead
    [] st = "strU3"  -> IF IsHex(c) THEN RS("strU2", sk) ELSE RDead
    [] st = "strU2"  -> IF IsHex(c) THEN RS("strU1", sk) ELSE RDead
    [] st = "strU1"  -> IF IsHex(c) THEN RS("str", sk) ELSE RDead
    [] st = "strC1"  -> Cont(1, c, sk)
    [] st = "strC2"  -> Cont(2, c, sk)
    [] st = "strC3"  -> Cont(3, c, sk)
    [] st = "minus"  -> IF c = 48 THEN RS("zero", sk) ELSE IF IsD19(c) THEN RS("int", sk) ELSE RDead
    [] st = "zero"   -> IF c = 46 THEN RS("fracStart", sk) ELSE IF c \in {101, 69} THEN RUnspec ELSE After(c, sk)
    [] st = "int"    -> IF IsDigit(c) THEN RS(st, sk) ELSE IF c = 46 THEN RS("fracStart", sk) ELSE IF c \in {101, 69} THEN RUnspec ELSE After(c, sk)
    [] st = "fracStart" -> IF IsDigit(c) THEN RS("frac", sk) ELSE RDead
    [] st = "frac"   -> IF IsDigit(c) THEN RS(st, sk) ELSE IF c \in {101, 69} THEN RUnspec ELSE After(c, sk)
    [] st = "t1" -> Lit(c, 114, "t2", sk)
    [] st = "t2" -> Lit(c, 117, "t3", sk)
    [] st = "t3" -> LitEnd(c, 101, sk)
    [] st = "f1" -> Lit(c, 97, "f2", sk)
    [] st = "f2" -> Lit(c, 108, "f3", sk)
    [] st = "f3" -> Lit(c, 115, "f4", sk)
    [] st = "f4" -> LitEnd(c, 101, sk)
    [] st = "n1" -> Lit(c, 117, "n2", sk)
    [] st = "n2" -> Lit(c, 108, "n3", sk)
    [] st = "n3" -> LitEnd(c, 108, sk)
    [] st = "slash1" -> (CASE c = 47 -> RS("lc", Append(Pop(sk), <<"LC", Ret(Top(sk))>>))
                          [] c = 42 -> RS("bc", Append(Pop(sk), <<"BC", Ret(Top(sk))>>))
                          [] OTHER  -> RDead)
    [] st = "lc"     -> IF Nl(c) THEN RS(Ret(Top(sk)), Pop(sk)) ELSE RS(st, sk)
    [] st = "bc"     -> IF c = 42 THEN RS("bcStar", sk) ELSE RS(st, sk)
    [] st = "bcStar" -> (CASE c = 47 -> RS(Ret(Top(sk)), Pop(sk))
                          [] c = 42 -> RS(st, sk)
                          [] OTHER  -> RS("bc", sk))
    [] OTHER -> RDead

SVerdict(s) ==
  IF s.v = "unspec" THEN "unspec"
  ELSE IF s.v = "dead" THEN "reject"
  ELSE CASE s.st = "lc" -> IF Ret(Top(s.sk)) = "done" THEN "accept" ELSE "reject"
         [] s.st \in {"bc", "bcStar"} -> "reject"                        \* the input ends inside a block comment
         [] OTHER -> IF s.st = "done" /\ s.sk = <<>> THEN "accept" ELSE "reject"
===============================================================================
