SPECIFICATION Spec
CONSTANT Alphabet = {0}
CONSTANT Export = TRUE
INVARIANT TypeOK
INVARIANT DeadIsAbsorbing
INVARIANT AcceptOnlyClosed
CHECK_DEADLOCK FALSE
