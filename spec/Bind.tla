---------------------------------- MODULE Bind ----------------------------------
(* Which node an annotation belongs to.                                                      *)
(*                                                                                          *)
(* A schema text is laid out here as a token list: brackets, keys, scalar values, commas,   *)
(* line breaks and inline annotations (a note, or a rule object) that stand at the end of a  *)
(* line - after an opening bracket, after a value, after a closing bracket, or between a    *)
(* key and a value that stands on the next line.                                             *)
(*                                                                                          *)
(* Layer R (Owner / Verdict): the reading of the notation - an annotation belongs to the     *)
(* node whose text it follows (for a note between a key and its value: the value to come);  *)
(* rules need exactly one node that begins on their line (803 none, 804 several); after a    *)
(* non-empty array no annotation is allowed (304).                                           *)
(* Layer I (Run): the loader of notations/jschema/internal/loader as an algorithm - one      *)
(* register "node added last", the nodes-per-line counter, the pending note, the scanner's   *)
(* allow-annotation flag - with the two defects repaired in the fourth session as switches:  *)
(*   NoteAfterBraceToLast   a note after "}" goes to the node added last (9bd7f58)            *)
(*   NoteBeforeValueToPrev  a note between key and value goes to the node added last (8acb18d) *)
(* TLC checks I = R on every layout of the shapes below (Agree) and exports every layout as   *)
(* a case for the real loader:  @@CASE {text, want: "ok"|"e803"|"e804"|"e304"|"unspec",      *)
(* nodes: <<[note, rules]>> in source order}.                                                *)
EXTENDS Integers, Sequences, FiniteSets, TLC, Json
CONSTANTS NoteAfterBraceToLast, NoteBeforeValueToPrev, Export, MaxAnn      \* MaxAnn: at most so many annotations in one layout

Lit(i) == [id |-> i, k |-> "lit", kids |-> <<>>]
Ref(i) == [id |-> i, k |-> "ref", kids |-> <<>>]                  \* a type shortcut  @t  as a value
Obj(i, kids) == [id |-> i, k |-> "obj", kids |-> kids]
Arr(i, kids) == [id |-> i, k |-> "arr", kids |-> kids]
\* ids are the positions in source order (the order GetAST lists the nodes in)
Shapes == << Obj(1, <<Lit(2), Lit(3)>>),                          \* {"k2": 1, "k3": 1}
             Obj(1, <<Obj(2, <<Lit(3)>>), Lit(4)>>),              \* {"k2": {"k3": 1}, "k4": 1}
             Obj(1, <<Arr(2, <<Lit(3), Lit(4)>>), Lit(5)>>),      \* {"k2": [1, 1], "k5": 1}
             Arr(1, <<Lit(2), Obj(3, <<Lit(4)>>)>>),              \* [1, {"k4": 1}]
             Arr(1, <<Arr(2, <<Lit(3)>>), Lit(4)>>),              \* [[1], 1]
             Lit(1),
             Obj(1, <<Obj(2, <<>>), Arr(3, <<>>)>>),              \* {"k2": {}, "k3": []}
             Obj(1, <<Ref(2), Arr(3, <<Ref(4)>>), Lit(5)>>) >>    \* {"k2": @t, "k3": [@t], "k5": 1}
RECURSIVE Size(_)
Size(n) == 1 + (IF n.kids = <<>> THEN 0 ELSE LET RECURSIVE Sum(_) Sum(i) == IF i = 0 THEN 0 ELSE Size(n.kids[i]) + Sum(i - 1) IN Sum(Len(n.kids)))
RECURSIVE NodeOf(_, _)
NodeOf(n, i) == IF n.id = i THEN n
                ELSE LET c == CHOOSE j \in DOMAIN n.kids : n.kids[j].id <= i /\ (j = Len(n.kids) \/ n.kids[j + 1].id > i) IN NodeOf(n.kids[c], i)
Scalar(n) == n.k \in {"lit", "ref"}
Empty(n) == ~Scalar(n) /\ n.kids = <<>>
Multi(n) == ~Scalar(n) /\ n.kids # <<>>

\* ---- a layout: per node, what stands in its slots ----
\* open / val / close : "none" | "note" | "rules"      (val: after a scalar or an empty container; open, close: non-empty containers)
\* key                : "none" | "note" | "rules"   (object properties: between the key and the value, which then stands on the next line)
\* one                : TRUE = a non-empty container written on one line (no slots inside it)
Ann == {"none", "note", "rules"}
\* form of the annotations of a layout: 0 all inline (//), 1 all written as multi-line annotations (/* */), 2 those after an opening
\* bracket or a key as /* */ and the others inline - same owner, same demands
Block(form, slot) == form = 1 \/ (form = 2 /\ slot \in {"open", "key"})
Slots == [open : Ann, val : Ann, close : Ann, key : Ann, one : BOOLEAN]
\* a canonical "nothing here" for the slots a node does not have keeps the layouts distinct
NoSlot == [open |-> "none", val |-> "none", close |-> "none", key |-> "none", one |-> FALSE]
RECURSIVE Inside(_, _, _)
Inside(root, n, L) ==                      \* is node n (not the root) inside a container written on one line ?
  \E a \in 1..Size(root) : LET m == NodeOf(root, a) IN Multi(m) /\ L[a].one /\ m.id < n.id /\ n.id < m.id + Size(m)
IsProp(root, n) == \E a \in 1..Size(root) : LET m == NodeOf(root, a) IN m.k = "obj" /\ \E j \in DOMAIN m.kids : m.kids[j].id = n.id
WellFormed(root, L) ==
  \A i \in 1..Size(root) :
    LET n == NodeOf(root, i) IN
    /\ (Multi(n) => L[i].val = "none")
    /\ (~Multi(n) => L[i].open = "none" /\ L[i].close = "none" /\ ~L[i].one)
    /\ (Multi(n) /\ L[i].one => L[i].open = "none")
    /\ (~IsProp(root, n) => L[i].key = "none")
    /\ (Inside(root, n, L) => L[i] = NoSlot)

\* ---- tokens ----
T(t, id) == [t |-> t, id |-> id]
AnnT(c, id, slot) == IF c # "none" THEN <<[t |-> c, id |-> id, slot |-> slot]>> ELSE <<>>
RECURSIVE Toks(_, _, _, _, _)
Toks(root, n, last, inline, L) ==
  LET l == L[n.id]
      comma == IF last THEN <<>> ELSE <<T("comma", 0)>>
      eol(c, slot) == IF inline THEN <<>> ELSE AnnT(c, n.id, slot) \o <<T("nl", 0)>>
      kid(j, inl) == LET c == n.kids[j] IN
                     (IF n.k = "obj" THEN <<T("key", c.id)>> \o (IF L[c.id].key = "none" THEN <<>> ELSE AnnT(L[c.id].key, c.id, "key") \o <<T("nl", 0)>>) ELSE <<>>)
                     \o Toks(root, c, j = Len(n.kids), inl, L)
      RECURSIVE Kids(_, _)
      Kids(j, inl) == IF j > Len(n.kids) THEN <<>> ELSE kid(j, inl) \o Kids(j + 1, inl)
      ob == IF n.k = "obj" THEN "ob" ELSE "ab"
      cb == IF n.k = "obj" THEN "oe" ELSE "ae"
  IN CASE Scalar(n)   -> <<T(n.k, n.id)>> \o comma \o eol(l.val, "val")
       [] Empty(n)    -> <<T(ob, n.id), T(cb, n.id)>> \o comma \o eol(l.val, "val")
       [] l.one \/ inline -> <<T(ob, n.id)>> \o Kids(1, TRUE) \o <<T(cb, n.id)>> \o comma \o eol(l.close, "close")
       [] OTHER       -> <<T(ob, n.id)>> \o AnnT(l.open, n.id, "open") \o <<T("nl", 0)>> \o Kids(1, FALSE) \o <<T(cb, n.id)>> \o comma \o eol(l.close, "close")
Tokens(root, L) == Toks(root, root, TRUE, FALSE, L)

NoteText(id, slot) == "n" \o ToString(id) \o slot
Piece(form, tk) ==
  CASE tk.t = "key"   -> "\"k" \o ToString(tk.id) \o "\": "
    [] tk.t = "lit"   -> "1"
    [] tk.t = "ref"   -> "@t"
    [] tk.t = "ob"    -> "{"
    [] tk.t = "oe"    -> "}"
    [] tk.t = "ab"    -> "["
    [] tk.t = "ae"    -> "]"
    [] tk.t = "comma" -> ", "
    [] tk.t = "nl"    -> "\n"
    [] tk.t = "note"  -> IF Block(form, tk.slot) THEN " /* " \o NoteText(tk.id, tk.slot) \o " */" ELSE " // " \o NoteText(tk.id, tk.slot)
    [] tk.t = "rules" -> IF Block(form, tk.slot) THEN " /* {nullable: true} */" ELSE " // {nullable: true}"
\* user comments at the line ends change nothing: hash 0 none, 1 after every line without an annotation, 2 after every line
\* (after a note: the note ends where the comment begins); every third one is the empty comment
Hash(hash, ts, i) == IF hash = 0 \/ ts[i].t # "nl" THEN ""
                     ELSE IF i > 1 /\ ts[i - 1].t \in {"note", "rules"} /\ hash # 2 THEN ""
                     ELSE IF i % 3 = 0 THEN " #" ELSE " # c"
RECURSIVE TextH(_, _, _, _)
TextH(form, hash, ts, i) == IF i > Len(ts) THEN "" ELSE Hash(hash, ts, i) \o Piece(form, ts[i]) \o TextH(form, hash, ts, i + 1)

\* ---- layer R ----
Begins(tk) == tk.t \in {"ob", "ab", "lit", "ref"}
RECURSIVE LineStart(_, _)
LineStart(ts, i) == IF i = 1 \/ ts[i - 1].t = "nl" THEN i ELSE LineStart(ts, i - 1)
NodesOnLine(ts, i) == Cardinality({j \in LineStart(ts, i)..i : Begins(ts[j])})        \* an annotation ends its line: what stands before it
AnnVerdict(root, ts, i) ==
  LET tk == ts[i]  n == NodeOf(root, tk.id) IN
  IF tk.slot = "close" /\ n.k = "arr" THEN "e304"
  ELSE IF tk.t = "note" THEN "ok"
  ELSE IF NodesOnLine(ts, i) = 0 THEN "e803" ELSE IF NodesOnLine(ts, i) > 1 THEN "e804" ELSE "ok"
AnnIdx(ts) == {i \in DOMAIN ts : ts[i].t \in {"note", "rules"}}
FirstBad(root, ts) == LET B == {i \in AnnIdx(ts) : AnnVerdict(root, ts, i) # "ok"} IN IF B = {} THEN 0 ELSE CHOOSE i \in B : \A j \in B : i <= j
NotesOf(ts, id) == {i \in AnnIdx(ts) : ts[i].t = "note" /\ ts[i].id = id}
RVerdict(root, ts) ==
  IF FirstBad(root, ts) # 0 THEN AnnVerdict(root, ts, FirstBad(root, ts))
  ELSE IF \E id \in 1..Size(root) : Cardinality(NotesOf(ts, id)) > 1 THEN "unspec"          \* two notes for one node: which one is "the" note ?
  ELSE "ok"
RNote(ts, id) == IF NotesOf(ts, id) = {} THEN "" ELSE LET i == CHOOSE x \in NotesOf(ts, id) : TRUE IN NoteText(ts[i].id, ts[i].slot)
RRules(ts, id) == \E i \in AnnIdx(ts) : ts[i].t = "rules" /\ ts[i].id = id

\* ---- layer I : the loader (and the scanner's allow-annotation flag) over the same tokens ----
IInit(root) == [last |-> 0, count |-> 0, keyp |-> FALSE, pend |-> "", allow |-> TRUE, err |-> "ok",
                note |-> [i \in 1..Size(root) |-> ""], rules |-> {}, stack |-> <<>>]
IStep(root, s, tk) ==
  IF s.err # "ok" THEN s
  ELSE CASE tk.t = "nl"  -> [s EXCEPT !.count = 0, !.allow = TRUE]
         [] tk.t = "key" -> [s EXCEPT !.keyp = TRUE, !.allow = TRUE]
         [] tk.t \in {"ob", "ab", "lit", "ref"} ->
              LET s1 == [s EXCEPT !.count = @ + 1, !.last = tk.id, !.allow = TRUE, !.keyp = FALSE, !.pend = "",
                                  !.note = IF s.pend # "" THEN [@ EXCEPT ![tk.id] = s.pend] ELSE @] IN
              IF tk.t \in {"lit", "ref"} THEN s1 ELSE [s1 EXCEPT !.stack = Append(@, tk.id)]
         [] tk.t = "oe"  -> [s EXCEPT !.stack = SubSeq(@, 1, Len(@) - 1), !.last = IF NoteAfterBraceToLast THEN @ ELSE tk.id]
         [] tk.t = "ae"  -> [s EXCEPT !.stack = SubSeq(@, 1, Len(@) - 1), !.allow = NodeOf(root, tk.id).kids = <<>>]
         [] tk.t = "comma" -> s
         [] tk.t = "note" ->
              IF ~s.allow THEN [s EXCEPT !.err = "e304"]
              ELSE IF s.keyp /\ ~NoteBeforeValueToPrev THEN [s EXCEPT !.pend = NoteText(tk.id, tk.slot)]
              ELSE IF s.last = 0 THEN s
              ELSE [s EXCEPT !.note = [@ EXCEPT ![s.last] = NoteText(tk.id, tk.slot)]]
         [] tk.t = "rules" ->
              IF ~s.allow THEN [s EXCEPT !.err = "e304"]
              ELSE IF s.count = 0 THEN [s EXCEPT !.err = "e803"]
              ELSE IF s.count # 1 THEN [s EXCEPT !.err = "e804"]
              ELSE [s EXCEPT !.rules = @ \cup {s.last}]
RECURSIVE Run(_, _, _, _)
Run(root, s, ts, i) == IF i > Len(ts) THEN s ELSE Run(root, IStep(root, s, ts[i]), ts, i + 1)

\* ---- exploration ----
VARIABLES sh, lay, frm, hsh
\* the slots a node has by itself (what WellFormed says about one node), so that the layouts are built as a product of small sets
NodeSlots(root, i) ==
  IF i > Size(root) THEN {NoSlot}
  ELSE LET n == NodeOf(root, i) IN
       {x \in Slots : /\ (Multi(n) => x.val = "none")
                       /\ (~Multi(n) => x.open = "none" /\ x.close = "none" /\ ~x.one)
                       /\ (Multi(n) /\ x.one => x.open = "none")
                       /\ (~IsProp(root, n) => x.key = "none")}
NAnn(root, L) == Cardinality({<<i, f>> \in (1..Size(root)) \X {"open", "val", "close", "key"} : L[i][f] # "none"})
Init == /\ sh \in DOMAIN Shapes
        /\ lay \in {<<a, b, c, d, e>> : a \in NodeSlots(Shapes[sh], 1), b \in NodeSlots(Shapes[sh], 2), c \in NodeSlots(Shapes[sh], 3),
                                        d \in NodeSlots(Shapes[sh], 4), e \in NodeSlots(Shapes[sh], 5)}
        /\ WellFormed(Shapes[sh], lay)
        /\ NAnn(Shapes[sh], lay) <= MaxAnn
        /\ frm \in (IF NAnn(Shapes[sh], lay) = 0 THEN {0} ELSE {0, 1, 2})
        /\ hsh \in {0, 1, 2}
Next == UNCHANGED <<sh, lay, frm, hsh>>
Spec == Init /\ [][Next]_<<sh, lay, frm, hsh>>
Root == Shapes[sh]
Ts == Tokens(Root, lay)
Final == Run(Root, IInit(Root), Ts, 1)
Agree ==
  LET rv == RVerdict(Root, Ts) IN
  rv = "unspec" \/
  /\ Final.err = rv
  /\ (rv = "ok" => \A id \in 1..Size(Root) : Final.note[id] = RNote(Ts, id) /\ ((id \in Final.rules) <=> RRules(Ts, id)))
Emit == Export => PrintT("@@CASE " \o ToJson([text |-> TextH(frm, hsh, Ts, 1), want |-> RVerdict(Root, Ts),
                                               nodes |-> [id \in 1..Size(Root) |-> [note |-> RNote(Ts, id), rules |-> RRules(Ts, id)]]]))
=================================================================================
