------------------------------- MODULE JsonText -------------------------------
(* Layer R.  RFC 8259 recogniser over BYTES (0..255), written from the ABNF as a       *)
(* deterministic pushdown acceptor.  No variables: other modules drive it.             *)
(* A reference state is a record [st, sk, v] :                                         *)
(*   st  control state,  sk  stack of open containers ("O"/"A"),                       *)
(*   v   verdict class so far: "live" | "dead" | "unspec"                              *)
(* "unspec" is an absorbing state for inputs about which the property is silent       *)
(* (bytes >= 0x80 inside a string that are not plain well-formed UTF-8).               *)
EXTENDS Naturals, Sequences

CONSTANT MaxDepth            \* nesting bound of the explored graph (beyond: "deep", no verdict)

Byte == 0..255
IsWs(c)    == c \in {32, 9, 10, 13}
IsDigit(c) == c \in 48..57
IsD19(c)   == c \in 49..57
IsHex(c)   == c \in 48..57 \/ c \in 65..70 \/ c \in 97..102
IsE(c)     == c \in {101, 69}
IsSign(c)  == c \in {43, 45}

Top(s) == s[Len(s)]
Pop(s) == SubSeq(s, 1, Len(s) - 1)

RS(st, sk) == [st |-> st, sk |-> sk, v |-> "live"]
RDead      == [st |-> "dead",   sk |-> <<>>, v |-> "dead"]
RUnspec    == [st |-> "unspec", sk |-> <<>>, v |-> "unspec"]
RDeep      == [st |-> "deep",   sk |-> <<>>, v |-> "unspec"]   \* nesting beyond MaxDepth

RefInit == RS("value", <<>>)

\* control state after a complete value, given the enclosing containers
AfterValue(sk) == IF Len(sk) = 0 THEN "done" ELSE IF Top(sk) = "O" THEN "oAfterVal" ELSE "aAfterVal"

\* byte arriving after a complete value (also used when a number is ended by this byte)
RefAfter(c, sk, trailing) ==
  LET st == AfterValue(sk) IN
  CASE st = "done"      -> IF IsWs(c) THEN RS("done", sk)
                           ELSE IF trailing THEN RS("trail", sk) ELSE RDead
    [] st = "oAfterVal" -> IF IsWs(c) THEN RS(st, sk)
                           ELSE IF c = 44 THEN RS("oKey", sk)
                           ELSE IF c = 125 THEN RS(AfterValue(Pop(sk)), Pop(sk)) ELSE RDead
    [] st = "aAfterVal" -> IF IsWs(c) THEN RS(st, sk)
                           ELSE IF c = 44 THEN RS("value", sk)
                           ELSE IF c = 93 THEN RS(AfterValue(Pop(sk)), Pop(sk)) ELSE RDead

RefValueStart(c, sk, cur) ==
  CASE IsWs(c)  -> RS(cur, sk)
    [] c = 123  -> IF Len(sk) >= MaxDepth THEN RDeep ELSE RS("oFirst", Append(sk, "O"))
    [] c = 91   -> IF Len(sk) >= MaxDepth THEN RDeep ELSE RS("aFirst", Append(sk, "A"))
    [] c = 34   -> RS("str", sk)
    [] c = 45   -> RS("minus", sk)
    [] c = 48   -> RS("zero", sk)
    [] IsD19(c) -> RS("int", sk)
    [] c = 116  -> RS("t1", sk)
    [] c = 102  -> RS("f1", sk)
    [] c = 110  -> RS("n1", sk)
    [] OTHER    -> RDead

\* inside a string: base is "str" (value) or "kstr" (key)
StrEnd(base, sk) == IF base = "kstr" THEN RS("oColon", sk) ELSE RS(AfterValue(sk), sk)
InStr(base, c, sk) ==
  CASE c = 34 -> StrEnd(base, sk)
    [] c = 92 -> RS(base \o "E", sk)
    [] c < 32 -> RDead
    [] c < 128 -> RS(base, sk)
    [] c \in 194..223 -> RS(base \o "C1", sk)                       \* 2-byte lead
    [] c \in 225..236 \/ c \in 238..239 -> RS(base \o "C2", sk)     \* 3-byte lead (E0, ED left unspecified)
    [] c \in 241..243 -> RS(base \o "C3", sk)                       \* 4-byte lead (F0, F4 left unspecified)
    [] OTHER -> RUnspec
Cont(base, k, c, sk) ==    \* k continuation bytes still owed
  IF c \in 128..191 THEN RS(IF k = 1 THEN base ELSE base \o (IF k = 2 THEN "C1" ELSE "C2"), sk) ELSE RUnspec

Lit(c, want, nxt, sk) == IF c = want THEN RS(nxt, sk) ELSE RDead
LitEnd(c, want, sk)   == IF c = want THEN RS(AfterValue(sk), sk) ELSE RDead

KeyStates == {"kstr", "kstrE", "kstrU4", "kstrU3", "kstrU2", "kstrU1", "kstrC1", "kstrC2", "kstrC3"}
StrBase(st) == IF st \in KeyStates THEN "kstr" ELSE "str"

RefStep(s, c, trailing) ==
  LET sk == s.sk  st == s.st IN
  IF s.v # "live" THEN s
  ELSE
  CASE st = "value"  -> RefValueStart(c, sk, "value")
    [] st = "aFirst" -> IF c = 93 THEN RS(AfterValue(Pop(sk)), Pop(sk)) ELSE RefValueStart(c, sk, "aFirst")
    [] st = "oFirst" -> IF IsWs(c) THEN RS(st, sk) ELSE IF c = 125 THEN RS(AfterValue(Pop(sk)), Pop(sk))
                        ELSE IF c = 34 THEN RS("kstr", sk) ELSE RDead
    [] st = "oKey"   -> IF IsWs(c) THEN RS(st, sk) ELSE IF c = 34 THEN RS("kstr", sk) ELSE RDead
    [] st = "oColon" -> IF IsWs(c) THEN RS(st, sk) ELSE IF c = 58 THEN RS("value", sk) ELSE RDead
    [] st \in {"str", "kstr"} -> InStr(st, c, sk)
    [] st \in {"strE", "kstrE"} ->
         IF c \in {34, 92, 47, 98, 102, 110, 114, 116} THEN RS(StrBase(st), sk)
         ELSE IF c = 117 THEN RS(StrBase(st) \o "U4", sk) ELSE RDead
    [] st \in {"strU4", "kstrU4"} -> IF IsHex(c) THEN RS(StrBase(st) \o "U3", sk) ELSE RDead
    [] st \in {"strU3", "kstrU3"} -> IF IsHex(c) THEN RS(StrBase(st) \o "U2", sk) ELSE RDead
    [] st \in {"strU2", "kstrU2"} -> IF IsHex(c) THEN RS(StrBase(st) \o "U1", sk) ELSE RDead
    [] st \in {"strU1", "kstrU1"} -> IF IsHex(c) THEN RS(StrBase(st), sk) ELSE RDead
    [] st \in {"strC1", "kstrC1"} -> Cont(StrBase(st), 1, c, sk)
    [] st \in {"strC2", "kstrC2"} -> Cont(StrBase(st), 2, c, sk)
    [] st \in {"strC3", "kstrC3"} -> Cont(StrBase(st), 3, c, sk)
    [] st = "minus"  -> IF c = 48 THEN RS("zero", sk) ELSE IF IsD19(c) THEN RS("int", sk) ELSE RDead
    [] st = "zero"   -> IF c = 46 THEN RS("fracStart", sk) ELSE IF IsE(c) THEN RS("expStart", sk)
                        ELSE RefAfter(c, sk, trailing)
    [] st = "int"    -> IF IsDigit(c) THEN RS("int", sk) ELSE IF c = 46 THEN RS("fracStart", sk)
                        ELSE IF IsE(c) THEN RS("expStart", sk) ELSE RefAfter(c, sk, trailing)
    [] st = "fracStart" -> IF IsDigit(c) THEN RS("frac", sk) ELSE RDead
    [] st = "frac"   -> IF IsDigit(c) THEN RS("frac", sk) ELSE IF IsE(c) THEN RS("expStart", sk)
                        ELSE RefAfter(c, sk, trailing)
    [] st = "expStart" -> IF IsSign(c) THEN RS("expSign", sk) ELSE IF IsDigit(c) THEN RS("exp", sk) ELSE RDead
    [] st = "expSign"  -> IF IsDigit(c) THEN RS("exp", sk) ELSE RDead
    [] st = "exp"    -> IF IsDigit(c) THEN RS("exp", sk) ELSE RefAfter(c, sk, trailing)
    [] st = "t1" -> Lit(c, 114, "t2", sk)
    [] st = "t2" -> Lit(c, 117, "t3", sk)
    [] st = "t3" -> LitEnd(c, 101, sk)
    [] st = "f1" -> Lit(c, 97, "f2", sk)
    [] st = "f2" -> Lit(c, 108, "f3", sk)
    [] st = "f3" -> Lit(c, 115, "f4", sk)
    [] st = "f4" -> LitEnd(c, 101, sk)
    [] st = "n1" -> Lit(c, 117, "n2", sk)
    [] st = "n2" -> Lit(c, 108, "n3", sk)
    [] st = "n3" -> LitEnd(c, 108, sk)
    [] st \in {"done", "oAfterVal", "aAfterVal"} -> RefAfter(c, sk, trailing)
    [] st = "trail" -> s                                   \* anything may follow
    [] OTHER -> RDead

\* verdict at end of input:  "accept" | "reject" | "unspec"
RefVerdict(s) ==
  IF s.v = "unspec" THEN "unspec"
  ELSE IF s.v = "dead" THEN "reject"
  ELSE IF Len(s.sk) = 0 /\ s.st \in {"done", "trail", "zero", "int", "frac", "exp"} THEN "accept"
  ELSE "reject"

RECURSIVE RefRun(_, _, _)
RefRun(s, bytes, trailing) ==
  IF bytes = <<>> THEN s ELSE RefRun(RefStep(s, Head(bytes), trailing), Tail(bytes), trailing)

\* insignificant whitespace: a blank byte outside a string
RECURSIVE HasOuterWs(_, _)
HasOuterWs(s, bytes) ==
  IF bytes = <<>> THEN FALSE
  ELSE LET inStr == s.st \in {"str", "kstr", "strE", "kstrE", "strU4", "kstrU4", "strU3", "kstrU3", "strU2", "kstrU2", "strU1", "kstrU1",
                               "strC1", "kstrC1", "strC2", "kstrC2", "strC3", "kstrC3"} IN
       (IsWs(Head(bytes)) /\ ~inStr) \/ HasOuterWs(RefStep(s, Head(bytes), FALSE), Tail(bytes))

\* offset (0-based) of the first byte that cannot continue the text, or -1 (as Len) if none
RECURSIVE FirstDead(_, _, _, _)
FirstDead(s, bytes, trailing, i) ==
  IF bytes = <<>> THEN i
  ELSE LET n == RefStep(s, Head(bytes), trailing) IN
       IF n.v = "dead" THEN i ELSE FirstDead(n, Tail(bytes), trailing, i + 1)
===============================================================================
