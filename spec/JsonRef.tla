-------------------------------- MODULE JsonRef --------------------------------
(* Explores the reference automaton of JsonText alone and exports its transition graph *)
(* (mechanism C of DESIGN.md): one line  @@T <from>|<byte>|<to>|<verdict(to)>  per edge. *)
EXTENDS JsonText, TLC
CONSTANTS Alphabet, Trailing, Export
VARIABLE s

Key(x) == ToString(x.st) \o "/" \o ToString(x.sk)

Init == s = RefInit /\ (Export => PrintT("@@I " \o Key(RefInit) \o "|" \o RefVerdict(RefInit)))
Next == \E c \in Alphabet :
          LET n == RefStep(s, c, Trailing) IN
          /\ s' = n
          /\ (Export => PrintT("@@T " \o Key(s) \o "|" \o ToString(c) \o "|" \o Key(n) \o "|" \o RefVerdict(n)))
Spec == Init /\ [][Next]_s

\* sanity invariants of the requirement itself
TypeOK == s.v \in {"live", "dead", "unspec"} /\ Len(s.sk) <= MaxDepth
DeadIsAbsorbing == s.v = "dead" => s = RDead
AcceptOnlyAtTop == RefVerdict(s) = "accept" => Len(s.sk) = 0
================================================================================
