SPECIFICATION Spec
CONSTANT Alphabet = {0}
CONSTANT Export = TRUE
CONSTANT MaxToken = 6
INVARIANT TypeOK
INVARIANT DoneKeepsLength
CHECK_DEADLOCK FALSE
