--------------------------------- MODULE GenShapeX ---------------------------------
(* Mechanism A for C01, corners of the shape fragment that the product domain of GenShape  *)
(* does not reach: numerals in every spelling (fraction, upper / lower case exponent, sign  *)
(* of the exponent, integral and non-integral value) against an integer and a float        *)
(* example, and the empty string as a property name (required, optional, explicitly not     *)
(* optional under KeysAreOptionalByDefault).  Verdict vectors by Sem!Verdict.               *)
EXTENDS Integers, Sequences, FiniteSets, TLC, Json, SequencesExt, Sem, Tables
R(n, v) == [n |-> n, v |-> v]
BV(b) == [t |-> "bool", bv |-> b]
NumD(b) == [t |-> "num", b |-> b]
StrD(c) == [t |-> "str", c |-> c]
Lit(v, rules) == [t |-> "lit", v |-> v, rules |-> rules]
Arr(items, rules) == [t |-> "arr", items |-> items, rules |-> rules]
Obj(props, rules) == [t |-> "obj", props |-> props, rules |-> rules]
P(k, n) == [k |-> k, sc |-> FALSE, kt |-> "", n |-> n]
OV(ps) == [t |-> "obj", ps |-> ps]
KV(k, v) == [k |-> k, v |-> v]
One == Lit(NumD(N1), <<>>)
Empty == <<>>
\* 1.5E1  15e-1  15E-1  10E-1  1E1  1e0  0.5e1  2.50E+1  1.0  -0  1E+2  150E-1  2.5E1  1.25e1  1.5e+0  -1.5E1
Spellings == { <<49, 46, 53, 69, 49>>, <<49, 53, 101, 45, 49>>, <<49, 53, 69, 45, 49>>, <<49, 48, 69, 45, 49>>, <<49, 69, 49>>, <<49, 101, 48>>,
               <<48, 46, 53, 101, 49>>, <<50, 46, 53, 48, 69, 43, 49>>, <<49, 46, 48>>, <<45, 48>>, <<49, 69, 43, 50>>, <<49, 53, 48, 69, 45, 49>>,
               <<50, 46, 53, 69, 49>>, <<49, 46, 50, 53, 101, 49>>, <<49, 46, 53, 101, 43, 48>>, <<45, 49, 46, 53, 69, 49>>, N1, N1_5, N10 }
Docs == {NumD(b) : b \in Spellings}
        \cup {OV(<<KV(Ka, NumD(b))>>) : b \in Spellings}          \* the same numerals as values of a property the example does not name
        \cup {OV(<<>>), OV(<<KV(Empty, NumD(N1))>>), OV(<<KV(Empty, NumD(N1)), KV(Ka, NumD(N2))>>), OV(<<KV(Ka, NumD(N2))>>), OV(<<KV(Empty, StrD(Sa))>>)}
DocSeq == SetToSeq(Docs)
Schemas == { One, Lit(NumD(N1_5), <<>>), Arr(<<One, Lit(NumD(N1_5), <<>>)>>, <<>>),
             \* the kind named by additionalProperties goes by the value of a numeral, like the kind of an example
             Obj(<<>>, <<R("additionalProperties", [t |-> "id", s |-> "integer"])>>), Obj(<<>>, <<R("additionalProperties", [t |-> "id", s |-> "float"])>>),
             Obj(<<P(Empty, One)>>, <<>>), Obj(<<P(Empty, Lit(NumD(N1), <<R("optional", BV(FALSE))>>))>>, <<>>),
             Obj(<<P(Empty, Lit(NumD(N1), <<R("optional", BV(TRUE))>>)), P(Ka, Lit(NumD(N2), <<>>))>>, <<>>),
             Obj(<<P(Ka, Lit(NumD(N2), <<R("optional", BV(TRUE))>>)), P(Empty, One)>>, <<>>) }
Env0 == [types |-> <<>>, enums |-> <<>>]
VARIABLES sch, opt
Init == sch \in Schemas /\ opt \in BOOLEAN
Next == UNCHANGED <<sch, opt>>
Spec == Init /\ [][Next]_<<sch, opt>>
Emit == PrintT("@@CASE " \o ToJson([schema |-> sch, opt |-> opt, verdicts |-> [i \in DOMAIN DocSeq |-> Code3(Verdict(Env0, sch, DocSeq[i], opt))]]))
\* the requirement knows the value of a numeral, not its spelling: 1.5E1 is the integer 15, 15e-1 is not an integer
Spelling == /\ Verdict(Env0, One, NumD(<<49, 46, 53, 69, 49>>), FALSE) = "accept" /\ Verdict(Env0, One, NumD(<<49, 53, 101, 45, 49>>), FALSE) = "reject"
            /\ Verdict(Env0, Lit(NumD(N1_5), <<>>), NumD(<<49, 46, 53, 69, 49>>), FALSE) = "accept"
EmptyKey == /\ Verdict(Env0, Obj(<<P(Empty, One)>>, <<>>), OV(<<>>), FALSE) = "reject" /\ Verdict(Env0, Obj(<<P(Empty, One)>>, <<>>), OV(<<>>), TRUE) = "accept"
            /\ Verdict(Env0, Obj(<<P(Empty, Lit(NumD(N1), <<R("optional", BV(FALSE))>>))>>, <<>>), OV(<<>>), TRUE) = "reject"
ASSUME \A i \in DOMAIN DocSeq : PrintT("@@DOC " \o ToJson([i |-> i, v |-> DocSeq[i]]))
====================================================================================
