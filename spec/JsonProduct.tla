------------------------------ MODULE JsonProduct ------------------------------
(* Product of the implementation-shaped scanner model (I) with the RFC 8259 reference    *)
(* (R).  The state does not contain the input, so TLC's exhaustive exploration is       *)
(* language equality for strings of EVERY length (nesting <= MaxDepth).                  *)
EXTENDS TLC, Naturals, Sequences
CONSTANTS MaxDepth, Alphabet, Trailing, EOF_AcceptsOpenNumber
R == INSTANCE JsonText WITH MaxDepth <- MaxDepth
I == INSTANCE ScanJson WITH MaxDepthI <- MaxDepth, EOF_AcceptsOpenNumber <- EOF_AcceptsOpenNumber
VARIABLES i, r
vars == <<i, r>>
Init == i = I!ImplInit /\ r = R!RefInit
Next == \E c \in Alphabet : i' = I!ImplStep(i, c, Trailing) /\ r' = R!RefStep(r, c, Trailing)
Spec == Init /\ [][Next]_vars

\* both die on the same byte (positions of parse errors, C17 (i)), wherever R has an opinion
SameLiveness == r.v # "unspec" => (i.v = "dead") = (r.v = "dead")
\* same verdict at end of input in every state (C05)
SameAccept == r.v # "unspec" => I!ImplVerdict(i) = R!RefVerdict(r)
\* the lexeme stack of the scanner mirrors the open containers of the reference
StackAgrees == (r.v = "live" /\ i.v = "live" /\ i.step # "stopped") =>
                 Len(SelectSeq(i.stack, LAMBDA e : e \in {"ObjectBegin", "ArrayBegin"})) = Len(r.sk)
View == <<[i EXCEPT !.out = <<>>], r>>
================================================================================
