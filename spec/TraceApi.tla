---------------------------------- MODULE TraceApi ----------------------------------
(* C07 mechanism B: every line is one public call made with arbitrary bytes:               *)
(*   {op, kind, pos, srclen, renders, code}                                                  *)
EXTENDS Api, Sequences, TLC, Json
CONSTANT TraceFile
Trace == ndJsonDeserialize(TraceFile)
VARIABLE l
Init == l = 1
Next == /\ l <= Len(Trace)
        /\ LET e == Trace[l]  p == Problem(e.kind, e.pos, e.srclen, e.renders) IN
           IF p = "ok" THEN TRUE ELSE PrintT("@@MISMATCH " \o ToJson([line |-> l, what |-> p]))
        /\ l' = l + 1
Spec == Init /\ [][Next]_l
====================================================================================
