----------------------------------- MODULE Err -----------------------------------
(* Layer R for C17 (rendering): for a file content (bytes) and a position inside it,    *)
(* the 1-based line number, the text of that line (left-trimmed, cut at 200 bytes) and   *)
(* the caret column.  Specified for pure LF, pure CR and pure CRLF files.                 *)
EXTENDS Integers, Sequences, FiniteSets

IsNl(c) == c \in {10, 13}
IsBlankB(c) == c \in {32, 9, 10, 13}
\* newline convention of a content: "lf" | "cr" | "crlf" | "none" (no line break at all) | "mixed"
Convention(s) ==
  LET hasLF == \E i \in DOMAIN s : s[i] = 10
      hasCR == \E i \in DOMAIN s : s[i] = 13 IN
  IF ~hasLF /\ ~hasCR THEN "none"
  ELSE IF hasLF /\ ~hasCR THEN "lf"
  ELSE IF hasCR /\ ~hasLF THEN "cr"
  ELSE IF (\A i \in DOMAIN s : s[i] = 13 => (i < Len(s) /\ s[i + 1] = 10)) /\ (\A i \in DOMAIN s : s[i] = 10 => (i > 1 /\ s[i - 1] = 13)) THEN "crlf"
  ELSE "mixed"
\* positions are 1-based here (p = offset + 1)
\* index (1-based) of the LAST byte of each line terminator that ends strictly before p, or ends the line p sits on
TermEnds(s, conv) == {i \in DOMAIN s : IF conv = "cr" THEN s[i] = 13 ELSE s[i] = 10}
\* the terminator a position belongs to (if p is on a terminator byte it belongs to the line that terminator ends)
LineOf(s, p, conv) == 1 + Cardinality({i \in TermEnds(s, conv) : i < p})
LineStart(s, p, conv) ==          \* 1-based index of the first byte of p's line
  LET before == {i \in TermEnds(s, conv) : i < p} IN IF before = {} THEN 1 ELSE (CHOOSE m \in before : \A j \in before : j <= m) + 1
LineEndExcl(s, p, conv) ==        \* 1-based index one past the last byte of the line's text (terminator excluded)
  LET after == {i \in TermEnds(s, conv) : i >= p} IN
  IF after = {} THEN Len(s) + 1
  ELSE LET e == CHOOSE m \in after : \A j \in after : m <= j IN IF conv = "crlf" THEN e - 1 ELSE e
RECURSIVE LeadBlanks(_)
LeadBlanks(t) == IF t # <<>> /\ IsBlankB(Head(t)) THEN 1 + LeadBlanks(Tail(t)) ELSE 0
RawLine(s, p, conv) == SubSeq(s, LineStart(s, p, conv), LineEndExcl(s, p, conv) - 1)
\* expected rendering: [line, text: <<bytes>> or <<-1>> for unspecified, col: Nat or -1]
Render(s, p) ==
  LET conv == Convention(s) IN
  IF conv = "mixed" THEN [conv |-> conv, line |-> -1, text |-> <<-1>>, col |-> -1]
  ELSE LET c == IF conv = "none" THEN "lf" ELSE conv
           raw == RawLine(s, p, c)
           lb == LeadBlanks(raw)
           start == LineStart(s, p, c)
           allBlank == lb = Len(raw)
           trimmed == SubSeq(raw, lb + 1, Len(raw))
       IN [conv |-> conv,
           line |-> LineOf(s, p, c),
           text |-> IF allBlank /\ Len(raw) <= 200 THEN <<>>                 \* a line of blanks only: nothing is left of it
                    ELSE IF allBlank THEN <<-1>>
                    ELSE IF Len(raw) <= 200 THEN trimmed
                    ELSE IF lb = 0 THEN SubSeq(raw, 1, 197) \o <<46, 46, 46>> ELSE <<-1>>,
           col |-> IF p >= LineEndExcl(s, p, c) THEN -1
                   ELSE IF allBlank THEN 0                                     \* ... and the caret stands under its (empty) beginning
                   ELSE IF p < start + lb THEN -1 ELSE p - start - lb]
===================================================================================
