------------------------------- MODULE RegexRef -------------------------------
(* Explores RegexText and exports its transition graph; the verdict of an accepting state carries the token length:  accept:<n> *)
EXTENDS RegexText, TLC
CONSTANTS Alphabet, Export
VARIABLE s
Key(x) == ToString(x.st) \o "/" \o ToString(x.n)
V(x) == IF SVerdict(x) = "accept" THEN "accept:" \o ToString(TokenLen(x)) ELSE SVerdict(x)
Init == s = SInit /\ (Export => PrintT("@@I " \o Key(SInit) \o "|" \o V(SInit)))
Next == \E c \in Alphabet :
          LET n == SStep(s, c) IN
          /\ s' = n
          /\ (Export => PrintT("@@T " \o Key(s) \o "|" \o ToString(c) \o "|" \o Key(n) \o "|" \o V(n)))
Spec == Init /\ [][Next]_s
TypeOK == s.v \in {"live", "dead", "unspec"} /\ s.n <= MaxToken
DoneKeepsLength == s.st = "done" => s.n >= 2                  \* two slashes at least
==============================================================================
