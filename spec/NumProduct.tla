-------------------------------- MODULE NumProduct --------------------------------
(* C10: TLC enumerates every string over Alphabet up to MaxLen that is a prefix of an      *)
(* RFC 8259 numeral (history = the string), and checks on every numeral that the          *)
(* implementation-shaped scanner/normaliser (NumScan) agrees with the exact value (Num).   *)
(* With Export it prints one case per numeral for the conformance harness.                 *)
EXTENDS Integers, Sequences, FiniteSets, TLC, Json
CONSTANTS Alphabet, MaxLen, MaxExpDigits, Export, PairLen, ZeroMantissaExpRejected, SignBeforeZero
R == INSTANCE Num
I == INSTANCE NumScan

\* digits of the exponent part: bounded, so that longer strings do not mean astronomically long normal forms
ExpDigits(t) == LET P == {i \in DOMAIN t : t[i] \in {101, 69}} IN
                IF P = {} THEN 0 ELSE LET p == CHOOSE i \in P : TRUE IN Cardinality({j \in (p + 1)..Len(t) : t[j] \in 48..57})
VARIABLE s
Init == s = <<>>
Next == /\ Len(s) < MaxLen
        /\ \E c \in Alphabet :
             /\ R!NumRun("start", Append(s, c)) # "dead"
             /\ ExpDigits(Append(s, c)) <= MaxExpDigits
             /\ s' = Append(s, c)
             /\ (Export /\ R!IsNumeral(s') =>
                   PrintT("@@CASE " \o ToJson([num |-> s', nf |-> R!NF(s'), fraclen |-> R!FracLen(R!NF(s')), intclass |-> R!IntClass(s'),
                                                         pred_ok |-> I!New(s').ok])))
Spec == Init /\ [][Next]_s

ImplValue(n) == R!Norm(n.neg, n.nat, n.exp)
\* the implementation accepts every RFC numeral (C10 quantifies over numerals only; that NewNumber also
\* accepts cut-off strings such as "1." or "1e+" is shown by the model but is not observable through the
\* API, where the document scanner rejects them first)
SameLanguage == R!IsNumeral(s) => I!New(s).ok
OverAccepts == I!New(s).ok => R!IsNumeral(s)          \* not an invariant: documents the over-acceptance
\* ... and represents exactly their value
SameValue == (R!IsNumeral(s) /\ I!New(s).ok) => ImplValue(I!New(s)) = R!NF(s)
SameFracLen == (R!IsNumeral(s) /\ I!New(s).ok) => I!IFracLen(I!New(s)) = R!FracLen(R!NF(s))
\* the representation is canonical: equal values have equal representations (no zero padding left)
Canonical == (R!IsNumeral(s) /\ I!New(s).ok) =>
                LET n == I!New(s) IN (n.exp > 0 => n.nat[Len(n.nat)] # 0) /\ (Len(n.nat) > n.exp => n.nat[1] # 0)
===================================================================================
