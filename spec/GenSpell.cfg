SPECIFICATION Spec
INVARIANT Emit
CHECK_DEADLOCK FALSE
