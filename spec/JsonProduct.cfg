SPECIFICATION Spec
CONSTANT MaxDepth = 4
CONSTANT Alphabet <- mc_Alphabet
CONSTANT Trailing = FALSE
CONSTANT EOF_AcceptsOpenNumber = FALSE
INVARIANT SameLiveness
INVARIANT SameAccept
INVARIANT StackAgrees
VIEW View
CHECK_DEADLOCK FALSE
