SPECIFICATION Spec
CONSTANT Strength = 1
CHECK_DEADLOCK FALSE
