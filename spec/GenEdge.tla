---------------------------------- MODULE GenEdge ----------------------------------
(* Mechanism A for C07: the product  example x rule name x edge value x placement.       *)
(* Every text is a syntactically plausible schema whose single rule carries a value     *)
(* from the edges of its domain (empty string, lone @, wrong kind, empty list, nested   *)
(* empty rule set, ...).  No verdict is attached: the texts are run through every        *)
(* public entry point and judged by Api!Problem (no panic, library error, position      *)
(* inside the source).    @@TEXT "<schema text>"                                        *)
EXTENDS TLC, Sequences, Json
CONSTANT Level

Examples == {"1", "1.5", "\"a\"", "true", "null", "{}", "[]", "@x", "@x | @y"}
Rules == {"type", "or", "enum", "allOf", "additionalProperties", "min", "max", "minLength", "maxLength", "minItems", "maxItems",
          "precision", "regex", "const", "optional", "nullable", "exclusiveMinimum", "exclusiveMaximum", "unknownRule"}
Values == {"\"\"", "\"@\"", "\"@x\"", "@x", "@", "0", "-1", "1.5", "true", "false", "null", "[]", "{}", "[\"\"]", "[\"@x\"]", "[\"@x\", \"@x\"]",
           "[{}]", "[{type: \"\"}]", "[{type: \"object\"}, {type: \"string\"}]", "[{type: \"array\"}, \"integer\"]", "\"any\"", "\"x\"",
           "\"integer\"", "[1, 1]", "[null]", "{type: \"\"}", "99999999999999999999", "\"\\u0000\"", "\"(\""}
Wrap(k, t) == CASE k = 0 -> t
                [] k = 1 -> "{\n  \"p\": " \o t \o "\n}"
                [] k = 2 -> "[\n  " \o t \o "\n]"
                [] k = 3 -> "{\n  @k: " \o t \o "\n}"
Wraps == IF Level = 1 THEN {0, 1} ELSE {0, 1, 2, 3}
\* a container is annotated after its opening bracket
Text(e, r, v) == IF e = "{}" THEN "{ // {" \o r \o ": " \o v \o "}\n}"
                 ELSE IF e = "[]" THEN "[ // {" \o r \o ": " \o v \o "}\n]"
                 ELSE e \o " // {" \o r \o ": " \o v \o "}"
\* references without annotation, to be used as added types with names that are not there
Bare == {"{\n  \"p\": @I | @S\n}", "[\n  @I | @S\n]", "{\n  @k: 1\n}", "@k | @s", "{} // {or: [{type: \"object\"}, {type: \"string\"}]}",
         "[] // {or: [{type: \"array\"}, {type: \"string\"}]}", "{ // {allOf: [\"@a\", \"@a\"]}\n}",
         \* inline comments inside the lists of a multi-line annotation: before the first item, after the last, in an empty list
         "\"a\" /* {enum: [ // c0\n \"a\", // c1\n \"b\" // c2\n]} */", "1 /* {enum: [ // only a comment\n]} */",
         "1 /* {enum: [\n 1 // one\n , 2\n // last\n]} */", "1 /* {or: [ // c0\n \"integer\", // c1\n \"string\"\n]} */",
         "{ /* {allOf: [ // c0\n \"@a\" // c1\n]} */\n}", "1 /* {or: [ // c0\n {type: \"integer\"} // c1\n]} */"}

VARIABLES e, r, v, k
Init == \/ e \in Examples /\ r \in Rules /\ v \in Values /\ k \in Wraps
        \/ e \in Bare /\ r = "" /\ v = "" /\ k = 0
Next == UNCHANGED <<e, r, v, k>>
Spec == Init /\ [][Next]_<<e, r, v, k>>
Emit == PrintT("@@TEXT " \o ToJson(IF r = "" THEN e ELSE Wrap(k, Text(e, r, v))))
====================================================================================
