------------------------------- MODULE EnumRef -------------------------------
(* Explores the reference automaton of EnumText and exports its transition graph (as SchemaRef). *)
EXTENDS EnumText, TLC
CONSTANTS Alphabet, Export
VARIABLE s
Key(x) == ToString(x.st) \o "/" \o ToString(x.sk)
Init == s = SInit /\ (Export => PrintT("@@I " \o Key(SInit) \o "|" \o SVerdict(SInit)))
Next == \E c \in Alphabet :
          LET n == SStep(s, c) IN
          /\ s' = n
          /\ (Export => PrintT("@@T " \o Key(s) \o "|" \o ToString(c) \o "|" \o Key(n) \o "|" \o SVerdict(n)))
Spec == Init /\ [][Next]_s
TypeOK == s.v \in {"live", "dead", "unspec"} /\ Len(s.sk) <= 1
DeadIsAbsorbing == s.v = "dead" => s = RDead
AcceptOnlyClosed == SVerdict(s) = "accept" => s.st \in {"done", "lc"}
==============================================================================
