SPECIFICATION Spec
CONSTANT MaxLen = 5
CHECK_DEADLOCK FALSE
