SPECIFICATION Spec
CONSTANT Level = 1
INVARIANT Emit
INVARIANT GoodObeys
INVARIANT BadViolates
CHECK_DEADLOCK FALSE
