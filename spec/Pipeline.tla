---------------------------------- MODULE Pipeline ----------------------------------
(* Layer I for C08: the first stages of loader/compiler_basic.go over the implementation-    *)
(* shaped ordered constraint map (OMapImpl):  AddConstraint per written rule (Set), the        *)
(* false-rule filter (Filter), then the exclusivity checks of `or` and of a type reference,    *)
(* which count the constraints left in the map.                                                *)
(* Checked by TLC: the verdict is the same for every permutation of the written rules and      *)
(* equals the requirement (Chk!Structure) - and with the recorded switch                       *)
(* FilterRangesWhileDeleting it is not (the order dependence repaired in 09088d5).             *)
EXTENDS Integers, Sequences, FiniteSets, TLC
CONSTANTS DeleteAbsentDropsLast, FilterRangesWhileDeleting
M == INSTANCE OMapImpl WITH FilterDeletesBeforePanic <- FALSE
C == INSTANCE Chk

\* a written rule: name + (for the bool rules) its value
BV(b) == [t |-> "bool", bv |-> b]
Rules == { [n |-> "nullable", v |-> BV(FALSE)], [n |-> "nullable", v |-> BV(TRUE)], [n |-> "const", v |-> BV(FALSE)], [n |-> "const", v |-> BV(TRUE)],
           [n |-> "optional", v |-> BV(TRUE)], [n |-> "or", v |-> [t |-> "list", items |-> <<[t |-> "id", s |-> "integer"], [t |-> "id", s |-> "string"]>>]],
           [n |-> "type", v |-> [t |-> "tref", s |-> "@T"]], [n |-> "min", v |-> [t |-> "num", b |-> <<48>>]] }
RuleLists == UNION {{s \in [1..k -> Rules] : \A i, j \in 1..k : i # j => s[i].n # s[j].n} : k \in 0..3}

RECURSIVE Load(_, _, _)
Load(m, rs, i) == IF i > Len(rs) THEN m ELSE Load(M!ISet(m, rs[i].n, i), rs, i + 1)       \* the value stored = index of the rule
IsFalse(rs, k, v) == v # 0 /\ rs[v].n \in {"nullable", "const"} /\ ~rs[v].v.bv
\* falseConstraints: keep everything except false-valued nullable / const
AfterFilter(rs) ==
  LET m == Load(M!IEmpty, rs, 1)
      keep == {kv \in {r.n : r \in Rules} \X (0..3) : ~(kv[2] \in DOMAIN rs /\ IsFalse(rs, kv[1], kv[2]) /\ rs[kv[2]].n = kv[1])}
  IN M!IFilter(m, keep)
Has(m, k) == k \in DOMAIN m.data
Count(m, S) == Cardinality(DOMAIN m.data \cap S)
\* orConstraint / typeConstraintForUserType: "no other rules"
ImplVerdict(rs) ==
  LET m == AfterFilter(rs)
      n == Cardinality(DOMAIN m.data) IN
  IF Has(m, "or") /\ n - Count(m, {"or", "optional", "nullable"}) # 0 THEN "reject"
  ELSE IF Has(m, "type") /\ ~Has(m, "or") /\ n - Count(m, {"type", "optional", "nullable"}) # 0 THEN "reject"
  ELSE IF Has(m, "or") /\ Has(m, "type") THEN "reject"                                   \* type next to or must be "mixed"
  ELSE "accept"
\* the requirement on the same rule list (node kind int, property position), restricted to the exclusivity clauses
ReqVerdict(rs) == LET v == C!Structure("int", "prop", rs) IN IF v = "unspec" THEN "accept" ELSE v

VARIABLE rs
Init == rs \in RuleLists
Next == UNCHANGED rs
Spec == Init /\ [][Next]_rs
Perm2(s) == IF Len(s) = 2 THEN {<<s[2], s[1]>>} ELSE IF Len(s) = 3 THEN {<<s[1], s[3], s[2]>>, <<s[2], s[1], s[3]>>, <<s[2], s[3], s[1]>>, <<s[3], s[1], s[2]>>, <<s[3], s[2], s[1]>>} ELSE {}
OrderIndependent == \A p \in Perm2(rs) : ImplVerdict(p) = ImplVerdict(rs)
\* exclusivity as the requirement states it (min next to or / type reference is foreign; false-valued rules are inert)
MatchesRequirement == (~\E i \in DOMAIN rs : rs[i].n = "min" /\ ~(\E j \in DOMAIN rs : rs[j].n \in {"or", "type"})) => ImplVerdict(rs) = ReqVerdict(rs)
=====================================================================================
