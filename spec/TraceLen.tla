---------------------------------- MODULE TraceLen ----------------------------------
(* C14: each line is one real Len() call.                                                   *)
(*   {dialect:"json"|"schemaj"|"enumj", bytes, ok, len}    judged on the bytes by the automaton *)
(*      (schemaj / enumj: a plain-JSON text given to the schema / enum Len)                    *)
(*   {dialect:"schema"|"enum", slen, last, sep, tail, ok, len}   judged by the domain table    *)
EXTENDS LenSpec, TLC, Json
CONSTANT TraceFile
Trace == ndJsonDeserialize(TraceFile)
VARIABLE l
Init == l = 1
Problem(e) ==
  IF e.dialect \in {"json", "schemaj", "enumj"} THEN
       (IF IsBlankOnly(e.bytes) THEN "ok"                                     \* empty / blank-only: unspecified
        ELSE LET r == JsonLen(e.bytes) IN
             IF r.kind = "unspec" THEN "ok"
             ELSE IF r.kind = "error" THEN (IF e.ok THEN "no-error" ELSE "ok")
             ELSE IF ~e.ok THEN "error-on-complete-value" ELSE IF e.len # r.len THEN "len:" \o ToString(r.len) ELSE "ok")
  ELSE IF ~InDomain(e.dialect, e.last, e.sep, e.tail) THEN "ok"
  ELSE IF ~e.ok THEN "error-on-accepted-text" ELSE IF e.len # e.slen THEN "len:" \o ToString(e.slen) ELSE "ok"
Next == /\ l <= Len(Trace)
        /\ LET p == Problem(Trace[l]) IN IF p = "ok" THEN TRUE ELSE PrintT("@@MISMATCH " \o ToJson([line |-> l, what |-> p]))
        /\ l' = l + 1
Spec == Init /\ [][Next]_l
====================================================================================
