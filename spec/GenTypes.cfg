SPECIFICATION Spec
CONSTANT Level = 1
INVARIANT Emit
INVARIANT UnionIsUnion
CHECK_DEADLOCK FALSE
