SPECIFICATION Spec
CONSTANT Procs = {"p1", "p2"}
CONSTANT CopyAfterPut = FALSE
CONSTANT AllOfNotAtomic = TRUE
CONSTANT Export = TRUE
INVARIANT EmitDone
CHECK_DEADLOCK FALSE
