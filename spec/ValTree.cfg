SPECIFICATION Spec
CONSTANT DoneLeavesNotMerged = FALSE
INVARIANT Agree
CHECK_DEADLOCK FALSE
