------------------------------- MODULE OMapProduct -------------------------------
(* C19: TLC explores every operation sequence over Keys x Vals applied to the reference   *)
(* map (R) and to the implementation-shaped map (I) in lock step. State merging makes     *)
(* this all histories of every length. With Export it prints the reference transition     *)
(* graph and every state's observer outputs for the conformance harness.                   *)
EXTENDS Naturals, Sequences, FiniteSets, TLC, Json
CONSTANTS Keys, Vals, Export, DeleteAbsentDropsLast, FilterRangesWhileDeleting, FilterDeletesBeforePanic
R == INSTANCE OMap
I == INSTANCE OMapImpl

Swap(v) == IF v = 1 THEN 2 ELSE IF v = 2 THEN 1 ELSE v
SwapKV(k, v) == Swap(v)
KeepA(k, v) == k = "a"
KeepOne(k, v) == v = 1
DropA(k, v) == k # "a"
Preds == {"keepA", "keepOne"}
P(p, k, v) == IF p = "keepA" THEN KeepA(k, v) ELSE KeepOne(k, v)

Ops == {[op |-> "Set", k |-> k, v |-> v] : k \in Keys, v \in Vals}
  \cup {[op |-> "Update", k |-> k, v |-> 0] : k \in Keys}
  \cup {[op |-> "Delete", k |-> k, v |-> 0] : k \in Keys}
  \cup {[op |-> "Filter", k |-> p, v |-> 0] : p \in Preds}
  \cup {[op |-> "FilterPanic", k |-> "dropAPanicB", v |-> 0]}            \* the callback refuses "a" and panics on "b"
  \cup {[op |-> "Map", k |-> f, v |-> 0] : f \in {"swap", "failB"}}

ApplyR(m, o) ==
  CASE o.op = "Set" -> R!Set(m, o.k, o.v)
    [] o.op = "Update" -> R!Update(m, o.k, Swap)
    [] o.op = "Delete" -> R!Delete(m, o.k)
    [] o.op = "Filter" -> R!Filter(m, LAMBDA k, v : P(o.k, k, v))
    [] o.op = "FilterPanic" -> R!FilterPanic(m, DropA, {"b"})
    [] o.op = "Map" -> R!MapF(m, SwapKV, IF o.k = "failB" THEN {"b"} ELSE {})
ApplyI(m, o) ==
  CASE o.op = "Set" -> I!ISet(m, o.k, o.v)
    [] o.op = "Update" -> I!IUpdate(m, o.k, Swap)
    [] o.op = "Delete" -> I!IDelete(m, o.k)
    [] o.op = "Filter" -> I!IFilter(m, {kv \in Keys \X (Vals \cup {0}) : P(o.k, kv[1], kv[2])})
    [] o.op = "FilterPanic" -> I!IFilterPanic(m, {kv \in Keys \X (Vals \cup {0}) : DropA(kv[1], kv[2])}, {"b"})
    [] o.op = "Map" -> I!IMap(m, [v \in Vals \cup {0} |-> Swap(v)], IF o.k = "failB" THEN {"b"} ELSE {})

VARIABLES r, i
vars == <<r, i>>
Obs(m) == [len |-> R!LenOf(m), items |-> R!Items(m),
           get |-> [k \in Keys |-> R!Get(m, k, 0)], has |-> [k \in Keys |-> R!Has(m, k)],
           findA |-> R!Find(m, KeepA), findOne |-> R!Find(m, KeepOne),
           eachFailB |-> R!EachVisited(m, {"b"})]
Init == r = R!Empty /\ i = I!IEmpty /\ (Export => PrintT("@@S " \o ToJson([s |-> R!Items(R!Empty), obs |-> Obs(R!Empty)])))
Next == \E o \in Ops :
          /\ r' = ApplyR(r, o)
          /\ i' = ApplyI(i, o)
          /\ (Export => PrintT("@@T " \o ToJson([from |-> R!Items(r), op |-> o, to |-> R!Items(r'),
                                                err |-> (o.op = "Map" /\ R!MapErr(r, IF o.k = "failB" THEN {"b"} ELSE {})),
                                                obs |-> Obs(r')])))
Spec == Init /\ [][Next]_vars

RefWellFormed == R!WellFormed(r)
\* the implementation-shaped map shows exactly the reference state through every observer
SameItems == I!IItems(i) = R!Items(r)
SameLen   == I!ILen(i) = R!LenOf(r)
\* insertion ranks of surviving keys never change relative to each other
OrderMonotone == [][\A a, b \in DOMAIN r.data \cap DOMAIN r'.data :
                      (R!Pos(r, a) < R!Pos(r, b)) <=> (R!Pos(r', a) < R!Pos(r', b))]_vars
View == <<r, I!Order(i), i.data>>
==================================================================================
