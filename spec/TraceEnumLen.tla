------------------------------- MODULE TraceEnumLen -------------------------------
(* C14, enum dialect: each line is one real Enum.Len() call (same judgement as TraceSchemaLen) *)
(*   {bytes, ok, len}                                                                          *)
(* judged on the bytes by the reference acceptor of the notation (SchemaText):                  *)
(*  - the text runs into a first byte that cannot continue it while the acceptor is between     *)
(*    tokens at the top level with a complete schema behind it, after a blank / line break or   *)
(*    directly after a closing bracket or quote: Len is the length of that prefix without its   *)
(*    trailing blanks;                                                                           *)
(*  - the text dies, or ends, before any prefix of it was a complete schema: Len is an error;   *)
(*  - everything else (no foreign byte at all, a foreign byte directly after a number, literal, *)
(*    type shortcut or inside an annotation, anything the acceptor has no verdict for): silent. *)
EXTENDS EnumText, Integers, TLC, Json
CONSTANT TraceFile
Trace == ndJsonDeserialize(TraceFile)
VARIABLE l
Init == l = 1

RECURSIVE Walk(_, _, _, _)
\* i bytes consumed, s the state after them, seen: some shorter prefix was a complete schema
Walk(s, bytes, i, seen) ==
  IF i = Len(bytes) THEN [dead |-> -1, st |-> s, seen |-> seen]
  ELSE LET n == SStep(s, bytes[i + 1]) IN
       IF n.v = "dead" THEN [dead |-> i, st |-> s, seen |-> seen]
       ELSE Walk(n, bytes, i + 1, seen \/ SVerdict(s) = "accept")
RECURSIVE TrimLen(_, _)
TrimLen(bytes, n) == IF n = 0 THEN 0 ELSE IF Sp(bytes[n]) \/ Nl(bytes[n]) THEN TrimLen(bytes, n - 1) ELSE n

NoValueYet(st) == st.st = "lead" \/ (st.sk # <<>> /\ Kind(st.sk[1]) \in {"H", "LC", "BC"} /\ Ret(st.sk[1]) = "lead")
\* [kind |-> "len", n] | [kind |-> "error"] | [kind |-> "unspec"]
Want(bytes) ==
  LET w == Walk(SInit, bytes, 0, FALSE)
      u == [kind |-> "unspec", n |-> 0] IN
  IF w.st.v # "live" THEN u
  ELSE IF NoValueYet(w.st) THEN u                       \* blanks and comments only: like the empty text, left open
  ELSE IF w.dead = -1 THEN (IF SVerdict(w.st) = "reject" /\ ~w.seen THEN [kind |-> "error", n |-> 0] ELSE u)
  ELSE IF SVerdict(w.st) = "accept" THEN
         (IF w.st.st = "done" /\ w.st.sk = <<>> /\ w.dead >= 1
             /\ (Sp(bytes[w.dead]) \/ Nl(bytes[w.dead]) \/ bytes[w.dead] \in {125, 93, 34})
          THEN [kind |-> "len", n |-> TrimLen(bytes, w.dead)] ELSE u)
  ELSE IF SVerdict(w.st) = "reject" /\ ~w.seen THEN [kind |-> "error", n |-> 0]
  ELSE u
Problem(e) ==
  LET w == Want(e.bytes) IN
  CASE w.kind = "unspec" -> "ok"
    [] w.kind = "error"  -> IF e.ok THEN "no-error" ELSE "ok"
    [] w.kind = "len"    -> IF ~e.ok THEN "error-on-complete-schema" ELSE IF e.len # w.n THEN "len:" \o ToString(w.n) ELSE "ok"
Next == /\ l <= Len(Trace)
        /\ LET p == Problem(Trace[l]) IN IF p = "ok" THEN TRUE ELSE PrintT("@@MISMATCH " \o ToJson([line |-> l, what |-> p]))
        /\ l' = l + 1
Spec == Init /\ [][Next]_l
=====================================================================================
