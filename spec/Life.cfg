SPECIFICATION Spec
CONSTANT SharedTypeCompiledInPlace = TRUE
CONSTANT World = "main"
CONSTANT MaxLen = 2
CONSTANT Export = TRUE
INVARIANT Emit
INVARIANT NoHistoryNeeded
INVARIANT DeviationOnlyS5
CHECK_DEADLOCK FALSE
