SPECIFICATION Spec
CONSTANT MaxLen = 2
CONSTANT Export = TRUE
INVARIANT Emit
INVARIANT NoHistoryNeeded
CHECK_DEADLOCK FALSE
