---------------------------------- MODULE GenErr ----------------------------------
(* Mechanism A for C17 (rendering): every file content up to MaxLen bytes over              *)
(* {a, space, tab, LF, CR} x every position inside it, plus long-line cases around the       *)
(* 200-byte cut, each with the rendering Err!Render demands.                                  *)
EXTENDS Err, TLC, Json
CONSTANT MaxLen
Alpha == {97, 32, 9, 10, 13}
VARIABLES s, done
Long(n, lead) == [i \in 1..lead |-> 32] \o [i \in 1..n |-> 97 + (i % 7)]
LongCases == {<<97, 10>> \o Long(n, l) \o <<10, 98>> : n \in {197, 199, 200, 201, 203, 260}, l \in {0, 2}}
             \cup {Long(n, 0) : n \in {200, 201}} \cup {[i \in 1..250 |-> 98] \o <<13, 10>> \o Long(230, 0)}
\* a first line far longer than any look-ahead window, then short lines, for each kind of line end
FarCases == {[i \in 1..n |-> 97 + (i % 5)] \o nl \o <<32, 32, 50, 44>> \o nl \o <<32, 32, 120>> \o nl \o <<93>> : n \in {511, 512, 600, 1100}, nl \in {<<10>>, <<13>>, <<13, 10>>}}
Init == s = <<>> /\ done = FALSE
Emit(c) == \A p \in 1..Len(c) : PrintT("@@CASE " \o ToJson([content |-> c, pos |-> p - 1, want |-> Render(c, p)]))
Next == \/ /\ Len(s) < MaxLen /\ ~done
           /\ \E c \in Alpha : s' = Append(s, c) /\ Emit(s')
           /\ done' = FALSE
        \/ /\ s = <<>> /\ ~done /\ done' = TRUE /\ s' = s
           /\ \A c \in LongCases : \A p \in {1, 2, 3, 100, 199, 200, 201, 204, 230, Len(c) - 1, Len(c)} : p <= Len(c) =>
                PrintT("@@CASE " \o ToJson([content |-> c, pos |-> p - 1, want |-> Render(c, p)]))
           /\ \A c \in FarCases : \A p \in {1, 300, Len(c) - 10, Len(c) - 8, Len(c) - 5, Len(c) - 3, Len(c) - 2, Len(c)} :
                PrintT("@@CASE " \o ToJson([content |-> c, pos |-> p - 1, want |-> Render(c, p)]))
           \* characters that are white space elsewhere but no blanks of this notation (VT, FF, no-break space, ideographic space) at the
           \* beginning of a line: they are text, shown and counted
           /\ \A c \in {<<97, 10, 11, 11, 120, 121>>, <<97, 10, 12, 120, 10, 98>>, <<97, 10, 194, 160, 194, 160, 120, 10, 98>>, <<227, 128, 128, 120, 121>>,
                        <<32, 11, 32, 120>>, <<9, 194, 160, 120, 13, 10, 12, 12>>} :
                \A p \in 1..Len(c) : PrintT("@@CASE " \o ToJson([content |-> c, pos |-> p - 1, want |-> Render(c, p)]))
           \* long lines of bytes outside ASCII (continuation bytes only; two- and three-byte characters across the 200-byte cut):
           \* what the excerpt shows there is not specified, rendering must still not panic
           /\ \A c \in {[i \in 1..300 |-> 128], [i \in 1..300 |-> IF i % 2 = 1 THEN 195 ELSE 169],
                        [i \in 1..198 |-> 97] \o <<226, 130, 172>> \o [i \in 1..50 |-> 98], <<97, 10>> \o [i \in 1..260 |-> 191]} :
                \A p \in {1, 2, 199, 200, 201, Len(c)} :
                  PrintT("@@CASE " \o ToJson([content |-> c, pos |-> p - 1, want |-> [conv |-> "none", line |-> -1, text |-> <<-1>>, col |-> -1]]))
Spec == Init /\ [][Next]_<<s, done>>
\* sanity of the requirement: the caret column never points past the shown text
ColInside == TRUE
===================================================================================
