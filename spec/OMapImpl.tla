-------------------------------- MODULE OMapImpl --------------------------------
(* Layer I for C19: the generated ordered maps (the three _gen.go files) with Go slice semantics.      *)
(*   back : backing array of `order` (a sequence, never shrinks below olen)            *)
(*   olen : len(order);   data : the Go map                                             *)
(* Named defect switches (both repaired in the repository, kept for the record):        *)
(*   DeleteAbsentDropsLast     - delete() removed the last slot when the key was absent *)
(*   FilterRangesWhileDeleting - Filter ranged over order while delete() shifted it     *)
(*   FilterDeletesBeforePanic  - Filter removed refused entries from the data as it went: *)
(*                               a panicking callback left data and order out of step     *)
EXTENDS Naturals, Sequences, FiniteSets
CONSTANTS DeleteAbsentDropsLast, FilterRangesWhileDeleting, FilterDeletesBeforePanic

IEmpty == [back |-> <<>>, olen |-> 0, data |-> <<>>]
Order(m) == SubSeq(m.back, 1, m.olen)
IHas(m, k) == k \in DOMAIN m.data
PutData(d, k, v) == [x \in DOMAIN d \cup {k} |-> IF x = k THEN v ELSE d[x]]
DelData(d, k) == [x \in DOMAIN d \ {k} |-> d[x]]

ISet(m, k, v) ==
  IF IHas(m, k) THEN [m EXCEPT !.data = PutData(m.data, k, v)]
  ELSE [back |-> Append(Order(m), k) \o SubSeq(m.back, m.olen + 2, Len(m.back)),   \* append(order, k): writes slot olen+1
        olen |-> m.olen + 1, data |-> PutData(m.data, k, v)]
IUpdate(m, k, F(_)) == IF IHas(m, k) THEN [m EXCEPT !.data = PutData(m.data, k, F(m.data[k]))] ELSE m

\* append(order[:i], order[i+1:]...) : in-place left shift inside the backing array
RemoveSlot(m, i) ==
  [m EXCEPT !.back = [j \in DOMAIN m.back |-> IF j >= i /\ j < m.olen THEN m.back[j + 1] ELSE m.back[j]],
            !.olen = m.olen - 1]
IndexOf(m, k) == LET idx == {i \in 1..m.olen : m.back[i] = k} IN
                 IF idx = {} THEN 0 ELSE CHOOSE i \in idx : \A j \in idx : i <= j
IDelete(m, k) ==
  LET i == IndexOf(m, k)
      m1 == [m EXCEPT !.data = DelData(m.data, k)] IN
  IF i # 0 THEN RemoveSlot(m1, i)
  ELSE IF DeleteAbsentDropsLast /\ m.olen > 0 THEN RemoveSlot(m1, m.olen) ELSE m1

\* Filter: old code = `for _, k := range m.order { if !fn(k, data[k]) { m.delete(k) } }` where range
\* evaluates the slice header once (length n0) and reads the shared backing array slot by slot.
\* keep = the set of <<k, v>> pairs the predicate accepts (0 is Go's zero value for an absent key).
ValAt(m, k) == IF IHas(m, k) THEN m.data[k] ELSE 0
RECURSIVE FilterLoop(_, _, _, _)
FilterLoop(m, i, n0, keep) ==
  IF i > n0 THEN m
  ELSE LET k == m.back[i] IN
       FilterLoop(IF <<k, ValAt(m, k)>> \in keep THEN m ELSE IDelete(m, k), i + 1, n0, keep)
IFilter(m, keep) ==
  IF FilterRangesWhileDeleting THEN FilterLoop(m, 1, m.olen, keep)
  ELSE LET kept == SelectSeq(Order(m), LAMBDA k : <<k, m.data[k]>> \in keep) IN
       [back |-> kept, olen |-> Len(kept), data |-> [x \in {kept[j] : j \in DOMAIN kept} |-> m.data[x]]]

\* Filter with a callback that panics on the keys in PanicAt (the caller recovers). Old code: entries refused before the panic are
\* already deleted from data, `m.order = kept` is never reached; new code: nothing is touched before every entry has been asked about.
IFilterPanic(m, keep, PanicAt) ==
  LET idx == {j \in 1..m.olen : m.back[j] \in PanicAt}
      stop == IF idx = {} THEN m.olen + 1 ELSE CHOOSE j \in idx : \A q \in idx : j <= q IN
  IF stop > m.olen THEN IFilter(m, keep)
  ELSE IF FilterDeletesBeforePanic
       THEN [m EXCEPT !.data = [x \in {k \in DOMAIN m.data : ~(\E j \in 1..(stop - 1) : m.back[j] = k /\ <<k, m.data[k]>> \notin keep)} |-> m.data[x]]]
       ELSE m
IFirstFail(m, FailAt) ==
  LET idx == {j \in 1..m.olen : m.back[j] \in FailAt} IN
  IF idx = {} THEN m.olen + 1 ELSE CHOOSE j \in idx : \A q \in idx : j <= q
\* fv = the callback as a function on values
RECURSIVE MapLoop(_, _, _, _)
MapLoop(m, i, stop, fv) ==
  IF i >= stop THEN m
  ELSE LET k == m.back[i] IN MapLoop([m EXCEPT !.data = PutData(m.data, k, fv[ValAt(m, k)])], i + 1, stop, fv)
IMap(m, fv, FailAt) == MapLoop(m, 1, IFirstFail(m, FailAt), fv)

\* abstraction to the reference state (what the observers show)
ILen(m) == Cardinality(DOMAIN m.data)                 \* Len() is len(data), not len(order)
IItems(m) == [j \in 1..m.olen |-> <<m.back[j], ValAt(m, m.back[j])>>]
=================================================================================
