----------------------------------- MODULE Num -----------------------------------
(* Layer R for C10: JSON numerals as byte sequences and their exact mathematical value. *)
(* No machine integers are used for values (TLC integers are 32 bit): a value is a      *)
(* normal form  [neg, d, s]  meaning  (-1)^neg * d * 10^(-s)  where d is a digit         *)
(* sequence without leading or trailing zeros (empty for zero, then neg = FALSE, s = 0). *)
EXTENDS Integers, Sequences

IsDig(c) == c \in 48..57
\* ---- RFC 8259 numeral recogniser (DFA) ----
NumStep(st, c) ==
  CASE st = "start" -> IF c = 45 THEN "minus" ELSE IF c = 48 THEN "zero" ELSE IF c \in 49..57 THEN "int" ELSE "dead"
    [] st = "minus" -> IF c = 48 THEN "zero" ELSE IF c \in 49..57 THEN "int" ELSE "dead"
    [] st = "zero"  -> IF c = 46 THEN "dot" ELSE IF c \in {101, 69} THEN "e" ELSE "dead"
    [] st = "int"   -> IF IsDig(c) THEN "int" ELSE IF c = 46 THEN "dot" ELSE IF c \in {101, 69} THEN "e" ELSE "dead"
    [] st = "dot"   -> IF IsDig(c) THEN "frac" ELSE "dead"
    [] st = "frac"  -> IF IsDig(c) THEN "frac" ELSE IF c \in {101, 69} THEN "e" ELSE "dead"
    [] st = "e"     -> IF c \in {43, 45} THEN "esign" ELSE IF IsDig(c) THEN "exp" ELSE "dead"
    [] st = "esign" -> IF IsDig(c) THEN "exp" ELSE "dead"
    [] st = "exp"   -> IF IsDig(c) THEN "exp" ELSE "dead"
    [] OTHER -> "dead"
NumFinal(st) == st \in {"zero", "int", "frac", "exp"}
RECURSIVE NumRun(_, _)
NumRun(st, s) == IF s = <<>> THEN st ELSE NumRun(NumStep(st, Head(s)), Tail(s))
IsNumeral(s) == NumFinal(NumRun("start", s))

\* ---- parsing a numeral (assumed IsNumeral) into sign, integer digits, fraction digits, exponent ----
RECURSIVE TakeDigits(_)
TakeDigits(s) == IF s # <<>> /\ IsDig(Head(s)) THEN <<Head(s) - 48>> \o TakeDigits(Tail(s)) ELSE <<>>
Drop(s, n) == SubSeq(s, n + 1, Len(s))
RECURSIVE DigitsToInt(_, _)
DigitsToInt(ds, acc) == IF ds = <<>> THEN acc ELSE DigitsToInt(Tail(ds), acc * 10 + Head(ds))   \* exponents only (small)
Parse(s) ==
  LET neg  == s[1] = 45
      s1   == IF neg THEN Tail(s) ELSE s
      ip   == TakeDigits(s1)
      s2   == Drop(s1, Len(ip))
      hasF == s2 # <<>> /\ Head(s2) = 46
      fp   == IF hasF THEN TakeDigits(Tail(s2)) ELSE <<>>
      s3   == IF hasF THEN Drop(s2, 1 + Len(fp)) ELSE s2
      hasE == s3 # <<>>
      s4   == IF hasE THEN Tail(s3) ELSE <<>>
      eneg == s4 # <<>> /\ Head(s4) = 45
      s5   == IF s4 # <<>> /\ Head(s4) \in {43, 45} THEN Tail(s4) ELSE s4
      ev   == DigitsToInt(TakeDigits(s5), 0)
  IN [neg |-> neg, ip |-> ip, fp |-> fp, hasDot |-> hasF, hasExp |-> hasE, exp |-> IF eneg THEN 0 - ev ELSE ev]

RECURSIVE StripLead(_)
StripLead(d) == IF d # <<>> /\ Head(d) = 0 THEN StripLead(Tail(d)) ELSE d
RECURSIVE StripTrail(_, _)
\* returns <<digits, removed count>>
StripTrail(d, n) == IF d # <<>> /\ d[Len(d)] = 0 THEN StripTrail(SubSeq(d, 1, Len(d) - 1), n + 1) ELSE <<d, n>>
\* normal form of  digits * 10^(-scale)
Norm(neg, digits, scale) ==
  LET st == StripTrail(digits, 0)
      d  == StripLead(st[1])
  IN IF d = <<>> THEN [neg |-> FALSE, d |-> <<>>, s |-> 0]
     ELSE [neg |-> neg, d |-> d, s |-> scale - st[2]]
NF(s) == LET p == Parse(s) IN Norm(p.neg, p.ip \o p.fp, Len(p.fp) - p.exp)

\* ---- order on normal forms ----
IsZero(x) == x.d = <<>>
Mag(x) == Len(x.d) - x.s                      \* number of integer digits (position of the leading digit)
RECURSIVE LexLess(_, _)
LexLess(a, b) ==                              \* digit sequences compared with zero padding on the right
  IF a = <<>> /\ b = <<>> THEN FALSE
  ELSE LET x == IF a = <<>> THEN 0 ELSE Head(a)
           y == IF b = <<>> THEN 0 ELSE Head(b) IN
       IF x < y THEN TRUE ELSE IF x > y THEN FALSE
       ELSE LexLess(IF a = <<>> THEN a ELSE Tail(a), IF b = <<>> THEN b ELSE Tail(b))
AbsLess(x, y) ==
  IF IsZero(x) THEN ~IsZero(y)
  ELSE IF IsZero(y) THEN FALSE
  ELSE IF Mag(x) # Mag(y) THEN Mag(x) < Mag(y)
  ELSE LexLess(x.d, y.d)
Less(x, y) ==
  IF x.neg # y.neg THEN x.neg
  ELSE IF x.neg THEN AbsLess(y, x) ELSE AbsLess(x, y)
Eq(x, y) == x = y
Cmp(x, y) == IF Less(x, y) THEN -1 ELSE IF Less(y, x) THEN 1 ELSE 0

\* fractional digits of the normalised expansion (precision rule)
FracLen(x) == IF x.s > 0 THEN x.s ELSE 0
\* integer classification: "yes" | "no" | "unspec"
\* (a literal with '.' and no exponent whose value is integral, e.g. 1.0, is pinned as float by the
\*  repository's suite although its normalised expansion is integral: left unspecified)
IntClass(s) ==
  LET p == Parse(s) x == NF(s) IN
  IF FracLen(x) > 0 THEN "no"
  ELSE IF p.hasDot /\ ~p.hasExp THEN "unspec"
  ELSE "yes"
===================================================================================
