------------------------------- MODULE ScanJson -------------------------------
(* Layer I.  Implementation-shaped model of formats/json/scanner.go: one operator per   *)
(* step function, the lexeme stack, unfinishedLiteral, and the end-of-input rule of      *)
(* scanner.Next / Document.check.  Each call of ImplStep is "one byte"; the events the   *)
(* byte makes the scanner find are returned in .out (types only, spans are in Events).   *)
(* Named defect switches (DESIGN 2.5):                                                   *)
(*   EOF_AcceptsOpenNumber  - unfinishedLiteral not maintained through '.', 'e', sign    *)
(*                            (formats/json/scanner.go state0/stateDot/stateDot0/ESign;  *)
(*                            repaired in the repository, switch kept for the record)    *)
EXTENDS Naturals, Sequences
CONSTANTS MaxDepthI, EOF_AcceptsOpenNumber

IBlank(c) == c \in {32, 9, 10, 13}          \* bytes.IsBlank
IDigit(c) == c \in 48..57
IHex(c)   == c \in 48..57 \/ c \in 65..70 \/ c \in 97..102

ITop(s) == s[Len(s)]
IPop(s) == SubSeq(s, 1, Len(s) - 1)

\* scanner state: step (name of the step func), stack (types of open lexemes), unf, v, out
IS(st, sk, u, out) == [step |-> st, stack |-> sk, unf |-> u, v |-> "live", out |-> out]
IDead == [step |-> "dead", stack |-> <<>>, unf |-> FALSE, v |-> "dead", out |-> <<>>]
IDeep == [step |-> "deep", stack |-> <<>>, unf |-> FALSE, v |-> "unspec", out |-> <<>>]
ImplInit == IS("foundRootValue", <<>>, FALSE, <<>>)

\* The stack after the events in `out` have been processed by processingFoundLexeme:
\* openings push, closings pop.
IsOpening(e) == e \in {"LiteralBegin", "ObjectBegin", "ArrayBegin", "KeyBegin", "ValueBegin", "ItemBegin"}
RECURSIVE ApplyEvents(_, _)
ApplyEvents(sk, out) ==
  IF out = <<>> THEN sk
  ELSE IF Head(out) = "EndTop" THEN ApplyEvents(sk, Tail(out))
  ELSE IF IsOpening(Head(out)) THEN ApplyEvents(Append(sk, Head(out)), Tail(out))
  ELSE ApplyEvents(IPop(sk), Tail(out))

EndTop(c, sk, u, out, trailing) ==
  IF IBlank(c) THEN IS("endTop", sk, u, out)
  ELSE IF trailing THEN IS("endTop", sk, u, Append(out, "EndTop")) ELSE IDead

AfterKey(c, sk, u, out) ==
  IF IBlank(c) THEN IS("afterObjectKey", sk, u, out)
  ELSE IF c = 58 THEN IS("foundObjectValueBegin", sk, u, out) ELSE IDead
AfterObjVal(c, sk, u, out) ==
  IF IBlank(c) THEN IS("afterObjectValue", sk, u, out)
  ELSE IF c = 44 THEN IS("foundObjectKeyBegin", sk, u, out)
  ELSE IF c = 125 THEN IS("endValue", sk, u, Append(out, "ObjectEnd")) ELSE IDead
\* stateFoundArrayEnd looks at the stack *before* the pending events are processed
AfterArrItem(c, sk, u, out) ==
  IF IBlank(c) THEN IS("afterArrayItem", sk, u, out)
  ELSE IF c = 44 THEN IS("foundArrayItemBegin", sk, u, out)
  ELSE IF c = 93 THEN IS(IF Len(sk) = 0 THEN "endTop" ELSE "endValue", sk, u, Append(out, "ArrayEnd")) ELSE IDead

\* stateEndValue: sk is the stack as it is when the byte arrives (pending events none)
EndValue(c, sk, u, trailing) ==
  IF Len(sk) = 0 THEN EndTop(c, sk, u, <<>>, trailing)
  ELSE LET lit == ITop(sk) = "LiteralBegin"
           out == IF lit THEN <<"LiteralEnd">> ELSE <<>>
       IN IF lit /\ Len(sk) = 1 THEN EndTop(c, sk, u, out, trailing)
          ELSE LET t == IF lit THEN sk[Len(sk) - 1] ELSE ITop(sk) IN
               CASE t = "KeyBegin"   -> AfterKey(c, sk, u, Append(out, "KeyEnd"))
                 [] t = "ValueBegin" -> AfterObjVal(c, sk, u, Append(out, "ValueEnd"))
                 [] t = "ItemBegin"  -> AfterArrItem(c, sk, u, Append(out, "ItemEnd"))
                 [] OTHER -> IDead

\* stateBeginValue: kind and next step
BeginValue(c) ==
  CASE IBlank(c) -> [k |-> "none"]
    [] c = 123 -> [k |-> "obj"]
    [] c = 91  -> [k |-> "arr"]
    [] c = 34  -> [k |-> "lit", st |-> "inString", u |-> TRUE]
    [] c = 45  -> [k |-> "lit", st |-> "neg", u |-> TRUE]
    [] c = 48  -> [k |-> "lit", st |-> "s0", u |-> FALSE]
    [] c = 116 -> [k |-> "lit", st |-> "T", u |-> TRUE]
    [] c = 102 -> [k |-> "lit", st |-> "F", u |-> TRUE]
    [] c = 110 -> [k |-> "lit", st |-> "N", u |-> TRUE]
    [] c \in 49..57 -> [k |-> "lit", st |-> "s1", u |-> FALSE]
    [] OTHER -> [k |-> "dead"]

Depth(sk) == Len(SelectSeq(sk, LAMBDA e : e \in {"ObjectBegin", "ArrayBegin"}))

Begin(c, cur, sk, u, pre) ==
  LET b == BeginValue(c) IN
  CASE b.k = "none" -> IS(cur, sk, u, <<>>)
    [] b.k = "dead" -> IDead
    [] b.k = "obj"  -> IF Depth(sk) >= MaxDepthI THEN IDeep ELSE IS("foundObjectKeyBeginOrEmpty", sk, u, pre \o <<"ObjectBegin">>)
    [] b.k = "arr"  -> IF Depth(sk) >= MaxDepthI THEN IDeep ELSE IS("foundArrayItemBeginOrEmpty", sk, u, pre \o <<"ArrayBegin">>)
    [] b.k = "lit"  -> IS(b.st, sk, b.u, pre \o <<"LiteralBegin">>)

BeginString(c, sk, u, out) == IF c = 34 THEN IS("inString", sk, u, out) ELSE IDead
Expect(c, want, nxt, sk, u) == IF c = want THEN IS(nxt, sk, u, <<>>) ELSE IDead
ExpectEnd(c, want, sk) == IF c = want THEN IS("endValue", sk, FALSE, <<>>) ELSE IDead

OpenNum(u) == IF EOF_AcceptsOpenNumber THEN u ELSE TRUE
S0(c, sk, u, trailing) ==
  IF c = 46 THEN IS("dot", sk, OpenNum(u), <<>>)
  ELSE IF c \in {101, 69} THEN IS("E", sk, OpenNum(u), <<>>)
  ELSE EndValue(c, sk, u, trailing)
ESign(c, sk, u) == IF IDigit(c) THEN IS("E0", sk, IF EOF_AcceptsOpenNumber THEN u ELSE FALSE, <<>>) ELSE IDead

Raw(s, c, trailing) ==
  LET step == s.step  sk == s.stack  u == s.unf IN
  CASE step = "foundRootValue" -> Begin(c, step, sk, u, <<>>)
    [] step = "foundObjectKeyBeginOrEmpty" ->
         IF IBlank(c) THEN IS(step, sk, u, <<>>)
         ELSE IF c = 125 THEN IS("endValue", sk, u, <<"ObjectEnd">>)
         ELSE BeginString(c, sk, u, <<"KeyBegin">>)       \* note: KeyBegin found before the byte is checked
    [] step = "foundObjectKeyBegin" ->
         IF IBlank(c) THEN IS(step, sk, u, <<>>) ELSE BeginString(c, sk, u, <<"KeyBegin">>)
    [] step = "foundObjectValueBegin" -> Begin(c, step, sk, u, <<"ValueBegin">>)
    [] step = "foundArrayItemBeginOrEmpty" ->
         IF c = 93 THEN IS(IF Len(sk) = 0 THEN "endTop" ELSE "endValue", sk, u, <<"ArrayEnd">>)
         ELSE Begin(c, step, sk, u, <<"ItemBegin">>)
    [] step = "foundArrayItemBegin" -> Begin(c, step, sk, u, <<"ItemBegin">>)
    [] step = "endValue" -> EndValue(c, sk, u, trailing)
    [] step = "afterObjectKey" -> AfterKey(c, sk, u, <<>>)
    [] step = "afterObjectValue" -> AfterObjVal(c, sk, u, <<>>)
    [] step = "afterArrayItem" -> AfterArrItem(c, sk, u, <<>>)
    [] step = "endTop" -> EndTop(c, sk, u, <<>>, trailing)
    [] step = "inString" -> IF c = 34 THEN IS("endValue", sk, FALSE, <<>>)
                            ELSE IF c = 92 THEN IS("inStringEsc", sk, u, <<>>)
                            ELSE IF c < 32 THEN IDead ELSE IS(step, sk, u, <<>>)
    [] step = "inStringEsc" -> IF c \in {98, 102, 110, 114, 116, 92, 47, 34} THEN IS("inString", sk, u, <<>>)
                               ELSE IF c = 117 THEN IS("escU", sk, u, <<>>) ELSE IDead
    [] step = "escU"    -> IF IHex(c) THEN IS("escU1", sk, u, <<>>) ELSE IDead
    [] step = "escU1"   -> IF IHex(c) THEN IS("escU12", sk, u, <<>>) ELSE IDead
    [] step = "escU12"  -> IF IHex(c) THEN IS("escU123", sk, u, <<>>) ELSE IDead
    [] step = "escU123" -> IF IHex(c) THEN IS("inString", sk, u, <<>>) ELSE IDead
    [] step = "neg" -> IF c = 48 THEN IS("s0", sk, FALSE, <<>>) ELSE IF c \in 49..57 THEN IS("s1", sk, FALSE, <<>>) ELSE IDead
    [] step = "s1"  -> IF IDigit(c) THEN IS("s1", sk, u, <<>>) ELSE S0(c, sk, u, trailing)
    [] step = "s0"  -> S0(c, sk, u, trailing)
    [] step = "dot" -> IF IDigit(c) THEN IS("dot0", sk, IF EOF_AcceptsOpenNumber THEN u ELSE FALSE, <<>>) ELSE IDead
    [] step = "dot0" -> IF IDigit(c) THEN IS(step, sk, u, <<>>)
                        ELSE IF c \in {101, 69} THEN IS("E", sk, OpenNum(u), <<>>) ELSE EndValue(c, sk, u, trailing)
    [] step = "E" -> IF c \in {43, 45} THEN IS("ESign", sk, u, <<>>) ELSE ESign(c, sk, u)
    [] step = "ESign" -> ESign(c, sk, u)
    [] step = "E0" -> IF IDigit(c) THEN IS(step, sk, u, <<>>) ELSE EndValue(c, sk, u, trailing)
    [] step = "T"    -> Expect(c, 114, "Tr", sk, u)
    [] step = "Tr"   -> Expect(c, 117, "Tru", sk, u)
    [] step = "Tru"  -> ExpectEnd(c, 101, sk)
    [] step = "F"    -> Expect(c, 97, "Fa", sk, u)
    [] step = "Fa"   -> Expect(c, 108, "Fal", sk, u)
    [] step = "Fal"  -> Expect(c, 115, "Fals", sk, u)
    [] step = "Fals" -> ExpectEnd(c, 101, sk)
    [] step = "N"    -> Expect(c, 117, "Nu", sk, u)
    [] step = "Nu"   -> Expect(c, 108, "Nul", sk, u)
    [] step = "Nul"  -> ExpectEnd(c, 108, sk)
    [] OTHER -> IDead

\* one byte: run the step function, then let Next() deliver the found events (stack effect).
\* In trailing mode the EndTop event ends the scan: "stopped" absorbs everything after it.
ImplStep(s, c, trailing) ==
  IF s.v # "live" \/ s.step = "stopped" THEN [s EXCEPT !.out = <<>>]
  ELSE LET r == Raw(s, c, trailing) IN
       IF r.v # "live" THEN r
       ELSE IF r.out # <<>> /\ r.out[Len(r.out)] = "EndTop"
            THEN [r EXCEPT !.stack = ApplyEvents(s.stack, r.out), !.step = "stopped"]
            ELSE [r EXCEPT !.stack = ApplyEvents(s.stack, r.out)]

\* End of input (scanner.Next after the loop + Document.check's "at least one lexeme" rule):
\* an open literal on top is closed unless flagged unfinished; anything else open is an error.
ImplVerdict(s) ==
  IF s.v = "unspec" THEN "unspec"
  ELSE IF s.v = "dead" THEN "reject"
  ELSE IF s.step = "stopped" THEN "accept"
  ELSE IF Len(s.stack) = 0 THEN (IF s.step \in {"endTop", "endValue"} THEN "accept" ELSE "reject")
  ELSE IF Len(s.stack) = 1 /\ ITop(s.stack) = "LiteralBegin" /\ ~s.unf THEN "accept"
  ELSE "reject"
===============================================================================
