--------------------------------- MODULE TraceSem ---------------------------------
(* Mechanism B for the semantic properties: every line is one real call, logged with its   *)
(* abstract inputs; TLC re-evaluates the requirement (Sem.tla / JsonText.tla) on them.      *)
(*   {op:"validate", schema, env, opt, doc, ok}                       C01-C03 (random tier) *)
(*   {op:"example",  schema, env, opt, bytes, value, parsed}          C15                    *)
(*   {op:"regex_example", re, example}                                C18                    *)
(*   {op:"lenunit", c, oks}                                           C02 (unit of lengths)  *)
(*   {op:"biglen", n, oks}                                            C02 (lengths beyond 255 / 65535) *)
(*   {op:"check", schema, env, opt, ok}                               C04 / C08 (differential tier) *)
EXTENDS Integers, Sequences, TLC, Json, Chk
CONSTANT TraceFile
J == INSTANCE JsonText WITH MaxDepth <- 100000
Trace == ndJsonDeserialize(TraceFile)
VARIABLE l
Init == l = 1

RECURSIVE IsPlain(_)
IsPlain(n) ==
  /\ n.t # "ref"
  /\ ~HasRule(n, "allOf") /\ ~HasRule(n, "or") /\ ~HasRule(n, "enum")
  /\ ~(HasRule(n, "type") /\ RuleV(n, "type").t = "tref")
  /\ CASE n.t = "arr" -> \A i \in DOMAIN n.items : IsPlain(n.items[i])
       [] n.t = "obj" -> \A i \in DOMAIN n.props : ~n.props[i].sc /\ IsPlain(n.props[i].n)
       [] OTHER -> TRUE
RECURSIVE ExampleOf(_)
ExampleOf(n) ==
  CASE n.t = "lit" -> n.v
    [] n.t = "arr" -> [t |-> "arr", items |-> [i \in DOMAIN n.items |-> ExampleOf(n.items[i])]]
    [] n.t = "obj" -> [t |-> "obj", ps |-> [i \in DOMAIN n.props |-> [k |-> n.props[i].k, v |-> ExampleOf(n.props[i].n)]]]

\* the whole schema through Chk!Structure, node by node (type shortcuts: no verdict)
NodeKind(n) == CASE n.t = "lit" -> (IF n.v.t = "num" THEN (IF KindOfValue(n.v) = "int" THEN "int" ELSE "flt") ELSE n.v.t)
                 [] n.t = "obj" -> (IF n.props = <<>> THEN "obj0" ELSE "obj1")
                 [] n.t = "arr" -> (IF n.items = <<>> THEN "arr0" ELSE "arr2")
                 [] OTHER -> "ref"
RECURSIVE SchemaStructure(_, _)
SchemaStructure(n, pos) ==
  IF n.t = "ref" THEN "unspec"
  ELSE And3({Structure(NodeKind(n), pos, n.rules)}
            \cup (IF n.t = "obj" THEN {SchemaStructure(n.props[i].n, "prop") : i \in DOMAIN n.props} ELSE {})
            \cup (IF n.t = "arr" THEN {SchemaStructure(n.items[i], "elem") : i \in DOMAIN n.items} ELSE {}))
\* a schema whose own example is spelled out in it: no type shortcut values, no key shortcuts, no inherited properties
RECURSIVE Exemplar(_)
Exemplar(n) ==
  /\ n.t # "ref" /\ ~HasRule(n, "allOf")
  /\ CASE n.t = "arr" -> \A i \in DOMAIN n.items : Exemplar(n.items[i])
       [] n.t = "obj" -> \A i \in DOMAIN n.props : ~n.props[i].sc /\ Exemplar(n.props[i].n)
       [] OTHER -> TRUE
\* every added type is a plain one (it names no other type, so there is no cycle to decide) that is sound by itself
TypesSound(e) ==
  \A i \in DOMAIN e.env.types : LET t == e.env.types[i].n IN
     IsPlain(t) /\ SchemaStructure(t, "root") = "accept" /\ Verdict(e.env, t, ExampleOf(t), e.opt) = "accept"
CheckProblem(e) ==
  LET st == SchemaStructure(e.schema, "root")
      ex == IF Exemplar(e.schema) THEN Verdict(e.env, e.schema, ExampleOf(e.schema), e.opt) ELSE "unspec" IN
  IF e.ok THEN (IF st = "reject" THEN "check-accepts-a-rule-misuse" ELSE IF ex = "reject" THEN "check-accepts-a-violating-example" ELSE "ok")
  ELSE IF st = "accept" /\ ex = "accept" /\ TypesSound(e) THEN "check-rejects-a-sound-schema" ELSE "ok"
RECURSIVE HasDupKeys(_)
HasDupKeys(v) ==
  CASE v.t = "obj" -> (\E i, j \in DOMAIN v.ps : i < j /\ v.ps[i].k = v.ps[j].k) \/ (\E i \in DOMAIN v.ps : HasDupKeys(v.ps[i].v))
    [] v.t = "arr" -> \E i \in DOMAIN v.items : HasDupKeys(v.items[i])
    [] OTHER -> FALSE
Problem(e) ==
  CASE e.op = "check" -> CheckProblem(e)
    [] e.op = "validate" ->
         LET v == Verdict(e.env, e.schema, e.doc, e.opt)
             \* long arrays with one odd item: when the document is rejected because of that item (no count rule involved), the error is at its offset
             located == "oddpos" \in DOMAIN e /\ e.oddpos >= 0 /\ v = "reject" /\ ~e.ok /\ ~HasRule(e.schema, "minItems") /\ ~HasRule(e.schema, "maxItems") IN
         IF v = "unspec" \/ (e.ok <=> v = "accept") THEN (IF located /\ e.pos # e.oddpos THEN "position:" \o ToString(e.oddpos) ELSE "ok") ELSE "verdict:" \o v
    [] e.op = "lenunit" ->              \* oks[k+1] : does {minLength: k, maxLength: k} accept the string c ?  exactly at its length, in ONE unit
         LET U8(cp) == IF cp < 128 THEN 1 ELSE IF cp < 2048 THEN 2 ELSE IF cp < 65536 THEN 3 ELSE 4
             SumTo[i \in 0..Len(e.c)] == IF i = 0 THEN 0 ELSE SumTo[i - 1] + U8(e.c[i])
             units == {Len(e.c), SumTo[Len(e.c)]}
         IN IF \E L \in units : \A k \in DOMAIN e.oks : e.oks[k] = (k - 1 = L) THEN "ok" ELSE "length-unit-inconsistent"
    [] e.op = "biglen" ->               \* a string of n ASCII letters against {minLength: k, maxLength: k} for k = n-1, n, n+1
         IF e.oks = <<FALSE, TRUE, FALSE>> THEN "ok" ELSE "length-of-a-long-string"
    [] e.op = "regex_example" -> IF Search(e.re, e.example) THEN "ok" ELSE "example-does-not-match"
    [] e.op = "example" ->
         IF J!RefVerdict(J!RefRun(J!RefInit, e.bytes, FALSE)) # "accept" THEN "malformed"
         ELSE IF ~e.parsed THEN "ok"                                   \* (unreachable: well-formed text always parses)
         ELSE IF HasDupKeys(e.value) THEN "duplicate-keys"              \* one object, one value per key: no schema accepts both
         ELSE IF Verdict(e.env, e.schema, e.value, e.opt) = "reject" THEN "not-self-accepted"
         ELSE IF IsPlain(e.schema) /\ e.value # ExampleOf(e.schema) THEN "not-the-example"
         ELSE IF IsPlain(e.schema) /\ J!HasOuterWs(J!RefInit, e.bytes) THEN "whitespace-kept"
         ELSE "ok"
Next == /\ l <= Len(Trace)
        /\ LET p == Problem(Trace[l]) IN IF p = "ok" THEN TRUE ELSE PrintT("@@MISMATCH " \o ToJson([line |-> l, what |-> p]))
        /\ l' = l + 1
Spec == Init /\ [][Next]_l
===================================================================================
