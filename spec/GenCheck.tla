--------------------------------- MODULE GenCheck ---------------------------------
(* Mechanism A for C04.                                                                       *)
(* good cases: every schema of the rule families, alone and embedded in containers, obeys its  *)
(*   own rules (TLC checks Sem!Verdict(schema, ExampleOf(schema)) = accept): the real Check    *)
(*   must succeed and the real Validate must accept the schema's own example text.             *)
(* bad cases: one example value moved just past one of its own rules (Sem says reject):       *)
(*   the real Check must fail and report the position of that value (path given).              *)
EXTENDS RuleFamilies

Arr(items, rules) == [t |-> "arr", items |-> items, rules |-> rules]
Obj(props, rules) == [t |-> "obj", props |-> props, rules |-> rules]
P(k, n) == [k |-> k, sc |-> FALSE, kt |-> "", n |-> n]
Plain1 == Lit(NumD(N1), <<>>)
PlainS == Lit(StrD(Sa), <<>>)
Candidates == {NumD(e) : e \in NumExamples} \cup {StrD(e) : e \in StrExamples \cup {SEmail, SUri, SUuid, SDate, SDateTime}} \cup {BoolD(TRUE), Null}
GoodSet(x) == {v \in {c \in Candidates : c.t = x.v.t /\ KindOfValue(c) = KindOfValue(x.v)} : Verdict([types |-> <<>>, enums |-> <<>>], [x EXCEPT !.v = v], v, FALSE) = "accept"}
GoodFor(x) == CHOOSE v \in GoodSet(x) : TRUE
BadSet(x) == {v \in {c \in Candidates : c.t = x.v.t /\ KindOfValue(c) = KindOfValue(x.v)} : Verdict([types |-> <<>>, enums |-> <<>>], [x EXCEPT !.v = v], v, FALSE) = "reject"}
BadFor(x) == CHOOSE v \in BadSet(x) : TRUE
\* container contexts: <<wrapper, path of the hole>>
Wrap(c, x) ==
  CASE c = 0 -> [n |-> x, path |-> <<>>]
    [] c = 1 -> [n |-> Obj(<<P(Ka, x)>>, <<>>), path |-> <<"a">>]
    [] c = 2 -> [n |-> Arr(<<x>>, <<>>), path |-> <<"0">>]
    [] c = 3 -> [n |-> Arr(<<Plain1, x>>, <<>>), path |-> <<"1">>]
    [] c = 4 -> [n |-> Obj(<<P(Kb, PlainS), P(Ka, Obj(<<P(Kc, x)>>, <<>>))>>, <<>>), path |-> <<"a", "c">>]
    [] c = 5 -> [n |-> Arr(<<Obj(<<P(Ka, x), P(Kb, Plain1)>>, <<>>)>>, <<>>), path |-> <<"0", "a">>]
    [] c = 6 -> [n |-> Arr(<<Plain1, PlainS, x>>, <<R("maxItems", NV(N3))>>), path |-> <<"2">>]
    [] c = 7 -> [n |-> Obj(<<P(Ka, x)>>, <<R("additionalProperties", BV(TRUE))>>), path |-> <<"a">>]
    [] c = 8 -> [n |-> Obj(<<P(Kb, Plain1), P(Ka, Arr(<<x>>, <<>>))>>, <<R("additionalProperties", IdV("string"))>>), path |-> <<"a", "0">>]
    [] c = 9 -> [n |-> Obj(<<P(Ka, Obj(<<P(Kc, x)>>, <<R("additionalProperties", BV(FALSE))>>))>>, <<>>), path |-> <<"a", "c">>]
    \* the value sits in an added user type @B that the root references (position is then relative to the type's own text)
    [] c = 10 -> [n |-> [t |-> "ref", names |-> <<"@B">>, rules |-> <<>>], path |-> <<>>]
    [] c = 11 -> [n |-> Obj(<<P(Ka, [t |-> "ref", names |-> <<"@I", "@B">>, rules |-> <<>>])>>, <<>>), path |-> <<>>]
    [] c = 12 -> [n |-> Arr(<<Lit(NumD(N1), <<R("type", [t |-> "tref", s |-> "@I"])>>), [t |-> "ref", names |-> <<"@B">>, rules |-> <<>>]>>, <<>>), path |-> <<>>]
    \* the root's example obeys @B's rules (GoodFor), only @B's own example may be corrupted
    [] c = 13 -> [n |-> Lit(GoodFor(x), <<R("type", [t |-> "tref", s |-> "@B"])>>), path |-> <<>>]
    [] c = 14 -> [n |-> Obj(<<P(Ka, Lit(NumD(N1), <<R("type", [t |-> "tref", s |-> "@I"])>>)),
                              P(Kb, Lit(GoodFor(x), <<R("type", [t |-> "tref", s |-> "@B"])>>))>>, <<>>), path |-> <<>>]
    \* a sibling that is a type shortcut (it admits every JSON kind) is checked before the hole
    [] c = 15 -> [n |-> Obj(<<P(Kb, [t |-> "ref", names |-> <<"@I">>, rules |-> <<>>]), P(Ka, x)>>, <<>>), path |-> <<"a">>]
    [] c = 16 -> [n |-> Arr(<<[t |-> "ref", names |-> <<"@S", "@I">>, rules |-> <<>>], x>>, <<>>), path |-> <<"1">>]
    \* the root's value breaks a rule of the type @B it refers to (@B itself is sound): the position is that of the root's value
    [] c = 17 -> [n |-> Lit(BadFor(x), <<R("type", [t |-> "tref", s |-> "@B"])>>), path |-> <<>>]
    [] c = 18 -> [n |-> Obj(<<P(Ka, Lit(NumD(N1), <<R("type", [t |-> "tref", s |-> "@I"])>>)),
                              P(Kb, Lit(BadFor(x), <<R("type", [t |-> "tref", s |-> "@B"])>>))>>, <<>>), path |-> <<"b">>]
    \* two values refer to the same type @B: the first obeys it, the second does not (each value is checked against the type on its own)
    [] c = 20 -> [n |-> Obj(<<P(Ka, Lit(GoodFor(x), <<R("type", [t |-> "tref", s |-> "@B"])>>)),
                              P(Kb, Lit(BadFor(x), <<R("type", [t |-> "tref", s |-> "@B"])>>))>>, <<>>), path |-> <<"b">>]
    [] c = 21 -> [n |-> Arr(<<Lit(GoodFor(x), <<R("type", [t |-> "tref", s |-> "@B"])>>), Lit(BadFor(x), <<R("type", [t |-> "tref", s |-> "@B"])>>)>>, <<>>), path |-> <<"1">>]
    \* the value sits in @B, a property of which @A0 inherits through allOf; @A0 is checked before @B (names in order): file and offset are @B's
    [] c = 19 -> [n |-> Obj(<<P(Kp, Plain1)>>, <<>>), path |-> <<>>]
Contexts == 0..21
Inherited(c) == c = 19
RefBad(c) == c \in {17, 18, 20, 21}
InType(c) == c \in 10..14 \/ c = 19
NonPlain(c) == c \in 10..21                 \* the root's example is not plain JSON (it names types): C04's forward half does not apply

RECURSIVE ExampleOf(_)
ExampleOf(n) ==
  CASE n.t = "lit" -> n.v
    [] n.t = "arr" -> [t |-> "arr", items |-> [i \in DOMAIN n.items |-> ExampleOf(n.items[i])]]
    [] n.t = "obj" -> [t |-> "obj", ps |-> [i \in DOMAIN n.props |-> [k |-> n.props[i].k, v |-> ExampleOf(n.props[i].n)]]]

Env0 == [types |-> <<[name |-> "@I", n |-> Plain1], [name |-> "@S", n |-> PlainS]>>, enums |-> <<>>]

\* corrupted scalars: a rule set with an example that violates it
BadOf(RS, Ex, mk(_)) == UNION {{Lit(mk(e), rs) : e \in {x \in Ex : ScalarVerdict(Lit(mk(x), rs), mk(x), <<>>) = "reject"}} : rs \in RS}
BadNums == BadOf(NumRuleSets, NumExamples, NumD) \cup BadOf(DecimalRuleSets, {x \in NumExamples : HasDot(x)} \cup {N1_125}, NumD)
BadStrs == BadOf(StrLenRuleSets \cup RegexRuleSets, StrExamples, StrD)
BadFmts == {Lit(StrD(Sabc), rs) : rs \in FormatRuleSets}
BadEnums == {Lit(v, <<R("enum", [t |-> "list", items |-> l])>>) : v \in {NumD(N7), StrD(Sabcd), BoolD(TRUE)}, l \in {<<EV(NumD(N1)), EV(StrD(Sa))>>, <<EV(StrD(S1)), EV(Null)>>}}
       \cup {Lit(StrD(S1), <<R("enum", [t |-> "list", items |-> <<EV(NumD(N1)), EV(NumD(N2))>>])>>),          \* same text, other kind
             Lit(NumD(N1), <<R("enum", [t |-> "list", items |-> <<EV(StrD(S1)), EV(Null)>>])>>),
             Lit(StrD(<<116, 114, 117, 101>>), <<R("enum", [t |-> "list", items |-> <<EV(BoolD(TRUE)), EV(BoolD(FALSE))>>])>>)}
BadTypes == { Lit(NumD(N1), <<R("type", IdV("string"))>>), Lit(StrD(Sa), <<R("type", IdV("integer"))>>), Lit(NumD(N1_5), <<R("type", IdV("integer"))>>),
              Lit(BoolD(TRUE), <<R("type", IdV("null"))>>), Lit(StrD(Sa), <<R("type", [t |-> "tref", s |-> "@I"])>>),
              Lit(BoolD(TRUE), <<R("or", [t |-> "list", items |-> <<IdV("integer"), IdV("string")>>])>>),
              Lit(BoolD(TRUE), <<R("or", [t |-> "list", items |-> <<[t |-> "tref", s |-> "@I"], [t |-> "tref", s |-> "@S"]>>])>>) }
BadArrs == { Arr(<<Plain1, Plain1, Plain1>>, <<R("maxItems", NV(N2))>>), Arr(<<Plain1>>, <<R("minItems", NV(N2))>>),
             Arr(<<Plain1, PlainS>>, <<R("minItems", NV(N3)), R("maxItems", NV(N5))>>) }
\* an empty container whose kind is not among its or-alternatives
BadOrContainers == { Arr(<<>>, <<R("or", [t |-> "list", items |-> <<IdV("string"), IdV("integer")>>])>>),
                     Arr(<<>>, <<R("or", [t |-> "list", items |-> <<[t |-> "set", rules |-> <<R("type", IdV("object"))>>], [t |-> "set", rules |-> <<R("type", IdV("string"))>>]>>])>>),
                     Obj(<<>>, <<R("or", [t |-> "list", items |-> <<IdV("string"), IdV("array")>>])>>) }
BadLeaves == BadNums \cup BadStrs \cup BadFmts \cup BadEnums \cup BadTypes \cup BadArrs \cup BadOrContainers
GoodLeaves == Schemas \cup {Arr(<<Plain1, Plain1>>, <<R("maxItems", NV(N2))>>), Arr(<<Plain1, PlainS>>, <<R("minItems", NV(N1)), R("maxItems", NV(N5))>>),
                            Lit(NumD(N1), <<R("type", [t |-> "tref", s |-> "@I"])>>),
                            Lit(StrD(Sa), <<R("or", [t |-> "list", items |-> <<IdV("integer"), IdV("string")>>])>>)}

VARIABLES leaf, ctx, good
Init == /\ ctx \in Contexts
        /\ \/ (good = TRUE /\ leaf \in GoodLeaves /\ ~RefBad(ctx)) \/ (good = FALSE /\ leaf \in BadLeaves /\ ~RefBad(ctx))
           \/ (good = FALSE /\ RefBad(ctx) /\ leaf \in {x \in Schemas : x.t = "lit"} /\ BadSet(leaf) # {})
        /\ (Level = 1 => (ctx \in {0, 1, 3, 4, 7, 8, 10, 12, 13, 14, 15, 17, 18, 19, 20, 21}))
        /\ (InType(ctx) => leaf.t = "lit")
        /\ (NonPlain(ctx) => leaf.t \in {"lit", "arr"})
        /\ (ctx \in {13, 14, 20, 21} => GoodSet(leaf) # {})
Next == UNCHANGED <<leaf, ctx, good>>
Spec == Init /\ [][Next]_<<leaf, ctx, good>>
W == Wrap(ctx, leaf)
EnvI == [Env0 EXCEPT !.types = @ \o <<[name |-> "@A0", n |-> Obj(<<P(Kc, Plain1)>>, <<R("allOf", [t |-> "tref", s |-> "@B"])>>)],
                                       [name |-> "@B", n |-> Obj(<<P(Kb, leaf)>>, <<>>)]>>]
EnvC == IF Inherited(ctx) THEN EnvI ELSE IF InType(ctx) \/ RefBad(ctx) THEN [Env0 EXCEPT !.types = @ \o <<[name |-> "@B", n |-> leaf]>>] ELSE Env0
\* what the requirement says about the example of the whole schema (for a value inside a type: about the type's own example)
SelfVerdict == IF Inherited(ctx) THEN Verdict(Env0, leaf, leaf.v, FALSE)
               ELSE IF RefBad(ctx) THEN Verdict(EnvC, W.n, ExampleOf(W.n), FALSE)
               ELSE IF InType(ctx) THEN Verdict(EnvC, leaf, leaf.v, FALSE)
               ELSE IF NonPlain(ctx) THEN Verdict(Env0, leaf, ExampleOf(leaf), FALSE)
               ELSE Verdict(Env0, W.n, ExampleOf(W.n), FALSE)
Emit == PrintT("@@CASE " \o ToJson([schema |-> W.n, env |-> EnvC, good |-> good, path |-> W.path, intype |-> InType(ctx), plain |-> ~NonPlain(ctx), tfile |-> IF Inherited(ctx) THEN "@B" ELSE "", tpath |-> IF Inherited(ctx) THEN <<"b">> ELSE <<>>,
                                   example |-> IF NonPlain(ctx) /\ ~RefBad(ctx) THEN ExampleOf(leaf) ELSE ExampleOf(W.n), self |-> SelfVerdict]))
\* the generator is sound with respect to the requirement: good examples obey, corrupted ones do not
GoodObeys == good => SelfVerdict # "reject"
BadViolates == ~good => SelfVerdict = "reject"
===================================================================================
