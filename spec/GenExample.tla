-------------------------------- MODULE GenExample --------------------------------
(* Extra schemas for C15 (Example()): keys needing escapes, optional recursion through the   *)
(* first / middle / last property and through array items, or-alternatives of which only a  *)
(* later one terminates, key shortcuts, enum rules.  Only the schemas are emitted.           *)
EXTENDS Integers, Sequences, FiniteSets, TLC, Json, SequencesExt, Sem, Tables
CONSTANT Level
R(n, v) == [n |-> n, v |-> v]
BV(b) == [t |-> "bool", bv |-> b]
NV(b) == [t |-> "num", b |-> b]
NumD(b) == [t |-> "num", b |-> b]
StrD(c) == [t |-> "str", c |-> c]
Lit(v, rules) == [t |-> "lit", v |-> v, rules |-> rules]
IdV(x) == [t |-> "id", s |-> x]
Ref(names, rules) == [t |-> "ref", names |-> names, rules |-> rules]
Arr(items, rules) == [t |-> "arr", items |-> items, rules |-> rules]
Obj(props, rules) == [t |-> "obj", props |-> props, rules |-> rules]
P(k, n) == [k |-> k, sc |-> FALSE, kt |-> "", n |-> n]
SC(tname, n) == [k |-> <<64>>, sc |-> TRUE, kt |-> tname, n |-> n]
OptR == R("optional", BV(TRUE))
One == Lit(NumD(N1), <<>>)
Two == Lit(NumD(N2), <<>>)
RecLast  == Obj(<<P(Kx, One), P(Kb, Two), P(Kr, Ref(<<"@RecLast">>, <<OptR>>))>>, <<>>)
RecFirst == Obj(<<P(Kr, Ref(<<"@RecFirst">>, <<OptR>>)), P(Kx, One)>>, <<>>)
RecMid   == Obj(<<P(Kx, One), P(Kr, Ref(<<"@RecMid">>, <<OptR>>)), P(Kb, Two)>>, <<>>)
Tree     == Obj(<<P(Kx, One), P(Kc, Arr(<<Ref(<<"@Tree">>, <<>>), Ref(<<"@Tree">>, <<>>)>>, <<>>))>>, <<>>)
Loop2    == Ref(<<"@Loop2", "@I">>, <<>>)                                     \* only the later alternative terminates
Types == << [name |-> "@RecLast", n |-> RecLast], [name |-> "@RecFirst", n |-> RecFirst], [name |-> "@RecMid", n |-> RecMid],
            [name |-> "@Tree", n |-> Tree], [name |-> "@I", n |-> One], [name |-> "@Loop2", n |-> Loop2],
            [name |-> "@K", n |-> Lit(StrD(Sabc), <<R("minLength", NV(N1))>>)],
            \* recursion that ends in a later or-alternative two types away, and recursion through a key-shortcut property inside an array
            [name |-> "@TreeN", n |-> Obj(<<P(Kp, Ref(<<"@Branch", "@LeafN">>, <<>>))>>, <<>>)], [name |-> "@Branch", n |-> Obj(<<P(Kx, Ref(<<"@TreeN">>, <<>>))>>, <<>>)],
            [name |-> "@LeafN", n |-> Lit([t |-> "null"], <<>>)],
            [name |-> "@Dir", n |-> Obj(<<P(Kc, Arr(<<Obj(<<SC("@K", Ref(<<"@Dir">>, <<>>))>>, <<>>)>>, <<>>))>>, <<>>)],
            \* a recursive array item that is followed by another item (items are matched by position)
            [name |-> "@Kids", n |-> Obj(<<P(Kc, Arr(<<Ref(<<"@Kids">>, <<>>), One>>, <<>>))>>, <<>>)], [name |-> "@Pair", n |-> Arr(<<Ref(<<"@Pair">>, <<>>), Ref(<<"@I">>, <<>>)>>, <<>>)],
            \* a key type whose example is also a named key of the object that uses it
            [name |-> "@KE2", n |-> Lit(StrD(Sa), <<R("enum", [t |-> "list", items |-> <<[t |-> "val", v |-> StrD(Sa)], [t |-> "val", v |-> StrD(Sb)]>>])>>)],
            [name |-> "@KQ", n |-> Lit(StrD(<<97, 34>>), <<>>)], [name |-> "@KB", n |-> Lit(StrD(<<34, 97, 92>>), <<>>)] >>     \* a"  and  "a\
Env == [types |-> Types, enums |-> <<[name |-> "@E", items |-> <<NumD(N1), StrD(Sa)>>]>>]
NamedE == R("enum", [t |-> "name", s |-> "@E"])
KQuote == <<97, 34, 98>>            \* a"b
KBack  == <<97, 92, 98>>            \* a\b
KNl    == <<97, 10, 98>>            \* a<LF>b
KUni   == <<233, 8364>>             \* non-ASCII
KCtl   == <<97, 12, 98>>            \* a<FF>b : a control character without a short escape
KCtl2  == <<1, 31>>
Roots == { Obj(<<P(KQuote, One)>>, <<>>), Obj(<<P(KCtl, One)>>, <<>>), Obj(<<P(KCtl2, One), P(Ka, Lit(StrD(KCtl), <<>>))>>, <<>>), Obj(<<P(KBack, One), P(KNl, Two)>>, <<>>), Obj(<<P(KUni, Lit(StrD(KQuote), <<>>))>>, <<>>),
           Ref(<<"@RecLast">>, <<>>), Ref(<<"@RecFirst">>, <<>>), Ref(<<"@RecMid">>, <<>>), Ref(<<"@Tree">>, <<>>),
           Obj(<<P(Ka, Ref(<<"@RecLast">>, <<>>)), P(Kb, One)>>, <<>>), Arr(<<Ref(<<"@RecLast">>, <<>>), One>>, <<>>),
           Ref(<<"@TreeN">>, <<>>), Obj(<<P(Ka, Ref(<<"@TreeN">>, <<OptR>>)), P(Kb, One)>>, <<>>), Ref(<<"@Dir">>, <<>>), Arr(<<Ref(<<"@Dir">>, <<>>)>>, <<>>),
           Ref(<<"@Loop2">>, <<>>), Obj(<<P(Ka, Ref(<<"@Loop2">>, <<>>))>>, <<>>), Arr(<<Ref(<<"@Loop2">>, <<>>)>>, <<>>),
           Obj(<<SC("@K", One)>>, <<>>), Obj(<<SC("@K", One), P(Kx, Two)>>, <<>>), Obj(<<SC("@KQ", One)>>, <<>>), Obj(<<SC("@KB", One)>>, <<>>),
           Lit(NumD(N1), <<R("enum", [t |-> "list", items |-> <<[t |-> "val", v |-> NumD(N1)], [t |-> "val", v |-> StrD(Sa)]>>])>>),
           \* a named enum rule (the one rule value written as a bare @name), last / first / only rule of its object
           Obj(<<P(Ka, Lit(NumD(N1), <<OptR, NamedE>>)), P(Kb, Two)>>, <<>>), Obj(<<P(Ka, Lit(StrD(Sa), <<NamedE, OptR>>))>>, <<>>), Lit(NumD(N1), <<NamedE>>),
           Arr(<<Lit(StrD(Sa), <<NamedE>>)>>, <<>>),
           Obj(<<P(Ka, Two), SC("@KE2", One)>>, <<>>),
           Ref(<<"@Kids">>, <<>>), Ref(<<"@Pair">>, <<>>), Arr(<<Ref(<<"@Pair">>, <<>>), Ref(<<"@Kids">>, <<>>)>>, <<>>),
           \* the rule type: "mixed" written out next to a type shortcut
           Ref(<<"@I", "@K">>, <<R("type", IdV("mixed"))>>), Ref(<<"@I", "@K">>, <<>>), Obj(<<P(Ka, Ref(<<"@K", "@I">>, <<R("type", IdV("mixed")), OptR>>))>>, <<>>),
           Arr(<<>>, <<>>), Obj(<<>>, <<>>), Arr(<<Arr(<<>>, <<>>), Obj(<<>>, <<>>)>>, <<>>),
           Lit(StrD(<<97, 34, 92, 10, 233>>), <<>>), Lit(NumD(<<45, 48, 46, 53, 48>>), <<>>) }
\* plain JSON nested deeper than any counter one would think of: 40 objects, 20 x (object, array)
RECURSIVE NestO(_), NestOA(_)
NestO(k) == IF k = 0 THEN Obj(<<P(Kx, One)>>, <<>>) ELSE Obj(<<P(Ka, NestO(k - 1))>>, <<>>)
NestOA(k) == IF k = 0 THEN One ELSE Obj(<<P(Ka, Arr(<<NestOA(k - 1)>>, <<>>))>>, <<>>)
DeepRoots == {NestO(40), NestOA(20)}
VARIABLE root
Init == root \in Roots \cup DeepRoots
Next == UNCHANGED root
Spec == Init /\ [][Next]_root
Emit == PrintT("@@CASE " \o ToJson([schema |-> root, env |-> Env, opt |-> FALSE, verdicts |-> <<>>]))
ASSUME PrintT("@@DOC " \o ToJson([i |-> 1, v |-> [t |-> "null"]]))
===================================================================================
