----------------------------------- MODULE Graph -----------------------------------
(* Layer I for C09: the recursion check of notations/jschema/internal/checker/           *)
(* check_recusrion.go as a depth-first search with a visited set that is undone on leave.  *)
(* Named defect switch:                                                                     *)
(*   LookupInOwnTypeTable - nested references are looked up in the referenced type's OWN    *)
(*     type list (check_recusrion.go:181), which is empty unless the caller added every     *)
(*     type to every type ("mesh"); with types added to the root only ("star") cycles of    *)
(*     length >= 2 and alias cycles are never seen.  Pinned by the repository's suite       *)
(*     (TestSchema_Example expects an Example for @deep_recursion <-> @nested): recorded.   *)
EXTENDS Integers, Sequences, FiniteSets, Sem
CONSTANTS LookupInOwnTypeTable, KeysOptDefault, OptionalOnlyByRule
\* OptionalOnlyByRule = the tree before 4f627f9: only an explicit optional rule made a property optional for this search, the
\* KeysAreOptionalByDefault option was not looked at
PropOptional(p) == IF HasRule(p.n, "optional") THEN RuleV(p.n, "optional").bv ELSE (KeysOptDefault /\ ~OptionalOnlyByRule)

\* names a mixed-value node offers (shortcut names, or the single name of a type-rule reference)
NodeTypeNames(n) == IF n.t = "ref" THEN n.names ELSE <<>>

RECURSIVE Detect(_, _, _, _, _)
\* TRUE iff the DFS reports "infinity recursion".  table = the set of type names the current lookup table knows.
Detect(env, n, table, visited, mesh) ==
  IF HasRule(n, "optional") /\ RuleV(n, "optional").bv THEN FALSE
  ELSE CASE n.t = "ref" ->
              LET names == NodeTypeNames(n)
                  errs == {i \in DOMAIN names :
                             IF names[i] \in visited THEN TRUE
                             ELSE IF names[i] \notin table \/ ~HasType(env, names[i]) THEN FALSE
                             ELSE Detect(env, TypeNode(env, names[i]),
                                         IF LookupInOwnTypeTable /\ ~mesh THEN {} ELSE table,
                                         visited \cup {names[i]}, mesh)}
              IN names # <<>> /\ Cardinality(errs) = Len(names)
         [] n.t = "obj" -> \E i \in DOMAIN n.props : ~PropOptional(n.props[i]) /\ Detect(env, n.props[i].n, table, visited, mesh)
         [] OTHER -> FALSE                                   \* arrays, literals
TypeNamesOf(env) == {env.types[i].name : i \in DOMAIN env.types}
\* the allOf compiler (compiler_all_of.go processType) keeps its own set of types being expanded: a type that inherits from itself,
\* directly or through others, is refused (703); a type inherited from twice, or along two paths, is not a cycle
AllOfParents(n) == IF ~HasRule(n, "allOf") THEN {}
                   ELSE LET rv == RuleV(n, "allOf") IN IF rv.t = "tref" THEN {rv.s} ELSE {rv.items[i].s : i \in DOMAIN rv.items}
RECURSIVE AllOfUp(_, _)
AllOfUp(env, S) == LET T == S \cup UNION {IF HasType(env, t) THEN AllOfParents(TypeNode(env, t)) ELSE {} : t \in S} IN IF T = S THEN S ELSE AllOfUp(env, T)
AllOfCycle(env) == \E t \in TypeNamesOf(env) : t \in AllOfUp(env, AllOfParents(TypeNode(env, t)))
ImplRejectsRecursion(env, root, mesh) == Detect(env, root, TypeNamesOf(env), {"root"}, mesh)

(* The link check of check_schema.go (collectAllowedJsonTypes): for a node that carries a type rule or an or rule  *)
(* (not a shortcut node) the referenced types are walked depth-first with a set of names that is never undone;     *)
(* meeting a name twice - a cycle, but also a mere repeated reference - raises error 1303.                          *)
(* Named defect switch  TypesListRevisitIs1303 : pinned by check_schema_test.go, recorded.                           *)
MemberNames(n) ==            \* user-type names of the node's types list, in order
  IF n.t = "ref" THEN <<>>
  ELSE IF HasRule(n, "type") /\ RuleV(n, "type").t = "tref" THEN <<RuleV(n, "type").s>>
  ELSE IF HasRule(n, "or") THEN LET ms == RuleV(n, "or").items IN
                                [i \in DOMAIN ms |-> IF ms[i].t = "tref" THEN ms[i].s
                                                      ELSE IF ms[i].t = "set" /\ \E k \in DOMAIN ms[i].rules : ms[i].rules[k].v.t = "tref"
                                                           THEN (LET k == CHOOSE k \in DOMAIN ms[i].rules : ms[i].rules[k].v.t = "tref" IN ms[i].rules[k].v.s)
                                                           ELSE ""]
  ELSE <<>>
RECURSIVE Coll(_, _, _, _)
\* st = [err, found]; walks names[i..]
Coll(env, names, i, st) ==
  IF st.err \/ i > Len(names) THEN st
  ELSE IF names[i] = "" THEN Coll(env, names, i + 1, st)                              \* an anonymous (inline) member: no further names
  ELSE IF names[i] \in st.found THEN [st EXCEPT !.err = TRUE]
  ELSE LET st1 == [st EXCEPT !.found = @ \cup {names[i]}]
           st2 == IF HasType(env, names[i]) THEN Coll(env, MemberNames(TypeNode(env, names[i])), 1, st1) ELSE st1
       IN Coll(env, names, i + 1, st2)
RECURSIVE Nodes(_)
Nodes(n) == {n} \cup CASE n.t = "arr" -> UNION {Nodes(n.items[i]) : i \in DOMAIN n.items}
                       [] n.t = "obj" -> UNION {Nodes(n.props[i].n) : i \in DOMAIN n.props}
                       [] OTHER -> {}
Pred1303(env, root) ==
  \E n \in Nodes(root) \cup UNION {Nodes(env.types[i].n) : i \in DOMAIN env.types} :
     Coll(env, MemberNames(n), 1, [err |-> FALSE, found |-> {}]).err
====================================================================================
