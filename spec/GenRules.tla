--------------------------------- MODULE GenRules ---------------------------------
(* Mechanism A for C02: verdict vectors of the scalar rule-set families (RuleFamilies.tla)  *)
(* over the probe documents: 0 reject, 1 accept, 2 unspecified.                              *)
EXTENDS RuleFamilies

VARIABLE sch
Init == sch \in Schemas \cup BigSchemas
Next == UNCHANGED sch
Spec == Init /\ [][Next]_sch
Code(v) == IF v = "accept" THEN 1 ELSE IF v = "reject" THEN 0 ELSE 2
\* a count beyond any machine integer: an implementation may refuse the schema (it must not read the count as another number)
MayRefuse(n) == \E i \in DOMAIN n.rules : n.rules[i].v.t = "num" /\ Len(n.rules[i].v.b) > 18
Emit == PrintT("@@CASE " \o ToJson([schema |-> sch, opt |-> FALSE, mayrefuse |-> MayRefuse(sch), verdicts |-> [i \in DOMAIN DocSeq |-> Code(ScalarVerdict(sch, DocSeq[i], <<>>))]]))
\* every generated example obeys its own rules; admitted null always accepted
ExampleOK == sch.v.t = "null" \/ ScalarVerdict(sch, sch.v, <<>>) # "reject"
NullAdmitted == Nullable(sch) => ScalarVerdict(sch, Null, <<>>) = "accept"
ASSUME \A i \in DOMAIN DocSeq : PrintT("@@DOC " \o ToJson([i |-> i, v |-> DocSeq[i]]))
===================================================================================
