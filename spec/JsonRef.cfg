SPECIFICATION Spec
CONSTANT MaxDepth = 4
CONSTANT Alphabet = {0}
CONSTANT Trailing = FALSE
CONSTANT Export = TRUE
INVARIANT TypeOK
INVARIANT DeadIsAbsorbing
INVARIANT AcceptOnlyAtTop
CHECK_DEADLOCK FALSE
