SPECIFICATION Spec
CONSTANT Width = 2
CONSTANT Deep = FALSE
CHECK_DEADLOCK FALSE
