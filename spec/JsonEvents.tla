------------------------------ MODULE JsonEvents ------------------------------
(* Layer R for C06: the lexeme event stream a JSON text MUST produce, as a function of *)
(* its token list. A token is [c |-> class, n |-> byte length] with class in            *)
(*   "ws" "{" "}" "[" "]" "," ":" "key" "str" "num" "true" "false" "null".               *)
(* Offsets are sums of token lengths, so no byte content is needed.                      *)
(* Event = [ty, b, e] with inclusive offsets (conventions of DESIGN Appendix A.1).       *)
EXTENDS Naturals, Sequences

Scalar(c)  == c \in {"str", "num", "true", "false", "null"}
Ev(ty, b, e) == [ty |-> ty, b |-> b, e |-> e]

\* wrapper of a value that starts now, given the open-structure stack
\* stack entries: [k |-> "obj"|"arr"|"val"|"item", b |-> begin offset]
WrapKind(stk) == IF stk = <<>> THEN "none"
                 ELSE IF stk[Len(stk)].k = "arr" THEN "item" ELSE "val"
WrapBegin(k) == IF k = "item" THEN "item-begin" ELSE "value-begin"
WrapEnd(k)   == IF k = "item" THEN "item-end" ELSE "value-end"

\* one token: state [pos, stk, out]
StepTok(st, t) ==
  LET p == st.pos  stk == st.stk  out == st.out  n == t.n  wk == WrapKind(stk) IN
  CASE t.c \in {"ws", ",", ":"} -> [st EXCEPT !.pos = p + n]
    [] t.c = "key" -> [st EXCEPT !.pos = p + n,
                                 !.out = out \o <<Ev("key-begin", p, p), Ev("key-end", p, p + n - 1)>>]
    [] Scalar(t.c) ->
         [st EXCEPT !.pos = p + n,
                    !.out = out
                       \o (IF wk = "none" THEN <<>> ELSE <<Ev(WrapBegin(wk), p, p)>>)
                       \o <<Ev("literal-begin", p, p), Ev("literal-end", p, p + n - 1)>>
                       \o (IF wk = "none" THEN <<>> ELSE <<Ev(WrapEnd(wk), p, p + n - 1)>>)]
    [] t.c \in {"{", "["} ->
         LET kind == IF t.c = "{" THEN "obj" ELSE "arr"
             bev  == IF t.c = "{" THEN "object-begin" ELSE "array-begin" IN
         [pos |-> p + 1,
          stk |-> stk \o (IF wk = "none" THEN <<>> ELSE <<[k |-> wk, b |-> p]>>) \o <<[k |-> kind, b |-> p]>>,
          out |-> out \o (IF wk = "none" THEN <<>> ELSE <<Ev(WrapBegin(wk), p, p)>>) \o <<Ev(bev, p, p)>>]
    [] t.c \in {"}", "]"} ->
         LET top == stk[Len(stk)]
             eev == IF t.c = "}" THEN "object-end" ELSE "array-end"
             s1  == SubSeq(stk, 1, Len(stk) - 1)
             wrapped == s1 # <<>> /\ s1[Len(s1)].k \in {"val", "item"} IN
         [pos |-> p + 1,
          stk |-> IF wrapped THEN SubSeq(s1, 1, Len(s1) - 1) ELSE s1,
          out |-> out \o <<Ev(eev, top.b, p)>>
                      \o (IF wrapped THEN <<Ev(WrapEnd(s1[Len(s1)].k), top.b, p)>> ELSE <<>>)]

RECURSIVE RunToks(_, _)
RunToks(st, toks) == IF toks = <<>> THEN st ELSE RunToks(StepTok(st, Head(toks)), Tail(toks))

Events(toks) == RunToks([pos |-> 0, stk |-> <<>>, out |-> <<>>], toks).out
TotalLen(toks) == RunToks([pos |-> 0, stk |-> <<>>, out |-> <<>>], toks).pos

--------------------------------------------------------------------------------
(* Generic requirements of the statement, evaluated on an OBSERVED event list.    *)
IsBegin(ty) == ty \in {"literal-begin", "object-begin", "array-begin", "key-begin", "value-begin", "item-begin"}
Partner(ty) == CASE ty = "literal-begin" -> "literal-end" [] ty = "object-begin" -> "object-end"
                 [] ty = "array-begin" -> "array-end" [] ty = "key-begin" -> "key-end"
                 [] ty = "value-begin" -> "value-end" [] ty = "item-begin" -> "item-end" [] OTHER -> "?"

\* properly nested begin/end sequence; every end carries the begin offset of its partner
RECURSIVE Nest(_, _)
Nest(evs, stk) ==
  IF evs = <<>> THEN stk = <<>>
  ELSE LET e == Head(evs) IN
       IF IsBegin(e.ty) THEN e.b = e.e /\ Nest(Tail(evs), Append(stk, e))
       ELSE /\ stk # <<>>
            /\ Partner(stk[Len(stk)].ty) = e.ty
            /\ stk[Len(stk)].b = e.b
            /\ e.b <= e.e
            /\ Nest(Tail(evs), SubSeq(stk, 1, Len(stk) - 1))
WellNested(evs) == Nest(evs, <<>>)
SpansInside(evs, total) == \A i \in 1..Len(evs) : evs[i].b <= evs[i].e /\ evs[i].e < total

\* Rebuild: the tree skeleton recoverable from the events alone: sequence of
\* [ty |-> kind, b, e] for literals, keys and containers in document order with depth
RECURSIVE Skel(_, _)
Skel(evs, depth) ==
  IF evs = <<>> THEN <<>>
  ELSE LET e == Head(evs) IN
       CASE e.ty \in {"object-begin", "array-begin"} -> Skel(Tail(evs), depth + 1)
         [] e.ty \in {"object-end", "array-end"} -> <<[k |-> e.ty, b |-> e.b, e |-> e.e, d |-> depth - 1]>> \o Skel(Tail(evs), depth - 1)
         [] e.ty \in {"literal-end", "key-end"} -> <<[k |-> e.ty, b |-> e.b, e |-> e.e, d |-> depth]>> \o Skel(Tail(evs), depth)
         [] OTHER -> Skel(Tail(evs), depth)
\* the same skeleton computed directly from the tokens (source spans of literals, keys, containers)
RECURSIVE TokSkel(_, _, _)
TokSkel(toks, pos, opens) ==
  IF toks = <<>> THEN <<>>
  ELSE LET t == Head(toks) IN
       CASE t.c \in {"{", "["} -> TokSkel(Tail(toks), pos + 1, Append(opens, pos))
         [] t.c \in {"}", "]"} -> <<[k |-> IF t.c = "}" THEN "object-end" ELSE "array-end", b |-> opens[Len(opens)], e |-> pos, d |-> Len(opens) - 1]>>
                                   \o TokSkel(Tail(toks), pos + 1, SubSeq(opens, 1, Len(opens) - 1))
         [] t.c = "key" -> <<[k |-> "key-end", b |-> pos, e |-> pos + t.n - 1, d |-> Len(opens)]>> \o TokSkel(Tail(toks), pos + t.n, opens)
         [] Scalar(t.c) -> <<[k |-> "literal-end", b |-> pos, e |-> pos + t.n - 1, d |-> Len(opens)]>> \o TokSkel(Tail(toks), pos + t.n, opens)
         [] OTHER -> TokSkel(Tail(toks), pos + t.n, opens)
Rebuildable(evs, toks) == Skel(evs, 0) = TokSkel(toks, 0, <<>>)
===============================================================================
