SPECIFICATION Spec
CONSTANT MaxRules = 2
CONSTANT Level = 1
INVARIANT Emit
INVARIANT OrderFree
CHECK_DEADLOCK FALSE
