SPECIFICATION Spec
CONSTANT Level = 1
INVARIANT EmitPos
INVARIANT Consistent
CHECK_DEADLOCK FALSE
