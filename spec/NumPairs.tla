--------------------------------- MODULE NumPairs ---------------------------------
(* C10 (iii): on ALL pairs of RFC numerals of at most PairLen characters over Alphabet:   *)
(* the requirement's order is a strict weak order with -0 = 0, and the implementation-     *)
(* shaped Cmp gives the same answer.                                                         *)
EXTENDS Integers, Sequences, TLC
CONSTANTS Alphabet, PairLen, ZeroMantissaExpRejected, SignBeforeZero
R == INSTANCE Num
I == INSTANCE NumScan

RECURSIVE Prefixes(_)
Prefixes(n) == IF n = 0 THEN {<<>>}
               ELSE LET P == Prefixes(n - 1) IN
                    P \cup {Append(p, c) : p \in {q \in P : Len(q) = n - 1}, c \in Alphabet}
Live == {p \in Prefixes(PairLen) : R!NumRun("start", p) # "dead"}
Nums == {p \in Live : R!IsNumeral(p)}

VARIABLES a, b
Init == a \in Nums /\ b \in Nums
Next == UNCHANGED <<a, b>>
Spec == Init /\ [][Next]_<<a, b>>

x == R!NF(a)
y == R!NF(b)
Asymmetric == ~(R!Less(x, y) /\ R!Less(y, x))
Total      == R!Less(x, y) \/ R!Less(y, x) \/ x = y            \* incomparable only when equal: total order on values
CmpAgrees  == (I!New(a).ok /\ I!New(b).ok) => I!ICmp(I!New(a), I!New(b)) = R!Cmp(x, y)
===================================================================================
