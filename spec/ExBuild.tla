---------------------------------- MODULE ExBuild ----------------------------------
(* Layer I for C15: the example builder of notations/jschema/example.go as an algorithm.   *)
(* A user type is unfolded at most twice on one path (processedTypes); the third visit      *)
(* yields "no example here" (NIL).  Where NIL lands decides whether the result is valid:    *)
(*   - an array item or an optional property that is NIL is left out;                        *)
(*   - an or-alternative that is NIL gives way to the next alternative;                      *)
(*   - a REQUIRED property that is NIL makes the whole object NIL, provided some enclosing   *)
(*     optional property, array item or alternative-with-a-successor can absorb it (cut > 0). *)
(* Switch DropRequiredAtCut = the pinned tree: a NIL required property was simply left out,  *)
(* which produced objects their own schema rejects (repaired by 7677947).                    *)
(* TLC checks on every accepted type graph of GenGraph that Build yields a value which        *)
(* Sem!Verdict accepts (ExProduct.cfg), and that the switch breaks this.                       *)
EXTENDS Integers, Sequences, FiniteSets, Sem
CONSTANT DropRequiredAtCut

NIL == [t |-> "nil"]
NotNil(x) == x # NIL
RECURSIVE Build(_, _, _, _), BuildAlts(_, _, _, _, _)
BuildType(env, name, cnt, cut) ==
  IF ~HasType(env, name) THEN NIL
  ELSE IF cnt[name] > 1 THEN NIL                         \* do not unfold a type more than twice
  ELSE Build(env, TypeNode(env, name), [cnt EXCEPT ![name] = @ + 1], cut)
BuildAlts(env, names, i, cnt, cut) ==
  IF i > Len(names) THEN NIL
  ELSE LET r == BuildType(env, names[i], cnt, cut + (IF i < Len(names) THEN 1 ELSE 0)) IN
       IF r # NIL THEN r ELSE BuildAlts(env, names, i + 1, cnt, cut)
Build(env, n, cnt, cut) ==
  CASE n.t = "lit" -> n.v
    [] n.t = "ref" -> BuildAlts(env, n.names, 1, cnt, cut)
    [] n.t = "arr" -> [t |-> "arr", items |-> SelectSeq([i \in DOMAIN n.items |-> Build(env, n.items[i], cnt, cut + 1)], NotNil)]
    [] n.t = "obj" ->
         LET props == ObjProps(env, n, {})
             Req(i) == ~Optional(props[i], FALSE)
             kids == [i \in DOMAIN props |-> Build(env, props[i].n, cnt, cut + (IF Req(i) THEN 0 ELSE 1))]
             giveUp == ~DropRequiredAtCut /\ cut > 0 /\ \E i \in DOMAIN props : kids[i] = NIL /\ Req(i)
         IN IF giveUp THEN NIL
            ELSE [t |-> "obj", ps |-> SelectSeq([i \in DOMAIN props |-> [k |-> props[i].k, v |-> kids[i]]], LAMBDA p : p.v # NIL)]
Example(env, root) == Build(env, root, [nm \in {env.types[i].name : i \in DOMAIN env.types} |-> 0], 0)
====================================================================================
