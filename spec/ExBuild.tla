---------------------------------- MODULE ExBuild ----------------------------------
(* Layer I for C15: the example builder of notations/jschema/example.go as an algorithm.   *)
(* A user type is unfolded at most twice on one path (processedTypes); the third visit      *)
(* yields "no example here" (NIL).  Where NIL lands decides whether the result is valid:    *)
(*   - an optional property that is NIL is left out; an array ends at its first NIL item;    *)
(*   - an or-alternative that is NIL gives way to the next alternative;                      *)
(*   - a REQUIRED property that is NIL makes the whole object NIL, provided some enclosing   *)
(*     optional property, array item or alternative-with-a-successor can absorb it (cut > 0). *)
(* Switch DropRequiredAtCut = the pinned tree: a NIL required property was simply left out,  *)
(* which produced objects their own schema rejects (repaired by 7677947).                    *)
(* Switch ShiftItemsAtCut = the tree before f1cb7eb: only the NIL item of an array was left  *)
(* out, which moved the following items into its position ([@a, 1] gave [[1], 1]); the array *)
(* now ends at the first NIL item (items are matched by position).                          *)
(* TLC checks on every accepted type graph of GenGraph that Build yields a value which        *)
(* Sem!Verdict accepts (ExProduct.cfg), and that the switch breaks this.                       *)
EXTENDS Integers, Sequences, FiniteSets, Sem
CONSTANTS DropRequiredAtCut, ShiftItemsAtCut, KeysOptDefault

NIL == [t |-> "nil"]
NotNil(x) == x # NIL
RECURSIVE Build(_, _, _, _), BuildAlts(_, _, _, _, _)
BuildType(env, name, cnt, cut) ==
  IF ~HasType(env, name) THEN NIL
  ELSE IF cnt[name] > 1 THEN NIL                         \* do not unfold a type more than twice
  ELSE Build(env, TypeNode(env, name), [cnt EXCEPT ![name] = @ + 1], cut)
BuildAlts(env, names, i, cnt, cut) ==
  IF i > Len(names) THEN NIL
  ELSE LET r == BuildType(env, names[i], cnt, cut + (IF i < Len(names) THEN 1 ELSE 0)) IN
       IF r # NIL THEN r ELSE BuildAlts(env, names, i + 1, cnt, cut)
Build(env, n, cnt, cut) ==
  CASE n.t = "lit" -> n.v
    [] n.t = "ref" -> BuildAlts(env, n.names, 1, cnt, cut)
    [] n.t = "arr" ->
         LET kids == [i \in DOMAIN n.items |-> Build(env, n.items[i], cnt, cut + 1)]
             stop == IF \E i \in DOMAIN kids : kids[i] = NIL THEN (CHOOSE i \in DOMAIN kids : kids[i] = NIL /\ \A j \in 1..(i - 1) : kids[j] # NIL) ELSE Len(kids) + 1
         IN [t |-> "arr", items |-> IF ShiftItemsAtCut THEN SelectSeq(kids, NotNil) ELSE SubSeq(kids, 1, stop - 1)]
    [] n.t = "obj" ->
         LET props == ObjProps(env, n, {})
             Req(i) == ~Optional(props[i], KeysOptDefault)
             kids == [i \in DOMAIN props |-> Build(env, props[i].n, cnt, cut + (IF Req(i) THEN 0 ELSE 1))]
             giveUp == ~DropRequiredAtCut /\ cut > 0 /\ \E i \in DOMAIN props : kids[i] = NIL /\ Req(i)
         IN IF giveUp THEN NIL
            ELSE [t |-> "obj", ps |-> SelectSeq([i \in DOMAIN props |-> [k |-> props[i].k, v |-> kids[i]]], LAMBDA p : p.v # NIL)]
Example(env, root) == Build(env, root, [nm \in {env.types[i].name : i \in DOMAIN env.types} |-> 0], 0)
====================================================================================
