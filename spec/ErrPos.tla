---------------------------------- MODULE ErrPos ----------------------------------
(* Layer R for C17 (ii): where a validation error must point.  For the rule-free fragment  *)
(* of C01 the first violation in document order is well defined:                            *)
(*   a value of the wrong kind / an element of an empty-example array  -> start of the value *)
(*   a key the example does not name                                   -> start of the key   *)
(*   a missing required key                                            -> start of the object *)
(* Result: <<>> (no violation) or [path |-> <<1-based child indexes>>, at |-> "value"|"key"]  *)
EXTENDS Integers, Sequences, FiniteSets, Sem

RECURSIVE Viol(_, _, _, _)
FirstOf(seq) == LET idx == {i \in DOMAIN seq : seq[i] # <<>>} IN IF idx = {} THEN <<>> ELSE seq[CHOOSE i \in idx : \A j \in idx : i <= j]
Here(path, at) == [path |-> path, at |-> at]
Viol(node, v, ko, path) ==
  IF IsAny(node) \/ (v.t = "null" /\ Nullable(node)) THEN <<>>
  ELSE CASE node.t = "lit" -> IF v.t \in {"arr", "obj"} \/ ~KindMatches(ExampleKind(node), KindOfValue(v)) THEN Here(path, "value") ELSE <<>>
         [] node.t = "arr" ->
              IF v.t # "arr" THEN Here(path, "value")
              ELSE IF node.items = <<>> THEN (IF v.items = <<>> THEN <<>> ELSE Here(Append(path, 1), "value"))
              ELSE FirstOf([i \in DOMAIN v.items |-> Viol(node.items[IF i <= Len(node.items) THEN i ELSE Len(node.items)], v.items[i], ko, Append(path, i))])
         [] node.t = "obj" ->
              IF v.t # "obj" THEN Here(path, "value")
              ELSE LET inner == FirstOf([i \in DOMAIN v.ps |->
                                           IF v.ps[i].k \notin KeysOf(node) THEN Here(Append(path, i), "key")
                                           ELSE Viol(PropOf(node, v.ps[i].k).n, v.ps[i].v, ko, Append(path, i))])
                   IN IF inner # <<>> THEN inner
                      ELSE IF \E j \in DOMAIN node.props : ~Optional(node.props[j], ko) /\ ~\E i \in DOMAIN v.ps : v.ps[i].k = node.props[j].k
                           THEN Here(path, "value") ELSE <<>>
         [] OTHER -> <<>>
===================================================================================
