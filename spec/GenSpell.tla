--------------------------------- MODULE GenSpell ---------------------------------
(* C13, line structure: hand-written compact spellings (several nodes on one line, a    *)
(* container opened after another one was closed on the same line, a note at the end of  *)
(* a crowded line) of abstract schemas.  The expectation is not written here: the alt     *)
(* text must behave like the house-style rendering of the same abstract schema (same      *)
(* Check verdict, same AST comments included, same validation verdicts).                   *)
(*   @@CASE {schema, env, alt}                                                              *)
EXTENDS Integers, Sequences, TLC, Json, Tables
R(n, v) == [n |-> n, v |-> v]
NV(b) == [t |-> "num", b |-> b]
NumD(b) == [t |-> "num", b |-> b]
StrD(c) == [t |-> "str", c |-> c]
Lit(v, rules) == [t |-> "lit", v |-> v, rules |-> rules]
Arr(items, rules) == [t |-> "arr", items |-> items, rules |-> rules]
Obj(props, rules) == [t |-> "obj", props |-> props, rules |-> rules]
P(k, n) == [k |-> k, sc |-> FALSE, kt |-> "", n |-> n]
Note(n, s) == n @@ [note |-> s]
One == Lit(NumD(N1), <<>>)
Two == Lit(NumD(N2), <<>>)
Env == [types |-> <<>>, enums |-> <<>>]
Cases == {
  [schema |-> Obj(<<P(Ka, Arr(<<One>>, <<>>)), P(Kb, Arr(<<Note(Two, "n")>>, <<>>))>>, <<>>), alt |-> "{\"a\": [1], \"b\": [\n 2 // n\n]}"],
  [schema |-> Obj(<<P(Ka, Arr(<<One>>, <<>>)), P(Kb, Note(Obj(<<P(Kc, One)>>, <<>>), "n"))>>, <<>>), alt |-> "{\n\"a\": [1], \"b\": { // n\n\"c\": 1}}"],
  [schema |-> Obj(<<P(Ka, Arr(<<One>>, <<>>)), P(Kb, Obj(<<P(Kc, Note(Two, "the size"))>>, <<>>))>>, <<>>), alt |-> "{\"a\": [1], \"b\": {\"c\": 2 // the size\n}}"],
  [schema |-> Arr(<<Arr(<<One>>, <<>>), Obj(<<P(Ka, Note(Lit(NumD(N2), <<R("min", NV(N0))>>), "second"))>>, <<>>)>>, <<>>), alt |-> "[\n  [1], {\n    \"a\": 2 // {min: 0} - second\n  }\n]"],
  [schema |-> Obj(<<P(Ka, One), P(Kb, Note(Two, "n"))>>, <<>>), alt |-> "{\"a\": 1, \"b\": 2 // n\n}"],
  [schema |-> Arr(<<Arr(<<One, Two>>, <<>>), Arr(<<One>>, <<>>)>>, <<>>), alt |-> "[[1, 2], [1]]"],
  [schema |-> Obj(<<P(Ka, Obj(<<P(Kb, Arr(<<One, Obj(<<P(Kc, Lit([t |-> "null"], <<>>))>>, <<>>)>>, <<>>))>>, <<>>))>>, <<>>), alt |-> "{\"a\": {\"b\": [1, {\"c\": null}]}}"],
  [schema |-> Obj(<<P(Ka, Arr(<<One, Two>>, <<>>)), P(Kb, Note(One, "after the array"))>>, <<>>), alt |-> "{ \"a\": [1, 2], \"b\": 1 // after the array\n}"],
  [schema |-> Arr(<<Arr(<<One>>, <<>>), Note(Two, "n")>>, <<>>), alt |-> "[ [1], 2 // n\n]"],
  [schema |-> Obj(<<P(Ka, Arr(<<>>, <<>>)), P(Kb, Note(Arr(<<One>>, <<>>), "on the bracket"))>>, <<>>), alt |-> "{\"a\": [], \"b\": [ // on the bracket\n1]}"] }
VARIABLE c
Init == c \in Cases
Next == UNCHANGED c
Spec == Init /\ [][Next]_c
Emit == PrintT("@@CASE " \o ToJson([schema |-> c.schema, env |-> Env, alt |-> c.alt]))
===================================================================================
