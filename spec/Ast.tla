----------------------------------- MODULE Ast -----------------------------------
(* Layer R for C16: the AST the schema text must yield.                               *)
(* AST node : [tt, st, key, sc, v, note, rules: <<rule>>, children: <<node>>]            *)
(* AST rule : [n, tt, v, src, note, items: <<rule>>, props: <<rule>>]                    *)
(* Texts are tagged records because TLC cannot build strings:                           *)
(*   [k:"s", s: STRING]  [k:"cp", c: <<code points / bytes>>]  [k:"re", re: regex AST]   *)
(* tt "ref|str" marks a rule value whose token kind the statement leaves open (a quoted  *)
(* user-type name inside a rule).                                                        *)
EXTENDS Integers, Sequences, TLC, Sem

TS(s) == [k |-> "s", s |-> s]
TC(c) == [k |-> "cp", c |-> c]
Empty == TS("")
KindTT(v) == CASE v.t = "num" -> "number" [] v.t = "str" -> "string" [] v.t = "bool" -> "boolean" [] v.t = "null" -> "null"
                [] v.t = "arr" -> "array" [] v.t = "obj" -> "object"
ValText(v) == CASE v.t = "num" -> TC(v.b) [] v.t = "str" -> TC(v.c) [] v.t = "bool" -> TS(IF v.bv THEN "true" ELSE "false")
                [] v.t = "null" -> TS("null") [] OTHER -> Empty
KindST(v) == CASE v.t = "num" -> (IF HasDot(v.b) THEN "float" ELSE "integer") [] v.t = "str" -> "string" [] v.t = "bool" -> "boolean"
               [] v.t = "null" -> "null"

RECURSIVE RuleAst(_, _, _), RulesAst(_, _)
\* the AST of one rule value as written
RuleAst(name, rv, src) ==
  LET base == [n |-> name, src |-> src, note |-> "", items |-> <<>>, props |-> <<>>] IN
  CASE rv.t = "bool"  -> base @@ [tt |-> "boolean", v |-> TS(IF rv.bv THEN "true" ELSE "false")]
    [] rv.t = "num"   -> base @@ [tt |-> "number", v |-> TC(rv.b)]
    [] rv.t = "id"    -> base @@ [tt |-> "string", v |-> TS(rv.s)]
    [] rv.t = "tref"  -> base @@ [tt |-> "ref|str", v |-> TS(rv.s)]
    [] rv.t = "name"  -> base @@ [tt |-> "reference", v |-> TS(rv.s)]
    [] rv.t = "chars" -> base @@ [tt |-> "string", v |-> TC(rv.c)]
    [] rv.t = "re"    -> base @@ [tt |-> "string", v |-> [k |-> "re", re |-> rv.re]]
    [] rv.t = "val"   -> [base EXCEPT !.note = IF "note" \in DOMAIN rv THEN rv.note ELSE ""] @@ [tt |-> KindTT(rv.v), v |-> ValText(rv.v)]
    [] rv.t = "list"  -> [base EXCEPT !.items = [i \in DOMAIN rv.items |-> RuleAst("", rv.items[i], src)]] @@ [tt |-> "array", v |-> Empty]
    [] rv.t = "set"   -> [base EXCEPT !.props = RulesAst(rv.rules, src)] @@ [tt |-> "object", v |-> Empty]
RulesAst(rules, src) == [i \in DOMAIN rules |-> RuleAst(rules[i].n, rules[i].v, src)]

\* the note of a node: written after its rules, or - for an object - after its closing brace (tnote), or - for a property value - between the key and the value on the next line (knote); never two of them in the families
NoteOf(n) == IF "knote" \in DOMAIN n THEN n.knote ELSE IF "tnote" \in DOMAIN n THEN n.tnote ELSE IF "note" \in DOMAIN n THEN n.note ELSE ""

SchemaTypeOf(n) ==
  IF HasRule(n, "enum") THEN "enum"
  ELSE IF HasRule(n, "or") THEN "mixed"
  ELSE IF HasRule(n, "type") THEN RuleV(n, "type").s
  ELSE IF HasRule(n, "precision") THEN "decimal"
  ELSE CASE n.t = "lit" -> KindST(n.v) [] n.t = "obj" -> "object" [] n.t = "arr" -> "array"
         [] n.t = "ref" -> IF Len(n.names) = 1 THEN n.names[1] ELSE "mixed"

\* "@A | @B" as text
RECURSIVE JoinNames(_)
JoinNames(ns) == IF Len(ns) = 1 THEN <<ns[1]>> ELSE <<ns[1], " | ">> \o JoinNames(Tail(ns))

RECURSIVE ExpectedAST(_, _)
ExpectedAST(n, key) ==            \* key = [k: text, sc: BOOLEAN]
  LET written == RulesAst(n.rules, "manual")
      \* a user-type shortcut synthesises a type rule (one name) or an or rule (several names), marked generated
      synth == IF n.t # "ref" THEN <<>>
               ELSE IF Len(n.names) = 1 THEN <<[n |-> "type", tt |-> "reference", v |-> TS(n.names[1]), src |-> "generated", note |-> "", items |-> <<>>, props |-> <<>>]>>
               ELSE <<[n |-> "or", tt |-> "array", v |-> Empty, src |-> "generated", note |-> "", props |-> <<>>,
                       items |-> [i \in DOMAIN n.names |-> [n |-> "", tt |-> "ref|str", v |-> TS(n.names[i]), src |-> "generated", note |-> "", items |-> <<>>, props |-> <<>>]]]>>
  IN [tt |-> IF n.t = "ref" THEN "reference" ELSE IF n.t = "lit" THEN KindTT(n.v) ELSE IF n.t = "obj" THEN "object" ELSE "array",
      st |-> SchemaTypeOf(n),
      key |-> key.k, sc |-> key.sc,
      v |-> IF n.t = "lit" THEN ValText(n.v) ELSE IF n.t = "ref" THEN [k |-> "join", parts |-> JoinNames(n.names)] ELSE Empty,
      note |-> NoteOf(n),
      rules |-> synth \o written,
      children |-> IF n.t = "obj" THEN [i \in DOMAIN n.props |-> ExpectedAST(n.props[i].n, [k |-> IF n.props[i].sc THEN TS(n.props[i].kt) ELSE TC(n.props[i].k), sc |-> n.props[i].sc])]
                   ELSE IF n.t = "arr" THEN [i \in DOMAIN n.items |-> ExpectedAST(n.items[i], [k |-> Empty, sc |-> FALSE])]
                   ELSE <<>>]
RootAST(n) == ExpectedAST(n, [k |-> Empty, sc |-> FALSE])
===================================================================================
