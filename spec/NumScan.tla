--------------------------------- MODULE NumScan ---------------------------------
(* Layer I for C10: internal/json/scanner.go + number.go, one operator per step.      *)
(* Representation built by the code:  [neg, nat, exp]  = nat with exp fractional       *)
(* digits.  Zero padding for large exponents is materialised as in getNatural.         *)
(* Named defect switches:                                                               *)
(*   ZeroMantissaExpRejected - stateFirstZeroFound accepts only '.', so 0e1 / -0E5 are  *)
(*                             not numbers (pinned by the repository's suite: recorded) *)
(*   SignBeforeZero          - Cmp compared signs first, so -0 < 0 (repaired)           *)
EXTENDS Integers, Sequences
CONSTANTS ZeroMantissaExpRejected, SignBeforeZero

D(c) == c \in 48..57
\* scanner record: st, intLen, fraLen, expBegin (1-based index of first exponent char incl. '-', 0 = none), neg, fin
S0 == [st |-> "start", intLen |-> 0, fraLen |-> 0, expBegin |-> 0, neg |-> FALSE, fin |-> TRUE, dead |-> FALSE]
Kill(s) == [s EXCEPT !.dead = TRUE]
Step(s0, c, idx) ==
  LET s == [s0 EXCEPT !.fin = TRUE] IN
  CASE s.st = "start" ->
         IF c = 45 THEN [s EXCEPT !.neg = TRUE, !.fin = FALSE, !.st = "minus"]
         ELSE IF c = 48 THEN [s EXCEPT !.intLen = 1, !.st = "firstZero"]
         ELSE IF c \in 49..57 THEN [s EXCEPT !.intLen = 1, !.st = "int"] ELSE Kill(s)
    [] s.st = "minus" ->
         IF c = 48 THEN [s EXCEPT !.intLen = @ + 1, !.st = "firstZero"]
         ELSE IF c \in 49..57 THEN [s EXCEPT !.intLen = @ + 1, !.st = "int"] ELSE Kill(s)
    [] s.st = "firstZero" ->
         IF c = 46 THEN [s EXCEPT !.st = "point"]
         ELSE IF ~ZeroMantissaExpRejected /\ c \in {101, 69} THEN [s EXCEPT !.st = "exp"] ELSE Kill(s)
    [] s.st = "int" ->
         IF D(c) THEN [s EXCEPT !.intLen = @ + 1] ELSE IF c = 46 THEN [s EXCEPT !.st = "point"]
         ELSE IF c \in {101, 69} THEN [s EXCEPT !.st = "exp"] ELSE Kill(s)
    [] s.st = "point" -> IF D(c) THEN [s EXCEPT !.fraLen = @ + 1, !.st = "frac"] ELSE Kill(s)
    [] s.st = "frac" ->
         IF D(c) THEN [s EXCEPT !.fraLen = @ + 1] ELSE IF c \in {101, 69} THEN [s EXCEPT !.st = "exp"] ELSE Kill(s)
    [] s.st = "exp" ->
         IF c = 43 THEN [s EXCEPT !.st = "expSign"]
         ELSE IF c = 45 THEN [s EXCEPT !.expBegin = IF @ = 0 THEN idx ELSE @, !.st = "expSign"]
         ELSE IF D(c) THEN [s EXCEPT !.expBegin = IF @ = 0 THEN idx ELSE @] ELSE Kill(s)   \* note: stays in "exp"
    [] s.st = "expSign" ->
         IF D(c) THEN [s EXCEPT !.expBegin = IF @ = 0 THEN idx ELSE @, !.st = "expNum"] ELSE Kill(s)
    [] s.st = "expNum" -> IF D(c) THEN s ELSE Kill(s)
    [] OTHER -> Kill(s)
RECURSIVE Run(_, _, _)
Run(s, v, idx) == IF idx > Len(v) \/ s.dead THEN s ELSE Run(Step(s, v[idx], idx), v, idx + 1)

RECURSIVE ParseInt(_, _)
ParseInt(ds, acc) == IF ds = <<>> THEN acc ELSE ParseInt(Tail(ds), acc * 10 + (Head(ds) - 48))
ExpOf(v, b) == IF b = 0 THEN 0
               ELSE IF v[b] = 45 THEN 0 - ParseInt(SubSeq(v, b + 1, Len(v)), 0) ELSE ParseInt(SubSeq(v, b, Len(v)), 0)
RECURSIVE AppendDigits(_)
AppendDigits(v) == IF v = <<>> THEN <<>>
                   ELSE IF Head(v) \in {45, 46} THEN AppendDigits(Tail(v))
                   ELSE IF D(Head(v)) THEN <<Head(v) - 48>> \o AppendDigits(Tail(v)) ELSE <<>>
Zeros(n) == [k \in 1..n |-> 0]
\* trimLeadingZerosInTheIntegerPart / trimTrailingZerosInTheFractionalPart
RECURSIVE TrimLead(_, _)
TrimLead(nat, intLen) == IF intLen > 0 /\ nat[1] = 0 THEN TrimLead(Tail(nat), intLen - 1) ELSE nat
RECURSIVE TrimTrail(_, _)
TrimTrail(nat, exp) == IF exp > 0 /\ nat[Len(nat)] = 0 THEN TrimTrail(SubSeq(nat, 1, Len(nat) - 1), exp - 1) ELSE <<nat, exp>>

\* NewNumber: [ok, neg, nat, exp]
New(v) ==
  LET s == Run(S0, v, 1) IN
  IF v = <<>> \/ s.dead \/ ~s.fin THEN [ok |-> FALSE]
  ELSE LET e == ExpOf(v, s.expBegin)
           intLen == s.intLen + e
           fraLen == s.fraLen - e
           digs == AppendDigits(v)
           nat0 == IF intLen < 0 THEN Zeros(0 - intLen) \o digs
                   ELSE IF fraLen < 0 THEN digs \o Zeros(0 - fraLen) ELSE digs
           exp0 == IF intLen < 0 THEN fraLen ELSE IF fraLen < 0 THEN 0 ELSE fraLen
           nat1 == TrimLead(nat0, Len(nat0) - exp0)
           tt   == TrimTrail(nat1, exp0)
           zero == tt[1] = <<>>
       IN [ok |-> TRUE, neg |-> IF zero /\ ~SignBeforeZero THEN FALSE ELSE s.neg, nat |-> tt[1], exp |-> tt[2]]

IntPart(n) == SubSeq(n.nat, 1, Len(n.nat) - n.exp)
FraPart(n) == SubSeq(n.nat, Len(n.nat) - n.exp + 1, Len(n.nat))
RECURSIVE SeqCmp(_, _)
SeqCmp(x, y) == IF x = <<>> THEN 0 ELSE IF Head(x) < Head(y) THEN -1 ELSE IF Head(x) > Head(y) THEN 1 ELSE SeqCmp(Tail(x), Tail(y))
CmpInt(a, b) ==
  LET x == IntPart(a) y == IntPart(b) IN
  IF Len(x) # Len(y) \/ Len(x) = 0 THEN (IF Len(x) < Len(y) THEN -1 ELSE IF Len(x) > Len(y) THEN 1 ELSE 0)
  ELSE SeqCmp(x, y)
RECURSIVE FraCmp(_, _)
FraCmp(x, y) ==
  IF x = <<>> /\ y = <<>> THEN 0
  ELSE LET p == IF x = <<>> THEN 0 ELSE Head(x)  q == IF y = <<>> THEN 0 ELSE Head(y) IN
       IF p < q THEN -1 ELSE IF p > q THEN 1 ELSE FraCmp(IF x = <<>> THEN x ELSE Tail(x), IF y = <<>> THEN y ELSE Tail(y))
CmpAbs(a, b) == LET c == CmpInt(a, b) IN IF c = 0 THEN FraCmp(FraPart(a), FraPart(b)) ELSE c
ICmp(a, b) == IF a.neg = b.neg THEN (IF a.neg THEN 0 - CmpAbs(a, b) ELSE CmpAbs(a, b))
              ELSE IF a.neg THEN -1 ELSE 1
IFracLen(n) == n.exp
===================================================================================
