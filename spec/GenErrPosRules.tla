------------------------------- MODULE GenErrPosRules -------------------------------
(* Mechanism A for C17 (ii), rules: one example value carrying one rule, placed at the root,  *)
(* in objects and in arrays, and a document whose only defect is that this value breaks the    *)
(* rule.  The error must point at the start of the offending value (for an item count: at the  *)
(* array).  TLC checks with Sem!Verdict that the document is rejected and that the same        *)
(* document with the sound value is accepted, so the expected place is not ambiguous.           *)
(* Output as GenErrPos:  @@DOC {i, v}   @@CASE {schema, opt, viol}                               *)
EXTENDS Integers, Sequences, FiniteSets, TLC, Json, SequencesExt, Sem, Tables

R(n, v) == [n |-> n, v |-> v]
NV(b) == [t |-> "num", b |-> b]
NumD(b) == [t |-> "num", b |-> b]
StrD(c) == [t |-> "str", c |-> c]
Lit(v, rules) == [t |-> "lit", v |-> v, rules |-> rules]
Arr(items, rules) == [t |-> "arr", items |-> items, rules |-> rules]
Obj(props, rules) == [t |-> "obj", props |-> props, rules |-> rules]
P(k, n) == [k |-> k, sc |-> FALSE, kt |-> "", n |-> n]
EV(v) == [t |-> "val", v |-> v]
One == Lit(NumD(N1), <<>>)
AV(items) == [t |-> "arr", items |-> items]
OV(ps) == [t |-> "obj", ps |-> ps]
KV(k, v) == [k |-> k, v |-> v]
Chr(c) == [t |-> "chr", c |-> c]

\* leaf schema, a value that obeys it, a value that breaks exactly its rule
Leaves == {
  [n |-> Lit(NumD(N5), <<R("max", NV(N5))>>), good |-> NumD(N2), bad |-> NumD(N10)],
  [n |-> Lit(NumD(N5), <<R("min", NV(N2))>>), good |-> NumD(N7), bad |-> NumD(N1)],
  [n |-> Lit(StrD(Sab), <<R("maxLength", NV(N2))>>), good |-> StrD(Sa), bad |-> StrD(Sabc)],
  [n |-> Lit(StrD(Sab), <<R("minLength", NV(N2))>>), good |-> StrD(Sabc), bad |-> StrD(Sa)],
  [n |-> Lit(NumD(N1), <<R("enum", [t |-> "list", items |-> <<EV(NumD(N1)), EV(NumD(N2))>>])>>), good |-> NumD(N2), bad |-> NumD(N7)],
  [n |-> Lit(StrD(Sab), <<R("regex", [t |-> "re", re |-> [t |-> "cat", a |-> [t |-> "bol"], b |-> [t |-> "cat", a |-> Chr(97), b |-> Chr(98)]]])>>), good |-> StrD(Sabc), bad |-> StrD(Sxaby)],
  [n |-> Arr(<<One>>, <<R("maxItems", NV(N2))>>), good |-> AV(<<NumD(N1), NumD(N2)>>), bad |-> AV(<<NumD(N1), NumD(N2), NumD(N5), NumD(N7)>>)],
  [n |-> Arr(<<One, One>>, <<R("minItems", NV(N2))>>), good |-> AV(<<NumD(N1), NumD(N2)>>), bad |-> AV(<<NumD(N5)>>)],
  [n |-> Arr(<<One, One>>, <<R("minItems", NV(N1)), R("maxItems", NV(N3))>>), good |-> AV(<<NumD(N1)>>), bad |-> AV(<<NumD(N1), NumD(N1), NumD(N1), NumD(N1)>>)] }

\* contexts: schema around the leaf, document around a value, path (1-based child indexes) of that value
Ctx(c, x, v) ==
  CASE c = 0 -> [n |-> x, d |-> v, path |-> <<>>]
    [] c = 1 -> [n |-> Obj(<<P(Ka, x)>>, <<>>), d |-> OV(<<KV(Ka, v)>>), path |-> <<1>>]
    [] c = 2 -> [n |-> Obj(<<P(Kb, One), P(Ka, x)>>, <<>>), d |-> OV(<<KV(Kb, NumD(N1)), KV(Ka, v)>>), path |-> <<2>>]
    [] c = 3 -> [n |-> Arr(<<One, x>>, <<>>), d |-> AV(<<NumD(N1), v>>), path |-> <<2>>]
    [] c = 4 -> [n |-> Obj(<<P(Ka, Arr(<<Obj(<<P(Kc, x), P(Kd, One)>>, <<>>)>>, <<>>))>>, <<>>),
                 d |-> OV(<<KV(Ka, AV(<<OV(<<KV(Kc, v), KV(Kd, NumD(N1))>>)>>))>>), path |-> <<1, 1, 1>>]
    [] c = 5 -> [n |-> Arr(<<x>>, <<>>), d |-> AV(<<x.good, x.good, v>>), path |-> <<3>>]
Contexts == 0..4

\* additionalProperties: a key the schema does not name is the offending thing itself under "false" (as without the rule),
\* its value is under a kind / type name
BV(b) == [t |-> "bool", bv |-> b]
IdV(x) == [t |-> "id", s |-> x]
APF == R("additionalProperties", BV(FALSE))
APS == R("additionalProperties", IdV("string"))
Extras == {
  [n |-> Obj(<<P(Ka, One)>>, <<APF>>), bad |-> OV(<<KV(Ka, NumD(N1)), KV(Kb, NumD(N2))>>), good |-> OV(<<KV(Ka, NumD(N1))>>), path |-> <<2>>, at |-> "key"],
  [n |-> Obj(<<P(Ka, Obj(<<P(Kc, One)>>, <<APF>>))>>, <<>>), bad |-> OV(<<KV(Ka, OV(<<KV(Kc, NumD(N1)), KV(Kd, [t |-> "bool", bv |-> TRUE])>>))>>),
     good |-> OV(<<KV(Ka, OV(<<KV(Kc, NumD(N1))>>))>>), path |-> <<1, 2>>, at |-> "key"],
  [n |-> Arr(<<Obj(<<P(Ka, One)>>, <<APF>>)>>, <<>>), bad |-> AV(<<OV(<<KV(Ka, NumD(N1))>>), OV(<<KV(Kx, StrD(Sa)), KV(Ka, NumD(N1))>>)>>),
     good |-> AV(<<OV(<<KV(Ka, NumD(N1))>>)>>), path |-> <<2, 1>>, at |-> "key"],
  [n |-> Obj(<<P(Ka, One)>>, <<APS>>), bad |-> OV(<<KV(Ka, NumD(N1)), KV(Kb, NumD(N2))>>), good |-> OV(<<KV(Ka, NumD(N1)), KV(Kb, StrD(Sa))>>), path |-> <<2>>, at |-> "value"] }
Cases == {[n |-> Ctx(c, l.n, l.bad).n, bad |-> Ctx(c, l.n, l.bad).d, good |-> Ctx(c, l.n, l.good).d, path |-> Ctx(c, l.n, l.bad).path, at |-> "value"] : c \in Contexts, l \in Leaves}
         \cup Extras
CaseSeq == SetToSeq(Cases)
BadDoc(k) == k.bad
GoodDoc(k) == k.good
Schema(k) == k.n
Env0 == [types |-> <<>>, enums |-> <<>>]

ASSUME \A i \in DOMAIN CaseSeq : PrintT("@@DOC " \o ToJson([i |-> i, v |-> BadDoc(CaseSeq[i])]))
ASSUME \A i \in DOMAIN CaseSeq :
         PrintT("@@CASE " \o ToJson([schema |-> Schema(CaseSeq[i]), opt |-> FALSE,
                                     viol |-> [j \in DOMAIN CaseSeq |-> IF j = i THEN [path |-> CaseSeq[i].path, at |-> CaseSeq[i].at] ELSE <<>>]]))
VARIABLE x
Init == x = 0
Next == UNCHANGED x
Spec == Init /\ [][Next]_x
\* the generator is sound with respect to the requirement: only the marked value is at fault
OnlyThatValue == \A i \in DOMAIN CaseSeq : /\ Verdict(Env0, Schema(CaseSeq[i]), BadDoc(CaseSeq[i]), FALSE) = "reject"
                                           /\ Verdict(Env0, Schema(CaseSeq[i]), GoodDoc(CaseSeq[i]), FALSE) = "accept"
=====================================================================================
