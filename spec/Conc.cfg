SPECIFICATION Spec
CONSTANT Procs = {"p1", "p2"}
CONSTANT CopyAfterPut = FALSE
CONSTANT AllOfNotAtomic = FALSE
CONSTANT Export = FALSE
INVARIANT CompiledOnce
INVARIANT OwnBytes
INVARIANT NoSpuriousError
INVARIANT NoSharedBuffer
CHECK_DEADLOCK FALSE
