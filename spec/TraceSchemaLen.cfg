SPECIFICATION Spec
CONSTANT TraceFile <- mc_TraceFile
CONSTANT MaxDepth = 100000
CONSTANT MaxRDepth = 100000
CHECK_DEADLOCK FALSE
