SPECIFICATION Spec
CONSTANT NoteAfterBraceToLast = FALSE
CONSTANT NoteBeforeValueToPrev = FALSE
CONSTANT Export = FALSE
CONSTANT MaxAnn = 2
INVARIANT Agree
INVARIANT Emit
CHECK_DEADLOCK FALSE
