--------------------------------- MODULE GenTypes ---------------------------------
(* Mechanism A for C03: a family of user types (scalars, objects, or-shortcuts, nullable     *)
(* unions, arrays, optional recursion, allOf chains, key types) is added to every root of a   *)
(* family of roots (references in every position, or rules with references / kinds / inline   *)
(* rule-sets, additionalProperties modes, key shortcuts, arrays with item bounds) and TLC     *)
(* prints per root the verdict vector Sem!Verdict demands over the enumerated documents.      *)
EXTENDS Integers, Sequences, FiniteSets, TLC, Json, SequencesExt, Sem, Tables
CONSTANT Level

R(n, v) == [n |-> n, v |-> v]
BV(b) == [t |-> "bool", bv |-> b]
NV(b) == [t |-> "num", b |-> b]
IdV(s) == [t |-> "id", s |-> s]
TRef(s) == [t |-> "tref", s |-> s]
ListV(items) == [t |-> "list", items |-> items]
SetV(rules) == [t |-> "set", rules |-> rules]
Null == [t |-> "null"]
NumD(b) == [t |-> "num", b |-> b]
StrD(c) == [t |-> "str", c |-> c]
BoolD(b) == [t |-> "bool", bv |-> b]
ArrD(items) == [t |-> "arr", items |-> items]
ObjD(ps) == [t |-> "obj", ps |-> ps]
KVp(k, v) == [k |-> k, v |-> v]
Lit(v, rules) == [t |-> "lit", v |-> v, rules |-> rules]
Ref(names, rules) == [t |-> "ref", names |-> names, rules |-> rules]
Arr(items, rules) == [t |-> "arr", items |-> items, rules |-> rules]
Obj(props, rules) == [t |-> "obj", props |-> props, rules |-> rules]
P(k, n) == [k |-> k, sc |-> FALSE, kt |-> "", n |-> n]
SC(tname, n) == [k |-> <<64>>, sc |-> TRUE, kt |-> tname, n |-> n]       \* key shortcut  @K: n
OptR == R("optional", BV(TRUE))
NullR == R("nullable", BV(TRUE))

\* ---- the user types (all added, mesh protocol) ----
RegexAb == [t |-> "re", re |-> [t |-> "cat", a |-> [t |-> "bol"], b |-> [t |-> "cat", a |-> [t |-> "chr", c |-> 97], b |-> [t |-> "chr", c |-> 98]]]]
Types == <<
  [name |-> "@I",   n |-> Lit(NumD(N1), <<>>)],
  [name |-> "@S",   n |-> Lit(StrD(Sa), <<>>)],
  [name |-> "@F",   n |-> Lit(NumD(N1_5), <<R("min", NV(N0))>>)],
  [name |-> "@O",   n |-> Obj(<<P(Ka, Lit(NumD(N1), <<>>))>>, <<>>)],
  [name |-> "@Q",   n |-> Obj(<<P(Kb, Lit(StrD(Ss), <<OptR>>))>>, <<>>)],
  [name |-> "@U",   n |-> Ref(<<"@I", "@S">>, <<>>)],
  [name |-> "@V",   n |-> Ref(<<"@I", "@S">>, <<NullR>>)],
  [name |-> "@L",   n |-> Arr(<<Ref(<<"@I">>, <<>>)>>, <<>>)],
  [name |-> "@Rec", n |-> Obj(<<P(Kr, Ref(<<"@Rec">>, <<OptR>>)), P(Kx, Lit(NumD(N1), <<>>))>>, <<>>)],
  [name |-> "@K",   n |-> Lit(StrD(Sabc), <<R("regex", RegexAb)>>)],
  [name |-> "@K2",  n |-> Lit(StrD(Sab), <<R("minLength", NV(N2)), R("maxLength", NV(N2))>>)],
  [name |-> "@A1",  n |-> Obj(<<P(Ka, Lit(NumD(N1), <<>>))>>, <<>>)],
  [name |-> "@A2",  n |-> Obj(<<P(Kb, Lit(NumD(N2), <<>>))>>, <<>>)],
  [name |-> "@A3",  n |-> Obj(<<P(Kd, Lit(StrD(Ss), <<OptR>>))>>, <<>>)],
  [name |-> "@C3",  n |-> Obj(<<>>, <<R("allOf", ListV(<<TRef("@A3"), TRef("@A1"), TRef("@A2")>>))>>)],
  [name |-> "@C",   n |-> Obj(<<P(Kc, Lit(NumD(N3), <<OptR>>))>>, <<R("allOf", ListV(<<TRef("@A1"), TRef("@A2")>>))>>)],
  [name |-> "@AA",  n |-> Obj(<<P(Kd, Lit(NumD(N1), <<>>))>>, <<R("allOf", TRef("@A1"))>>)],
  [name |-> "@AAA", n |-> Obj(<<>>, <<R("allOf", TRef("@AA"))>>)],
  [name |-> "@W",   n |-> Ref(<<"@U", "@O">>, <<>>)],
  \* allOf parents that hand down an additionalProperties rule: an empty object, and one with a property
  [name |-> "@OE",  n |-> Obj(<<>>, <<R("additionalProperties", IdV("string"))>>)],
  [name |-> "@OP",  n |-> Obj(<<P(Ka, Lit(NumD(N1), <<>>))>>, <<R("additionalProperties", IdV("string"))>>)],
  \* key types that are shortcuts to string types, and a key type given by a format
  [name |-> "@KA",  n |-> Ref(<<"@K">>, <<>>)],
  [name |-> "@KU",  n |-> Ref(<<"@K", "@K2">>, <<>>)],
  [name |-> "@KE",  n |-> Lit(StrD(SEmail), <<R("type", IdV("email"))>>)],
  \* a key type that reaches the same string type along two paths (no recursion)
  [name |-> "@KD",  n |-> Ref(<<"@KA", "@KU">>, <<>>)]
>>
KeyTypes == {"@K", "@K2", "@KA", "@KU", "@KE", "@KD"}
Env == [types |-> Types, enums |-> <<>>]
TNames == {Types[i].name : i \in DOMAIN Types}

\* ---- value positions ----
OrSets == { <<TRef("@I"), TRef("@S")>>, <<IdV("integer"), IdV("string")>>, <<TRef("@O"), IdV("integer")>>,
            <<SetV(<<R("type", IdV("integer")), R("min", NV(N0))>>), SetV(<<R("type", IdV("string")), R("maxLength", NV(N2))>>)>>,
            <<IdV("integer"), IdV("float")>>, <<TRef("@I"), TRef("@F")>>, <<SetV(<<R("type", TRef("@I"))>>), SetV(<<R("type", IdV("null"))>>)>>,
            <<IdV("boolean"), TRef("@U")>>,
            <<SetV(<<R("enum", ListV(<<[t |-> "val", v |-> NumD(N1)], [t |-> "val", v |-> NumD(N2)]>>))>>), SetV(<<R("type", IdV("string"))>>)>> }    \* an enum inside a rule set
RefPositions ==
     {Ref(<<t>>, n) : t \in TNames \ KeyTypes, n \in {<<>>, <<NullR>>}}
\cup {Ref(<<"@I", "@S">>, <<>>), Ref(<<"@I", "@O">>, <<NullR>>), Ref(<<"@O", "@Q">>, <<>>), Ref(<<"@U", "@F">>, <<>>), Ref(<<"@L", "@Rec">>, <<>>)}
\cup {Lit(NumD(N1), <<R("type", TRef("@I"))>>), Lit(StrD(Sa), <<R("type", TRef("@S")), NullR>>), Lit(NumD(N1), <<R("type", TRef("@U"))>>)}
\cup {Lit(NumD(N1), <<R("or", ListV(ms))>> \o n) : ms \in OrSets, n \in {<<>>, <<NullR>>}}
SmallPos == {Ref(<<"@I">>, <<>>), Ref(<<"@I", "@S">>, <<>>), Ref(<<"@U">>, <<NullR>>), Ref(<<"@O">>, <<>>),
             Lit(NumD(N1), <<R("or", ListV(<<IdV("integer"), IdV("float")>>))>>),
             Lit(Null, <<R("or", ListV(<<IdV("null"), IdV("integer")>>)), NullR>>), Lit(NumD(N1), <<>>)}
ArrRoots == {Arr(<<x>>, r) : x \in SmallPos, r \in {<<>>, <<R("maxItems", NV(N2))>>, <<R("minItems", NV(N1)), R("maxItems", NV(N2))>>}}
       \cup {Arr(<<x, Lit(StrD(Sa), <<>>)>>, <<R("maxItems", NV(N2))>>) : x \in SmallPos}
PropRoots == {Obj(<<P(Kp, x)>>, <<>>) : x \in SmallPos \cup {Ref(<<"@V">>, <<>>), Ref(<<"@Rec">>, <<>>), Ref(<<"@C">>, <<OptR>>)}}
AddlModes == {BV(FALSE), BV(TRUE), IdV("any"), IdV("string"), IdV("integer"), IdV("float"), IdV("boolean"), IdV("null"),
              IdV("object"), IdV("array"), TRef("@I"), TRef("@O"), TRef("@U")}
AddlRoots == {Obj(<<P(Ka, Lit(NumD(N1), <<>>))>>, <<R("additionalProperties", m)>>) : m \in AddlModes}
        \cup {Obj(<<P(Ka, Lit(NumD(N1), <<OptR>>)), P(Kb, Lit(StrD(Ss), <<>>))>>, <<R("additionalProperties", m)>>) : m \in {BV(FALSE), IdV("string"), TRef("@O")}}
        \cup {Obj(<<>>, <<R("additionalProperties", m)>>) : m \in {IdV("integer"), TRef("@I")}}
ShortcutRoots == { Obj(<<SC("@K", Lit(NumD(N1), <<>>))>>, <<>>),
                   Obj(<<SC("@K", Lit(NumD(N1), <<>>)), P(Kx, Lit(NumD(N2), <<>>))>>, <<>>),
                   Obj(<<SC("@K", Lit(NumD(N1), <<OptR>>))>>, <<>>),
                   Obj(<<SC("@K", Lit(NumD(N1), <<>>)), SC("@K2", Lit(StrD(Ss), <<>>))>>, <<>>),
                   Obj(<<SC("@K", Lit(NumD(N1), <<>>))>>, <<R("additionalProperties", IdV("string"))>>),
                   Obj(<<SC("@K2", Ref(<<"@I", "@S">>, <<>>))>>, <<>>),
                   Obj(<<SC("@KA", Lit(NumD(N1), <<>>))>>, <<>>), Obj(<<SC("@KU", Lit(NumD(N1), <<OptR>>)), P(Kx, Lit(NumD(N2), <<OptR>>))>>, <<>>),
                   Obj(<<SC("@KE", Lit(NumD(N1), <<>>))>>, <<>>), Obj(<<SC("@KD", Lit(NumD(N1), <<>>))>>, <<>>) }
AllOfRoots == { Obj(<<P(Kx, Lit(NumD(N1), <<OptR>>))>>, <<R("allOf", TRef("@C"))>>),
                Obj(<<>>, <<R("allOf", ListV(<<TRef("@A2"), TRef("@AA")>>))>>),
                Obj(<<P(Kp, Ref(<<"@AAA">>, <<>>))>>, <<R("allOf", TRef("@A2")), R("additionalProperties", IdV("integer"))>>),
                \* an inherited additionalProperties rule (from an empty parent, from a parent with a property, through a chain)
                Obj(<<P(Kd, Lit(NumD(N2), <<>>))>>, <<R("allOf", TRef("@OE"))>>), Obj(<<P(Kd, Lit(NumD(N2), <<>>))>>, <<R("allOf", TRef("@OP"))>>),
                \* an or rule set that names a type and is nullable, next to a plain kind
                Lit(StrD(Sabc), <<R("or", ListV(<<SetV(<<R("type", TRef("@K")), NullR>>), IdV("integer")>>))>>),
                \* inheritance on two levels of one example: an object with allOf one of whose own properties is an object with its own allOf
                Obj(<<P(Kp, Obj(<<P(Kx, Lit(NumD(N1), <<>>))>>, <<R("allOf", TRef("@A2"))>>))>>, <<R("allOf", TRef("@A1"))>>),
                Obj(<<P(Kp, Arr(<<Obj(<<>>, <<R("allOf", TRef("@A2"))>>)>>, <<>>))>>, <<R("allOf", TRef("@A1"))>>) }
Roots == RefPositions \cup ArrRoots \cup PropRoots \cup AddlRoots \cup ShortcutRoots \cup AllOfRoots

\* ---- documents ----
Leaves == {Null, BoolD(TRUE), NumD(N1), NumD(N2), NumD(N1_5), NumD(Nm1), StrD(Sa), StrD(Sabc), StrD(Sabd), StrD(Sa_b), StrD(Ss)}
SmallVals == {NumD(N1), StrD(Ss), Null, ObjD(<<KVp(Ka, NumD(N1))>>), ArrD(<<NumD(N1)>>)}
DocKeys == {Ka, Kb, Kc, Kd, Kp, Kx, Kabc, Kabd, Kab}
SeqsUpTo(S, w) == UNION {[1..k -> S] : k \in 0..w}
Pairs == {KVp(k, v) : k \in DocKeys, v \in SmallVals}
ArrDocs == {ArrD(s) : s \in SeqsUpTo({NumD(N1), StrD(Sa), Null, NumD(N1_5), ObjD(<<KVp(Ka, NumD(N1))>>)}, IF Level = 1 THEN 2 ELSE 3)}
ObjDocs == {ObjD(s) : s \in SeqsUpTo(Pairs, IF Level = 1 THEN 1 ELSE 2)}
        \cup {ObjD(<<KVp(k1, v1), KVp(k2, v2)>>) : k1 \in {Ka, Kabc, Kp}, k2 \in {Kb, Kabd, Kab, Kx, Ka}, v1 \in {NumD(N1), StrD(Ss)}, v2 \in {NumD(N1), NumD(N2), StrD(Ss)}}
RecDoc1 == ObjD(<<KVp(Kx, NumD(N1))>>)
RecDoc2 == ObjD(<<KVp(Kx, NumD(N1)), KVp(Kr, RecDoc1)>>)
Special == { RecDoc2, ObjD(<<KVp(Kx, NumD(N1)), KVp(Kr, RecDoc2)>>), ObjD(<<KVp(Kr, RecDoc1)>>), ObjD(<<KVp(Kx, NumD(N1)), KVp(Kr, ObjD(<<>>))>>),
             ObjD(<<KVp(Kp, RecDoc2)>>), ObjD(<<KVp(Kp, ObjD(<<KVp(Ka, NumD(N1)), KVp(Kd, NumD(N1))>>))>>),
             ObjD(<<KVp(Kp, ObjD(<<KVp(Ka, NumD(N1)), KVp(Kb, NumD(N2)), KVp(Kc, NumD(N3))>>))>>),
             ObjD(<<KVp(Ka, NumD(N1)), KVp(Kb, NumD(N2)), KVp(Kc, NumD(N3))>>), ObjD(<<KVp(Ka, NumD(N1)), KVp(Kc, StrD(Ss))>>),
             ObjD(<<KVp(Ka, NumD(N1)), KVp(Kd, NumD(N1)), KVp(Kb, NumD(N2))>>), ObjD(<<KVp(Kp, ObjD(<<KVp(Ka, NumD(N1)), KVp(Kd, NumD(N1))>>)), KVp(Kx, NumD(N7))>>),
             ObjD(<<KVp(Ka, NumD(N1)), KVp(Kp, ObjD(<<KVp(Kx, NumD(N1)), KVp(Kb, NumD(N2))>>))>>), ObjD(<<KVp(Ka, NumD(N1)), KVp(Kp, ObjD(<<KVp(Kx, NumD(N1))>>))>>),
             ObjD(<<KVp(Ka, NumD(N1)), KVp(Kp, ArrD(<<ObjD(<<KVp(Kb, NumD(N2))>>)>>))>>), ObjD(<<KVp(Ka, NumD(N1)), KVp(Kp, ArrD(<<ObjD(<<>>)>>))>>),
             ObjD(<<KVp(<<120, 121>>, NumD(N1))>>), ObjD(<<KVp(<<120, 121>>, NumD(N1)), KVp(Kabc, NumD(N1))>>),          \* a key only the SECOND member of a key-type union admits
             ObjD(<<KVp(Kd, NumD(N2)), KVp(Kzz, StrD(Ss))>>), ObjD(<<KVp(Kd, NumD(N2)), KVp(Kzz, NumD(N1))>>),
             ObjD(<<KVp(Ka, NumD(N1)), KVp(Kd, NumD(N2)), KVp(Kzz, StrD(Ss))>>), ObjD(<<KVp(Ka, NumD(N1)), KVp(Kd, NumD(N2)), KVp(Kzz, NumD(N1))>>),
             ArrD(<<ArrD(<<NumD(N1)>>)>>), ObjD(<<KVp(Kp, ArrD(<<NumD(N1), StrD(Sa)>>))>>), ObjD(<<KVp(Kp, StrD(Sa_b))>>),
             ObjD(<<KVp(Ka, NumD(N1)), KVp(Kzz, StrD(Sa_b))>>), ObjD(<<KVp(Ka, NumD(N1)), KVp(Kzz, NumD(N1_5))>>), ObjD(<<KVp(Ka, NumD(N1)), KVp(Kzz, BoolD(TRUE))>>),
             ObjD(<<KVp(Kabc, NumD(N1)), KVp(Kabd, NumD(N1)), KVp(Kab, StrD(Ss))>>), ObjD(<<KVp(Kabc, NumD(N1)), KVp(Kzz, StrD(Ss))>>),
             ArrD(<<NumD(N1), NumD(N1), NumD(N1)>>), ArrD(<<Null, Null>>), ArrD(<<NumD(N1), StrD(Sa), StrD(Sa)>>),
             \* an e-mail address as a key
             ObjD(<<KVp(SEmail, NumD(N1))>>), ObjD(<<KVp(SEmail, NumD(N1)), KVp(Kabc, NumD(N2))>>),
             \* a key both shortcut entries of {@K: 1, @K2: "s"} admit, next to one that only the second admits (either order of the document)
             ObjD(<<KVp(Kab, NumD(N1)), KVp(<<120, 121>>, StrD(Ss))>>), ObjD(<<KVp(Kabd, NumD(N1)), KVp(<<120, 121>>, StrD(Ss)), KVp(Kab, NumD(N2))>>),
             \* two properties the example does not name: each is judged on its own (the second after a container, a string, a number)
             ObjD(<<KVp(Ka, NumD(N1)), KVp(Kx, ObjD(<<>>)), KVp(Kd, NumD(N5))>>), ObjD(<<KVp(Ka, NumD(N1)), KVp(Kx, ObjD(<<KVp(Ka, NumD(N1))>>)), KVp(Kd, ObjD(<<>>))>>),
             ObjD(<<KVp(Ka, NumD(N1)), KVp(Kx, ArrD(<<NumD(N1)>>)), KVp(Kd, NumD(N5))>>), ObjD(<<KVp(Ka, NumD(N1)), KVp(Kx, ArrD(<<NumD(N1)>>)), KVp(Kd, ArrD(<<>>))>>),
             ObjD(<<KVp(Ka, NumD(N1)), KVp(Kx, StrD(Ss)), KVp(Kd, NumD(N5))>>), ObjD(<<KVp(Ka, NumD(N1)), KVp(Kx, StrD(Ss)), KVp(Kd, StrD(Sa))>>),
             ObjD(<<KVp(Kx, NumD(N2)), KVp(Ka, NumD(N1)), KVp(Kd, StrD(Sa))>>), ObjD(<<KVp(Kx, NumD(N2)), KVp(Kd, NumD(N5)), KVp(Ka, NumD(N1))>>) }
Docs == Leaves \cup ArrDocs \cup ObjDocs \cup Special
DocSeq == SetToSeq(Docs)

VARIABLES root, opt
Init == root \in Roots /\ opt \in (IF Level = 1 THEN {FALSE} ELSE BOOLEAN)
Next == UNCHANGED <<root, opt>>
Spec == Init /\ [][Next]_<<root, opt>>
Emit == PrintT("@@CASE " \o ToJson([schema |-> root, env |-> Env, opt |-> opt,
                                   verdicts |-> [i \in DOMAIN DocSeq |-> Code3(Verdict(Env, root, DocSeq[i], opt))]]))
\* the requirement is really a union / intersection: spot theorems on the domain
UnionIsUnion == (root.t = "ref" /\ ~Nullable(root)) =>
                  \A i \in DOMAIN DocSeq : Verdict(Env, root, DocSeq[i], opt) =
                     Or3({Verdict(Env, Ref(<<root.names[j]>>, <<>>), DocSeq[i], opt) : j \in DOMAIN root.names})
ASSUME \A i \in DOMAIN DocSeq : PrintT("@@DOC " \o ToJson([i |-> i, v |-> DocSeq[i]]))
===================================================================================
