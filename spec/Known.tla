---------------------------------- MODULE Known ----------------------------------
(* C09, first sentence, for types that are HANDED DOWN: a schema is given types with AddType, and the types  *)
(* given to a type it was given count as given to it as well.  Two layers:                                    *)
(*   R  - what is available to the root (closure of "given"), what its text and the texts of the available    *)
(*        types want (references and allOf parents): Check fails naming a lacking type iff one is lacking.    *)
(*   I  - the library's three passes as algorithms: the breadth-first take-over of the added types' own types *)
(*        (loader.AddUnnamedTypes), the allOf compilation against the root's table (loader.CompileAllOf,      *)
(*        which hands down the parents' types afterwards), the check of every type in the table.              *)
(* Switches for two defects: AllOfBeforeTakeover (repaired in 6541035: the allOf rules were compiled before    *)
(* anything was taken over) and TakeoverSkipsNew (a newly registered type is not expanded).                    *)
(* TLC checks Agree on every configuration and prints it for the replay against the real library:             *)
(*   @@CASE {given, refs, par, want, lacking}                                                                  *)
EXTENDS Naturals, Sequences, FiniteSets, TLC, Json
CONSTANTS Full, AllOfBeforeTakeover, TakeoverSkipsNew
Ord == <<"@a", "@b", "@c">>
Names == {"@a", "@b", "@c"}
Root == "root"
Schemas == Names \cup {Root}
None == "-"
\* form: how a reference is written - a property that is a type shortcut, an array item, a member of an or list, a rule set with a type rule
\* (the last two only where the references form no cycle: a type reached twice through such lists is the recorded 1303 finding of GenGraph)
VARIABLES given, refs, par, form
vars == <<given, refs, par, form>>

SortedSeq(S) == SelectSeq(Ord, LAMBDA n : n \in S)
Wants(s) == refs[s] \cup (IF par[s] = None THEN {} ELSE {par[s]})

\* ------------------------------------------------ R ------------------------------------------------
Step(S) == S \cup UNION {given[t] : t \in S}
Avail == Step(Step(Step(given[Root])))
NStep(S) == S \cup UNION {Wants(t) : t \in S \cap Avail}
Needed == NStep(NStep(NStep(Wants(Root))))
Missing == Needed \ Avail
\* what an available type the root does not reach lacks: the library checks every type it knows, so it may name these too
Lacking == Missing \cup UNION {Wants(t) \ Avail : t \in Avail}
Want == IF Missing # {} THEN "missing" ELSE IF Lacking # {} THEN "unspec" ELSE "accept"

\* ------------------------------------------------ I ------------------------------------------------
RECURSIVE Inner(_, _, _)
Inner(is, table, q) ==
  IF is = <<>> THEN [t |-> table, q |-> q]
  ELSE LET n == Head(is) IN
       IF n \notin table
       THEN (IF TakeoverSkipsNew THEN Inner(Tail(is), table \cup {n}, q) ELSE Inner(Tail(is), table \cup {n}, Append(q, n)))
       ELSE Inner(Tail(is), table, Append(q, n))
RECURSIVE Bfs(_, _, _)
Bfs(queue, seen, table) ==
  IF queue = <<>> THEN table
  ELSE LET name == Head(queue) IN
       IF name \in seen THEN Bfs(Tail(queue), seen, table)
       ELSE LET r == Inner(SortedSeq(given[name]), table, Tail(queue)) IN Bfs(r.q, seen \cup {name}, r.t)
Takeover(table) == Bfs(SortedSeq(table), {}, table)

\* the first allOf parent that is not in the table when schema s is processed (its parents are processed first), or None
RECURSIVE ProcErr(_, _)
ProcErr(s, table) == IF par[s] = None THEN None ELSE IF par[s] \notin table THEN par[s] ELSE ProcErr(par[s], table)
RECURSIVE Chain(_)
Chain(s) == IF par[s] = None THEN {} ELSE {par[s]} \cup Chain(par[s])
AllOfResult(table) ==
  LET order == <<Root>> \o SortedSeq(table)
      errs == SelectSeq(order, LAMBDA s : ProcErr(s, table) # None)
      found == UNION {given[p] : p \in UNION {Chain(s) : s \in {Root} \cup table}}
  IN IF errs # <<>> THEN [err |-> ProcErr(Head(errs), table), table |-> table]
     ELSE [err |-> None, table |-> table \cup found]
CheckResult(table) ==
  LET order == <<Root>> \o SortedSeq(table)
      bad == SelectSeq(order, LAMBDA s : ~(Wants(s) \subseteq table))
  IN IF bad = <<>> THEN None ELSE CHOOSE n \in Wants(Head(bad)) \ table : TRUE
IErr ==
  LET t0 == given[Root]
      t1 == IF AllOfBeforeTakeover THEN t0 ELSE Takeover(t0)
      a == AllOfResult(t1)
  IN IF a.err # None THEN a.err ELSE CheckResult(Takeover(a.table))

Agree == /\ (Want = "accept" => IErr = None)
         /\ (Want = "missing" => IErr \in Lacking)

\* ------------------------------------------- the domain -------------------------------------------
\* references: the root names @a, or @a and @b; a type names at most one other type; allOf parents form no cycle
ParChoices == {p \in [Schemas -> Names \cup {None}] :
                 /\ p[Root] = None \/ Full
                 /\ p["@a"] \in {None, "@b", "@c"} /\ p["@b"] \in {None, "@c"} /\ p["@c"] = None}
RefChoices == {r \in [Schemas -> SUBSET Names] :
                 /\ r[Root] \in {{"@a"}, {"@a", "@b"}}
                 /\ \A n \in Names : Cardinality(r[n]) <= 1 /\ n \notin r[n]
                 /\ (~Full => r["@c"] = {})}
\* (a type given to itself is part of the mesh protocol of GenGraph)
GivenChoices == {g \in [Schemas -> SUBSET Names] :
                   (\A n \in Names : n \notin g[n]) /\ (~Full => g["@c"] = {})}
RStep(S) == S \cup UNION {refs[t] : t \in S}
RefAcyclic == \A n \in Names : n \notin RStep(RStep(RStep(refs[n])))
Init == /\ given \in GivenChoices /\ refs \in RefChoices /\ par \in ParChoices
        /\ form \in (IF RefAcyclic THEN {"prop", "item", "orlist", "ruleset"} ELSE {"prop", "item"})
Next == UNCHANGED vars
Spec == Init /\ [][Next]_vars
SetSeq(f) == [s \in Schemas |-> SortedSeq(f[s])]
Emit == PrintT("@@CASE " \o ToJson([given |-> SetSeq(given), refs |-> SetSeq(refs), par |-> par, form |-> form, want |-> Want, lacking |-> SortedSeq(Lacking)]))
EmitAll == Emit
====================================================================================
