SPECIFICATION Spec
CONSTANT NTypes = 2
CONSTANT Level = 1
INVARIANT Emit
INVARIANT MeshModelAgrees
CHECK_DEADLOCK FALSE
