SPECIFICATION Spec
CONSTANT NTypes = 2
CONSTANT Level = 1
CONSTANT DropRequiredAtCut = FALSE
CONSTANT ShiftItemsAtCut = FALSE
CONSTANT KeysOptDefault = FALSE
CONSTANT OptionalOnlyByRule = FALSE
INVARIANT Emit
INVARIANT MeshModelAgrees
INVARIANT ExampleValid
CHECK_DEADLOCK FALSE
