---------------------------------- MODULE LenSpec ----------------------------------
(* Layer R for C14: where an embedded text ends.                                           *)
(* JSON dialect: decided on the bytes by the RFC 8259 automaton (JsonText).                 *)
(* Schema / enum dialects: S is an accepted text (given with the class of its last token),  *)
(* followed by a separator and a tail; InDomain says whether the statement covers the case, *)
(* and then Len must be |S|.                                                                 *)
EXTENDS Integers, Sequences
J == INSTANCE JsonText WITH MaxDepth <- 100000

\* ---- JSON: run the automaton in trailing mode and find the end of the first complete value ----
\* result: [kind: "error" | "ok" | "unspec", len]
RECURSIVE Scan(_, _, _, _, _)
\* i = number of bytes consumed; lastNonWs = count of bytes up to the last non-blank byte of the value so far
Scan(s, bytes, i, endOfValue, closedBy) ==
  IF i = Len(bytes) THEN
       (IF J!RefVerdict(s) = "accept" THEN [kind |-> "ok", len |-> IF s.st = "done" THEN endOfValue ELSE Len(bytes), adj |-> FALSE, closer |-> closedBy]
        ELSE IF s.v = "unspec" THEN [kind |-> "unspec", len |-> 0, adj |-> FALSE, closer |-> closedBy]
        ELSE [kind |-> "error", len |-> 0, adj |-> FALSE, closer |-> closedBy])
  ELSE LET c == bytes[i + 1]
           n == J!RefStep(s, c, TRUE) IN
       IF n.v = "dead" THEN [kind |-> "error", len |-> 0, adj |-> FALSE, closer |-> closedBy]
       ELSE IF n.v = "unspec" THEN [kind |-> "unspec", len |-> 0, adj |-> FALSE, closer |-> closedBy]
       ELSE IF n.st = "trail" THEN
              \* c is the first foreign byte: the value ended at endOfValue (closed earlier) or right before c (a number / literal)
              (IF s.st = "done" THEN [kind |-> "ok", len |-> endOfValue, adj |-> endOfValue = i, closer |-> closedBy]
               ELSE [kind |-> "ok", len |-> i, adj |-> TRUE, closer |-> "scalar"])
       ELSE IF n.st = "done" /\ s.st # "done" THEN
              \* the value has just been completed: by a closing byte (c itself) or, for numbers, by the blank c
              (IF J!IsWs(c) THEN Scan(n, bytes, i + 1, i, "scalar") ELSE Scan(n, bytes, i + 1, i + 1, IF c \in {125, 93} THEN "bracket" ELSE IF c = 34 THEN "quote" ELSE "scalar"))
       ELSE Scan(n, bytes, i + 1, endOfValue, closedBy)
JsonLen(bytes) ==
  LET r == Scan(J!RefInit, bytes, 0, 0, "none") IN
  IF r.kind # "ok" THEN r
  ELSE IF r.adj /\ r.closer = "scalar" THEN [r EXCEPT !.kind = "unspec"]      \* a foreign byte directly after a number / literal: not in the statement
  ELSE r
IsBlankOnly(bytes) == \A i \in DOMAIN bytes : J!IsWs(bytes[i])

\* ---- schema and enum dialects: domain of the statement over (last token class, separator class, first byte of the tail) ----
LastClasses == {"brace", "bracket", "quote", "num", "word", "ref", "annot"}
SepClasses == {"none", "sp", "nl"}
TailClasses == {"alpha", "digit", "at"}
InDomain(dialect, last, sep, tail) ==
  /\ tail \in TailClasses
  /\ CASE sep = "none" -> last \in {"brace", "bracket", "quote"}       \* a foreign byte directly after a closing bracket or quote
       [] sep = "sp"   -> last \in {"brace", "bracket", "quote", "num", "word"}   \* after blanks; an open inline annotation or a type shortcut needs a line break
       [] sep = "nl"   -> TRUE
====================================================================================
