---------------------------------- MODULE ValTree ----------------------------------
(* Layer I for C03: the parallel-leaf discipline of validator/tree.go on a reduced schema   *)
(* language (an array whose element specs are sets of admissible literal kinds - a singleton  *)
(* is a plain literal, two kinds an `or` of two alternatives - with an optional maxItems).    *)
(* Validators are objects with identity (heap), leaves point at them; every lexeme is fed to  *)
(* every live leaf; a leaf that completes is replaced by its parent.                           *)
(* Named defect switch  DoneLeavesNotMerged : several alternatives that accept one value each   *)
(* step back to the SAME parent, which is then fed every later lexeme once per copy (repaired   *)
(* in validator/tree.go feedLeaf: a parent that already is a leaf is not added again).          *)
EXTENDS Naturals, Sequences, TLC, FiniteSets
CONSTANT DoneLeavesNotMerged
\* Reduced prototype: schema = array of element specs; element spec = set of admissible literal kinds
\* (a singleton = plain literal, 2 kinds = an "or" of two alternatives); optional maxItems.
Kinds == {"int","flt","str"}
KindOK(want, got) == want = got \/ (want = "flt" /\ got = "int")
ElemSpecs == { <<k>> : k \in Kinds } \cup { <<p[1],p[2]>> : p \in {q \in Kinds \X Kinds : q[1] # q[2]} }
Schemas == { [items |-> it, max |-> m] : it \in {<<e>> : e \in ElemSpecs} \cup {<<e1,e2>> : e1 \in ElemSpecs, e2 \in ElemSpecs}, m \in {0,2,3} } \* 0 = no maxItems
Docs == UNION { [1..n -> Kinds] : n \in 0..3 }

\* ---- requirement ----
ElemAcc(spec, k) == \E i \in 1..Len(spec) : KindOK(spec[i], k)
Acc(s, d) == /\ \A i \in 1..Len(d) : ElemAcc(s.items[IF i > Len(s.items) THEN Len(s.items) ELSE i], d[i])
             /\ (s.max # 0 => Len(d) <= s.max)

\* ---- implementation-shaped: heap of validator objects, leaves point at objects ----
Events(d) == <<[e |-> "AB"]>> \o
             [j \in 1..(4*Len(d)) |-> LET i == (j-1) \div 4 + 1  r == (j-1) % 4 IN
                 CASE r = 0 -> [e |-> "IB"] [] r = 1 -> [e |-> "LB"] [] r = 2 -> [e |-> "LE", k |-> d[i]] [] r = 3 -> [e |-> "IE"]]
             \o <<[e |-> "AE"]>>
VARIABLES s, d, heap, leaves, pos, res
vars == <<s, d, heap, leaves, pos, res>>
\* heap: seq of objects [kind: "arr"|"lit", parent: Nat (0 = none), cnt, want]
Init == /\ s \in Schemas /\ d \in Docs
        /\ heap = <<[kind |-> "arr", parent |-> 0, cnt |-> 0, want |-> "-"]>>
        /\ leaves = <<1>>          \* sequence of live leaves (object ids); order = iteration order
        /\ pos = 1 /\ res = "run"
\* feed one leaf; returns [heap, repl: Seq(ids) replacing the leaf, err: BOOLEAN]
FeedLeaf(h, id, ev) ==
  LET o == h[id] IN
  IF o.kind = "arr" THEN
     CASE ev.e \in {"AB","IE"} -> [h |-> h, repl |-> <<id>>, err |-> FALSE]
       [] ev.e = "IB" ->
            LET idx == IF o.cnt + 1 > Len(s.items) THEN Len(s.items) ELSE o.cnt + 1
                spec == s.items[idx]
                h1 == [h EXCEPT ![id].cnt = o.cnt + 1]
                kids == [i \in 1..Len(spec) |-> [kind |-> "lit", parent |-> id, cnt |-> 0, want |-> spec[i]]]
            IN [h |-> h1 \o kids, repl |-> [i \in 1..Len(spec) |-> Len(h1) + i], err |-> FALSE]
       [] ev.e = "AE" -> IF s.max # 0 /\ o.cnt > s.max THEN [h |-> h, repl |-> <<>>, err |-> TRUE]
                         ELSE [h |-> h, repl |-> <<>>, err |-> FALSE]     \* done, parent = none
       [] OTHER -> [h |-> h, repl |-> <<>>, err |-> TRUE]
  ELSE
     CASE ev.e = "LB" -> [h |-> h, repl |-> <<id>>, err |-> FALSE]
       [] ev.e = "LE" -> IF KindOK(o.want, ev.k) THEN [h |-> h, repl |-> <<o.parent>>, err |-> FALSE]   \* done: step back to parent
                         ELSE [h |-> h, repl |-> <<>>, err |-> TRUE]
       [] OTHER -> [h |-> h, repl |-> <<>>, err |-> TRUE]
RECURSIVE FeedAll(_,_,_,_,_,_)
FeedAll(h, ls, i, ev, acc, nerr) ==
  IF i > Len(ls) THEN [h |-> h, leaves |-> acc, nerr |-> nerr]
  ELSE LET r == FeedLeaf(h, ls[i], ev)
           \* the leaves that exist while leaf i is handled: the already handled ones (replaced) and the ones still to come
           others == {acc[j] : j \in 1..Len(acc)} \cup {ls[j] : j \in (i + 1)..Len(ls)}
           stepBack == Len(r.repl) = 1 /\ r.repl[1] # ls[i]                 \* done: replaced by its parent
           repl == IF ~DoneLeavesNotMerged /\ stepBack /\ r.repl[1] \in others THEN <<>> ELSE r.repl
       IN FeedAll(r.h, ls, i+1, ev, acc \o repl, nerr + (IF r.err THEN 1 ELSE 0))
Step == /\ res = "run" /\ pos <= Len(Events(d))
        /\ LET r == FeedAll(heap, leaves, 1, Events(d)[pos], <<>>, 0) IN
           /\ heap' = r.h /\ leaves' = r.leaves /\ pos' = pos + 1
           /\ res' = IF r.nerr = Len(leaves) THEN "err" ELSE IF Len(r.leaves) = 0 THEN "ok" ELSE "run"
        /\ UNCHANGED <<s, d>>
Spec == Init /\ [][Step]_vars
Agree == (res = "ok" => Acc(s, d)) /\ (res = "err" => ~Acc(s, d))
=====================================================================================
