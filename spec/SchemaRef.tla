------------------------------- MODULE SchemaRef -------------------------------
(* Explores the reference automaton of SchemaText alone and exports its transition     *)
(* graph (mechanism C of DESIGN.md):  @@T <from>|<byte>|<to>|<verdict(to)>  per edge.  *)
EXTENDS SchemaText, TLC
CONSTANTS Alphabet, Export
VARIABLE s

Key(x) == ToString(x.st) \o "/" \o ToString(x.sk) \o "/" \o ToString(x.ap)

Init == s = SInit /\ (Export => PrintT("@@I " \o Key(SInit) \o "|" \o SVerdict(SInit)))
Next == \E c \in Alphabet :
          LET n == SStep(s, c) IN
          /\ s' = n
          /\ (Export => PrintT("@@T " \o Key(s) \o "|" \o ToString(c) \o "|" \o Key(n) \o "|" \o SVerdict(n)))
Spec == Init /\ [][Next]_s

\* sanity invariants of the requirement itself
TypeOK == /\ s.v \in {"live", "dead", "unspec"}
          /\ Count(s.sk, {"O", "A"}) <= MaxDepth /\ Count(s.sk, {"RO", "RA"}) <= MaxRDepth
DeadIsAbsorbing == s.v = "dead" => s = RDead
OneAnnotation == Count(s.sk, {"IA", "MA", "S"}) <= 1
\* frames are well ordered: schema containers, then at most one annotation, then its rule containers; a comment only on top
WellFramed == \A i \in 1..Len(s.sk) :
                /\ (Kind(s.sk[i]) \in {"O", "A"} => \A j \in 1..i : Kind(s.sk[j]) \in {"O", "A"})
                /\ (Kind(s.sk[i]) \in {"RO", "RA"} => \E j \in 1..(i-1) : Kind(s.sk[j]) \in {"IA", "MA"})
                /\ (Kind(s.sk[i]) \in {"H", "LC", "BC", "S"} => i = Len(s.sk))
AcceptOnlyClosed == SVerdict(s) = "accept" => Count(s.sk, {"O", "A", "RO", "RA", "MA"}) = 0
\* a comment never opens inside an annotation, an annotation never inside a comment
CommentOutsideAnnotation == Count(s.sk, {"H", "LC", "BC"}) > 0 => AnnK(s.sk) = ""
================================================================================
