--------------------------------- MODULE TypeGraph ---------------------------------
(* Layer R for C09: user-type references, missing types, and which type graphs have a     *)
(* finite inhabitant.  Works on the abstract nodes of Sem.tla.                               *)
EXTENDS Integers, Sequences, FiniteSets, Sem
CONSTANT KeysOptDefault            \* the KeysAreOptionalByDefault option of the root and of every type

RECURSIVE Refs(_)
\* every user-type name a node's text references, in any position
RuleRefs(rules) ==
  UNION {LET rv == rules[i].v IN
         CASE rv.t = "tref" -> {rv.s}
           [] rv.t = "list" -> UNION {IF rv.items[j].t = "tref" THEN {rv.items[j].s}
                                       ELSE IF rv.items[j].t = "set" THEN UNION {IF rv.items[j].rules[k].v.t = "tref" THEN {rv.items[j].rules[k].v.s} ELSE {} : k \in DOMAIN rv.items[j].rules}
                                       ELSE {} : j \in DOMAIN rv.items}
           [] OTHER -> {} : i \in DOMAIN rules}
Refs(n) ==
  RuleRefs(n.rules) \cup
  CASE n.t = "ref" -> {n.names[i] : i \in DOMAIN n.names}
    [] n.t = "arr" -> UNION {Refs(n.items[i]) : i \in DOMAIN n.items}
    [] n.t = "obj" -> UNION {Refs(n.props[i].n) \cup (IF n.props[i].sc THEN {n.props[i].kt} ELSE {}) : i \in DOMAIN n.props}
    [] OTHER -> {}

TypeNames(env) == {env.types[i].name : i \in DOMAIN env.types}
\* names reachable from the root through references of any kind
RECURSIVE Reach(_, _)
Reach(env, S) == LET T == S \cup UNION {IF HasType(env, t) THEN Refs(TypeNode(env, t)) ELSE {} : t \in S} IN IF T = S THEN S ELSE Reach(env, T)
Reachable(env, root) == Reach(env, Refs(root))
Missing(env, root) == Reachable(env, root) \ TypeNames(env)

\* does node n have a finite inhabitant, given the set S of types already known to have one ?
RECURSIVE NodeInh(_, _, _)
NodeInh(env, n, S) ==
  IF Nullable(n) \/ IsAny(n) THEN TRUE
  ELSE IF n.t = "ref" THEN \E i \in DOMAIN n.names : n.names[i] \in S
  ELSE IF HasRule(n, "type") /\ RuleV(n, "type").t = "tref" THEN RuleV(n, "type").s \in S
  ELSE IF HasRule(n, "or") THEN \E j \in DOMAIN RuleV(n, "or").items :
                                   LET m == RuleV(n, "or").items[j] IN
                                   IF m.t = "tref" THEN m.s \in S
                                   ELSE IF m.t = "set" /\ \E k \in DOMAIN m.rules : m.rules[k].v.t = "tref"
                                        THEN \A k \in DOMAIN m.rules : m.rules[k].v.t = "tref" => m.rules[k].v.s \in S
                                        ELSE TRUE
  ELSE CASE n.t = "obj" -> /\ \A i \in DOMAIN n.props : Optional(n.props[i], KeysOptDefault) \/ NodeInh(env, n.props[i].n, S)
                           /\ \A p \in {ParentNames(n)[i] : i \in DOMAIN ParentNames(n)} : p \in S
         [] OTHER -> TRUE          \* literals; arrays (the empty array is an inhabitant)
RECURSIVE InhFix(_, _)
InhFix(env, S) == LET T == S \cup {t \in TypeNames(env) : NodeInh(env, TypeNode(env, t), S)} IN IF T = S THEN S ELSE InhFix(env, T)
Inhabited(env) == InhFix(env, {})

\* "accept" | "missing" | "reject" | "unspec"
\* names referenced by any added type at all (reachable from the root or not)
MissingAnywhere(env, root) == (Refs(root) \cup UNION {Refs(env.types[i].n) : i \in DOMAIN env.types}) \ TypeNames(env)
GraphVerdict(env, root) ==
  IF Missing(env, root) # {} THEN "missing"
  ELSE IF MissingAnywhere(env, root) # {} THEN "unspec"       \* an added type the root never reaches names a missing type
  ELSE LET I == Inhabited(env) IN
       IF ~NodeInh(env, root, I) THEN "reject"
       ELSE IF Reachable(env, root) \subseteq I THEN "accept"
       ELSE "unspec"          \* an uninhabited type reachable only through optional / array edges
====================================================================================
