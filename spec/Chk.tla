----------------------------------- MODULE Chk -----------------------------------
(* Layer R for C08: when must Check accept a node's rule list?  Three-valued:           *)
(* "accept" | "reject" | "unspec" (cells on which the statement is silent).              *)
(* A node is given by its kind, its position and its ordered rule list; CheckOK does     *)
(* not look at the order (that IS the order-independence requirement).                   *)
EXTENDS Integers, Sequences, FiniteSets, Sem

Known == {"min", "max", "exclusiveMinimum", "exclusiveMaximum", "precision", "minLength", "maxLength", "regex", "minItems", "maxItems",
          "additionalProperties", "allOf", "optional", "nullable", "const", "enum", "or", "type"}
Names(rules) == {rules[i].n : i \in DOMAIN rules}
Has(rules, n) == n \in Names(rules)
Val(rules, n) == rules[CHOOSE i \in DOMAIN rules : rules[i].n = n].v
NumOf(rv) == N!NF(rv.b)
UIntOf(rv) == Count(rv.b)              \* (Sem!Count: ten digits or more stand for "more than any length")
IsTrue(rules, n) == Has(rules, n) /\ Val(rules, n).t = "bool" /\ Val(rules, n).bv

Scalar(kind) == kind \in {"int", "flt", "str", "bool", "null"}
IsNumK(kind) == kind \in {"int", "flt"}
IsObjK(kind) == kind \in {"obj0", "obj1"}
IsArrK(kind) == kind \in {"arr0", "arr2"}
PlainTypeOf(kind) == CASE kind = "int" -> {"integer"} [] kind = "flt" -> {"float", "decimal"} [] kind = "str" -> {"string"} \cup Formats
                       [] kind = "bool" -> {"boolean"} [] kind = "null" -> {"null"} [] IsObjK(kind) -> {"object"} [] IsArrK(kind) -> {"array"}

\* verdict of the structural part (everything except "the example obeys its rules")
\* false-valued nullable / const are inert: they are dropped before anything else is decided
Inert(r) == r.n \in {"nullable", "const"} /\ r.v.t = "bool" /\ ~r.v.bv
StructureOf(kind, pos, rules) ==
  LET ns == Names(rules)
      tn == IF Has(rules, "type") /\ Val(rules, "type").t = "id" THEN Val(rules, "type").s ELSE ""
      tref == Has(rules, "type") /\ Val(rules, "type").t = "tref"
      others(S) == ns \ S
  IN
  IF ~(ns \subseteq Known) THEN "reject"                                                  \* unknown rule
  ELSE IF Cardinality(ns) # Len(rules) THEN "reject"                                      \* a rule appears twice
  ELSE IF Has(rules, "optional") /\ pos # "prop" THEN "reject"                            \* optional only on object properties
  \* enum / or / any / type reference exclude foreign rules
  ELSE IF Has(rules, "enum") /\ others({"enum", "optional", "nullable", "const", "type"}) # {} THEN "reject"
  ELSE IF Has(rules, "enum") /\ Has(rules, "type") /\ tn # "enum" THEN "reject"
  ELSE IF Has(rules, "or") /\ others({"or", "optional", "nullable", "type"}) # {} THEN "reject"
  ELSE IF Has(rules, "or") /\ Has(rules, "type") /\ tn # "mixed" THEN "reject"
  ELSE IF tn = "any" /\ others({"type", "optional", "nullable", "const"}) # {} THEN "reject"
  ELSE IF tref /\ others({"type", "optional", "nullable"}) # {} THEN "reject"
  ELSE IF tn = "enum" /\ ~Has(rules, "enum") THEN "reject"
  ELSE IF tn = "mixed" /\ ~Has(rules, "or") THEN "reject"
  \* cells the statement does not pin
  ELSE IF Has(rules, "enum") /\ (Has(rules, "const") \/ tn = "enum" \/ ~Scalar(kind)) THEN "unspec"
  ELSE IF Has(rules, "or") /\ (tn = "mixed" \/ ~Scalar(kind)) THEN "unspec"
  ELSE IF tn = "any" /\ (Has(rules, "const") \/ kind \in {"obj1", "arr2"}) THEN "unspec"
  ELSE IF tref /\ (~Scalar(kind) \/ kind = "null") THEN "unspec"
  ELSE IF Has(rules, "enum") \/ Has(rules, "or") \/ tn = "any" \/ tref THEN "accept"
  \* applicability to the kind of node
  ELSE IF {"min", "max", "exclusiveMinimum", "exclusiveMaximum"} \cap ns # {} /\ ~IsNumK(kind) THEN "reject"
  ELSE IF {"minLength", "maxLength", "regex"} \cap ns # {} /\ kind # "str" THEN "reject"
  ELSE IF {"minItems", "maxItems"} \cap ns # {} /\ ~IsArrK(kind) THEN "reject"
  ELSE IF {"additionalProperties", "allOf"} \cap ns # {} /\ ~IsObjK(kind) THEN "reject"
  ELSE IF Has(rules, "precision") /\ ~IsNumK(kind) THEN "reject"
  \* exclusive flags need their bound; precision and decimal go together; formats exclude length / regex
  ELSE IF (Has(rules, "exclusiveMinimum") /\ ~Has(rules, "min")) \/ (Has(rules, "exclusiveMaximum") /\ ~Has(rules, "max")) THEN "reject"
  ELSE IF Has(rules, "precision") /\ Has(rules, "type") /\ tn # "decimal" THEN "reject"
  ELSE IF tn = "decimal" /\ ~Has(rules, "precision") THEN "reject"
  ELSE IF tn \in Formats /\ {"minLength", "maxLength", "regex"} \cap ns # {} THEN "reject"
  \* a declared plain type has to be the node's kind
  ELSE IF Has(rules, "type") /\ tn \notin PlainTypeOf(kind) THEN "reject"
  \* paired bounds
  ELSE IF Has(rules, "min") /\ Has(rules, "max") /\
          (LET c == N!Cmp(NumOf(Val(rules, "min")), NumOf(Val(rules, "max"))) IN
           c > 0 \/ (c = 0 /\ (IsTrue(rules, "exclusiveMinimum") \/ IsTrue(rules, "exclusiveMaximum")))) THEN "reject"
  ELSE IF Has(rules, "minLength") /\ Has(rules, "maxLength") /\ UIntOf(Val(rules, "minLength")) > UIntOf(Val(rules, "maxLength")) THEN "reject"
  ELSE IF Has(rules, "minItems") /\ Has(rules, "maxItems") /\ UIntOf(Val(rules, "minItems")) > UIntOf(Val(rules, "maxItems")) THEN "reject"
  \* more unpinned cells
  ELSE IF Has(rules, "precision") /\ kind = "int" THEN "unspec"
  ELSE IF Has(rules, "const") /\ ~Scalar(kind) THEN "unspec"
  ELSE IF kind = "arr0" /\ ((Has(rules, "minItems") /\ UIntOf(Val(rules, "minItems")) # 0) \/ (Has(rules, "maxItems") /\ UIntOf(Val(rules, "maxItems")) # 0)) THEN "unspec"
  ELSE "accept"
\* inline rule-sets inside an or rule are rule lists of their own: the kind is the one their type names (else the node's)
SetKind(kind, rs) == IF Has(rs, "type") /\ Val(rs, "type").t = "id"
                     THEN (LET tn == Val(rs, "type").s IN
                           CASE tn = "integer" -> "int" [] tn \in {"float", "decimal"} -> "flt" [] tn \in {"string"} \cup Formats -> "str"
                             [] tn = "boolean" -> "bool" [] tn = "null" -> "null" [] tn = "object" -> "obj0" [] tn = "array" -> "arr0" [] OTHER -> kind)
                     ELSE kind
OrSetsBad(kind, rules) ==
  Has(rules, "or") /\ Val(rules, "or").t = "list" /\
  \E i \in DOMAIN Val(rules, "or").items :
     LET m == Val(rules, "or").items[i] IN
     m.t = "set" /\ (Cardinality(Names(m.rules)) # Len(m.rules) \/ ~(Names(m.rules) \subseteq Known)
                     \/ StructureOf(SetKind(kind, m.rules), "elem", SelectSeq(m.rules, LAMBDA r : ~Inert(r))) = "reject")
Structure(kind, pos, rules) ==
  IF Cardinality(Names(rules)) # Len(rules) THEN "reject"
  ELSE IF OrSetsBad(kind, rules) THEN "reject"                                  \* a rule appears twice (before anything is dropped)
  ELSE IF ~(Names(rules) \subseteq Known) THEN "reject"
  ELSE StructureOf(kind, pos, SelectSeq(rules, LAMBDA r : ~Inert(r)))
===================================================================================
