---------------------------------- MODULE GenGraph ----------------------------------
(* Mechanism A for C09: all type graphs over NTypes user types whose bodies come from a    *)
(* family of reference forms (alias, or-shortcut, required / optional property, array item, *)
(* or-rule member, additionalProperties type, missing names), two roots each.               *)
(*   @@CASE {schema, env, want, missing: <<names>>, used: <<names of the root text>>}        *)
EXTENDS TypeGraph, Tables, TLC, Json, SequencesExt
CONSTANTS NTypes, Level
CONSTANTS DropRequiredAtCut, ShiftItemsAtCut, OptionalOnlyByRule
I == INSTANCE Graph WITH LookupInOwnTypeTable <- TRUE        \* the pinned tree's recursion check
X == INSTANCE ExBuild
R(n, v) == [n |-> n, v |-> v]
BV(b) == [t |-> "bool", bv |-> b]
TRef(s) == [t |-> "tref", s |-> s]
IdV(s) == [t |-> "id", s |-> s]
NumD(b) == [t |-> "num", b |-> b]
Lit(v, rules) == [t |-> "lit", v |-> v, rules |-> rules]
Ref(names, rules) == [t |-> "ref", names |-> names, rules |-> rules]
Arr(items, rules) == [t |-> "arr", items |-> items, rules |-> rules]
Obj(props, rules) == [t |-> "obj", props |-> props, rules |-> rules]
P(k, n) == [k |-> k, sc |-> FALSE, kt |-> "", n |-> n]
OptR == R("optional", BV(TRUE))
One == Lit(NumD(N1), <<>>)
TName(i) == CASE i = 0 -> "@t0" [] i = 1 -> "@t1" [] i = 2 -> "@t2" [] i = 3 -> "@t3" [] OTHER -> "@missing"
Targets == {TName(i) : i \in 0..(NTypes - 1)} \cup {"@missing"}
\* a required property whose value may be null: null is an inhabitant, but the statement lists a non-optional property among the required
\* references - whether Check accepts such a cycle is not decided here (Want = "unspec"); what is decided: if it does, Example is valid (C15)
NullR == R("nullable", BV(TRUE))
NullableBodies == {Obj(<<P(Ka, Ref(<<x>>, <<NullR>>))>>, <<>>) : x \in Targets \ {"@missing"}}
Bodies ==
     {One}
\cup {Ref(<<x>>, <<>>) : x \in Targets}
\cup {Ref(<<x, y>>, <<>>) : x \in Targets, y \in Targets \ {"@missing"}}
\cup {Obj(<<P(Ka, Ref(<<x>>, <<>>))>>, <<>>) : x \in Targets}
\cup {Obj(<<P(Ka, Ref(<<x>>, <<OptR>>))>>, <<>>) : x \in Targets}
\cup {Arr(<<Ref(<<x>>, <<>>)>>, <<>>) : x \in Targets}
\cup NullableBodies
\cup {Arr(<<Ref(<<x>>, <<>>), One>>, <<>>) : x \in Targets}                       \* a reference item followed by another item (positions)
\cup {Obj(<<P(Ka, Arr(<<Ref(<<x>>, <<>>), One>>, <<>>))>>, <<>>) : x \in Targets \ {"@missing"}}
\cup {Obj(<<P(Ka, Ref(<<x>>, <<>>)), P(Kb, Ref(<<y>>, <<OptR>>))>>, <<>>) : x \in Targets \ {"@missing"}, y \in Targets \ {"@missing"}}
\cup (IF Level = 2 THEN
        {Lit(NumD(N1), <<R("or", [t |-> "list", items |-> <<TRef(x), IdV("integer")>>])>>) : x \in Targets}
   \cup {Obj(<<P(Ka, One)>>, <<R("additionalProperties", TRef(x))>>) : x \in Targets}
   \cup {Obj(<<>>, <<R("additionalProperties", TRef(x))>>) : x \in Targets}
   \cup {Obj(<<P(Ka, Ref(<<x>>, <<R("optional", BV(FALSE))>>))>>, <<>>) : x \in Targets}
   \cup {Obj(<<P(Ka, Ref(<<x, y>>, <<>>))>>, <<>>) : x \in Targets \ {"@missing"}, y \in Targets \ {"@missing"}}
      ELSE {})
DeepBodies == {One} \cup {Obj(<<P(Ka, Ref(<<x>>, <<>>))>>, <<>>) : x \in Targets \ {"@missing"}}
                    \cup {Obj(<<P(Ka, Ref(<<x, y>>, <<>>))>>, <<>>) : x \in Targets \ {"@missing"}, y \in Targets \ {"@missing"}}
                    \cup {Obj(<<P(Ka, Ref(<<x>>, <<OptR>>))>>, <<>>) : x \in Targets \ {"@missing"}}
\* Level 4: key shortcuts.  The key type must be a string type, which no listed statement turns into a verdict of the
\* graph: only the used names and termination (no crash, no run-away recursion) are decided on this family.
SC(tname, n) == [k |-> <<64>>, sc |-> TRUE, kt |-> tname, n |-> n]
StrLit == Lit([t |-> "str", c |-> <<97>>], <<>>)
KeyBodies == {One, StrLit}
        \cup {Ref(<<x>>, <<>>) : x \in Targets}
        \cup {Ref(<<x, y>>, <<>>) : x \in Targets \ {"@missing"}, y \in Targets \ {"@missing"}}
        \cup {Obj(<<SC(x, One)>>, <<>>) : x \in Targets}
KeyRoots == {Obj(<<SC("@t0", One)>>, <<>>), Obj(<<P(Kr, Ref(<<"@t0">>, <<>>)), SC("@t1", Ref(<<"@t0">>, <<OptR>>))>>, <<>>),
             \* a type named only in the value of a key-shortcut property (directly, inside an object, inside an array)
             Obj(<<SC("@t0", Ref(<<"@t1">>, <<>>))>>, <<>>), Obj(<<SC("@t0", Obj(<<P(Ka, Ref(<<"@t1">>, <<>>))>>, <<>>))>>, <<>>),
             Obj(<<SC("@t0", Arr(<<Ref(<<"@t1">>, <<>>)>>, <<>>))>>, <<>>),
             \* a type named inside an or rule set next to another rule (the rule set becomes an unnamed type of its own): used names
             Lit(NumD(N1), <<R("or", [t |-> "list", items |-> <<[t |-> "set", rules |-> <<R("type", TRef("@t0")), R("nullable", BV(TRUE))>>], TRef("@t1"), IdV("integer")>>])>>),
             Obj(<<P(Ka, Lit(NumD(N1), <<R("or", [t |-> "list", items |-> <<[t |-> "set", rules |-> <<R("type", TRef("@t1")), R("nullable", BV(TRUE))>>], IdV("integer")>>])>>))>>, <<>>),
             \* a type named both by a value and inside a rule set: listed once
             Obj(<<P(Ka, Ref(<<"@t0">>, <<>>)), P(Kb, Lit(NumD(N1), <<R("or", [t |-> "list", items |-> <<[t |-> "set", rules |-> <<R("type", TRef("@t0")), R("nullable", BV(TRUE))>>], IdV("integer")>>])>>))>>, <<>>),
             \* two rule sets that each name a type (two unnamed types): the used names come in the order of the text
             Lit(NumD(N1), <<R("or", [t |-> "list", items |-> <<[t |-> "set", rules |-> <<R("type", TRef("@t1")), R("nullable", BV(TRUE))>>],
                                                                [t |-> "set", rules |-> <<R("type", TRef("@t0")), R("nullable", BV(TRUE))>>], IdV("integer")>>])>>),
             Obj(<<P(Ka, Lit(NumD(N1), <<R("or", [t |-> "list", items |-> <<[t |-> "set", rules |-> <<R("type", TRef("@t0")), R("nullable", BV(TRUE))>>], IdV("integer")>>])>>)),
                   P(Kb, Lit(NumD(N1), <<R("or", [t |-> "list", items |-> <<[t |-> "set", rules |-> <<R("type", TRef("@t1")), R("nullable", BV(TRUE))>>], IdV("string")>>])>>))>>, <<>>)}
DeepRoots == {Obj(<<P(Kr, Ref(<<"@t0">>, <<>>)), P(Kx, Ref(<<"@t1">>, <<>>))>>, <<>>)}
\* Level 5: inheritance graphs (a parent inherited twice, along two paths, a true allOf cycle) and key-shortcut properties as edges,
\* over a fixed set of types; the key type is a proper string type, so the verdict is definite
AllOf1(x) == R("allOf", TRef(x))
L5Types == << [name |-> "@p",  n |-> Obj(<<P(Kp, One)>>, <<>>)],
              [name |-> "@b",  n |-> Obj(<<P(Kb, One)>>, <<AllOf1("@p")>>)],
              [name |-> "@e",  n |-> Obj(<<P(Kd, One)>>, <<AllOf1("@p")>>)],
              [name |-> "@d",  n |-> Obj(<<>>, <<R("allOf", [t |-> "list", items |-> <<TRef("@b")>>])>>)],
              [name |-> "@c1", n |-> Obj(<<P(Ka, One)>>, <<AllOf1("@c2")>>)],
              [name |-> "@c2", n |-> Obj(<<P(Kb, One)>>, <<AllOf1("@c1")>>)],
              [name |-> "@ks", n |-> StrLit],
              [name |-> "@r",  n |-> Obj(<<SC("@ks", Ref(<<"@r">>, <<>>))>>, <<>>)],
              [name |-> "@ro", n |-> Obj(<<SC("@ks", Ref(<<"@ro">>, <<OptR>>))>>, <<>>)],
              \* a chain four types long, each link of another kind (property, array item, allOf): handed down one link at a time
              [name |-> "@h1", n |-> Obj(<<P(Ka, Ref(<<"@h2">>, <<>>))>>, <<>>)],
              [name |-> "@h2", n |-> Arr(<<Ref(<<"@h3">>, <<>>)>>, <<>>)],
              [name |-> "@h3", n |-> Obj(<<P(Kb, One)>>, <<AllOf1("@h4")>>)],
              [name |-> "@h4", n |-> Obj(<<P(Kd, One)>>, <<>>)] >>
L5Env(names) == [types |-> SelectSeq(L5Types, LAMBDA t : t.name \in names), enums |-> <<>>]
\* a case of this level: the root and the types it is given (a cycle among the given types is an error wherever it lies)
L5Cases == { [root |-> Obj(<<P(Kx, Obj(<<P(Ka, One)>>, <<AllOf1("@p")>>)), P(Kr, Obj(<<P(Kb, One)>>, <<AllOf1("@p")>>))>>, <<>>), names |-> {"@p"}],
             [root |-> Obj(<<P(Kx, Ref(<<"@b">>, <<>>)), P(Kr, Ref(<<"@e">>, <<>>))>>, <<>>), names |-> {"@p", "@b", "@e"}],
             [root |-> Obj(<<P(Kx, Ref(<<"@d">>, <<>>)), P(Kr, Ref(<<"@e">>, <<>>)), P(Ka, Ref(<<"@b">>, <<OptR>>))>>, <<>>), names |-> {"@p", "@b", "@e", "@d"}],
             [root |-> Ref(<<"@c1">>, <<>>), names |-> {"@c1", "@c2"}],
             [root |-> Obj(<<P(Ka, Ref(<<"@r">>, <<>>))>>, <<>>), names |-> {"@ks", "@r"}],
             [root |-> Obj(<<P(Ka, Ref(<<"@ro">>, <<>>))>>, <<>>), names |-> {"@ks", "@ro"}],
             [root |-> Obj(<<SC("@ks", Ref(<<"@b">>, <<>>)), P(Ka, Ref(<<"@e">>, <<OptR>>))>>, <<>>), names |-> {"@ks", "@p", "@b", "@e"}],
             [root |-> Obj(<<P(Kx, Ref(<<"@h1">>, <<>>))>>, <<>>), names |-> {"@h1", "@h2", "@h3", "@h4"}],
             [root |-> Arr(<<Ref(<<"@h2">>, <<>>)>>, <<>>), names |-> {"@h2", "@h3", "@h4"}] }
Roots == IF Level = 5 THEN {c.root : c \in L5Cases} ELSE IF Level = 3 THEN DeepRoots ELSE IF Level = 4 THEN KeyRoots
         ELSE {Ref(<<"@t0">>, <<>>), Obj(<<P(Kr, Ref(<<"@t0">>, <<>>)), P(Kx, Ref(<<TName(NTypes - 1)>>, <<OptR>>))>>, <<>>)}
              \cup (IF Level = 1 /\ NTypes = 2 THEN {Ref(<<"@t0", "@t1">>, <<>>), Arr(<<Ref(<<"@t1", "@t0">>, <<>>)>>, <<>>)} ELSE {})

VARIABLES bodies, root
Init == bodies \in [0..(NTypes - 1) -> IF Level = 5 THEN {One} ELSE IF Level = 3 THEN DeepBodies ELSE IF Level = 4 THEN KeyBodies ELSE Bodies] /\ root \in Roots
Next == UNCHANGED <<bodies, root>>
Spec == Init /\ [][Next]_<<bodies, root>>
Env == IF Level = 5 THEN L5Env((CHOOSE c \in L5Cases : c.root = root).names)
       ELSE [types |-> [i \in 1..NTypes |-> [name |-> TName(i - 1), n |-> bodies[i - 1]]], enums |-> <<>>]
\* (a key type that is not a string is an error of its own, which may be reported before a missing name)
UsesNullable == Level # 5 /\ \E i \in DOMAIN bodies : bodies[i] \in NullableBodies
Want == IF Level = 4 \/ UsesNullable THEN "unspec" ELSE GraphVerdict(Env, root)
Emit == PrintT("@@CASE " \o ToJson([schema |-> root, env |-> Env, want |-> Want, opt |-> KeysOptDefault,
                                   missing |-> SetToSeq(Missing(Env, root)), used |-> SetToSeq(Refs(root)),
                                   pred_star_rejects |-> I!ImplRejectsRecursion(Env, root, FALSE),
                                   pred_mesh_rejects |-> I!ImplRejectsRecursion(Env, root, TRUE),
                                   pred_1303 |-> I!Pred1303(Env, root)]))
\* the example builder (I layer, ExBuild) yields, on every accepted graph, a value the requirement accepts
ExampleValid == (Level \in {1, 2, 3} /\ ~UsesNullable /\ GraphVerdict(Env, root) = "accept") =>
                  LET ex == X!Example(Env, root) IN ex # X!NIL /\ Verdict(Env, root, ex, KeysOptDefault) = "accept"
\* under the mesh protocol the implementation-shaped search agrees with the requirement (where that is specified)
MeshModelAgrees == (~UsesNullable /\ GraphVerdict(Env, root) \in {"accept", "reject"}) =>
                     ((I!ImplRejectsRecursion(Env, root, TRUE) \/ I!AllOfCycle(Env) \/ I!Pred1303(Env, root)) <=> (GraphVerdict(Env, root) = "reject" \/ I!Pred1303(Env, root)))
\* theorem of the requirement: whatever has an inhabitant is accepted by Sem for SOME document is not checked here (documents unbounded);
\* instead: inhabitation is monotone - adding an optional marker never turns an accepted graph into a rejected one (spot theorem, Level 1)
====================================================================================
