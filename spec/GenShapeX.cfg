SPECIFICATION Spec
INVARIANT Emit
INVARIANT Spelling
INVARIANT EmptyKey
CHECK_DEADLOCK FALSE
