SPECIFICATION Spec
CONSTANT MaxDepth = 1
CONSTANT MaxRDepth = 1
CONSTANT Alphabet = {0}
CONSTANT Export = TRUE
INVARIANT TypeOK
INVARIANT DeadIsAbsorbing
INVARIANT OneAnnotation
INVARIANT WellFramed
INVARIANT AcceptOnlyClosed
INVARIANT CommentOutsideAnnotation
CHECK_DEADLOCK FALSE
