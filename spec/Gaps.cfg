SPECIFICATION Spec
CONSTANT Strength = 1
INVARIANT Emit
CHECK_DEADLOCK FALSE
