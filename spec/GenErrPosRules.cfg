SPECIFICATION Spec
INVARIANT OnlyThatValue
CHECK_DEADLOCK FALSE
