----------------------------------- MODULE Sem -----------------------------------
(* Layer R: what a JSight schema MEANS - which JSON documents it accepts.             *)
(* Abstract syntax (DESIGN Appendix A.1; all sum types are tagged records):            *)
(*   Value : [t:"null"] [t:"bool",bv] [t:"num",b:<<bytes>>] [t:"str",c:<<code points>>]  *)
(*           [t:"arr",items:<<Value>>] [t:"obj",ps:<<[k,v]>>]   (ps keeps order/repeats) *)
(*   Node  : [t:"lit",v:Value,rules] [t:"obj",props:<<[k,sc,n]>>,rules]                 *)
(*           [t:"arr",items:<<Node>>,rules] [t:"ref",names:<<STRING>>,rules]            *)
(*   Rule  : [n:STRING, v:RV]   RV : [t:"bool",bv] [t:"num",b] [t:"id",s] [t:"chars",c]  *)
(*           [t:"list",items:<<RV>>] [t:"set",rules:<<Rule>>] [t:"val",v:Value]         *)
(*   Env   : [types: <<[name, n:Node]>>, enums: <<[name, items:<<Value>>]>>]            *)
(* Verdicts are three-valued where the property statements are silent: "unspec".       *)
EXTENDS Integers, Sequences, FiniteSets
N == INSTANCE Num

HasRule(node, name) == \E i \in DOMAIN node.rules : node.rules[i].n = name
RuleV(node, name) == node.rules[CHOOSE i \in DOMAIN node.rules : node.rules[i].n = name].v
BoolRule(node, name) == HasRule(node, name) /\ RuleV(node, name).t = "bool" /\ RuleV(node, name).bv
Nullable(node) == BoolRule(node, "nullable")
TypeName(node) == IF HasRule(node, "type") /\ RuleV(node, "type").t = "id" THEN RuleV(node, "type").s ELSE ""
IsAny(node) == TypeName(node) = "any"

\* ---- kinds ----
HasDot(b) == \E i \in DOMAIN b : b[i] = 46
HasExp(b) == \E i \in DOMAIN b : b[i] \in {101, 69}
\* JSON kind of a scalar document value; numbers are "int" or "flt" (integer-valued exponent forms: via Num)
NumKind(b) == LET c == N!IntClass(b) IN IF c = "yes" THEN "int" ELSE IF c = "no" THEN "flt" ELSE "flt?"   \* "flt?" : 1.0 (pinned float)
KindOfValue(v) == IF v.t = "num" THEN NumKind(v.b) ELSE v.t
\* kind of an example literal
ExampleKind(node) == KindOfValue(node.v)

\* ---- C01: the rule-free fragment (optional, nullable, type any) ----
Optional(p, keysOpt) ==
  IF HasRule(p.n, "optional") THEN RuleV(p.n, "optional").bv ELSE keysOpt
KeysOf(node) == {node.props[i].k : i \in DOMAIN node.props}
PropOf(node, k) == node.props[CHOOSE i \in DOMAIN node.props : node.props[i].k = k]

KindMatches(ek, vk) ==            \* example kind, value kind
  \/ ek = vk
  \/ (ek \in {"flt", "flt?"} /\ vk \in {"int", "flt", "flt?"})
  \/ (ek = "int" /\ vk = "int")

RECURSIVE AcceptsShape(_, _, _)
AcceptsShape(node, v, keysOpt) ==
  IF IsAny(node) THEN TRUE
  ELSE IF v.t = "null" /\ Nullable(node) THEN TRUE
  ELSE CASE node.t = "lit" -> v.t \notin {"arr", "obj"} /\ KindMatches(ExampleKind(node), KindOfValue(v))
         [] node.t = "arr" ->
              /\ v.t = "arr"
              /\ (node.items = <<>> => v.items = <<>>)
              /\ \A i \in DOMAIN v.items :
                   AcceptsShape(node.items[IF i <= Len(node.items) THEN i ELSE Len(node.items)], v.items[i], keysOpt)
         [] node.t = "obj" ->
              /\ v.t = "obj"
              /\ \A i \in DOMAIN v.ps : v.ps[i].k \in KeysOf(node) /\ AcceptsShape(PropOf(node, v.ps[i].k).n, v.ps[i].v, keysOpt)
              /\ \A j \in DOMAIN node.props :
                   ~Optional(node.props[j], keysOpt) => \E i \in DOMAIN v.ps : v.ps[i].k = node.props[j].k
         [] OTHER -> FALSE

-----------------------------------------------------------------------------------
(* C02: scalar rules.  Three-valued verdicts: "accept" | "reject" | "unspec".        *)
And3(S) == IF "reject" \in S THEN "reject" ELSE IF "unspec" \in S THEN "unspec" ELSE "accept"
B3(b) == IF b THEN "accept" ELSE "reject"

IsAscii(c) == \A i \in DOMAIN c : c[i] < 128

\* ---- regular expressions (abstract syntax, RE2 search semantics on code points) ----
\* re : [t:"chr",c] [t:"set",cs,neg] [t:"any"] [t:"cat",a,b] [t:"alt",a,b] [t:"opt",a] [t:"star",a] [t:"plus",a] [t:"bol"] [t:"eol"] [t:"eps"]
RECURSIVE Ends(_, _, _), StarEnds(_, _, _)
Ends(re, s, i) ==
  CASE re.t = "chr"  -> IF i < Len(s) /\ s[i + 1] = re.c THEN {i + 1} ELSE {}
    [] re.t = "set"  -> IF i < Len(s) /\ ((\E j \in DOMAIN re.cs : re.cs[j] = s[i + 1]) # re.neg) THEN {i + 1} ELSE {}   \* cs: a sequence
    [] re.t = "any"  -> IF i < Len(s) /\ s[i + 1] # 10 THEN {i + 1} ELSE {}
    [] re.t = "cat"  -> UNION {Ends(re.b, s, j) : j \in Ends(re.a, s, i)}
    [] re.t = "alt"  -> Ends(re.a, s, i) \cup Ends(re.b, s, i)
    [] re.t = "opt"  -> {i} \cup Ends(re.a, s, i)
    [] re.t = "star" -> StarEnds(re.a, s, {i})
    [] re.t = "plus" -> StarEnds(re.a, s, Ends(re.a, s, i))
    [] re.t = "bol"  -> IF i = 0 THEN {i} ELSE {}
    [] re.t = "eol"  -> IF i = Len(s) THEN {i} ELSE {}
    [] OTHER -> {i}
StarEnds(a, s, S) == LET T == S \cup UNION {Ends(a, s, j) : j \in S} IN IF T = S THEN S ELSE StarEnds(a, s, T)
Search(re, s) == \E i \in 0..Len(s) : Ends(re, s, i) # {}

\* ---- formats ----
Dig(c) == c \in 48..57
DVal(c) == c - 48
AllDig(s, a, b) == \A i \in a..b : Dig(s[i])
Num2(s, a) == DVal(s[a]) * 10 + DVal(s[a + 1])
Num4(s, a) == Num2(s, a) * 100 + Num2(s, a + 2)
Leap(y) == (y % 4 = 0 /\ y % 100 # 0) \/ y % 400 = 0
DaysIn(y, m) == IF m = 2 THEN (IF Leap(y) THEN 29 ELSE 28) ELSE IF m \in {4, 6, 9, 11} THEN 30 ELSE 31
\* s[a..a+9] is YYYY-MM-DD with a real calendar day
DateShape(s, a) == Len(s) >= a + 9 /\ AllDig(s, a, a + 3) /\ s[a + 4] = 45 /\ AllDig(s, a + 5, a + 6) /\ s[a + 7] = 45 /\ AllDig(s, a + 8, a + 9)
DateValid(s, a) == LET y == Num4(s, a) m == Num2(s, a + 5) d == Num2(s, a + 8) IN m \in 1..12 /\ d >= 1 /\ d <= DaysIn(y, m)
DateVerdict(s) == IF Len(s) = 10 /\ DateShape(s, 1) /\ DateValid(s, 1) THEN "accept" ELSE "reject"

\* RFC 3339 date-time, core forms only:  date "T" hh:mm:ss [ "." digits ] ( "Z" | (+|-) hh:mm )
TimeShape(s, a) == Len(s) >= a + 7 /\ AllDig(s, a, a + 1) /\ s[a + 2] = 58 /\ AllDig(s, a + 3, a + 4) /\ s[a + 5] = 58 /\ AllDig(s, a + 6, a + 7)
RECURSIVE FracEnd(_, _)
FracEnd(s, i) == IF i <= Len(s) /\ Dig(s[i]) THEN FracEnd(s, i + 1) ELSE i          \* first index after the digits
ZoneStart(s) == IF Len(s) >= 20 /\ s[20] = 46 /\ Len(s) >= 21 /\ Dig(s[21]) THEN FracEnd(s, 21) ELSE 20
ZoneShape(s, z) == Len(s) = z + 5 /\ s[z] \in {43, 45} /\ AllDig(s, z + 1, z + 2) /\ s[z + 3] = 58 /\ AllDig(s, z + 4, z + 5)
ZoneOK(s, z) == \/ (Len(s) = z /\ s[z] = 90)
                \/ (ZoneShape(s, z) /\ Num2(s, z + 1) <= 23 /\ Num2(s, z + 4) <= 59)
DateTimeVerdict(s) ==
  IF Len(s) < 20 THEN "reject"                                            \* too short to carry date, time and zone
  ELSE IF ~(DateShape(s, 1) /\ TimeShape(s, 12)) THEN (IF \E i \in DOMAIN s : ~(Dig(s[i]) \/ s[i] \in {45, 58, 46, 43, 84, 90}) THEN "unspec" ELSE "reject")
  ELSE IF s[11] # 84 THEN "unspec"                                        \* lower-case t, blank: not probed
  ELSE IF ~DateValid(s, 1) \/ Num2(s, 12) > 23 \/ Num2(s, 15) > 59 THEN "reject"
  ELSE IF Num2(s, 18) > 59 THEN "unspec"                                  \* leap second
  ELSE IF ZoneOK(s, ZoneStart(s)) THEN "accept"
  ELSE IF ZoneShape(s, ZoneStart(s)) THEN "reject"                        \* numeric offset out of range (+24:00, +01:60)
  ELSE IF Len(s) >= ZoneStart(s) /\ s[ZoneStart(s)] = 122 THEN "unspec"   \* lower-case z (a comma before the fraction is not RFC 3339: reject)
  ELSE "reject"

HexC(c) == c \in 48..57 \/ c \in 65..70 \/ c \in 97..102
UuidVerdict(s) ==
  IF Len(s) = 36 THEN B3(\A i \in 1..36 : IF i \in {9, 14, 19, 24} THEN s[i] = 45 ELSE HexC(s[i]))
  ELSE IF Len(s) \in {32, 38, 41, 45} THEN "unspec" ELSE "reject"

\* e-mail and uri: the requirement pins a core accept set and a core reject set by shape; the rest is unspecified
CountOf(s, c) == Cardinality({i \in DOMAIN s : s[i] = c})
AlnumC(c) == c \in 48..57 \/ c \in 65..90 \/ c \in 97..122
IndexOfC(s, c) == CHOOSE i \in DOMAIN s : s[i] = c /\ \A j \in DOMAIN s : s[j] = c => i <= j
EmailVerdict(s) ==
  IF s = <<>> \/ CountOf(s, 64) = 0 THEN "reject"                          \* empty, or no @ at all
  ELSE IF CountOf(s, 64) = 1 /\ (\A i \in DOMAIN s : AlnumC(s[i]) \/ s[i] \in {64, 46}) THEN
         LET at == IndexOfC(s, 64) IN
         IF at > 1 /\ at < Len(s) /\ s[1] # 46 /\ s[at - 1] # 46 /\ s[at + 1] # 46 /\ s[Len(s)] # 46
            /\ (\A i \in 1..(Len(s) - 1) : ~(s[i] = 46 /\ s[i + 1] = 46)) THEN "accept"
         ELSE IF at = 1 \/ at = Len(s) THEN "reject" ELSE "unspec"
  ELSE "unspec"
\* uri: scheme "://" host ... with alnum scheme and host label characters -> accept; no ':' at all or empty -> reject
StartsWith(s, p) == Len(s) >= Len(p) /\ SubSeq(s, 1, Len(p)) = p
UriVerdict(s) ==
  IF s = <<>> \/ CountOf(s, 58) = 0 THEN "reject"
  ELSE LET c == IndexOfC(s, 58) IN
       IF c > 1 /\ (\A i \in 1..(c - 1) : s[i] \in 97..122) /\ Len(s) >= c + 3 /\ s[c + 1] = 47 /\ s[c + 2] = 47
          /\ AlnumC(s[c + 3]) /\ (\A i \in (c + 3)..Len(s) : AlnumC(s[i]) \/ s[i] \in {46, 47, 45, 95})
       THEN "accept"
       ELSE IF c = 1 THEN "reject" ELSE "unspec"
FormatVerdict(f, s) ==
  CASE f = "date" -> DateVerdict(s) [] f = "datetime" -> DateTimeVerdict(s) [] f = "uuid" -> UuidVerdict(s)
    [] f = "email" -> EmailVerdict(s) [] f = "uri" -> UriVerdict(s)
Formats == {"email", "uri", "uuid", "date", "datetime"}

\* ---- membership / equality of scalars (text x kind; numerals of equal value but other spelling: unspecified) ----
SameScalar(a, b) ==      \* "accept" | "reject" | "unspec"
  IF a.t # b.t THEN "reject"
  ELSE CASE a.t = "null" -> "accept"
         [] a.t = "bool" -> B3(a.bv = b.bv)
         [] a.t = "str"  -> B3(a.c = b.c)
         \* numbers are equal when their values are (C10); the same value written once as an integer and once with a fraction
         \* part (2 and 2.0) is pinned as different by the repository's suite: no verdict
         [] a.t = "num"  -> IF a.b = b.b THEN "accept" ELSE IF N!NF(a.b) # N!NF(b.b) THEN "reject"
                            ELSE IF NumKind(a.b) = NumKind(b.b) /\ NumKind(a.b) # "flt?" THEN "accept" ELSE "unspec"
         [] OTHER -> "reject"
Member3(v, items) ==
  LET vs == {SameScalar(v, items[i]) : i \in DOMAIN items} IN
  IF "accept" \in vs THEN "accept" ELSE IF "unspec" \in vs THEN "unspec" ELSE "reject"

\* a count written in a rule (lengths, item counts, digits), as far as it can matter: TLC integers are 32 bit, and no string or array the
\* model handles is longer than 10^9 - a count of ten digits or more (leading zeros aside) stands for "more than any length"
RECURSIVE StripZeros(_)
StripZeros(ds) == IF ds # <<>> /\ Head(ds) = 0 THEN StripZeros(Tail(ds)) ELSE ds
Count(b) == LET ds == StripZeros(N!TakeDigits(b)) IN IF Len(ds) > 9 THEN 1000000000 ELSE N!DigitsToInt(ds, 0)
\* ---- one rule on one scalar value (value already of an admissible kind) ----
RuleVerdict(node, r, v, enums) ==
  CASE r.n = "min" -> IF v.t # "num" THEN "reject"
                      ELSE LET c == N!Cmp(N!NF(v.b), N!NF(r.v.b)) IN B3(IF BoolRule(node, "exclusiveMinimum") THEN c > 0 ELSE c >= 0)
    [] r.n = "max" -> IF v.t # "num" THEN "reject"
                      ELSE LET c == N!Cmp(N!NF(v.b), N!NF(r.v.b)) IN B3(IF BoolRule(node, "exclusiveMaximum") THEN c < 0 ELSE c <= 0)
    [] r.n = "precision" -> IF v.t # "num" THEN "reject" ELSE B3(N!FracLen(N!NF(v.b)) <= Count(r.v.b))
    [] r.n = "minLength" -> IF v.t # "str" THEN "reject" ELSE IF ~IsAscii(v.c) THEN "unspec" ELSE B3(Len(v.c) >= Count(r.v.b))
    [] r.n = "maxLength" -> IF v.t # "str" THEN "reject" ELSE IF ~IsAscii(v.c) THEN "unspec" ELSE B3(Len(v.c) <= Count(r.v.b))
    [] r.n = "regex" -> IF v.t # "str" THEN "reject" ELSE B3(Search(r.v.re, v.c))
    [] r.n = "const" -> IF r.v.bv THEN SameScalar(v, node.v) ELSE "accept"
    [] r.n = "type"  -> IF r.v.s \in Formats THEN (IF v.t # "str" THEN "reject" ELSE FormatVerdict(r.v.s, v.c)) ELSE "accept"
    [] OTHER -> "accept"                 \* optional, nullable, exclusive*, enum (handled by the caller)

EnumItems(node, enums) ==
  LET rv == RuleV(node, "enum") IN
  IF rv.t = "name" THEN enums[CHOOSE i \in DOMAIN enums : enums[i].name = rv.s].items
  ELSE [i \in DOMAIN rv.items |-> rv.items[i].v]

\* admissible kinds of a scalar node without enum: from the example literal (Check forces the type rule to agree with it)
\* a plain type name used as an or-member or inside an inline rule-set
KindNameVerdict(tn, v) ==
  CASE tn = "any"     -> "accept"
    [] tn = "string"  -> B3(v.t = "str")
    [] tn = "integer" -> IF v.t # "num" THEN "reject" ELSE LET k == KindOfValue(v) IN IF k = "int" THEN "accept" ELSE IF k = "flt?" THEN "unspec" ELSE "reject"
    [] tn \in {"float", "decimal"} -> B3(v.t = "num")
    [] tn = "boolean" -> B3(v.t = "bool")
    [] tn = "null"    -> B3(v.t = "null")
    [] tn = "object"  -> IF v.t # "obj" THEN "reject" ELSE IF v.ps = <<>> THEN "accept" ELSE "unspec"
    [] tn = "array"   -> IF v.t # "arr" THEN "reject" ELSE IF v.items = <<>> THEN "accept" ELSE "unspec"
    [] tn \in Formats -> IF v.t # "str" THEN "reject" ELSE FormatVerdict(tn, v.c)
    [] OTHER -> "unspec"
PlainKinds == {"integer", "float", "decimal", "string", "boolean", "null"}
KindVerdict(node, v) ==
  LET ek == ExampleKind(node)  vk == KindOfValue(v) IN
  IF v.t \in {"arr", "obj"} THEN "reject"
  ELSE IF TypeName(node) \in PlainKinds THEN KindNameVerdict(TypeName(node), v)      \* a declared type decides the kind
  ELSE IF TypeName(node) \in Formats THEN B3(v.t = "str")
  ELSE IF ek \in {"flt", "flt?"} THEN B3(v.t = "num")
  ELSE IF ek = "int" THEN (IF v.t # "num" THEN "reject" ELSE IF vk = "int" THEN "accept" ELSE IF vk = "flt?" THEN "unspec" ELSE "reject")
  ELSE B3(ek = vk)

ScalarVerdict(node, v, enums) ==
  IF IsAny(node) THEN "accept"
  ELSE IF v.t = "null" /\ Nullable(node) THEN "accept"               \* admitted null is accepted whatever other rules are present
  ELSE IF v.t \in {"arr", "obj"} THEN "reject"
  ELSE IF HasRule(node, "enum") THEN
         And3({Member3(v, EnumItems(node, enums))} \cup {RuleVerdict(node, node.rules[i], v, enums) : i \in DOMAIN node.rules})
  ELSE LET k == KindVerdict(node, v) IN
       IF k = "reject" THEN "reject"
       ELSE And3({k} \cup {RuleVerdict(node, node.rules[i], v, enums) : i \in DOMAIN node.rules})

-----------------------------------------------------------------------------------
(* C03: type references, or, allOf, additionalProperties, key shortcuts - set operations. *)
(* Rule values for references:  [t:"tref", s:"@T"]  (a user type name; rendered quoted).   *)
(* Keys are code-point sequences so that a key shortcut's string type can judge them.      *)
Or3(S) == IF "accept" \in S THEN "accept" ELSE IF "unspec" \in S THEN "unspec" ELSE "reject"
HasType(env, name) == \E i \in DOMAIN env.types : env.types[i].name = name
TypeNode(env, name) == env.types[CHOOSE i \in DOMAIN env.types : env.types[i].name = name].n

\* additionalProperties: "<kind>" - one JSON kind (an integer under "float" is not pinned by the statement)
AddlKindVerdict(tn, v) ==
  IF tn \in {"float", "decimal"} /\ v.t = "num" /\ KindOfValue(v) = "int" THEN "unspec"
  ELSE IF tn \in {"object", "array"} THEN B3(v.t = (IF tn = "object" THEN "obj" ELSE "arr"))
  ELSE IF tn \in Formats THEN B3(v.t = "str")             \* IsEqualSoft: formats are strings, content not checked
  ELSE KindNameVerdict(tn, v)

ItemsRule(node, name) == Count(RuleV(node, name).b)

RECURSIVE Acc(_, _, _, _, _), RefUnion(_, _, _, _, _), ObjProps(_, _, _), APSet(_, _, _)
\* own properties followed by the inherited ones (allOf, transitively); seenT guards against allOf cycles
ParentNames(node) == IF ~HasRule(node, "allOf") THEN <<>>
                     ELSE LET rv == RuleV(node, "allOf") IN IF rv.t = "tref" THEN <<rv.s>> ELSE [i \in DOMAIN rv.items |-> rv.items[i].s]
ObjProps(env, node, seenT) ==
  LET ps == ParentNames(node)
      inh == [i \in DOMAIN ps |-> IF ps[i] \in seenT \/ ~HasType(env, ps[i]) \/ TypeNode(env, ps[i]).t # "obj" THEN <<>>
                                     ELSE ObjProps(env, TypeNode(env, ps[i]), seenT \cup {ps[i]})]
      Flat[k \in 0..Len(ps)] == IF k = 0 THEN <<>> ELSE Flat[k - 1] \o inh[k]
  IN node.props \o Flat[Len(ps)]

\* the additionalProperties rule of an object: its own and the inherited ones (allOf, transitively) - an inherited requirement like
\* the properties (the library reports differing ones as a conflict: more than one value here is left open)
APSet(env, node, seenT) ==
  (IF HasRule(node, "additionalProperties") THEN {RuleV(node, "additionalProperties")} ELSE {})
  \cup UNION {LET p == ParentNames(node)[i] IN
              IF p \in seenT \/ ~HasType(env, p) \/ TypeNode(env, p).t # "obj" THEN {} ELSE APSet(env, TypeNode(env, p), seenT \cup {p})
              : i \in DOMAIN ParentNames(node)}
\* union of the named user types at one value position; `seen` = types already unfolded at this position (least fixpoint)
RefUnion(env, names, v, ko, seen) ==
  Or3({IF names[i] \in seen \/ ~HasType(env, names[i]) THEN "reject"
       ELSE Acc(env, TypeNode(env, names[i]), v, ko, seen \cup {names[i]}) : i \in DOMAIN names})

OrMemberVerdict(env, m, v, ko, seen) ==
  CASE m.t = "tref" -> RefUnion(env, <<m.s>>, v, ko, seen)
    [] m.t = "id"   -> KindNameVerdict(m.s, v)
    [] m.t = "set"  -> LET pn == [t |-> "set", rules |-> m.rules] IN
                       IF v.t = "null" /\ Nullable(pn) THEN "accept"
                       ELSE IF HasRule(pn, "type") /\ RuleV(pn, "type").t = "tref" THEN RefUnion(env, <<RuleV(pn, "type").s>>, v, ko, seen)
                       ELSE IF HasRule(pn, "enum") THEN Member3(v, EnumItems(pn, env.enums))
                       ELSE IF ~HasRule(pn, "type") THEN "unspec"
                       ELSE And3({KindNameVerdict(TypeName(pn), v)} \cup {RuleVerdict(pn, m.rules[i], v, env.enums) : i \in DOMAIN m.rules})
    [] OTHER -> "unspec"

KeyMatches(env, tname, k) ==             \* does the string type @K accept the key k ?
  IF ~HasType(env, tname) THEN "reject" ELSE Acc(env, TypeNode(env, tname), [t |-> "str", c |-> k], FALSE, {tname})

Acc(env, node, v, ko, seen) ==
  IF IsAny(node) THEN "accept"
  ELSE IF v.t = "null" /\ Nullable(node) THEN "accept"
  ELSE IF node.t = "ref" THEN RefUnion(env, node.names, v, ko, seen)
  ELSE IF HasRule(node, "or") THEN
         LET ms == RuleV(node, "or").items IN Or3({OrMemberVerdict(env, ms[i], v, ko, seen) : i \in DOMAIN ms})
  ELSE IF HasRule(node, "type") /\ RuleV(node, "type").t = "tref" THEN RefUnion(env, <<RuleV(node, "type").s>>, v, ko, seen)
  ELSE CASE node.t = "lit" -> ScalarVerdict(node, v, env.enums)
         [] node.t = "arr" ->
              \* a long array written as a pattern:  n items equal to `item`, except the one at position `at` (0: none), which is `odd`
              IF v.t = "reparr" THEN
                LET L == Len(node.items)
                    hasItem(k) == IF k < L THEN k <= v.n /\ k # v.at                                  \* does schema position k meet `item` ?
                                  ELSE (v.n - L + 1) - (IF v.at >= L THEN 1 ELSE 0) > 0               \* the last one takes every further index
                    oddPos == IF v.at = 0 THEN 0 ELSE IF v.at < L THEN v.at ELSE L
                IN IF node.items = <<>> THEN B3(v.n = 0)
                   ELSE And3({Acc(env, node.items[k], v.item, ko, {}) : k \in {j \in 1..L : hasItem(j)}}
                             \cup (IF oddPos = 0 THEN {} ELSE {Acc(env, node.items[oddPos], v.odd, ko, {})})
                             \cup {B3(HasRule(node, "minItems") => v.n >= ItemsRule(node, "minItems")),
                                   B3(HasRule(node, "maxItems") => v.n <= ItemsRule(node, "maxItems"))})
              ELSE IF v.t # "arr" THEN "reject"
              ELSE IF node.items = <<>> THEN B3(v.items = <<>>)
              ELSE And3({Acc(env, node.items[IF i <= Len(node.items) THEN i ELSE Len(node.items)], v.items[i], ko, {}) : i \in DOMAIN v.items}
                        \cup {B3(HasRule(node, "minItems") => Len(v.items) >= ItemsRule(node, "minItems")),
                              B3(HasRule(node, "maxItems") => Len(v.items) <= ItemsRule(node, "maxItems"))})
         [] node.t = "obj" ->
              IF v.t # "obj" THEN "reject"
              ELSE LET props == ObjProps(env, node, {})
                       named == {i \in DOMAIN props : ~props[i].sc}
                       short == {i \in DOMAIN props : props[i].sc}
                       KeyVerdict(k, val) ==
                         IF \E i \in named : props[i].k = k
                         THEN Acc(env, props[CHOOSE i \in named : props[i].k = k].n, val, ko, {})
                         ELSE LET ms == {i \in short : KeyMatches(env, props[i].kt, k) = "accept"} IN
                              \* a key matching several shortcut entries: decided only when the entries agree on the value
                              IF ms # {} THEN (LET vs == {Acc(env, props[i].n, val, ko, {}) : i \in ms} IN
                                               IF Cardinality(vs) = 1 THEN CHOOSE x \in vs : TRUE ELSE "unspec")
                              ELSE IF \E i \in short : KeyMatches(env, props[i].kt, k) = "unspec" THEN "unspec"
                              ELSE IF APSet(env, node, {}) = {} THEN "reject"
                              ELSE IF Cardinality(APSet(env, node, {})) > 1 THEN "unspec"
                              ELSE LET ap == CHOOSE x \in APSet(env, node, {}) : TRUE IN
                                   CASE ap.t = "bool" -> B3(ap.bv)
                                     [] ap.t = "tref" -> RefUnion(env, <<ap.s>>, val, ko, {})
                                     [] ap.t = "id"   -> AddlKindVerdict(ap.s, val)
                                     [] OTHER -> "unspec"
                       Required(i) == ~Optional(props[i], ko)
                   IN And3({KeyVerdict(v.ps[j].k, v.ps[j].v) : j \in DOMAIN v.ps}
                           \cup {B3(\E j \in DOMAIN v.ps : v.ps[j].k = props[i].k) : i \in {x \in named : Required(x)}}
                           \* a required key-shortcut entry with no matching key: the statement is silent
                           \cup {IF \E j \in DOMAIN v.ps : /\ KeyMatches(env, props[i].kt, v.ps[j].k) = "accept"
                                                              /\ \A o \in short \ {i} : KeyMatches(env, props[o].kt, v.ps[j].k) = "reject"
                                  THEN "accept" ELSE "unspec" : i \in {x \in short : Required(x)}})
         [] OTHER -> "reject"
Verdict(env, node, v, ko) == Acc(env, node, v, ko, {})
Code3(x) == IF x = "accept" THEN 1 ELSE IF x = "reject" THEN 0 ELSE 2
===================================================================================
