----------------------------------- MODULE Sem -----------------------------------
(* Layer R: what a JSight schema MEANS - which JSON documents it accepts.             *)
(* Abstract syntax (DESIGN Appendix A.1; all sum types are tagged records):            *)
(*   Value : [t:"null"] [t:"bool",b] [t:"num",b:<<bytes>>] [t:"str",c:<<code points>>]  *)
(*           [t:"arr",items:<<Value>>] [t:"obj",ps:<<[k,v]>>]   (ps keeps order/repeats) *)
(*   Node  : [t:"lit",v:Value,rules] [t:"obj",props:<<[k,sc,n]>>,rules]                 *)
(*           [t:"arr",items:<<Node>>,rules] [t:"ref",names:<<STRING>>,rules]            *)
(*   Rule  : [n:STRING, v:RV]   RV : [t:"bool",b] [t:"num",b] [t:"id",s] [t:"chars",c]  *)
(*           [t:"list",items:<<RV>>] [t:"set",rules:<<Rule>>] [t:"val",v:Value]         *)
(*   Env   : [types: <<[name, n:Node]>>, enums: <<[name, items:<<Value>>]>>]            *)
(* Verdicts are three-valued where the property statements are silent: "unspec".       *)
EXTENDS Integers, Sequences, FiniteSets
N == INSTANCE Num

HasRule(node, name) == \E i \in DOMAIN node.rules : node.rules[i].n = name
RuleV(node, name) == node.rules[CHOOSE i \in DOMAIN node.rules : node.rules[i].n = name].v
BoolRule(node, name) == HasRule(node, name) /\ RuleV(node, name).t = "bool" /\ RuleV(node, name).b
Nullable(node) == BoolRule(node, "nullable")
TypeName(node) == IF HasRule(node, "type") /\ RuleV(node, "type").t = "id" THEN RuleV(node, "type").s ELSE ""
IsAny(node) == TypeName(node) = "any"

\* ---- kinds ----
HasDot(b) == \E i \in DOMAIN b : b[i] = 46
HasExp(b) == \E i \in DOMAIN b : b[i] \in {101, 69}
\* JSON kind of a scalar document value; numbers are "int" or "flt" (integer-valued exponent forms: via Num)
NumKind(b) == LET c == N!IntClass(b) IN IF c = "yes" THEN "int" ELSE IF c = "no" THEN "flt" ELSE "flt?"   \* "flt?" : 1.0 (pinned float)
KindOfValue(v) == IF v.t = "num" THEN NumKind(v.b) ELSE v.t
\* kind of an example literal
ExampleKind(node) == KindOfValue(node.v)

\* ---- C01: the rule-free fragment (optional, nullable, type any) ----
Optional(p, keysOpt) ==
  IF HasRule(p.n, "optional") THEN RuleV(p.n, "optional").b ELSE keysOpt
KeysOf(node) == {node.props[i].k : i \in DOMAIN node.props}
PropOf(node, k) == node.props[CHOOSE i \in DOMAIN node.props : node.props[i].k = k]

KindMatches(ek, vk) ==            \* example kind, value kind
  \/ ek = vk
  \/ (ek \in {"flt", "flt?"} /\ vk \in {"int", "flt", "flt?"})
  \/ (ek = "int" /\ vk = "int")

RECURSIVE AcceptsShape(_, _, _)
AcceptsShape(node, v, keysOpt) ==
  IF IsAny(node) THEN TRUE
  ELSE IF v.t = "null" /\ Nullable(node) THEN TRUE
  ELSE CASE node.t = "lit" -> v.t \notin {"arr", "obj"} /\ KindMatches(ExampleKind(node), KindOfValue(v))
         [] node.t = "arr" ->
              /\ v.t = "arr"
              /\ (node.items = <<>> => v.items = <<>>)
              /\ \A i \in DOMAIN v.items :
                   AcceptsShape(node.items[IF i <= Len(node.items) THEN i ELSE Len(node.items)], v.items[i], keysOpt)
         [] node.t = "obj" ->
              /\ v.t = "obj"
              /\ \A i \in DOMAIN v.ps : v.ps[i].k \in KeysOf(node) /\ AcceptsShape(PropOf(node, v.ps[i].k).n, v.ps[i].v, keysOpt)
              /\ \A j \in DOMAIN node.props :
                   ~Optional(node.props[j], keysOpt) => \E i \in DOMAIN v.ps : v.ps[i].k = node.props[j].k
         [] OTHER -> FALSE
===================================================================================
