---------------------------- MODULE TraceJsonText ----------------------------
(* Mechanism B for C05: every line of the ndjson trace is one real call of               *)
(* Document.Check  {bytes, trailing, ok};  TLC re-evaluates the reference recogniser on  *)
(* the logged bytes and reports each disagreement without blocking the trace.            *)
EXTENDS Naturals, Sequences, TLC, Json
CONSTANT TraceFile
R == INSTANCE JsonText WITH MaxDepth <- 100000
Trace == ndJsonDeserialize(TraceFile)
VARIABLE l
Init == l = 1
Agree(e, v) == v = "unspec" \/ (e.ok <=> v = "accept")
Next == /\ l <= Len(Trace)
        /\ LET e == Trace[l]
               v == R!RefVerdict(R!RefRun(R!RefInit, e.bytes, e.trailing))
           IN  IF Agree(e, v) THEN TRUE ELSE PrintT("@@MISMATCH " \o ToJson([line |-> l, want |-> v]))
        /\ l' = l + 1
Spec == Init /\ [][Next]_l
==============================================================================
