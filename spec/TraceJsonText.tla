---------------------------- MODULE TraceJsonText ----------------------------
(* Mechanism B for C05: every line of the ndjson trace is one real call of               *)
(* Document.Check  {bytes, trailing, ok};  TLC re-evaluates the reference recogniser on  *)
(* the logged bytes and reports each disagreement without blocking the trace.            *)
EXTENDS Integers, Sequences, TLC, Json
CONSTANT TraceFile
R == INSTANCE JsonText WITH MaxDepth <- 100000
Trace == ndJsonDeserialize(TraceFile)
VARIABLE l
Init == l = 1
Agree(e, v) == v = "unspec" \/ (e.ok <=> v = "accept")
\* a line may also carry the position of the error (C17): the first byte that cannot continue the text, the last byte at a cut-off end
WantPos(e) == LET d == R!FirstDead(R!RefInit, e.bytes, e.trailing, 0) IN IF d < Len(e.bytes) THEN d ELSE Len(e.bytes) - 1
PosOK(e, v) == ~("pos" \in DOMAIN e) \/ e.ok \/ v # "reject" \/ e.bytes = <<>> \/ e.pos < 0 \/ e.pos = WantPos(e)
Next == /\ l <= Len(Trace)
        /\ LET e == Trace[l]
               v == R!RefVerdict(R!RefRun(R!RefInit, e.bytes, e.trailing))
           IN  IF ~Agree(e, v) THEN PrintT("@@MISMATCH " \o ToJson([line |-> l, want |-> v]))
               ELSE IF ~PosOK(e, v) THEN PrintT("@@MISMATCH " \o ToJson([line |-> l, want |-> "position:" \o ToString(WantPos(e))]))
               ELSE TRUE
        /\ l' = l + 1
Spec == Init /\ [][Next]_l
==============================================================================
