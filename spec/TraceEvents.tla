----------------------------- MODULE TraceEvents -----------------------------
(* C06, mechanism B and A: each trace line is one real scan                              *)
(*   {scanner: "json"|"schema"|"enum", toks: [{c,n}], events: [{ty,b,e}], eof: bool}      *)
(* TLC recomputes Events(toks) and checks the statement's clauses on the observed list. *)
EXTENDS Naturals, Sequences, TLC, Json, JsonEvents
CONSTANT TraceFile
Trace == ndJsonDeserialize(TraceFile)
VARIABLE l
Init == l = 1
Clean(evs) == SelectSeq(evs, LAMBDA e : e.ty # "new-line")
Problem(e) ==
  LET obs == Clean(e.events) want == Events(e.toks) IN
  IF ~e.eof THEN "no-eof"
  ELSE IF obs # want THEN "events-differ"
  ELSE IF ~WellNested(obs) THEN "not-nested"
  ELSE IF ~SpansInside(obs, TotalLen(e.toks)) THEN "span-outside"
  ELSE IF ~Rebuildable(obs, e.toks) THEN "not-rebuildable"
  ELSE "ok"
Next == /\ l <= Len(Trace)
        /\ LET p == Problem(Trace[l]) IN
           IF p = "ok" THEN TRUE ELSE PrintT("@@MISMATCH " \o ToJson([line |-> l, what |-> p]))
        /\ l' = l + 1
Spec == Init /\ [][Next]_l
==============================================================================
