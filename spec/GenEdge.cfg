SPECIFICATION Spec
CONSTANT Level = 1
INVARIANT Emit
CHECK_DEADLOCK FALSE
