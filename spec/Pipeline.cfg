SPECIFICATION Spec
CONSTANT DeleteAbsentDropsLast = FALSE
CONSTANT FilterRangesWhileDeleting = FALSE
INVARIANT OrderIndependent
INVARIANT MatchesRequirement
CHECK_DEADLOCK FALSE
