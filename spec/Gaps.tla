---------------------------------- MODULE Gaps ----------------------------------
(* C13, finer than Surface: a schema as its list of tokens, and what may be written in the  *)
(* GAPS between them without changing anything.  Every token list below is a schema whose   *)
(* compact spelling is accepted; a layout puts a filler into one or two of its gaps.        *)
(* Fillers by the kind of the gap:                                                          *)
(*   out  (between the tokens of the JSON part): blanks, tabs, line breaks of the three      *)
(*        kinds, a "#" comment ending in a line break (also the empty one), a "###" block      *)
(*        comment on one line and over several lines                                         *)
(*   ml   (between the tokens of a rule object inside a multi-line annotation): blanks,       *)
(*        tabs, line breaks                                                                   *)
(*   il   (the same inside an inline annotation): blanks, tabs                                *)
(*   ws   (between the tokens of a JSON document): white space only                           *)
(*   en   (between the tokens of an enum rule): blanks, tabs, line breaks, // and /* */ comments *)
(* The requirement (layer R): the filled text is accepted and means what the compact text    *)
(* means - same AST (comments aside), same verdict on every probe document.                  *)
(*   @@CASE {id, base, text}                                                                  *)
EXTENDS Integers, Sequences, FiniteSets, TLC, Json
CONSTANT Strength                      \* 1 = one filled gap, 2 = also every pair

Tk(s, g) == [s |-> s, g |-> g]         \* a token and the kind of the gap AFTER it ("" = none: the next token follows at once)
Schemas == <<
  \* an object with a nested array, a type shortcut, a key shortcut
  << Tk("{", "out"), Tk("\"a\"", "out"), Tk(":", "out"), Tk("1", "out"), Tk(",", "out"), Tk("\"b\"", "out"), Tk(":", "out"), Tk("[", "out"),
     Tk("true", "out"), Tk(",", "out"), Tk("@t", "out"), Tk("]", "out"), Tk(",", "out"), Tk("@k", "out"), Tk(":", "out"), Tk("\"s\"", "out"), Tk("}", "out") >>,
  \* a scalar with a multi-line annotation: rule object, note
  << Tk("5", "il"), Tk("/*", "ml"), Tk("{", "ml"), Tk("min", "ml"), Tk(":", "ml"), Tk("0", "ml"), Tk(",", "ml"), Tk("\"max\"", "ml"), Tk(":", "ml"), Tk("9", "ml"),
     Tk("}", "ml"), Tk("-", "ml"), Tk("note", "ml"), Tk("*/", "out") >>,
  \* the same as an inline annotation
  << Tk("5", "il"), Tk("//", "il"), Tk("{", "il"), Tk("min", "il"), Tk(":", "il"), Tk("0", "il"), Tk(",", "il"), Tk("\"max\"", "il"), Tk(":", "il"), Tk("9", "il"),
     Tk("}", "il"), Tk("-", "il"), Tk("note", "") >>,
  \* lists inside a multi-line annotation: enum, or with a rule set, allOf is for objects
  << Tk("2", "il"), Tk("/*", "ml"), Tk("{", "ml"), Tk("enum", "ml"), Tk(":", "ml"), Tk("[", "ml"), Tk("1", "ml"), Tk(",", "ml"), Tk("2", "ml"), Tk(",", "ml"), Tk("\"x\"", "ml"),
     Tk("]", "ml"), Tk("}", "ml"), Tk("*/", "out") >>,
  << Tk("2", "il"), Tk("/*", "ml"), Tk("{", "ml"), Tk("or", "ml"), Tk(":", "ml"), Tk("[", "ml"), Tk("{", "ml"), Tk("type", "ml"), Tk(":", "ml"), Tk("\"integer\"", "ml"), Tk(",", "ml"),
     Tk("min", "ml"), Tk(":", "ml"), Tk("1", "ml"), Tk("}", "ml"), Tk(",", "ml"), Tk("\"@t\"", "ml"), Tk("]", "ml"), Tk("}", "ml"), Tk("*/", "out") >>,
  << Tk("{", "il"), Tk("/*", "ml"), Tk("{", "ml"), Tk("allOf", "ml"), Tk(":", "ml"), Tk("[", "ml"), Tk("\"@o\"", "ml"), Tk("]", "ml"), Tk(",", "ml"),
     Tk("additionalProperties", "ml"), Tk(":", "ml"), Tk("\"string\"", "ml"), Tk("}", "ml"), Tk("*/", "out"), Tk("\"p\"", "out"), Tk(":", "out"), Tk("1", "out"), Tk("}", "out") >>,
  \* an array of two annotated items, one per line
  << Tk("[", ""), Tk("\n", "out"), Tk("1", "il"), Tk(",", "il"), Tk("//", "il"), Tk("{", "il"), Tk("min", "il"), Tk(":", "il"), Tk("0", "il"), Tk("}", ""), Tk("\n", "out"),
     Tk("\"x\"", "il"), Tk("//", "il"), Tk("{", "il"), Tk("minLength", "il"), Tk(":", "il"), Tk("1", "il"), Tk("}", ""), Tk("\n", "out"), Tk("]", "out") >>,
  \* an or shortcut (blanks only around the bar) with an annotation, in an object
  << Tk("{", ""), Tk("\n", "out"), Tk("\"a\"", "out"), Tk(":", "out"), Tk("@t", "il"), Tk("|", "il"), Tk("@k", "il"), Tk("//", "il"), Tk("{", "il"), Tk("optional", "il"), Tk(":", "il"), Tk("true", "il"), Tk("}", ""),
     Tk("\n", "out"), Tk("}", "out") >>,
  \* nested containers, an inline annotation on three of the lines
  << Tk("{", "il"), Tk("//", "il"), Tk("{", "il"), Tk("additionalProperties", "il"), Tk(":", "il"), Tk("true", "il"), Tk("}", ""), Tk("\n", "out"),
     Tk("\"a\"", "out"), Tk(":", "out"), Tk("{", ""), Tk("\n", "out"), Tk("\"x\"", "out"), Tk(":", "out"), Tk("1", "il"), Tk("//", "il"), Tk("{", "il"), Tk("optional", "il"), Tk(":", "il"), Tk("true", "il"), Tk("}", ""),
     Tk("\n", "out"), Tk("}", "out"), Tk(",", "out"), Tk("\"b\"", "out"), Tk(":", "out"), Tk("[", "il"), Tk("//", "il"), Tk("{", "il"), Tk("maxItems", "il"), Tk(":", "il"), Tk("3", "il"), Tk("}", ""), Tk("\n", "out"),
     Tk("1", "out"), Tk("]", "out"), Tk("}", "out") >>,
  \* an enum inside a rule set of an or rule (the rule name is looked at by a loader of its own)
  << Tk("\"a\"", "il"), Tk("/*", "ml"), Tk("{", "ml"), Tk("or", "ml"), Tk(":", "ml"), Tk("[", "ml"), Tk("{", "ml"), Tk("enum", "ml"), Tk(":", "ml"), Tk("[", "ml"), Tk("\"a\"", "ml"), Tk(",", "ml"),
     Tk("\"b\"", "ml"), Tk("]", "ml"), Tk("}", "ml"), Tk(",", "ml"), Tk("{", "ml"), Tk("\"type\"", "ml"), Tk(":", "ml"), Tk("\"integer\"", "ml"), Tk("}", "ml"), Tk("]", "ml"), Tk("}", "ml"), Tk("*/", "out") >>,
  \* a type shortcut after a non-empty array on the same line, annotated; and an empty inline annotation at a line end
  << Tk("[", ""), Tk("\n", "out"), Tk("[", "out"), Tk("1", "out"), Tk(",", "out"), Tk("2", "out"), Tk("]", "il"), Tk(",", "out"), Tk("@t", "il"), Tk("//", "il"), Tk("note", ""),
     Tk("\n", "out"), Tk("]", "out") >>,
  << Tk("{", ""), Tk("\n", "out"), Tk("\"a\"", "out"), Tk(":", "out"), Tk("1", "il"), Tk(",", "il"), Tk("//", ""), Tk("\n", "out"),
     Tk("\"b\"", "out"), Tk(":", "out"), Tk("2", "il"), Tk("//", "il"), Tk("{", "il"), Tk("optional", "il"), Tk(":", "il"), Tk("true", "il"), Tk("}", ""), Tk("\n", "out"), Tk("}", "out") >>,
  \* characters outside ASCII in keys, strings, a note and an enum value
  << Tk("{", ""), Tk("\n", "out"), Tk("\"ключ\"", "out"), Tk(":", "out"), Tk("\"значение €\"", "il"), Tk(",", "il"), Tk("//", "il"), Tk("{", "il"), Tk("minLength", "il"), Tk(":", "il"), Tk("2", "il"),
     Tk("}", "il"), Tk("-", "il"), Tk("заметка é", ""), Tk("\n", "out"), Tk("\"é\"", "out"), Tk(":", "out"), Tk("\"ß\"", "il"), Tk("/*", "ml"), Tk("{", "ml"), Tk("enum", "ml"), Tk(":", "ml"), Tk("[", "ml"),
     Tk("\"ß\"", "ml"), Tk(",", "ml"), Tk("\"日本\"", "ml"), Tk("]", "ml"), Tk("}", "ml"), Tk("*/", "out"), Tk("}", "out") >>,
  \* DOCUMENTS (validated against the first schema above): white space between any two tokens, nothing else
  << Tk("{", "ws"), Tk("\"a\"", "ws"), Tk(":", "ws"), Tk("1", "ws"), Tk(",", "ws"), Tk("\"b\"", "ws"), Tk(":", "ws"), Tk("[", "ws"), Tk("true", "ws"), Tk(",", "ws"), Tk("7", "ws"),
     Tk("]", "ws"), Tk(",", "ws"), Tk("\"abc\"", "ws"), Tk(":", "ws"), Tk("\"s\"", "ws"), Tk("}", "ws") >>,
  << Tk("{", "ws"), Tk("\"a\"", "ws"), Tk(":", "ws"), Tk("-1.5e2", "ws"), Tk(",", "ws"), Tk("\"b\"", "ws"), Tk(":", "ws"), Tk("[", "ws"), Tk("]", "ws"), Tk(",", "ws"),
     Tk("\"zz\"", "ws"), Tk(":", "ws"), Tk("null", "ws"), Tk("}", "ws") >>,
  \* an enum RULE (rules/enum): its own scanner, its own comments
  << Tk("[", "en"), Tk("1", "en"), Tk(",", "en"), Tk("\"a\"", "en"), Tk(",", "en"), Tk("null", "en"), Tk(",", "en"), Tk("2.5", "en"), Tk("]", "en") >>
>>
IsDoc(i) == i \in {14, 15}
IsEnum(i) == i = 16
Fillers(g) ==
  CASE g = "out" -> {" ", "\t", "\n", "\r\n", "\r", " # c\n", "#\n", " ### c ### ", "###\nc\n###\n", "  \n\n  "}
    [] g = "ml"  -> {" ", "\t", "\n", "\r\n", " \n\t"}
    [] g = "il"  -> {" ", "\t", "  \t"}
    [] g = "ws"  -> {" ", "\t", "\n", "\r\n", "\r", " \n\t "}
    [] g = "en"  -> {" ", "\t", "\n", "\r\n", "\r", " // c\n", "//\n", " /* c */ ", "/*\nc\n*/", "\n\n  "}
    [] OTHER     -> {}
\* what separates two tokens in the compact spelling (a blank where two tokens would otherwise run together)
Glue(a, b) == IF a.g = "" THEN "" ELSE IF a.s \in {"//", "/*", "-"} \/ b.s \in {"//", "/*", "*/", "-"} THEN " " ELSE ""

\* pairs of texts that differ in a NOTE only (added to an annotation that has rules): Check gives both the same verdict, whatever it is -
\* here for texts in which an annotation stands on a line of its own (refused either way), and after an array item
NotePairs == { <<"{\n \"a\": 1 // {min: 0}\n // another\n}", "{\n \"a\": 1 // {min: 0} - n\n // another\n}">>,
               <<"{\n \"a\": 1, // {min: 0}\n // another\n \"b\": 2\n}", "{\n \"a\": 1, // {min: 0} - n\n // another\n \"b\": 2\n}">>,
               <<"[\n 1, // {min: 0}\n // another\n 2\n]", "[\n 1, // {min: 0} - n\n // another\n 2\n]">>,
               <<"[\n 1, // {min: 0}\n 2 // {min: 1}\n]", "[\n 1, // {min: 0} - n\n 2 // {min: 1} - m\n]">>,
               <<"1 // {min: 0}\n// x", "1 // {min: 0} - n\n// x">> }
ASSUME \A p \in NotePairs : PrintT("@@PAIR " \o ToJson([a |-> p[1], b |-> p[2]]))
VARIABLES sc, fill, nl      \* fill : gap index -> filler ("" = compact); nl : what the fixed line breaks of the token list are written as
GapIdx(ts) == {i \in DOMAIN ts : Fillers(ts[i].g) # {}}
RECURSIVE Build(_, _, _)
Build(ts, f, i) == IF i > Len(ts) THEN ""
                   ELSE (IF ts[i].s = "\n" THEN nl ELSE ts[i].s) \o (IF i \in DOMAIN f /\ f[i] # "" THEN f[i] ELSE IF i < Len(ts) THEN Glue(ts[i], ts[i + 1]) ELSE "") \o Build(ts, f, i + 1)
NoFill(ts) == [i \in DOMAIN ts |-> ""]
Init == /\ sc \in DOMAIN Schemas
        /\ nl \in {"\n", "\r\n", "\r"}
        /\ \/ \E i \in GapIdx(Schemas[sc]) : \E x \in Fillers(Schemas[sc][i].g) : fill = [NoFill(Schemas[sc]) EXCEPT ![i] = x]
           \/ (Strength >= 2 /\ nl = "\n" /\ \E i, j \in GapIdx(Schemas[sc]) : i < j /\ \E x \in Fillers(Schemas[sc][i].g), y \in Fillers(Schemas[sc][j].g) :
                                  fill = [NoFill(Schemas[sc]) EXCEPT ![i] = x, ![j] = y])
Next == UNCHANGED <<sc, fill, nl>>
Spec == Init /\ [][Next]_<<sc, fill, nl>>
Emit == PrintT("@@CASE " \o ToJson([id |-> sc, kind |-> IF IsEnum(sc) THEN "enum" ELSE IF IsDoc(sc) THEN "doc" ELSE "schema", base |-> Build(Schemas[sc], NoFill(Schemas[sc]), 1), text |-> Build(Schemas[sc], fill, 1)]))
=================================================================================
