------------------------------ MODULE SchemaText ------------------------------
(* Layer R.  Concrete syntax of a JSight schema over BYTES, as a deterministic        *)
(* pushdown acceptor with three verdict classes, in the style of JsonText.            *)
(*                                                                                     *)
(* The language written down here is the part of the notation the properties name:    *)
(* JSON example values (numbers without exponent), type shortcuts  @A | @B , key      *)
(* shortcuts  @k : v , user comments (# to the end of the line, ### blocks ###),      *)
(* inline annotations  // {rules} - note   and multi-line ones  /* {rules} - note */  *)
(* with bare or quoted rule names and an optional trailing comma in a rule object.    *)
(* Everything the statements are silent about is sent to the absorbing class          *)
(* "unspec" (no verdict, no position): an annotation that does not directly follow a  *)
(* scalar value, a comma or an opening bracket on the same line, a second annotation  *)
(* on a line, comments or annotations inside rule objects, exponents, exotic bare     *)
(* rule names, a block comment opened by more than three #, and       *)
(* non-plain UTF-8 in strings.                                                        *)
(*                                                                                     *)
(* A state is [st, sk, ap, v]:  st control state;  sk stack of frames <<kind, ret>>   *)
(* (O, A schema containers; RO, RA containers inside an annotation; IA, MA the open   *)
(* annotation with the control state to return to; S a first slash; H, LC, BC user    *)
(* comments);  ap "an annotation may start here";  v verdict class so far.            *)
EXTENDS Naturals, Sequences

CONSTANTS MaxDepth,          \* schema containers explored (beyond: "deep", no verdict)
          MaxRDepth          \* containers inside one annotation

Sp(c)      == c \in {32, 9}
Nl(c)      == c \in {10, 13}
IsDigit(c) == c \in 48..57
IsD19(c)   == c \in 49..57
IsHex(c)   == c \in 48..57 \/ c \in 65..70 \/ c \in 97..102
IsLetter(c) == c \in 65..90 \/ c \in 97..122
NameB(c)   == IsLetter(c) \/ IsDigit(c) \/ c \in {45, 95}     \* user type name byte
RuleB(c)   == IsLetter(c) \/ IsDigit(c) \/ c = 95            \* bare rule name byte

Top(s) == s[Len(s)]
Pop(s) == SubSeq(s, 1, Len(s) - 1)
Kind(f) == f[1]
Ret(f)  == f[2]
F(k)    == <<k, "">>

RS(st, sk, ap) == [st |-> st, sk |-> sk, ap |-> ap, v |-> "live"]
RDead      == [st |-> "dead",   sk |-> <<>>, ap |-> FALSE, v |-> "dead"]
RUnspec    == [st |-> "unspec", sk |-> <<>>, ap |-> FALSE, v |-> "unspec"]
RDeep      == [st |-> "deep",   sk |-> <<>>, ap |-> FALSE, v |-> "unspec"]

SInit == RS("lead", <<>>, FALSE)

Count(sk, ks) == Len(SelectSeq(sk, LAMBDA f : Kind(f) \in ks))
AnnK(sk) == IF Count(sk, {"IA"}) > 0 THEN "IA" ELSE IF Count(sk, {"MA"}) > 0 THEN "MA" ELSE ""

\* control state after a complete value, given the enclosing frames
AfterValue(sk) ==
  IF Len(sk) = 0 THEN "done"
  ELSE CASE Kind(Top(sk)) = "O"  -> "oAfterVal"
         [] Kind(Top(sk)) = "A"  -> "aAfterVal"
         [] Kind(Top(sk)) = "RO" -> "roAfterVal"
         [] Kind(Top(sk)) = "RA" -> "raAfterVal"
         [] Kind(Top(sk)) = "IA" -> "iaAfterObj"
         [] Kind(Top(sk)) = "MA" -> "maAfterObj"
         [] OTHER -> "dead"

\* after a closing bracket an annotation is not in a canonical place any more (the container was annotated after its opening bracket)
Close(sk) == RS(AfterValue(Pop(sk)), Pop(sk), FALSE)

\* blank between the tokens of a rule object: no line break inside an inline annotation
RBlank(c, sk) == Sp(c) \/ (Nl(c) /\ AnnK(sk) = "MA")

\* `/` and `#` between tokens
Slash(st, sk, ap) == IF AnnK(sk) # "" \/ ~ap THEN RUnspec ELSE RS("slash1", Append(sk, <<"S", st>>), FALSE)
Hash(st, sk)      == IF AnnK(sk) # "" THEN RUnspec ELSE RS("hash1", Append(sk, <<"H", st>>), FALSE)

\* first byte of a value; cur is the state to stay in on blanks, cm says whether a user comment may start here
ValueStart(c, sk, ap, cur, cm) ==
  LET inAnn == AnnK(sk) # "" IN
  CASE Sp(c)    -> RS(cur, sk, ap)
    [] Nl(c)    -> IF AnnK(sk) = "IA" THEN RDead ELSE RS(cur, sk, FALSE)
    [] c = 123  -> IF inAnn THEN (IF Count(sk, {"RO", "RA"}) >= MaxRDepth THEN RDeep ELSE RS("roFirst", Append(sk, F("RO")), FALSE))
                   ELSE IF Count(sk, {"O", "A"}) >= MaxDepth THEN RDeep ELSE RS("oFirst", Append(sk, F("O")), TRUE)
    [] c = 91   -> IF inAnn THEN (IF Count(sk, {"RO", "RA"}) >= MaxRDepth THEN RDeep ELSE RS("raFirst", Append(sk, F("RA")), FALSE))
                   ELSE IF Count(sk, {"O", "A"}) >= MaxDepth THEN RDeep ELSE RS("aFirst", Append(sk, F("A")), TRUE)
    [] c = 34   -> RS("str", sk, FALSE)
    [] c = 45   -> RS("minus", sk, FALSE)
    [] c = 48   -> RS("zero", sk, FALSE)
    [] IsD19(c) -> RS("int", sk, FALSE)
    [] c = 116  -> RS("t1", sk, FALSE)
    [] c = 102  -> RS("f1", sk, FALSE)
    [] c = 110  -> RS("n1", sk, FALSE)
    [] c = 64   -> RS("sc0", sk, FALSE)
    [] c = 47   -> IF cm THEN Slash(cur, sk, ap) ELSE RUnspec
    [] c = 35   -> IF cm \/ cur = "oValue" THEN Hash(cur, sk) ELSE RUnspec      \* a user comment may stand between a key and its value
    [] OTHER    -> RDead

\* a byte arriving in one of the "between tokens" states
Between(st, c, sk, ap) ==
  CASE st = "lead"      -> ValueStart(c, sk, ap, "lead", TRUE)
    [] st = "oValue"    -> ValueStart(c, sk, FALSE, "oValue", FALSE)
    [] st = "aFirst"    -> IF c = 93 THEN Close(sk) ELSE ValueStart(c, sk, ap, "aFirst", TRUE)
    [] st = "aValue"    -> ValueStart(c, sk, ap, "aValue", TRUE)
    [] st \in {"oFirst", "oKey"} ->
        (CASE Sp(c)   -> RS(st, sk, ap)
           [] Nl(c)   -> RS(st, sk, FALSE)
           [] c = 125 -> IF st = "oFirst" THEN Close(sk) ELSE RDead
           [] c = 34  -> RS("kstr", sk, FALSE)
           [] c = 64  -> RS("ks0", sk, FALSE)
           [] c = 47  -> Slash(st, sk, ap)
           [] c = 35  -> Hash(st, sk)
           [] OTHER   -> RDead)
    [] st = "oColon"    ->
        (CASE Sp(c) \/ Nl(c) -> RS(st, sk, FALSE)
           [] c = 58  -> RS("oValue", sk, FALSE)
           [] c = 35  -> Hash(st, sk)                                   \* ... and between the key and the colon
           [] c = 47  -> RUnspec
           [] OTHER   -> RDead)
    [] st = "oAfterVal" ->
        (CASE Sp(c)   -> RS(st, sk, ap)
           [] Nl(c)   -> RS(st, sk, FALSE)
           [] c = 44  -> RS("oKey", sk, TRUE)
           [] c = 125 -> Close(sk)
           [] c = 47  -> Slash(st, sk, ap)
           [] c = 35  -> Hash(st, sk)
           [] OTHER   -> RDead)
    [] st = "aAfterVal" ->
        (CASE Sp(c)   -> RS(st, sk, ap)
           [] Nl(c)   -> RS(st, sk, FALSE)
           [] c = 44  -> RS("aValue", sk, TRUE)
           [] c = 93  -> Close(sk)
           [] c = 47  -> Slash(st, sk, ap)
           [] c = 35  -> Hash(st, sk)
           [] OTHER   -> RDead)
    [] st = "done"      ->
        (CASE Sp(c)   -> RS(st, sk, ap)
           [] Nl(c)   -> RS(st, sk, FALSE)
           [] c = 47  -> Slash(st, sk, ap)
           [] c = 35  -> Hash(st, sk)
           [] OTHER   -> RDead)
    \* ---- inside an annotation: the rule object
    [] st \in {"roFirst", "roKey"} ->
        (CASE RBlank(c, sk) -> RS(st, sk, FALSE)
           [] Nl(c)   -> RDead
           [] c = 125 -> Close(sk)
           [] c = 34  -> RS("rkstr", sk, FALSE)
           [] IsLetter(c) -> RS("rbare", sk, FALSE)
           [] OTHER   -> RUnspec)
    [] st = "roColon"   ->
        (CASE RBlank(c, sk) -> RS(st, sk, FALSE)
           [] c = 58  -> RS("rValue", sk, FALSE)
           [] c \in {47, 35} -> RUnspec
           [] OTHER   -> RDead)
    [] st = "rValue"    -> ValueStart(c, sk, FALSE, "rValue", FALSE)
    [] st = "raFirst"   -> IF c = 93 THEN Close(sk) ELSE ValueStart(c, sk, FALSE, "raFirst", FALSE)
    [] st = "raValue"   -> ValueStart(c, sk, FALSE, "raValue", FALSE)
    [] st = "roAfterVal" ->
        (CASE RBlank(c, sk) -> RS(st, sk, FALSE)
           [] c = 44  -> RS("roKey", sk, FALSE)
           [] c = 125 -> Close(sk)
           [] c \in {47, 35} -> RUnspec
           [] OTHER   -> RDead)
    [] st = "raAfterVal" ->
        (CASE RBlank(c, sk) -> RS(st, sk, FALSE)
           [] c = 44  -> RS("raValue", sk, FALSE)
           [] c = 93  -> Close(sk)
           [] c \in {47, 35} -> RUnspec
           [] OTHER   -> RDead)
    \* ---- after the rule object of an annotation
    [] st = "iaAfterObj" ->
        (CASE Sp(c)   -> RS(st, sk, FALSE)
           [] Nl(c)   -> RS(Ret(Top(sk)), Pop(sk), FALSE)
           [] c = 45  -> RS("iaText", sk, FALSE)
           [] c = 35  -> RS("iaHash1", sk, FALSE)
           [] OTHER   -> RDead)
    [] st = "maAfterObj" ->
        (CASE Sp(c) \/ Nl(c) -> RS(st, sk, FALSE)
           [] c = 42  -> RS("maEnd1", sk, FALSE)
           [] c = 45  -> RS("maText", sk, FALSE)
           [] c = 35  -> RUnspec
           [] OTHER   -> RDead)
    [] OTHER -> RDead

BetweenStates == {"lead", "oValue", "aFirst", "aValue", "oFirst", "oKey", "oColon", "oAfterVal", "aAfterVal", "done",
                  "roFirst", "roKey", "roColon", "rValue", "raFirst", "raValue", "roAfterVal", "raAfterVal", "iaAfterObj", "maAfterObj"}

\* a value has just ended before byte c
After(c, sk) == Between(AfterValue(sk), c, sk, TRUE)

StrBases == {"str", "kstr", "rkstr"}
Sfx == {"", "E", "U4", "U3", "U2", "U1", "C1", "C2", "C3"}
StrBase(st) == CHOOSE b \in StrBases : \E x \in Sfx : st = b \o x
IsStr(st)   == \E b \in StrBases : \E x \in Sfx : st = b \o x
StrEnd(base, sk) == CASE base = "kstr" -> RS("oColon", sk, FALSE)
                      [] base = "rkstr" -> RS("roColon", sk, FALSE)
                      [] OTHER -> RS(AfterValue(sk), sk, TRUE)
InStr(base, c, sk) ==
  CASE c = 34 -> StrEnd(base, sk)
    [] c = 92 -> RS(base \o "E", sk, FALSE)
    [] c < 32 -> RDead
    [] c < 128 -> RS(base, sk, FALSE)
    [] c \in 194..223 -> RS(base \o "C1", sk, FALSE)
    [] c \in 225..236 \/ c \in 238..239 -> RS(base \o "C2", sk, FALSE)
    [] c \in 241..243 -> RS(base \o "C3", sk, FALSE)
    [] OTHER -> RUnspec
Cont(base, k, c, sk) ==
  IF c \in 128..191 THEN RS(IF k = 1 THEN base ELSE base \o (IF k = 2 THEN "C1" ELSE "C2"), sk, FALSE) ELSE RUnspec

Lit(c, want, nxt, sk) == IF c = want THEN RS(nxt, sk, FALSE) ELSE RDead
LitEnd(c, want, sk)   == IF c = want THEN RS(AfterValue(sk), sk, TRUE) ELSE RDead

SStep(s, c) ==
  LET sk == s.sk  st == s.st  ap == s.ap IN
  IF s.v # "live" THEN s
  ELSE
  CASE st \in BetweenStates -> Between(st, c, sk, ap)
    [] IsStr(st) ->
        (LET b == StrBase(st) IN
         CASE st = b -> InStr(b, c, sk)
           [] st = b \o "E" -> IF c \in {34, 92, 47, 98, 102, 110, 114, 116} THEN RS(b, sk, FALSE)
                               ELSE IF c = 117 THEN RS(b \o "U4", sk, FALSE) ELSE RDead
           [] st = b \o "U4" -> IF IsHex(c) THEN RS(b \o "U3", sk, FALSE) ELSE RDead
           [] st = b \o "U3" -> IF IsHex(c) THEN RS(b \o "U2", sk, FALSE) ELSE RDead
           [] st = b \o "U2" -> IF IsHex(c) THEN RS(b \o "U1", sk, FALSE) ELSE RDead
           [] st = b \o "U1" -> IF IsHex(c) THEN RS(b, sk, FALSE) ELSE RDead
           [] st = b \o "C1" -> Cont(b, 1, c, sk)
           [] st = b \o "C2" -> Cont(b, 2, c, sk)
           [] st = b \o "C3" -> Cont(b, 3, c, sk))
    \* ---- numbers: an exponent is left unspecified (JSON has it, the schema notation refuses it)
    [] st = "minus"  -> IF c = 48 THEN RS("zero", sk, FALSE) ELSE IF IsD19(c) THEN RS("int", sk, FALSE) ELSE RDead
    [] st = "zero"   -> IF c = 46 THEN RS("fracStart", sk, FALSE) ELSE IF c \in {101, 69} THEN RUnspec ELSE After(c, sk)
    [] st = "int"    -> IF IsDigit(c) THEN RS("int", sk, FALSE) ELSE IF c = 46 THEN RS("fracStart", sk, FALSE)
                        ELSE IF c \in {101, 69} THEN RUnspec ELSE After(c, sk)
    [] st = "fracStart" -> IF IsDigit(c) THEN RS("frac", sk, FALSE) ELSE RDead
    [] st = "frac"   -> IF IsDigit(c) THEN RS("frac", sk, FALSE) ELSE IF c \in {101, 69} THEN RUnspec ELSE After(c, sk)
    [] st = "t1" -> Lit(c, 114, "t2", sk)
    [] st = "t2" -> Lit(c, 117, "t3", sk)
    [] st = "t3" -> LitEnd(c, 101, sk)
    [] st = "f1" -> Lit(c, 97, "f2", sk)
    [] st = "f2" -> Lit(c, 108, "f3", sk)
    [] st = "f3" -> Lit(c, 115, "f4", sk)
    [] st = "f4" -> LitEnd(c, 101, sk)
    [] st = "n1" -> Lit(c, 117, "n2", sk)
    [] st = "n2" -> Lit(c, 108, "n3", sk)
    [] st = "n3" -> LitEnd(c, 108, sk)
    \* ---- type shortcut  @A | @B  in value position
    [] st = "sc0"    -> IF NameB(c) THEN RS("scName", sk, FALSE) ELSE RDead
    [] st = "scName" -> IF NameB(c) THEN RS(st, sk, FALSE) ELSE IF Sp(c) THEN RS("scSp", sk, FALSE)
                        ELSE IF c = 124 THEN RS("scPipe", sk, FALSE) ELSE After(c, sk)
    [] st = "scSp"   -> IF Sp(c) THEN RS(st, sk, FALSE) ELSE IF c = 124 THEN RS("scPipe", sk, FALSE) ELSE After(c, sk)
    [] st = "scPipe" -> IF Sp(c) THEN RS(st, sk, FALSE) ELSE IF c = 64 THEN RS("sc0", sk, FALSE) ELSE RDead
    \* ---- key shortcut  @k :
    [] st = "ks0"    -> IF NameB(c) THEN RS("ksName", sk, FALSE) ELSE RUnspec
    [] st = "ksName" -> IF NameB(c) THEN RS(st, sk, FALSE) ELSE Between("oColon", c, sk, FALSE)
    \* ---- bare rule name
    \* (blanks, tabs and - in a multi-line annotation - line breaks may stand between the name and its colon, as after a quoted name)
    [] st = "rbare"  -> (CASE RuleB(c) -> RS(st, sk, FALSE)
                          [] RBlank(c, sk) -> RS("rbareSp", sk, FALSE)
                          [] c = 58  -> RS("rValue", sk, FALSE)
                          [] Nl(c)   -> RDead
                          [] OTHER   -> RUnspec)
    [] st = "rbareSp" -> (CASE RBlank(c, sk) -> RS(st, sk, FALSE)
                           [] c = 58 -> RS("rValue", sk, FALSE)
                           [] OTHER  -> RDead)
    \* ---- annotations
    [] st = "slash1" -> (CASE c = 47 -> RS("iaStart", Append(Pop(sk), <<"IA", Ret(Top(sk))>>), FALSE)
                          [] c = 42 -> RS("maStart", Append(Pop(sk), <<"MA", Ret(Top(sk))>>), FALSE)
                          [] OTHER  -> RDead)
    [] st = "iaStart" -> (CASE Sp(c)   -> RS(st, sk, FALSE)
                           [] Nl(c)   -> RS(Ret(Top(sk)), Pop(sk), FALSE)
                           [] c = 123 -> IF MaxRDepth = 0 THEN RDeep ELSE RS("roFirst", Append(sk, F("RO")), FALSE)
                           [] OTHER   -> RS("iaText", sk, FALSE))
    [] st = "iaHash1" -> IF c = 35 THEN RUnspec ELSE IF Nl(c) THEN RS(Ret(Top(sk)), Pop(sk), FALSE) ELSE RS("iaText", sk, FALSE)   \* a comment after the rules: plain `# ...` only
    [] st = "iaText"  -> IF Nl(c) THEN RS(Ret(Top(sk)), Pop(sk), FALSE) ELSE RS(st, sk, FALSE)
    [] st = "maStart" -> (CASE Sp(c) \/ Nl(c) -> RS(st, sk, FALSE)
                           [] c = 123 -> IF MaxRDepth = 0 THEN RDeep ELSE RS("roFirst", Append(sk, F("RO")), FALSE)
                           [] c = 42  -> RS("maStar", sk, FALSE)
                           [] OTHER   -> RS("maText", sk, FALSE))
    [] st = "maText"  -> IF c = 42 THEN RS("maStar", sk, FALSE) ELSE RS(st, sk, FALSE)
    [] st = "maStar"  -> (CASE c = 47 -> RS(Ret(Top(sk)), Pop(sk), FALSE)
                           [] c = 42 -> RS(st, sk, FALSE)
                           [] OTHER  -> RS("maText", sk, FALSE))
    [] st = "maEnd1"  -> IF c = 47 THEN RS(Ret(Top(sk)), Pop(sk), FALSE) ELSE RDead
    \* ---- user comments
    [] st = "hash1"  -> (CASE c = 35 -> RS("hash2", sk, FALSE)
                          [] Nl(c)  -> RS(Ret(Top(sk)), Pop(sk), FALSE)                 \* an empty comment
                          [] OTHER  -> RS("lc", Append(Pop(sk), <<"LC", Ret(Top(sk))>>), FALSE))
    [] st = "hash2"  -> IF c = 35 THEN RS("bc0", Append(Pop(sk), <<"BC", Ret(Top(sk))>>), FALSE) ELSE RDead
    [] st = "lc"     -> IF Nl(c) THEN RS(Ret(Top(sk)), Pop(sk), FALSE) ELSE RS(st, sk, FALSE)
    [] st = "bc0"    -> IF c = 35 THEN RUnspec ELSE RS("bc", sk, FALSE)
    [] st = "bc"     -> IF c = 35 THEN RS("bc1", sk, FALSE) ELSE RS(st, sk, FALSE)
    [] st = "bc1"    -> IF c = 35 THEN RS("bc2", sk, FALSE) ELSE RS("bc", sk, FALSE)
    [] st = "bc2"    -> IF c = 35 THEN RS(Ret(Top(sk)), Pop(sk), FALSE) ELSE RS("bc", sk, FALSE)
    [] OTHER -> RDead

\* verdict at end of input:  "accept" | "reject" | "unspec"
CompleteAtTop(st, sk) == Len(sk) = 0 /\ st \in {"done", "zero", "int", "frac", "scName", "scSp"}
SVerdict(s) ==
  IF s.v = "unspec" THEN "unspec"
  ELSE IF s.v = "dead" THEN "reject"
  ELSE CASE s.st \in {"lc", "iaStart", "iaText", "iaAfterObj"} ->          \* ended by the end of the input
              IF CompleteAtTop(Ret(Top(s.sk)), Pop(s.sk)) THEN "accept" ELSE "reject"
         [] s.st \in {"hash1", "iaHash1"} -> "unspec"                                  \* a lone # at the end
         [] s.st \in {"bc0", "bc", "bc1", "bc2"} -> "reject"                            \* the input ends inside a ### comment
         [] OTHER -> IF CompleteAtTop(s.st, s.sk) THEN "accept" ELSE "reject"

RECURSIVE SRun(_, _)
SRun(s, bytes) == IF bytes = <<>> THEN s ELSE SRun(SStep(s, Head(bytes)), Tail(bytes))

\* offset (0-based) of the first byte that cannot continue the text, or Len if none
RECURSIVE SFirstDead(_, _, _)
SFirstDead(s, bytes, i) ==
  IF bytes = <<>> THEN i
  ELSE LET n == SStep(s, Head(bytes)) IN
       IF n.v = "dead" THEN i ELSE SFirstDead(n, Tail(bytes), i + 1)
===============================================================================
