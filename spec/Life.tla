------------------------------------ MODULE Life ------------------------------------
(* C11: results are deterministic, history independent and stable.                          *)
(* Objects: schemas, persistent documents (with a lexeme cursor), an enum rule, a regex type. *)
(* R layer: every result is a function of the object's construction inputs - for a           *)
(* document's NextLexeme also of its cursor, which Check and Len reset and which a failed    *)
(* read leaves undefined.                                                                     *)
(* I layer: once-caches (load / compile / len / check): the first call computes, later calls  *)
(* return the cached value; modelled to state the invariant that the cached value is the      *)
(* fresh value.                                                                               *)
(* TLC enumerates every history up to MaxLen over the operation alphabet and prints it with   *)
(* the expectation of each step:  "fresh" (equal to the same call on freshly built objects),  *)
(* [event k] (the k-th element of the fresh lexeme stream) or "unspec".                       *)
EXTENDS Integers, Sequences, FiniteSets, TLC, Json, JsonEvents
CONSTANTS MaxLen, Export, SharedTypeCompiledInPlace, World            \* World "main" | "shared" (two roots that were given the same user-type OBJECT)

Shared == World = "shared"
\* main:   valid with types / invalid / optional recursion / two overlapping key shortcuts
\* shared: s5 and s6 hold the same object @item = { // {allOf: "@base"} "id": 1 }; only s6 was given @base, so s5 fails to compile
\* shared2: s7 = @A and s8 = {} // {allOf: ["@A", "@B"]} hold the same objects @A = {"a": 1} (and s8 also @B = {"b": 2}): the parents of an allOf
Shared2 == World = "shared2"
\* shared3: s9 = {"x": @t} built with KeysAreOptionalByDefault and s10 = @t built without it hold the same object @t = {"id": 1}: an option of a
\* root is an input of that root only, the type object does not carry it from one root to the other
Shared3 == World = "shared3"
\* shared4: s11 and s12 = {"user": @user} hold the same object @user = {"id": @id}; only s11 was given @id - what a type refers to is
\* looked up in the root being checked, so s12 fails (1302) however often s11 was checked before
Shared4 == World = "shared4"
Schemas == IF Shared THEN {"s5", "s6"} ELSE IF Shared2 THEN {"s7", "s8"} ELSE IF Shared3 THEN {"s9", "s10"} ELSE IF Shared4 THEN {"s11", "s12"} ELSE {"s1", "s2", "s3", "s4"}
\* built anew for every validate. main: accepted / two rejected (complementary missing keys) / malformed; shared: inherited key missing / present
FreshDocs == IF Shared THEN {"d5", "d6"} ELSE IF Shared2 THEN {"d7", "d8"} ELSE IF Shared3 THEN {"d9", "d10"} ELSE IF Shared4 THEN {"d11", "d12"} ELSE {"d1", "d2", "d3", "d4"}
Docs == IF Shared \/ Shared2 \/ Shared3 \/ Shared4 THEN {} ELSE {"x1", "x2", "x3"}      \* persistent Document objects: valid / malformed / valid + trailing garbage
SchemaOps == {"check", "len", "example", "getast", "used"}
\* World "docs": only the persistent documents (cursor discipline of Check / Len / NextLexeme / Validate), so that longer histories fit
DocsOnly == World = "docs"
Ops == (IF DocsOnly THEN {} ELSE {[op |-> o, obj |-> s, arg |-> ""] : o \in SchemaOps, s \in Schemas})
  \cup (IF DocsOnly THEN {} ELSE {[op |-> "validate", obj |-> s, arg |-> d] : s \in Schemas, d \in FreshDocs})
  \* s0: a text whose load fails half-way (a note between a key and a value that never comes): the loaders are pooled, nothing of it may show later
  \cup (IF Shared \/ Shared2 \/ Shared3 \/ Shared4 \/ DocsOnly THEN {} ELSE {[op |-> "check", obj |-> "s0", arg |-> ""]})
  \cup {[op |-> o, obj |-> x, arg |-> ""] : o \in {"dcheck", "dlen", "dnext", "ddrain"}, x \in Docs}
  \cup {[op |-> "dvalidate", obj |-> "s1", arg |-> x] : x \in Docs}
  \cup (IF Shared \/ Shared2 \/ Shared3 \/ Shared4 \/ DocsOnly THEN {} ELSE {[op |-> o, obj |-> "e1", arg |-> ""] : o \in {"echeck", "evalues", "east", "elen"}})
  \cup (IF Shared \/ Shared2 \/ Shared3 \/ Shared4 \/ DocsOnly THEN {} ELSE {[op |-> o, obj |-> "r1", arg |-> ""] : o \in {"rpattern", "rexample", "rlen"}})

\* cursor[x] : number of lexemes already delivered by NextLexeme, or -1 when the position is undefined
\* once[o]   : which once-caches of object o are filled (I layer bookkeeping)
\* I layer, switch SharedTypeCompiledInPlace (the pinned tree): compiling a root expands the allOf rule of an added type IN the type object
\* and removes the rule. item = "extended" once a root that has @base compiled; a root whose own first compile comes later sees a type
\* without allOf - so s5, which lacks @base, compiles - and keeps that outcome in its once-cache (deviant).
VARIABLES cursor, once, hist, item, deviant
vars == <<cursor, once, hist, item, deviant>>
CompileOps == {"check", "validate", "example", "getast"}       \* the public calls that run the once-guarded compile (UsedUserTypes and Len only load)
Compiled(s) == \E op \in CompileOps : <<s, op>> \in once
Init == cursor = [x \in Docs |-> 0] /\ once = {} /\ hist = <<>> /\ item = "raw" /\ deviant = {}

\* the persistent documents as token lists (spelling in hex); their lexeme streams follow from JsonEvents
T(c, h, n) == [c |-> c, h |-> h, n |-> n]
DocToks == [ x1 |-> <<T("{","7b",1), T("key","226122",3), T(":","3a",1), T("ws","20",1), T("[","5b",1), T("num","31",1), T(",","2c",1), T("str","227322",3), T("]","5d",1), T("}","7d",1)>>,
             x2 |-> <<T("{","7b",1), T("key","226122",3), T(":","3a",1), T("num","31",1), T(",","2c",1)>>,                       \* {"a":1,   cut off
             x3 |-> <<T("{","7b",1), T("key","226122",3), T(":","3a",1), T("num","31",1), T("}","7d",1), T("ws","20",1)>> ]          \* + foreign text (appended by the harness): error
Terminal == [x1 |-> "eof", x2 |-> "error", x3 |-> "error"]
DocTail == [x1 |-> "", x2 |-> "", x3 |-> "78"]                                   \* hex appended after the tokens ("x")
NEvents(x) == Len(Events(DocToks[x]))
\* the expectation of one operation in the current state
Expect(o) ==
  CASE o.op = "dnext" ->
         LET k == cursor[o.obj] IN
         IF k < 0 THEN [kind |-> "unspec", k |-> 0]
         ELSE IF k < NEvents(o.obj) THEN [kind |-> "event", k |-> k, ev |-> Events(DocToks[o.obj])[k + 1]]
         ELSE IF k = NEvents(o.obj) \/ Terminal[o.obj] = "eof" THEN [kind |-> Terminal[o.obj], k |-> k]
         ELSE [kind |-> "error", k |-> k]                                       \* reading on after an error: the stream is over, no event comes any more
    [] o.op = "ddrain" ->                                                     \* NextLexeme until it stops delivering: the rest of the stream
         LET k == cursor[o.obj] IN
         IF k < 0 THEN [kind |-> "unspec", k |-> 0]
         ELSE IF k > NEvents(o.obj) /\ Terminal[o.obj] = "error" THEN [kind |-> "drain", k |-> k, evs |-> <<>>, term |-> "error"]
         ELSE [kind |-> "drain", k |-> k, evs |-> SubSeq(Events(DocToks[o.obj]), k + 1, NEvents(o.obj)), term |-> Terminal[o.obj]]
    [] o.op = "dvalidate" -> [kind |-> "fresh", k |-> 0]        \* the verdict is about the whole document, wherever its cursor stands
    [] OTHER -> [kind |-> "fresh", k |-> 0]
\* does the I layer (with the switch on) predict that this call differs from the same call on fresh objects?
FirstCompile(o) == o.op \in CompileOps /\ ~Compiled(o.obj)
Deviates(o) == /\ SharedTypeCompiledInPlace /\ Shared /\ o.op \in CompileOps
               /\ \/ o.obj \in deviant
                  \/ (o.obj = "s5" /\ FirstCompile(o) /\ item = "extended")
Step(o) ==
  /\ hist' = Append(hist, [o |-> o, want |-> Expect(o), dev |-> Deviates(o)])
  /\ once' = once \cup {<<o.obj, o.op>>}
  /\ item' = IF Shared /\ o.obj = "s6" /\ FirstCompile(o) THEN "extended" ELSE item
  /\ deviant' = IF Shared /\ o.obj = "s5" /\ FirstCompile(o) /\ item = "extended" THEN deviant \cup {"s5"} ELSE deviant
  /\ cursor' = CASE o.op = "dnext" -> [cursor EXCEPT ![o.obj] = IF @ < 0 THEN -1 ELSE @ + 1]
                 [] o.op = "ddrain" -> [cursor EXCEPT ![o.obj] = IF @ < 0 THEN -1 ELSE NEvents(o.obj) + 1]
                 [] o.op \in {"dcheck", "dlen"} -> [cursor EXCEPT ![o.obj] = 0]       \* both rewind before and after
                 [] o.op = "dvalidate" -> [cursor EXCEPT ![o.arg] = -1]               \* consumed
                 [] OTHER -> cursor
Next == Len(hist) < MaxLen /\ \E o \in Ops : Step(o)
Spec == Init /\ [][Next]_vars
\* I-layer invariant: a filled once-cache never changes what a call returns - in the model the result function has no
\* history argument at all, so this is the statement that the model needs none:
NoHistoryNeeded == \A i \in DOMAIN hist : hist[i].want.kind \in {"fresh", "event", "unspec", "eof", "error", "drain"}
\* with the switch off nothing is ever predicted to deviate (the requirement); with it on only s5 can, and only after s6 compiled
NoDeviation == \A i \in DOMAIN hist : ~hist[i].dev
DeviationOnlyS5 == \A i \in DOMAIN hist : hist[i].dev => hist[i].o.obj = "s5"
Emit == (Export /\ Len(hist) = MaxLen) => PrintT("@@CASE " \o ToJson([history |-> hist]))
ASSUME Export => PrintT("@@DOCS " \o ToJson([toks |-> DocToks, tail |-> DocTail, terminal |-> Terminal]))
=====================================================================================
