------------------------------------ MODULE Api ------------------------------------
(* Layer R for C07: what any public call may produce.                                      *)
(* A call's outcome is  "ok" | "liberr" (a library error exposing code, message, position   *)
(* and file) | "foreign" (some other error value) | "panic" | "timeout".                     *)
(* Only the first two are allowed; a library error's position lies inside the source it     *)
(* names, and its Error() text can be produced without panicking.                             *)
EXTENDS Integers
Max(a, b) == IF a > b THEN a ELSE b
Allowed(kind, pos, srclen, renders) ==
  \/ kind = "ok"
  \/ (kind = "liberr" /\ renders /\ pos >= 0 /\ pos < Max(1, srclen))
Problem(kind, pos, srclen, renders) ==
  IF kind = "ok" THEN "ok"
  ELSE IF kind = "panic" THEN "panic"
  ELSE IF kind = "timeout" THEN "no-termination"
  ELSE IF kind = "foreign" THEN "not-a-library-error"
  ELSE IF ~renders THEN "Error()-panics"
  ELSE IF ~(pos >= 0 /\ pos < Max(1, srclen)) THEN "position-outside-source"
  ELSE "ok"
====================================================================================
