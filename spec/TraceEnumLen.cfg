SPECIFICATION Spec
CONSTANT TraceFile <- mc_TraceFile
CHECK_DEADLOCK FALSE
