--------------------------------- MODULE GenErrPos ---------------------------------
(* Mechanism A for C17 (ii): the GenShape domain (schemas x documents); for every rejected   *)
(* pair the place of the first violation.  @@DOC as in GenShape; @@CASE {schema, opt, viol}    *)
(* where viol[i] is <<>> or [path, at] for document i.                                         *)
EXTENDS GenShape, ErrPos
EmitPos == PrintT("@@CASE " \o ToJson([schema |-> sch, opt |-> opt, viol |-> [i \in DOMAIN DocSeq |-> Viol(sch, DocSeq[i], opt, <<>>)]]))
\* the locator agrees with the acceptance requirement: a violation is located iff the document is rejected
Consistent == \A i \in DOMAIN DocSeq : (Viol(sch, DocSeq[i], opt, <<>>) = <<>>) <=> AcceptsShape(sch, DocSeq[i], opt)
====================================================================================
