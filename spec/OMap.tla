---------------------------------- MODULE OMap ----------------------------------
(* Layer R for C19: the reference insertion-ordered map.                             *)
(*   order : duplicate-free sequence of the live keys, in order of first insertion   *)
(*   data  : function from the live keys to values                                   *)
(* Mutators are operators state -> state; observers are operators state -> value.    *)
EXTENDS Naturals, Sequences, FiniteSets

Range(s) == {s[i] : i \in DOMAIN s}
Has(m, k) == k \in DOMAIN m.data
Empty == [order |-> <<>>, data |-> <<>>]        \* <<>> is the function with empty domain

Set(m, k, v) ==
  IF Has(m, k) THEN [m EXCEPT !.data = [x \in DOMAIN m.data |-> IF x = k THEN v ELSE m.data[x]]]
  ELSE [order |-> Append(m.order, k), data |-> [x \in DOMAIN m.data \cup {k} |-> IF x = k THEN v ELSE m.data[x]]]
Update(m, k, F(_)) ==
  IF Has(m, k) THEN [m EXCEPT !.data = [x \in DOMAIN m.data |-> IF x = k THEN F(m.data[x]) ELSE m.data[x]]] ELSE m
Delete(m, k) ==
  IF Has(m, k) THEN [order |-> SelectSeq(m.order, LAMBDA x : x # k), data |-> [x \in DOMAIN m.data \ {k} |-> m.data[x]]]
  ELSE m                                            \* deleting an absent key changes nothing
Filter(m, P(_, _)) ==
  LET keep == {k \in DOMAIN m.data : P(k, m.data[k])} IN
  [order |-> SelectSeq(m.order, LAMBDA x : x \in keep), data |-> [x \in keep |-> m.data[x]]]
\* Filter with a callback that panics on the keys in PanicAt (the caller recovers): the operation did not take place
FilterPanic(m, P(_, _), PanicAt) == IF DOMAIN m.data \cap PanicAt # {} THEN m ELSE Filter(m, P)
\* Map with a callback that fails on the keys in FailAt: entries before the first failing key (in
\* iteration order) are replaced, the failing entry and everything after it stay; result = error flag
FirstFail(m, FailAt) ==
  LET idx == {i \in DOMAIN m.order : m.order[i] \in FailAt} IN
  IF idx = {} THEN Len(m.order) + 1 ELSE CHOOSE i \in idx : \A j \in idx : i <= j
Pos(m, k) == CHOOSE i \in DOMAIN m.order : m.order[i] = k
MapF(m, F(_, _), FailAt) ==
  LET ff == FirstFail(m, FailAt) IN
  [m EXCEPT !.data = [x \in DOMAIN m.data |-> IF Pos(m, x) < ff THEN F(x, m.data[x]) ELSE m.data[x]]]
MapErr(m, FailAt) == FirstFail(m, FailAt) <= Len(m.order)

\* observers
LenOf(m) == Len(m.order)
Get(m, k, absent) == IF Has(m, k) THEN m.data[k] ELSE absent
Items(m) == [i \in DOMAIN m.order |-> <<m.order[i], m.data[m.order[i]]>>]        \* what Each / EachSafe / MarshalJSON list
Find(m, P(_, _)) ==
  LET idx == {i \in DOMAIN m.order : P(m.order[i], m.data[m.order[i]])} IN
  IF idx = {} THEN <<>> ELSE LET i == CHOOSE i \in idx : \A j \in idx : i <= j IN <<m.order[i], m.data[m.order[i]]>>
\* Each with a callback failing on FailAt: the visited prefix (including the failing entry)
EachVisited(m, FailAt) == SubSeq(Items(m), 1, IF FirstFail(m, FailAt) <= Len(m.order) THEN FirstFail(m, FailAt) ELSE Len(m.order))

\* invariant of every reachable reference state
WellFormed(m) == /\ Cardinality(Range(m.order)) = Len(m.order)
                 /\ Range(m.order) = DOMAIN m.data
=================================================================================
