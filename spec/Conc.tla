------------------------------------ MODULE Conc ------------------------------------
(* C12: goroutines sharing schemas.  Atomic sections, one action each:                      *)
(*   OnceEnter / OnceRun / OnceLeave   sync.Once inside ErrOnce.Do (compile, len, check)      *)
(*   PoolGet / BufWrite / BufCopy / PoolPut   the example buffer pool                         *)
(*   AllOfRead / AllOfAdd / AllOfDelete       CompileAllOf on an added type SHARED by two      *)
(*                                            roots (processNode: read the allOf constraint,   *)
(*                                            add the parent's children, delete the constraint)*)
(* Named defect switches:                                                                      *)
(*   CopyAfterPut       - Example returned / copied the buffer after Put (repaired)            *)
(*   AllOfNotAtomic     - nothing serialises processNode on a shared type (recorded)           *)
EXTENDS Integers, Sequences, FiniteSets, TLC, Json
CONSTANTS Procs, CopyAfterPut, AllOfNotAtomic, Export

VARIABLES pc,          \* per process: program counter
          job,         \* per process: "example" (on its own schema, shared pool) or "compile" (own root, shared type)
          onceState,   \* the shared schema's compile once: "idle" | "running" | "done"
          onceRuns,    \* how often the compile body ran
          free, owner, content, result,     \* buffer pool: free buffers, buffer owner, buffer content, what each process returned
          tAllOf, tKids, sawAllOf, failed,  \* the shared type: still has its allOf rule, inherited children added, per-process snapshot, per-process error
          sched        \* the schedule so far (for export)
vars == <<pc, job, onceState, onceRuns, free, owner, content, result, tAllOf, tKids, sawAllOf, failed, sched>>

Bufs == {"b1", "b2"}
Init == /\ pc = [p \in Procs |-> "start"]
        /\ job \in [Procs -> {"example", "compile"}]
        /\ onceState = "idle" /\ onceRuns = 0
        /\ free = Bufs /\ owner = [b \in Bufs |-> "none"] /\ content = [b \in Bufs |-> "none"] /\ result = [p \in Procs |-> "none"]
        /\ tAllOf = TRUE /\ tKids = 0 /\ sawAllOf = [p \in Procs |-> FALSE] /\ failed = [p \in Procs |-> FALSE]
        /\ sched = <<>>
Go(p, to, label) == pc' = [pc EXCEPT ![p] = to] /\ sched' = Append(sched, <<p, label>>)

\* ---- first use compiles exactly once (sync.Once: entering is atomic; late comers wait until it is done) ----
OnceEnter(p) == /\ pc[p] = "start" /\ onceState = "idle" /\ onceState' = "running" /\ Go(p, "once-run", "once.enter")
                /\ UNCHANGED <<job, onceRuns, free, owner, content, result, tAllOf, tKids, sawAllOf, failed>>
OnceRun(p) == /\ pc[p] = "once-run" /\ onceRuns' = onceRuns + 1 /\ onceState' = "done" /\ Go(p, "work", "once.run")
              /\ UNCHANGED <<job, free, owner, content, result, tAllOf, tKids, sawAllOf, failed>>
OnceSkip(p) == /\ pc[p] = "start" /\ onceState = "done" /\ Go(p, "work", "once.skip")
               /\ UNCHANGED <<job, onceState, onceRuns, free, owner, content, result, tAllOf, tKids, sawAllOf, failed>>

\* ---- Example(): pool.Get; write own bytes; (copy | return alias); pool.Put ----
PoolGet(p) == /\ pc[p] = "work" /\ job[p] = "example" /\ free # {}
              /\ \E b \in free : free' = free \ {b} /\ owner' = [owner EXCEPT ![b] = p]
              /\ Go(p, "ex-write", "pool.get") /\ UNCHANGED <<job, onceState, onceRuns, content, result, tAllOf, tKids, sawAllOf, failed>>
MyBuf(p) == CHOOSE b \in Bufs : owner[b] = p
BufWrite(p) == /\ pc[p] = "ex-write" /\ content' = [content EXCEPT ![MyBuf(p)] = p]
               /\ Go(p, IF CopyAfterPut THEN "ex-put" ELSE "ex-copy", "buf.write")
               /\ UNCHANGED <<job, onceState, onceRuns, free, owner, result, tAllOf, tKids, sawAllOf, failed>>
BufCopy(p) == /\ pc[p] = "ex-copy" /\ result' = [result EXCEPT ![p] = content[MyBuf(p)]]
              /\ Go(p, "ex-put", "buf.copy") /\ UNCHANGED <<job, onceState, onceRuns, free, owner, content, tAllOf, tKids, sawAllOf, failed>>
PoolPut(p) == /\ pc[p] = "ex-put"
              /\ LET b == MyBuf(p) IN free' = free \cup {b} /\ owner' = [owner EXCEPT ![b] = "none"]
              /\ Go(p, IF CopyAfterPut THEN "ex-latecopy" ELSE "done", "pool.put")
              /\ UNCHANGED <<job, onceState, onceRuns, content, result, tAllOf, tKids, sawAllOf, failed>>
\* the defect: the bytes are read when the buffer may already belong to somebody else (remember which buffer it was)
LateCopy(p) == /\ pc[p] = "ex-latecopy"
               /\ \E b \in Bufs : content[b] = p \/ TRUE
               /\ result' = [result EXCEPT ![p] = IF \E b \in Bufs : content[b] = p THEN p ELSE "overwritten"]
               /\ Go(p, "done", "buf.latecopy") /\ UNCHANGED <<job, onceState, onceRuns, free, owner, content, tAllOf, tKids, sawAllOf, failed>>

\* ---- CompileAllOf on the shared type ----
Lock == ~AllOfNotAtomic
AllOfRead(p) == /\ pc[p] = "work" /\ job[p] = "compile"
                /\ (Lock => \A q \in Procs : pc[q] \notin {"allof-add", "allof-del"})          \* repaired design: one goroutine at a time
                /\ sawAllOf' = [sawAllOf EXCEPT ![p] = tAllOf]
                /\ Go(p, IF tAllOf THEN "allof-add" ELSE "done", "allof.read")
                /\ UNCHANGED <<job, onceState, onceRuns, free, owner, content, result, tAllOf, tKids, failed>>
AllOfAdd(p) == /\ pc[p] = "allof-add"
               /\ IF tKids = 0 THEN tKids' = 1 /\ failed' = failed ELSE tKids' = tKids /\ failed' = [failed EXCEPT ![p] = TRUE]   \* AddChild: duplicate key
               /\ Go(p, IF tKids = 0 THEN "allof-del" ELSE "done", "allof.add")
               /\ UNCHANGED <<job, onceState, onceRuns, free, owner, content, result, tAllOf, sawAllOf>>
AllOfDelete(p) == /\ pc[p] = "allof-del" /\ tAllOf' = FALSE /\ Go(p, "done", "allof.delete")
                  /\ UNCHANGED <<job, onceState, onceRuns, free, owner, content, result, tKids, sawAllOf, failed>>

Next == \E p \in Procs : OnceEnter(p) \/ OnceRun(p) \/ OnceSkip(p) \/ PoolGet(p) \/ BufWrite(p) \/ BufCopy(p) \/ PoolPut(p) \/ LateCopy(p)
                          \/ AllOfRead(p) \/ AllOfAdd(p) \/ AllOfDelete(p)
Spec == Init /\ [][Next]_vars

CompiledOnce == onceRuns <= 1
OwnBytes == \A p \in Procs : result[p] \in {"none", p}                    \* every Example returns its own bytes (the sequential result)
NoSpuriousError == \A p \in Procs : ~failed[p]                             \* compiling never fails because another goroutine compiles too
NoSharedBuffer == \A b \in Bufs : owner[b] # "none" => b \notin free
AllDone == \A p \in Procs : pc[p] = "done"
\* every complete schedule of two first compiles, with the model's prediction of who gets the spurious error
EmitDone == (Export /\ AllDone /\ \A p \in Procs : job[p] = "compile") =>
              PrintT("@@SCHED " \o ToJson([sched |-> sched, failed |-> failed]))
=====================================================================================
