SPECIFICATION Spec
CONSTANT Level = 1
INVARIANT EmitPos
CHECK_DEADLOCK FALSE
