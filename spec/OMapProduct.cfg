SPECIFICATION Spec
CONSTANT Keys = {"a", "b", "c"}
CONSTANT Vals = {1, 2}
CONSTANT Export = FALSE
CONSTANT DeleteAbsentDropsLast = FALSE
CONSTANT FilterRangesWhileDeleting = FALSE
CONSTANT FilterDeletesBeforePanic = FALSE
INVARIANT RefWellFormed
INVARIANT SameItems
INVARIANT SameLen
PROPERTY OrderMonotone
CHECK_DEADLOCK FALSE
