SPECIFICATION Spec
CONSTANT Level = 1
INVARIANT OrderIndependent
INVARIANT OptOnlyRelaxes
CHECK_DEADLOCK FALSE
