SPECIFICATION Spec
CONSTANT Alphabet <- mc_Alphabet
CONSTANT PairLen = 3
CONSTANT ZeroMantissaExpRejected = TRUE
CONSTANT SignBeforeZero = FALSE
INVARIANT Asymmetric
INVARIANT Total
INVARIANT CmpAgrees
CHECK_DEADLOCK FALSE
