--------------------------------- MODULE TraceNum ---------------------------------
(* C10 mechanism B: every line is a real observation made through the Number hook or the   *)
(* public API; TLC re-evaluates the exact-decimal requirement (Num.tla) on the logged       *)
(* numerals.                                                                                *)
(*   {op:"cmp",  a, b, got}            Number.Cmp(a, b)                                      *)
(*   {op:"link", a, b, rel}            adjacent numerals of the implementation-sorted chain  *)
(*   {op:"frac", a, got}               LengthOfFractionalPart                                *)
(*   {op:"rule", rule, bound, a, ok}   Validate of a against {min|max|exclusive..: bound}    *)
(*   {op:"prec", p, a, ok}             Validate against {precision: p}                       *)
(*   {op:"int",  a, ok}                Validate against type integer                          *)
(*   {op:"eq",   form, x, a, ok}       Validate of a against  x // {const: true}  or  x // {enum: [x, 7777]}  *)
EXTENDS Integers, Sequences, TLC, Json
CONSTANT TraceFile
R == INSTANCE Num
Trace == ndJsonDeserialize(TraceFile)
VARIABLE l
Init == l = 1
Want(e) ==
  CASE e.op = "cmp"  -> R!Cmp(R!NF(e.a), R!NF(e.b))
    [] e.op = "link" -> IF R!Less(R!NF(e.a), R!NF(e.b)) THEN "<" ELSE IF R!NF(e.a) = R!NF(e.b) THEN "=" ELSE ">"
    [] e.op = "frac" -> R!FracLen(R!NF(e.a))
    [] e.op = "rule" -> LET c == R!Cmp(R!NF(e.a), R!NF(e.bound)) IN
                        (CASE e.rule = "min" -> c >= 0 [] e.rule = "max" -> c <= 0
                           [] e.rule = "exclusiveMinimum" -> c > 0 [] e.rule = "exclusiveMaximum" -> c < 0)
    [] e.op = "prec" -> R!FracLen(R!NF(e.a)) <= e.p
    [] e.op = "int"  -> R!IntClass(e.a)
    [] e.op = "eq"   -> IF R!NF(e.x) # R!NF(e.a) THEN "no"                     \* const / enum: equality is equality of values ...
                        ELSE IF R!IntClass(e.x) = R!IntClass(e.a) /\ R!IntClass(e.x) # "unspec" THEN "yes" ELSE "unspec"   \* ... of one kind
Got(e) == CASE e.op = "cmp" -> e.got [] e.op = "link" -> e.rel [] e.op = "frac" -> e.got
            [] e.op = "int" -> (IF R!IntClass(e.a) = "unspec" THEN "unspec" ELSE IF e.ok THEN "yes" ELSE "no")
            [] e.op = "eq" -> (IF Want(e) = "unspec" THEN "unspec" ELSE IF e.ok THEN "yes" ELSE "no")
            [] OTHER -> e.ok
Next == /\ l <= Len(Trace)
        /\ LET e == Trace[l] IN
           IF Want(e) = Got(e) THEN TRUE ELSE PrintT("@@MISMATCH " \o ToJson([line |-> l, want |-> ToString(Want(e))]))
        /\ l' = l + 1
Spec == Init /\ [][Next]_l
===================================================================================
