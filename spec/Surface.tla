---------------------------------- MODULE Surface ----------------------------------
(* C13: surface syntax.  A spelling of a schema is the abstract schema plus a layout vector; *)
(* the requirement is that Check's verdict, the AST (comments and notes aside, rule maps     *)
(* unordered when the rule order is rewritten) and every validation verdict are functions of *)
(* the abstract schema only - so the expectations are the ones Chk / Ast / Sem already give. *)
(* This module enumerates the layout vectors: the house style, every single-feature          *)
(* deviation and every pair of deviations (a strength-2 cover of the rewrite compositions).   *)
EXTENDS Integers, Sequences, FiniteSets, TLC, Json
CONSTANT Strength           \* 1 = single deviations, 2 = pairs as well

Features == [ nl |-> {"LF", "CRLF", "CR"}, indent |-> {"2", "0", "tab"}, ann |-> {"inline", "block", "spread"},
              hashOwn |-> {"no", "yes"}, hashTrail |-> {"no", "yes"}, hashBlock |-> {"no", "yes"}, quoted |-> {"no", "yes"},
              trailComma |-> {"no", "yes"}, reversed |-> {"no", "yes"}, emptyPad |-> {"no", "yes"}, note |-> {"no", "yes"},
              colonPad |-> {"no", "yes"}, noteTab |-> {"no", "yes"}, ruleSep |-> {"no", "tab", "break"} ]
House == [ nl |-> "LF", indent |-> "2", ann |-> "inline", hashOwn |-> "no", hashTrail |-> "no", hashBlock |-> "no", quoted |-> "no",
           trailComma |-> "no", reversed |-> "no", emptyPad |-> "no", note |-> "no", colonPad |-> "no", noteTab |-> "no", ruleSep |-> "no" ]
Names == DOMAIN Features
Deviations(l) == {f \in Names : l[f] # House[f]}
Vary(S) == UNION {UNION {{[l EXCEPT ![f] = v] : v \in Features[f]} : f \in Names} : l \in S}
\* line ends interact with everything that ends at a line end: these pairs are always included
LineEndPairs == {[[House EXCEPT !.nl = n] EXCEPT ![f] = "yes"] : n \in {"CRLF", "CR"}, f \in {"hashOwn", "hashTrail", "hashBlock", "note"}}
                \cup {[[House EXCEPT !.nl = n] EXCEPT !.ann = a] : n \in {"CRLF", "CR"}, a \in {"block", "spread"}}
\* the form of the annotation interacts with what is inside it (a note, a trailing comma, quoted names, the rule order)
AnnPairs == {[[House EXCEPT !.ann = a] EXCEPT ![f] = "yes"] : a \in {"block", "spread"}, f \in {"note", "trailComma", "quoted", "reversed", "hashTrail"}}
\* a note interacts with what may follow it on the line (a '#' comment, under every line end) and with what separates it from the rules
NotePairs == {[[[House EXCEPT !.note = "yes"] EXCEPT ![f] = "yes"] EXCEPT !.nl = n] : f \in {"hashTrail", "noteTab", "trailComma"}, n \in {"LF", "CRLF", "CR"}}
             \cup {[[House EXCEPT !.noteTab = "yes"] EXCEPT !.ann = a] : a \in {"block", "spread"}}
\* the value of a rule on the line after its name: in the annotations that may span lines, with every line end; tabs with quoted names too
RulePairs == {[[[House EXCEPT !.ruleSep = "break"] EXCEPT !.ann = a] EXCEPT !.nl = n] : a \in {"block", "spread"}, n \in {"LF", "CRLF", "CR"}}
             \cup {[[House EXCEPT !.ruleSep = "tab"] EXCEPT ![f] = "yes"] : f \in {"quoted", "reversed", "trailComma"}}
             \cup {[[House EXCEPT !.ruleSep = "tab"] EXCEPT !.ann = a] : a \in {"block", "spread"}}
Layouts == IF Strength = 1 THEN Vary({House}) \cup LineEndPairs \cup AnnPairs \cup NotePairs \cup RulePairs ELSE Vary(Vary({House})) \cup NotePairs \cup RulePairs

\* document re-spellings that keep the JSON value
DocSpellings == { [ws |-> w, order |-> o, esc |-> e] : w \in {"compact", "spaced", "lines"}, o \in {"same", "reversed"}, e \in {"plain", "unicode", "slash"} }
ASSUME \A l \in Layouts : PrintT("@@LAYOUT " \o ToJson(l))
ASSUME \A d \in DocSpellings : PrintT("@@DOCSPELL " \o ToJson(d))
VARIABLE x
Init == x = 0
Next == UNCHANGED x
Spec == Init /\ [][Next]_x
====================================================================================
