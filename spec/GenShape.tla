--------------------------------- MODULE GenShape ---------------------------------
(* Mechanism A for C01: TLC enumerates the rule-free fragment (schemas x documents, both   *)
(* key-optionality configurations) and prints, per schema, the vector of verdicts that     *)
(* Sem!AcceptsShape demands over the enumerated documents.                                  *)
(*   @@DOC  {"i": index, "v": Value}                                                        *)
(*   @@CASE {"schema": Node, "opt": BOOLEAN, "verdicts": <<0|1 ...>>}   (index = document)  *)
EXTENDS Integers, Sequences, FiniteSets, TLC, Json, SequencesExt, Sem
CONSTANTS Level          \* 1 = quick domain, 2 = thorough domain

\* ---- documents ----
Null == [t |-> "null"]
Num(b) == [t |-> "num", b |-> b]
Str(c) == [t |-> "str", c |-> c]
LeafDocs == {Null, [t |-> "bool", bv |-> TRUE], Num(<<49>>), Num(<<49, 46, 53>>), Str(<<115>>)}
Keys == {"a", "b", "c"}
SeqsUpTo(S, w) == UNION {[1..k -> S] : k \in 0..w}
ArrDoc(items) == [t |-> "arr", items |-> items]
ObjDoc(ps) == [t |-> "obj", ps |-> ps]
Pairs(K, V) == {[k |-> k, v |-> v] : k \in K, v \in V}
D1 == LeafDocs \cup {ArrDoc(s) : s \in SeqsUpTo(LeafDocs, 2)} \cup {ObjDoc(s) : s \in SeqsUpTo(Pairs(Keys, LeafDocs), 2)}
Mid == {Null, Num(<<49>>), Str(<<115>>), ArrDoc(<<>>), ArrDoc(<<Num(<<49>>)>>), ArrDoc(<<Num(<<49>>), Str(<<115>>)>>),
        ObjDoc(<<>>), ObjDoc(<<[k |-> "a", v |-> Num(<<49>>)]>>), ObjDoc(<<[k |-> "a", v |-> Null]>>)}
D2 == D1 \cup {ArrDoc(s) : s \in SeqsUpTo(Mid, 3)} \cup {ObjDoc(s) : s \in SeqsUpTo(Pairs({"a", "b"}, Mid), 2)}
Docs == IF Level = 1 THEN D1 ELSE D2
DocSeq == SetToSeq(Docs)

\* ---- schemas ----
R(n, v) == [n |-> n, v |-> v]
BT == [t |-> "bool", bv |-> TRUE]
BF == [t |-> "bool", bv |-> FALSE]
Lit(v, rules) == [t |-> "lit", v |-> v, rules |-> rules]
NullableOpts == {<<>>, <<R("nullable", BT)>>}
LeafNodes == {Lit(v, r) : v \in LeafDocs, r \in NullableOpts}
        \cup {Lit(Num(<<49>>), <<R("type", [t |-> "id", s |-> "any"])>>),
              [t |-> "arr", items |-> <<>>, rules |-> <<R("type", [t |-> "id", s |-> "any"])>>],
              [t |-> "obj", props |-> <<>>, rules |-> <<R("type", [t |-> "id", s |-> "any"])>>],
              [t |-> "arr", items |-> <<>>, rules |-> <<>>], [t |-> "obj", props |-> <<>>, rules |-> <<>>]}
        \cup (IF Level = 2 THEN {Lit(Num(<<49>>), <<R("nullable", BF)>>)} ELSE {})
Arr(items, rules) == [t |-> "arr", items |-> items, rules |-> rules]
Obj(props, rules) == [t |-> "obj", props |-> props, rules |-> rules]
OptVariants(n) == {n, [n EXCEPT !.rules = @ \o <<R("optional", BT)>>], [n EXCEPT !.rules = @ \o <<R("optional", BF)>>]}
KeyOrders == {<<>>, <<"a">>, <<"b">>, <<"a", "b">>, <<"b", "a">>}
ObjsOver(Children) == {Obj([i \in DOMAIN ks |-> [k |-> ks[i], sc |-> FALSE, n |-> f[i]]], r) :
                          ks \in KeyOrders, f \in UNION {[1..k -> UNION {OptVariants(c) : c \in Children}] : k \in 0..2}, r \in NullableOpts}
ObjsOK(Children) == {o \in ObjsOver(Children) : TRUE}
Objs(Children) == UNION {{Obj([i \in DOMAIN ks |-> [k |-> ks[i], sc |-> FALSE, n |-> f[i]]], r) :
                            f \in [DOMAIN ks -> UNION {OptVariants(c) : c \in Children}], r \in NullableOpts} : ks \in KeyOrders}
Arrs(Children, w) == {Arr(s, r) : s \in SeqsUpTo(Children, w), r \in NullableOpts}
SmallLeaves == {Lit(Num(<<49>>), <<>>), Lit(Str(<<115>>), <<R("nullable", BT)>>), Lit(Num(<<49, 46, 53>>), <<>>),
                [t |-> "obj", props |-> <<>>, rules |-> <<R("type", [t |-> "id", s |-> "any"])>>]}
S1 == LeafNodes \cup Arrs(LeafNodes, 2) \cup Objs(IF Level = 1 THEN SmallLeaves \cup {Lit(Null, <<>>)} ELSE LeafNodes)
MidNodes == SmallLeaves \cup Arrs(SmallLeaves, 1) \cup {Obj(<<[k |-> "a", sc |-> FALSE, n |-> Lit(Num(<<49>>), <<>>)]>>, <<>>),
                                                         Obj(<<[k |-> "a", sc |-> FALSE, n |-> Lit(Num(<<49>>), <<R("optional", BT)>>)]>>, <<R("nullable", BT)>>),
                                                         Obj(<<>>, <<>>), Lit(Num(<<49>>), <<R("type", [t |-> "id", s |-> "any"])>>)}
S2 == S1 \cup Arrs(MidNodes, 2) \cup Objs(MidNodes)
Schemas == IF Level = 1 THEN S1 ELSE S2

VARIABLES sch, opt
Init == /\ sch \in Schemas /\ opt \in BOOLEAN
Next == UNCHANGED <<sch, opt>>
Spec == Init /\ [][Next]_<<sch, opt>>

Verdicts(node, o) == [i \in DOMAIN DocSeq |-> IF AcceptsShape(node, DocSeq[i], o) THEN 1 ELSE 0]
\* emitted from an invariant so that every initial state prints exactly once
Emit == PrintT("@@CASE " \o ToJson([schema |-> sch, opt |-> opt, verdicts |-> Verdicts(sch, opt)]))

\* theorems of the requirement itself, checked on the whole domain
RECURSIVE Flip(_)
Flip(v) == IF v.t = "obj" THEN [v EXCEPT !.ps = Reverse([i \in DOMAIN v.ps |-> [k |-> v.ps[i].k, v |-> Flip(v.ps[i].v)]])]
           ELSE IF v.t = "arr" THEN [v EXCEPT !.items = [i \in DOMAIN v.items |-> Flip(v.items[i])]] ELSE v
OrderIndependent == \A i \in DOMAIN DocSeq : AcceptsShape(sch, DocSeq[i], opt) = AcceptsShape(sch, Flip(DocSeq[i]), opt)
\* making keys optional by default can only enlarge the accepted set
OptOnlyRelaxes == \A i \in DOMAIN DocSeq : AcceptsShape(sch, DocSeq[i], FALSE) => AcceptsShape(sch, DocSeq[i], TRUE)
ASSUME \A i \in DOMAIN DocSeq : PrintT("@@DOC " \o ToJson([i |-> i, v |-> DocSeq[i]]))
===================================================================================
