---------------------------------- MODULE GenChk ----------------------------------
(* Mechanism A for C08: node kinds x positions x every ORDERED list of up to MaxRules rule   *)
(* instances from a pool (in-range and out-of-range parameters, unknown and duplicated       *)
(* names); expected verdict = Chk!Structure, and where that accepts, "the example obeys its   *)
(* rules" by Sem!Verdict.  @@CASE {kind, pos, rules, schema, env, want}                        *)
EXTENDS Chk, Tables, TLC, Json
CONSTANTS MaxRules, Level
R(n, v) == [n |-> n, v |-> v]
BV(b) == [t |-> "bool", bv |-> b]
NV(b) == [t |-> "num", b |-> b]
IdV(s) == [t |-> "id", s |-> s]
TRef(s) == [t |-> "tref", s |-> s]
NumD(b) == [t |-> "num", b |-> b]
StrD(c) == [t |-> "str", c |-> c]
EV(v) == [t |-> "val", v |-> v]
One == [t |-> "lit", v |-> NumD(N1), rules |-> <<>>]
Example(kind) == CASE kind = "int" -> NumD(N5) [] kind = "flt" -> NumD(N2_5) [] kind = "str" -> StrD(SEmail)
                   [] kind = "bool" -> [t |-> "bool", bv |-> TRUE] [] kind = "null" -> [t |-> "null"]
P(k, n) == [k |-> k, sc |-> FALSE, kt |-> "", n |-> n]
NodeOf(kind, rules) ==
  CASE kind = "obj0" -> [t |-> "obj", props |-> <<>>, rules |-> rules]
    [] kind = "obj1" -> [t |-> "obj", props |-> <<P(Kx, One)>>, rules |-> rules]
    [] kind = "arr0" -> [t |-> "arr", items |-> <<>>, rules |-> rules]
    [] kind = "arr2" -> [t |-> "arr", items |-> <<One, One>>, rules |-> rules]
    [] OTHER -> [t |-> "lit", v |-> Example(kind), rules |-> rules]
Place(pos, n) == CASE pos = "root" -> n [] pos = "prop" -> [t |-> "obj", props |-> <<P(Kp, n)>>, rules |-> <<>>]
                   [] pos = "elem" -> [t |-> "arr", items |-> <<n>>, rules |-> <<>>]
Env == [types |-> <<[name |-> "@T", n |-> One], [name |-> "@O", n |-> [t |-> "obj", props |-> <<P(Ka, One)>>, rules |-> <<>>]]>>, enums |-> <<>>]
RegexA == [t |-> "re", re |-> [t |-> "cat", a |-> [t |-> "bol"], b |-> [t |-> "chr", c |-> 97]]]
AllKinds == <<EV(NumD(N5)), EV(NumD(N2_5)), EV(StrD(SEmail)), EV([t |-> "bool", bv |-> TRUE]), EV([t |-> "null"])>>
Pool == { R("min", NV(N0)), R("min", NV(N7)), R("max", NV(N10)), R("max", NV(N0)), R("max", NV(N7)),
          R("exclusiveMinimum", BV(TRUE)), R("exclusiveMinimum", BV(FALSE)), R("exclusiveMaximum", BV(TRUE)),
          R("precision", NV(N2)), R("minLength", NV(N1)), R("minLength", NV(N7)), R("maxLength", NV(N10)), R("maxLength", NV(N3)),
          R("regex", RegexA), R("minItems", NV(N1)), R("minItems", NV(N0)), R("maxItems", NV(N5)), R("maxItems", NV(N0)),
          R("additionalProperties", BV(TRUE)), R("additionalProperties", IdV("string")), R("allOf", TRef("@O")),
          R("optional", BV(TRUE)), R("optional", BV(FALSE)), R("nullable", BV(TRUE)), R("nullable", BV(FALSE)),
          R("const", BV(TRUE)), R("const", BV(FALSE)),
          R("enum", [t |-> "list", items |-> AllKinds]), R("or", [t |-> "list", items |-> <<IdV("integer"), IdV("float"), IdV("string"), IdV("boolean"), IdV("null")>>]),
          R("or", [t |-> "list", items |-> <<[t |-> "set", rules |-> <<R("min", NV(N7)), R("max", NV(N0))>>], [t |-> "set", rules |-> <<R("type", IdV("boolean"))>>],
                                             [t |-> "set", rules |-> <<R("type", IdV("null"))>>], [t |-> "set", rules |-> <<R("type", IdV("string"))>>]>>]),
          R("or", [t |-> "list", items |-> <<[t |-> "set", rules |-> <<R("type", IdV("string")), R("minLength", NV(N7)), R("maxLength", NV(N3))>>], IdV("integer"), IdV("float"), IdV("boolean"), IdV("null")>>]),
          R("or", [t |-> "list", items |-> <<[t |-> "set", rules |-> <<R("type", IdV("integer")), R("min", NV(N0)), R("max", NV(N10))>>], IdV("string"), IdV("float"), IdV("boolean"), IdV("null")>>]),
          \* optional inside a rule set (it names a user type, or a kind): a rule set is not an object property
          R("or", [t |-> "list", items |-> <<[t |-> "set", rules |-> <<R("type", TRef("@T")), R("optional", BV(TRUE))>>], IdV("integer"), IdV("string"), IdV("float"), IdV("boolean"), IdV("null")>>]),
          \* counts just beyond 64 bits: they bound like any huge count, they are not small numbers
          R("minLength", NV(<<49, 56, 52, 52, 54, 55, 52, 52, 48, 55, 51, 55, 48, 57, 53, 53, 49, 54, 49, 57>>)), R("minItems", NV(<<49, 56, 52, 52, 54, 55, 52, 52, 48, 55, 51, 55, 48, 57, 53, 53, 49, 54, 49, 54>>)),
          R("type", IdV("integer")), R("type", IdV("float")), R("type", IdV("string")), R("type", IdV("decimal")), R("type", IdV("email")),
          R("type", IdV("boolean")), R("type", IdV("null")), R("type", IdV("object")), R("type", IdV("array")),
          R("type", IdV("any")), R("type", IdV("enum")), R("type", IdV("mixed")), R("type", TRef("@T")), R("foo", BV(TRUE)),
          \* a quoted name is the name as written: blanks inside the quotes make it another, unknown name
          R("min ", NV(N0)),
          \* the rules of a rule set have to apply to the kind the set describes (its type, else the node's kind); equal bounds with an exclusive flag
          R("or", [t |-> "list", items |-> <<[t |-> "set", rules |-> <<R("type", IdV("string")), R("minItems", NV(N1))>>], IdV("integer"), IdV("float"), IdV("boolean"), IdV("null")>>]),
          R("or", [t |-> "list", items |-> <<[t |-> "set", rules |-> <<R("minLength", NV(N1))>>], IdV("integer"), IdV("float"), IdV("boolean"), IdV("null")>>]),
          R("or", [t |-> "list", items |-> <<[t |-> "set", rules |-> <<R("type", IdV("integer")), R("min", NV(N7)), R("max", NV(N7)), R("exclusiveMinimum", BV(TRUE))>>], IdV("string"), IdV("float"), IdV("boolean"), IdV("null")>>]),
          R("or", [t |-> "list", items |-> <<[t |-> "set", rules |-> <<R("type", IdV("string")), R(" minLength", NV(N1))>>], IdV("integer"), IdV("float"), IdV("boolean"), IdV("null")>>]) }
SmallPool == { R("min", NV(N0)), R("max", NV(N10)), R("max", NV(N0)), R("exclusiveMinimum", BV(TRUE)), R("exclusiveMaximum", BV(FALSE)), R("precision", NV(N2)),
               R("minLength", NV(N1)), R("maxLength", NV(N10)), R("regex", RegexA), R("minItems", NV(N1)), R("maxItems", NV(N5)),
               R("additionalProperties", BV(TRUE)), R("optional", BV(TRUE)), R("nullable", BV(FALSE)), R("nullable", BV(TRUE)), R("const", BV(FALSE)),
               R("enum", [t |-> "list", items |-> AllKinds]), R("or", [t |-> "list", items |-> <<IdV("integer"), IdV("float"), IdV("string"), IdV("boolean"), IdV("null")>>]),
               R("type", IdV("decimal")), R("type", IdV("email")), R("type", IdV("any")), R("type", TRef("@T")), R("type", IdV("string")) }
TinyPool == { R("nullable", BV(FALSE)), R("const", BV(FALSE)), R("min", NV(N0)), R("type", TRef("@T")),
              R("or", [t |-> "list", items |-> <<IdV("integer"), IdV("float"), IdV("string"), IdV("boolean"), IdV("null")>>]), R("optional", BV(TRUE)), R(" min", NV(N0)) }
CompanionPool == { R("enum", [t |-> "list", items |-> AllKinds]), R("optional", BV(TRUE)), R("nullable", BV(TRUE)), R("const", BV(FALSE)), R("nullable", BV(FALSE)),
                   R("type", TRef("@T")) }
Kinds == {"int", "flt", "str", "bool", "null", "obj0", "obj1", "arr0", "arr2"}
Positions == {"root", "prop", "elem"}

VARIABLES kind, pos, rules
Init == /\ kind \in Kinds /\ pos \in Positions
        /\ \/ rules \in UNION {[1..k -> Pool] : k \in 0..(IF MaxRules > 2 THEN 2 ELSE MaxRules)}
           \/ (MaxRules >= 3 /\ rules \in [1..3 -> SmallPool])
           \/ rules \in [1..3 -> TinyPool]                       \* always: triples around the inert false-valued rules
           \/ rules \in [1..3 -> CompanionPool]                  \* always: an exclusive rule with two of its permitted companions
Next == UNCHANGED <<kind, pos, rules>>
Spec == Init /\ [][Next]_<<kind, pos, rules>>
Node == NodeOf(kind, rules)
RECURSIVE ExOf(_)
ExOf(n) == CASE n.t = "lit" -> n.v [] n.t = "arr" -> [t |-> "arr", items |-> [i \in DOMAIN n.items |-> ExOf(n.items[i])]]
             [] n.t = "obj" -> [t |-> "obj", ps |-> [i \in DOMAIN n.props |-> [k |-> n.props[i].k, v |-> ExOf(n.props[i].n)]]]
Want == LET st == Structure(kind, pos, rules) IN
        IF st # "accept" THEN st
        ELSE \* structurally fine: the example has to obey the rules (own example of the node; allOf adds required keys of the parent)
             IF Has(rules, "allOf") THEN "accept"               \* inherited properties come with their own examples: nothing to obey here
             ELSE LET v == Verdict(Env, [Node EXCEPT !.rules = SelectSeq(@, LAMBDA r : r.n # "optional")], ExOf(Node), FALSE) IN
                  IF v = "reject" THEN "reject" ELSE IF v = "unspec" THEN "unspec" ELSE "accept"
Emit == PrintT("@@CASE " \o ToJson([kind |-> kind, pos |-> pos, rules |-> rules, schema |-> Place(pos, Node), env |-> Env, want |-> Want]))
\* the requirement itself is order independent: a permutation of the rules has the same expected verdict
OrderFree == Len(rules) = 2 => Structure(kind, pos, rules) = Structure(kind, pos, <<rules[2], rules[1]>>)
===================================================================================
