------------------------------- MODULE RegexText -------------------------------
(* Layer R.  The token of a regex type over BYTES:  "/" pattern "/" , where a backslash    *)
(* escapes the next byte (so that "\/" does not end the token and "\\" is a backslash);     *)
(* whatever follows the closing slash is not part of the type.  Same shape as SchemaText     *)
(* (SInit, SStep, SVerdict).  Whether the pattern is a well-formed regular expression is a   *)
(* matter of its own (the harness sets such texts aside by the error code); "//" is the     *)
(* empty pattern (the inline rule {regex: ""} is one).  `n` counts the bytes of the token.   *)
EXTENDS Naturals, Sequences
Sp(c) == c \in {32, 9}
Nl(c) == c \in {10, 13}
Kind(f) == f[1]
Ret(f)  == f[2]
RS(st, n) == [st |-> st, sk |-> <<>>, ap |-> FALSE, v |-> "live", n |-> n]
RDead     == [st |-> "dead",   sk |-> <<>>, ap |-> FALSE, v |-> "dead", n |-> 0]
RUnspec   == [st |-> "unspec", sk |-> <<>>, ap |-> FALSE, v |-> "unspec", n |-> 0]
SInit == RS("start", 0)
\* the token length is bounded only to keep the exported graph finite (beyond MaxToken: no verdict)
CONSTANT MaxToken
Inc(s) == IF s.n >= MaxToken THEN RUnspec ELSE RS(s.st, s.n + 1)
SStep(s, c) ==
  IF s.v # "live" THEN s
  ELSE CASE s.st = "start" -> IF c = 47 THEN RS("first", 1) ELSE RDead
         [] s.st = "first" -> IF c = 47 THEN RS("done", 2) ELSE IF c = 92 THEN RS("esc", 2) ELSE RS("body", 2)      \* "//": the empty pattern
         [] s.st = "body"  -> IF s.n >= MaxToken THEN RUnspec
                              ELSE IF c = 47 THEN RS("done", s.n + 1) ELSE IF c = 92 THEN RS("esc", s.n + 1) ELSE RS("body", s.n + 1)
         [] s.st = "esc"   -> IF s.n >= MaxToken THEN RUnspec ELSE RS("body", s.n + 1)
         [] s.st = "done"  -> s                                  \* anything may follow; n stays the token length
         [] OTHER -> RDead
SVerdict(s) == IF s.v = "unspec" THEN "unspec" ELSE IF s.v = "dead" THEN "reject" ELSE IF s.st = "done" THEN "accept" ELSE "reject"
TokenLen(s) == s.n
===============================================================================
