SPECIFICATION Spec
CONSTANT SharedTypeCompiledInPlace = FALSE
CONSTANT World = "shared"
CONSTANT MaxLen = 3
CONSTANT Export = FALSE
INVARIANT NoHistoryNeeded
INVARIANT NoDeviation
CHECK_DEADLOCK FALSE
