--------------------------------- MODULE GenNamed ---------------------------------
(* Mechanism A for C18: named enum rules and regex types against their inline forms.       *)
(*   @@CASE {kind:"enum",  items, layout, dup, verdicts}   verdicts over @@DOC documents      *)
(*   @@CASE {kind:"regex", re, verdicts}                                                      *)
EXTENDS Integers, Sequences, FiniteSets, TLC, Json, SequencesExt, Sem, Tables
CONSTANT Level
NumD(b) == [t |-> "num", b |-> b]
StrD(c) == [t |-> "str", c |-> c]
BoolD(b) == [t |-> "bool", bv |-> b]
Null == [t |-> "null"]
Pool == {NumD(N1), NumD(N2_5), StrD(Sa), StrD(Sb), StrD(S1), BoolD(TRUE), BoolD(FALSE), Null, StrD(Sa_b), NumD(N10)}
Docs == Pool \cup {NumD(N2), StrD(Sabc), NumD(N1_0), StrD(<<116, 114, 117, 101>>), StrD(<<110, 117, 108, 108>>), StrD(<<97, 47, 98>>), StrD(<<34, 97>>), StrD(<<8, 12, 47>>), StrD(<<97, 127, 98>>), StrD(<<233, 8364>>), StrD(<<127>>), StrD(<<49, 46, 53>>), StrD(<<97, 46, 98>>), StrD(<<49, 48>>), NumD(<<49, 46, 53>>),
                   StrD(<<97, 92>>), StrD(<<7>>), StrD(<<97, 127>>), StrD(<<12, 31>>), StrD(<<34, 92, 9>>), StrD(Sab), StrD(Sxaby), StrD(Sempty), StrD(<<97, 10, 99>>), StrD(Sac), StrD(<<48, 49, 50>>), StrD(<<97, 46, 99>>), StrD(<<97, 120, 99>>)}
Strs3 == UNION {[1..n -> {97, 98, 47}] : n \in 0..3}                      \* Level 2: every string up to 3 over a, b, /
AllDocs == Docs \cup (IF Level = 2 THEN {StrD(c) : c \in Strs3} ELSE {})
DocSeq == SetToSeq(AllDocs)
Lists == UNION {[1..k -> Pool] : k \in 1..(IF Level = 1 THEN 2 ELSE 3)}
         \cup {<<StrD(<<49, 46, 53>>), NumD(N2_5)>>, <<StrD(<<97, 46, 98>>), StrD(<<49, 48>>), NumD(N10)>>}      \* strings that look like numbers: "1.5", "a.b", "10"
         \cup {<<StrD(<<97, 127, 98>>), StrD(Sa)>>, <<StrD(<<233, 8364>>), StrD(<<127>>)>>}                        \* DEL and characters outside ASCII, written raw
         \cup {<<StrD(<<97, 47, 98>>), StrD(Sa)>>, <<StrD(<<8, 12, 47>>), StrD(<<97, 92>>), StrD(<<34, 97>>)>>}       \* every short escape, the solidus included (layout 7)
         \cup {<<NumD(N1), StrD(S1), BoolD(TRUE), StrD(<<116, 114, 117, 101>>)>>, <<Null, StrD(<<110, 117, 108, 108>>), NumD(N1), NumD(N1_0)>>}
HasDup(l) == \E i, j \in DOMAIN l : i < j /\ SameScalar(l[i], l[j]) = "accept"
Chr(c) == [t |-> "chr", c |-> c]
Cat(a, b) == [t |-> "cat", a |-> a, b |-> b]
Regexes == { Cat([t |-> "bol"], Cat(Chr(97), Chr(98))), Cat(Chr(98), [t |-> "eol"]),
             Cat([t |-> "bol"], Cat([t |-> "plus", a |-> Chr(97)], Cat([t |-> "opt", a |-> Chr(98)], [t |-> "eol"]))),
             [t |-> "plus", a |-> [t |-> "set", cs |-> [i \in 1..10 |-> 47 + i], neg |-> FALSE]],
             [t |-> "alt", a |-> Chr(97), b |-> Cat(Chr(98), Chr(99))],
             Cat(Chr(97), Cat([t |-> "any"], Chr(99))), Cat(Chr(97), Cat(Chr(46), Chr(99))),
             Cat(Chr(97), Cat(Chr(47), Chr(98))),            \* a/b   (the slash has to be escaped inside /P/)
             Cat(Chr(34), Chr(97)),                          \* "a
             Cat(Chr(97), Chr(92)),                          \* a\    (pattern text ends with an escaped backslash)
             Cat([t |-> "bol"], Cat(Chr(97), Cat(Chr(92), Cat(Chr(47), [t |-> "eol"])))),   \* ^a\/$ : backslash then slash
             [t |-> "star", a |-> Chr(120)],
             \* anchors inside alternatives: only one alternative can match where it stands (the example has to take that one)
             Cat(Chr(120), [t |-> "alt", a |-> Cat([t |-> "bol"], Chr(97)), b |-> Chr(98)]),                  \* x(?:^a|b)
             Cat([t |-> "alt", a |-> Cat(Chr(97), [t |-> "eol"]), b |-> Chr(98)], Chr(99)),                  \* (?:a$|b)c
             Cat([t |-> "plus", a |-> [t |-> "alt", a |-> Cat(Chr(97), [t |-> "eol"]), b |-> Chr(98)]], Chr(99)),   \* (?:a$|b)+c
             \* control characters and DEL: the example of such a type has to be quoted as JSON when the type is added
             Chr(7), Cat(Chr(97), Chr(127)), [t |-> "plus", a |-> [t |-> "set", cs |-> <<1, 8, 12, 31>>, neg |-> FALSE]], Cat(Chr(34), Cat(Chr(92), Chr(9))) }
\* Level 2: every regular expression of two operands over a small atom set (a character, a character that must be escaped
\* inside /P/, any, a class, a negated class, each plain or under * + ?), joined by concatenation or alternation, anchored or not
Atoms == {Chr(97), Chr(98), Chr(47), [t |-> "any"], [t |-> "set", cs |-> <<97, 98>>, neg |-> FALSE], [t |-> "set", cs |-> <<97>>, neg |-> TRUE]}
Unary == Atoms \cup {[t |-> u, a |-> x] : u \in {"star", "plus", "opt"}, x \in Atoms}
Binary == {[t |-> o, a |-> x, b |-> y] : o \in {"cat", "alt"}, x \in Unary, y \in Unary}
Anchored(e) == {e, Cat([t |-> "bol"], e), Cat(e, [t |-> "eol"]), Cat([t |-> "bol"], Cat(e, [t |-> "eol"]))}
RegexGrid == IF Level = 2 THEN UNION {Anchored(e) : e \in Unary \cup Binary} ELSE {}
VARIABLES k, x, lay
\* layouts: 0 one line, 1 one item per line with // comments (LF), 2 /* */ comments, 3 blanks around, 4 / 5 as 1 with CRLF / CR line ends, 6 as 1 with empty comments, 8 as 1 with two more comment lines after every value, 7 one line with every string escape spelled out (\/ \b \f \uXXXX)
Init == \/ (k = "enum" /\ x \in Lists /\ lay \in 0..8)
        \/ (k = "regex" /\ x \in Regexes \cup RegexGrid /\ lay = 0)
Next == UNCHANGED <<k, x, lay>>
Spec == Init /\ [][Next]_<<k, x, lay>>
Emit == IF k = "enum"
        THEN PrintT("@@CASE " \o ToJson([kind |-> "enum", items |-> x, layout |-> lay, dup |-> HasDup(x),
                                        verdicts |-> [i \in DOMAIN DocSeq |-> Code3(Member3(DocSeq[i], x))]]))
        ELSE PrintT("@@CASE " \o ToJson([kind |-> "regex", re |-> x,
                                        verdicts |-> [i \in DOMAIN DocSeq |-> IF DocSeq[i].t # "str" THEN 0 ELSE IF Search(x, DocSeq[i].c) THEN 1 ELSE 0]]))
ASSUME \A i \in DOMAIN DocSeq : PrintT("@@DOC " \o ToJson([i |-> i, v |-> DocSeq[i]]))
===================================================================================
