SPECIFICATION Spec
CONSTANT Full = FALSE
CONSTANT AllOfBeforeTakeover = FALSE
CONSTANT TakeoverSkipsNew = FALSE
INVARIANT Emit
INVARIANT Agree
CHECK_DEADLOCK FALSE
