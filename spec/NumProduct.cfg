SPECIFICATION Spec
CONSTANT Alphabet <- mc_Alphabet
CONSTANT MaxLen = 5
CONSTANT MaxExpDigits = 3
CONSTANT Export = FALSE
CONSTANT PairLen = 3
CONSTANT ZeroMantissaExpRejected = TRUE
CONSTANT SignBeforeZero = FALSE
INVARIANT SameLanguage
INVARIANT SameValue
INVARIANT SameFracLen
INVARIANT Canonical
CHECK_DEADLOCK FALSE
