------------------------------- MODULE GenJson -------------------------------
(* Mechanism A for C06/C14/C17(i): TLC enumerates a bounded domain of JSON texts as   *)
(* token lists (every scalar form, nesting to depth 2-3, three whitespace layouts)     *)
(* and prints the event stream the requirement demands for each:                       *)
(*    @@CASE {"toks":[{c,h,n}], "events":[{ty,b,e}], "len": total}                      *)
(* h is the token's spelling in hex (so multi-byte characters survive printing).        *)
EXTENDS Naturals, Sequences, TLC, Json, JsonEvents
CONSTANTS Width, Deep          \* max children per container; Deep = TRUE adds a third level

T(c, h, n) == [c |-> c, h |-> h, n |-> n]
Nums == { T("num","30",1), T("num","2d30",2), T("num","3132",2), T("num","2d312e35",4), T("num","316535",3),
          T("num","31452b35",4), T("num","302e3235652d33",7), T("num","39",1), T("num","2d39",2) }
Strs == { T("str","2222",2), T("str","226122",3), T("str","225c6e22",4), T("str","225c753030343122",8),
          T("str","22c3a922",4), T("str","22e282ac22",5), T("str","225c5c5c2222",6), T("str","227b5d2c3a22",6),
          \* strings spelled like a number and like a literal: "0" "true" "null" (other values than 0, true, null)
          T("str","223022",3), T("str","227472756522",6), T("str","226e756c6c22",6) }
Lits == { T("true","74727565",4), T("false","66616c7365",5), T("null","6e756c6c",4) }
Scalars == Nums \cup Strs \cup Lits
Small   == { T("num","31",1), T("str","226122",3), T("null","6e756c6c",4) }
Keys    == { T("key","226b22",3), T("key","22c3a95c7422",6) }
Key1    == { T("key","226b22",3) }

Comma == T(",","2c",1)
Colon == T(":","3a",1)
RECURSIVE Join(_)
Join(ss) == IF ss = <<>> THEN <<>> ELSE IF Len(ss) = 1 THEN ss[1] ELSE ss[1] \o <<Comma>> \o Join(Tail(ss))
Arr(items) == <<T("[","5b",1)>> \o Join(items) \o <<T("]","5d",1)>>
Obj(pairs) == <<T("{","7b",1)>> \o Join([i \in 1..Len(pairs) |-> <<pairs[i][1], Colon>> \o pairs[i][2]]) \o <<T("}","7d",1)>>
Seqs(S, w) == UNION {[1..k -> S] : k \in 0..w}

V0  == {<<s>> : s \in Scalars}
V0s == {<<s>> : s \in Small}
Containers(V, K, w) == {Arr(s) : s \in Seqs(V, w)} \cup {Obj(p) : p \in Seqs(K \X V, w)}
V1  == V0 \cup Containers(V0, Keys, Width)
V1s == V0s \cup Containers(V0s, Key1, 2)
V2  == V1 \cup Containers(V1s, Key1, 2)
V2s == Containers(V0s, Key1, 1) \cup V0s
V3  == V2 \cup (IF Deep THEN Containers(Containers(V2s, Key1, 2), Key1, 1) ELSE {})

WsNone == <<>>
Layouts == { <<>>, <<T("ws","20",1)>>, <<T("ws","0d0a0920",4)>> }
RECURSIVE Spread(_, _)
Spread(toks, ws) == IF toks = <<>> THEN ws ELSE ws \o <<Head(toks)>> \o Spread(Tail(toks), ws)

VARIABLE done
Init == /\ done = FALSE
        /\ \A v \in V3 : \A ws \in Layouts :
             LET toks == Spread(v, ws) IN
             PrintT("@@CASE " \o ToJson([toks |-> toks, events |-> Events(toks), len |-> TotalLen(toks)]))
Next == done' = TRUE
Spec == Init /\ [][Next]_done
\* the requirement's own sanity on the whole domain (theorems of the R layer)
Sane == \A v \in V2 : LET e == Events(v) IN WellNested(e) /\ SpansInside(e, TotalLen(v)) /\ Rebuildable(e, v)
ASSUME Sane
==============================================================================
