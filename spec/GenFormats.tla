--------------------------------- MODULE GenFormats ---------------------------------
(* Mechanism A for C02, formats in depth: a calendar / clock / zone grid for "date" and      *)
(* "datetime" (every month 00..13, every day 00..32, leap and non-leap years, hours, minutes, *)
(* seconds and offsets on and past their bounds), and every single-position replacement of a *)
(* valid uuid by a character of each class.  Verdict vectors by Sem!FormatVerdict.           *)
(*   @@DOC {i, v}    @@CASE {schema, opt, verdicts}                                           *)
EXTENDS Integers, Sequences, FiniteSets, TLC, Json, SequencesExt, Sem, Tables
CONSTANT Level

R(n, v) == [n |-> n, v |-> v]
IdV(s) == [t |-> "id", s |-> s]
StrD(c) == [t |-> "str", c |-> c]
Lit(v, rules) == [t |-> "lit", v |-> v, rules |-> rules]
D2(n) == <<48 + (n \div 10), 48 + (n % 10)>>
D4(n) == D2(n \div 100) \o D2(n % 100)
DateS(y, m, d) == D4(y) \o <<45>> \o D2(m) \o <<45>> \o D2(d)
Years == IF Level = 1 THEN {1900, 2000, 2023, 2024} ELSE {1, 1600, 1900, 2000, 2023, 2024, 2100, 2400, 9999}
Months == 0..13
Days == IF Level = 1 THEN {0, 1, 28, 29, 30, 31, 32} ELSE 0..32
GridDates == {DateS(y, m, d) : y \in Years, m \in Months, d \in Days}
TimeS(h, mi, s) == D2(h) \o <<58>> \o D2(mi) \o <<58>> \o D2(s)
Times == {TimeS(h, mi, s) : h \in {0, 12, 23, 24}, mi \in {0, 59, 60}, s \in {0, 59}}
Zones == {<<90>>, <<43>> \o D2(0) \o <<58>> \o D2(0), <<45>> \o D2(23) \o <<58>> \o D2(59), <<43>> \o D2(1) \o <<58>> \o D2(60), <<>>, <<46, 53, 90>>, <<46, 90>>,
          <<43>> \o D2(24) \o <<58>> \o D2(0), <<44, 53, 90>>, <<46, 53>> \o <<43>> \o D2(2) \o <<58>> \o D2(30)}       \* +24:00 ; a comma before the fraction ; .5+02:30
\* fields written with one digit where the format wants two (hour, minute, second, month, day, offset hour)
D1(n) == <<48 + n>>
ShortForms == { DateS(2023, 12, 31) \o <<84>> \o D1(3) \o <<58>> \o D2(59) \o <<58>> \o D2(59) \o <<90>>,
                DateS(2023, 12, 31) \o <<84>> \o D2(3) \o <<58>> \o D1(9) \o <<58>> \o D2(59) \o <<90>>,
                DateS(2023, 12, 31) \o <<84>> \o D2(3) \o <<58>> \o D2(59) \o <<58>> \o D1(9) \o <<90>>,
                D4(2023) \o <<45>> \o D1(1) \o <<45>> \o D2(31) \o <<84>> \o TimeS(3, 59, 59) \o <<90>>,
                D4(2023) \o <<45>> \o D2(12) \o <<45>> \o D1(1) \o <<84>> \o TimeS(3, 59, 59) \o <<90>>,
                DateS(2023, 12, 31) \o <<84>> \o TimeS(3, 59, 59) \o <<43>> \o D1(2) \o <<58>> \o D2(0),
                D2(23) \o <<45>> \o D2(12) \o <<45>> \o D2(31) \o <<84>> \o TimeS(3, 59, 59) \o <<90>>,
                D4(2023) \o <<45>> \o D1(1) \o <<45>> \o D2(31), D4(2023) \o <<45>> \o D2(12) \o <<45>> \o D1(1) }
CoreDates == {DateS(2024, 2, 29), DateS(2023, 2, 29), DateS(2023, 12, 31), DateS(2023, 4, 31), DateS(2023, 0, 10), DateS(2023, 13, 1)}
GridDateTimes == {d \o <<84>> \o t \o z : d \in CoreDates, t \in Times, z \in Zones}
\* uuid: one position of a valid sample replaced by one character of each class; wrong lengths
UuidSweep == {[SUuid EXCEPT ![i] = b] : i \in DOMAIN SUuid, b \in {48, 102, 70, 103, 71, 45, 32}}
UuidLens == {SubSeq(SUuid, 1, 35), SUuid \o <<48>>, SubSeq(SUuid, 2, 36)}
Docs == {StrD(c) : c \in GridDates \cup GridDateTimes \cup ShortForms \cup UuidSweep \cup UuidLens}
DocSeq == SetToSeq(Docs)
Schemas == {Lit(StrD(SDate), <<R("type", IdV("date"))>>), Lit(StrD(SDateTime), <<R("type", IdV("datetime"))>>), Lit(StrD(SUuid), <<R("type", IdV("uuid"))>>)}

VARIABLE sch
Init == sch \in Schemas
Next == UNCHANGED sch
Spec == Init /\ [][Next]_sch
Code(v) == IF v = "accept" THEN 1 ELSE IF v = "reject" THEN 0 ELSE 2
Emit == PrintT("@@CASE " \o ToJson([schema |-> sch, opt |-> FALSE, verdicts |-> [i \in DOMAIN DocSeq |-> Code(ScalarVerdict(sch, DocSeq[i], <<>>))]]))
\* the grid is not vacuous: each schema accepts some and rejects some of it, and the calendar knows February
Mixed == \E i, j \in DOMAIN DocSeq : ScalarVerdict(sch, DocSeq[i], <<>>) = "accept" /\ ScalarVerdict(sch, DocSeq[j], <<>>) = "reject"
February == /\ DateVerdict(DateS(2024, 2, 29)) = "accept" /\ DateVerdict(DateS(2023, 2, 29)) = "reject"
            /\ DateVerdict(DateS(1900, 2, 29)) = "reject" /\ DateVerdict(DateS(2000, 2, 29)) = "accept"
ASSUME \A i \in DOMAIN DocSeq : PrintT("@@DOC " \o ToJson([i |-> i, v |-> DocSeq[i]]))
=====================================================================================
