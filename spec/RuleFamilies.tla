------------------------------- MODULE RuleFamilies -------------------------------
(* Mechanism A for C02: TLC enumerates scalar examples carrying rule sets (families on,   *)
(* just inside and just outside every boundary) and the probe documents, and prints per   *)
(* schema the verdict vector Sem!ScalarVerdict demands (0 reject, 1 accept, 2 unspecified). *)
EXTENDS Integers, Sequences, FiniteSets, TLC, Json, SequencesExt, Sem, Tables
CONSTANT Level

R(n, v) == [n |-> n, v |-> v]
BV(b) == [t |-> "bool", bv |-> b]
NV(b) == [t |-> "num", b |-> b]
IdV(s) == [t |-> "id", s |-> s]
Null == [t |-> "null"]
NumD(b) == [t |-> "num", b |-> b]
StrD(c) == [t |-> "str", c |-> c]
BoolD(b) == [t |-> "bool", bv |-> b]
Lit(v, rules) == [t |-> "lit", v |-> v, rules |-> rules]

\* ---- probes ----
\* position sweeps: a valid sample with one position replaced (every position is looked at by a recogniser, or the recogniser is wrong)
Sweep(smp, bad) == {[smp EXCEPT ![i] = b] : i \in DOMAIN smp, b \in bad}
FormatSweeps == Sweep(SUuid, {103}) \cup Sweep(SDate, {120, 57}) \cup Sweep(SDateTime, {120})
FormatProbes == Emails \cup Uris \cup Uuids \cup Dates \cup DateTimes \cup FormatSweeps
\* strings that spell numbers: members of an enum (or a const) as STRINGS, which are equal only to themselves
NumLike == {<<49, 46, 53>>, <<49, 46, 53, 48>>, <<49, 53, 101, 45, 49>>, <<49, 48>>, <<49, 101, 49>>, <<45, 48>>, <<48>>}        \* 1.5 1.50 15e-1 10 1e1 -0 0
Docs == {NumD(b) : b \in NumProbes} \cup {StrD(c) : c \in StrProbes \cup FormatProbes \cup NumLike}
        \cup {Null, BoolD(TRUE), BoolD(FALSE), [t |-> "arr", items |-> <<>>], [t |-> "obj", ps |-> <<>>]}
DocSeq == SetToSeq(Docs)

\* ---- rule-set families ----
Opt(S) == {<<>>} \cup {<<x>> : x \in S}                   \* zero or one of S, as a sequence
NullableOpts == Opt({R("nullable", BV(TRUE)), R("nullable", BV(FALSE))})
ExMin == Opt({R("exclusiveMinimum", BV(TRUE)), R("exclusiveMinimum", BV(FALSE))})
ExMax == Opt({R("exclusiveMaximum", BV(TRUE)), R("exclusiveMaximum", BV(FALSE))})
LessEq(a, b) == N!Cmp(N!NF(a), N!NF(b)) <= 0
NumRuleSets ==
     {<<R("min", NV(b))>> \o e \o n : b \in Bounds, e \in ExMin, n \in NullableOpts}
\cup {<<R("max", NV(b))>> \o e \o n : b \in Bounds, e \in ExMax, n \in NullableOpts}
\cup {<<R("min", NV(p[1])), R("max", NV(p[2]))>> \o e1 \o e2 : p \in {q \in Bounds \X Bounds : LessEq(q[1], q[2])},
         e1 \in Opt({R("exclusiveMinimum", BV(TRUE))}), e2 \in Opt({R("exclusiveMaximum", BV(TRUE))})}
\cup {<<R("nullable", BV(TRUE)), R("max", NV(b)), R("min", NV(a))>> : a \in {Nm1, N0}, b \in {N1, N10}}
DecimalRuleSets ==
     {<<R("type", IdV("decimal")), R("precision", NV(p))>> \o x \o n : p \in {N1, N2, N3},
         x \in Opt({R("min", NV(N0)), R("max", NV(N1_5))}), n \in Opt({R("nullable", BV(TRUE))})}
NumExamples == {Nm1, N0, N0_5, N1, N1_5, N10, N1_0, N0_1, N100, N1_25, N2, N5}
NBig == <<49, 56, 52, 52, 54, 55, 52, 52, 48, 55, 51, 55, 48, 57, 53, 53, 49, 54, 49, 55>>      \* 18446744073709551617 = 2^64 + 1
StrLenRuleSets ==
     {<<R("minLength", NV(a))>> \o n : a \in {N0, N1, N2, N3}, n \in NullableOpts}
\cup {<<R("maxLength", NV(a))>> \o n : a \in {N0, N1, N2, N3}, n \in NullableOpts}
\cup {<<R("minLength", NV(p[1])), R("maxLength", NV(p[2]))>> : p \in {q \in {N0, N1, N2, N3} \X {N0, N1, N2, N3} : LessEq(q[1], q[2])}}
StrExamples == {Sempty, Sa, Sab, Sabc, Sabcd, Sb, Sac, Sxaby}
Chr(c) == [t |-> "chr", c |-> c]
Cat(a, b) == [t |-> "cat", a |-> a, b |-> b]
Regexes == { Cat([t |-> "bol"], Cat(Chr(97), Chr(98))),                                    \* ^ab
             Cat(Chr(98), [t |-> "eol"]),                                                  \* b$
             Cat([t |-> "bol"], Cat([t |-> "plus", a |-> Chr(97)], Cat([t |-> "opt", a |-> Chr(98)], [t |-> "eol"]))),   \* ^a+b?$
             [t |-> "plus", a |-> [t |-> "set", cs |-> [i \in 1..10 |-> 47 + i], neg |-> FALSE]],            \* [0-9]+
             [t |-> "alt", a |-> Chr(97), b |-> Cat(Chr(98), Chr(99))],                    \* a|bc
             Cat([t |-> "bol"], [t |-> "eol"]),                                            \* ^$
             Cat(Chr(97), Cat([t |-> "any"], Chr(99))),                                    \* a.c
             Cat([t |-> "bol"], Cat([t |-> "star", a |-> [t |-> "set", cs |-> <<97>>, neg |-> TRUE]], [t |-> "eol"])),     \* ^[^a]*$
             Cat(Chr(97), Cat(Chr(46), Chr(99))) }                                         \* a\.c
RegexRuleSets == {<<R("regex", [t |-> "re", re |-> re])>> \o n : re \in Regexes, n \in Opt({R("nullable", BV(TRUE))})}
FormatRuleSets == {<<R("type", IdV(f))>> \o n : f \in Formats, n \in Opt({R("nullable", BV(TRUE))})}
FormatExample(f) == CASE f = "email" -> SEmail [] f = "uri" -> SUri [] f = "uuid" -> SUuid [] f = "date" -> SDate [] f = "datetime" -> SDateTime
EV(v) == [t |-> "val", v |-> v]
EnumLists == { <<EV(NumD(N1)), EV(NumD(N2_5)), EV(StrD(Sa))>>, <<EV(StrD(S1)), EV(BoolD(TRUE)), EV(Null)>>,
               <<EV(NumD(N1_0))>>, <<EV(StrD(Sa)), EV(StrD(Sb))>>, <<EV(BoolD(FALSE)), EV(NumD(N0))>> }
ConstSets == {<<R("const", BV(b))>> \o n : b \in BOOLEAN, n \in NullableOpts}
PlainTypes == { Lit(NumD(N1), <<R("type", IdV("integer"))>>), Lit(NumD(N1_5), <<R("type", IdV("float"))>>),
                Lit(StrD(Sa), <<R("type", IdV("string"))>>), Lit(BoolD(TRUE), <<R("type", IdV("boolean"))>>),
                Lit(Null, <<R("type", IdV("null"))>>), Lit(NumD(N1), <<>>), Lit(NumD(N1_5), <<>>), Lit(StrD(Sa), <<>>),
                Lit(BoolD(FALSE), <<>>), Lit(Null, <<>>), Lit(NumD(N1), <<R("nullable", BV(TRUE))>>) }

\* an example that obeys its own rules (Check demands it); both an integer and a float example where possible
Obeys(v, rs) == ScalarVerdict(Lit(v, rs), v, <<>>) = "accept"
WithExamples(RS, Ex, mk(_)) == UNION {{Lit(mk(e), rs) : e \in {x \in Ex : Obeys(mk(x), rs)}} : rs \in RS}
Pick2(S) == IF Cardinality(S) <= 2 THEN S ELSE LET a == CHOOSE x \in S : TRUE IN {a, CHOOSE x \in S \ {a} : TRUE}
NumSchemas == UNION {Pick2({Lit(NumD(e), rs) : e \in {x \in NumExamples : Obeys(NumD(x), rs) /\ (HasDot(x) \/ Level = 2)}})
                        \cup Pick2({Lit(NumD(e), rs) : e \in {x \in NumExamples : Obeys(NumD(x), rs) /\ ~HasDot(x)}}) : rs \in NumRuleSets}
DecSchemas == UNION {Pick2({Lit(NumD(e), rs) : e \in {x \in NumExamples : Obeys(NumD(x), rs) /\ HasDot(x)}}) : rs \in DecimalRuleSets}
StrSchemas == UNION {Pick2({Lit(StrD(e), rs) : e \in {x \in StrExamples : Obeys(StrD(x), rs)}}) : rs \in StrLenRuleSets \cup RegexRuleSets}
FmtSchemas == {Lit(StrD(FormatExample(rs[1].v.s)), rs) : rs \in FormatRuleSets}
EnumSchemas == UNION {{Lit(l[i].v, <<R("enum", [t |-> "list", items |-> l])>> \o n) : i \in DOMAIN l, n \in NullableOpts} : l \in EnumLists}
ConstSchemas == {Lit(v, rs) : v \in {NumD(N1), NumD(N1_5), StrD(Sa), BoolD(TRUE), Null, NumD(N1_0)}, rs \in ConstSets}
\* const together with an enum that lists the example both as itself and as the string of the same spelling (and the reverse):
\* equality is between JSON values, the kind is part of it
Confusable == { <<NumD(N1), StrD(S1)>>, <<BoolD(TRUE), StrD(<<116, 114, 117, 101>>)>>, <<Null, StrD(<<110, 117, 108, 108>>)>> }
CE(x, p) == {Lit(x, <<R("const", BV(TRUE)), R("enum", [t |-> "list", items |-> <<EV(p[1]), EV(p[2])>>])>>),
             Lit(x, <<R("enum", [t |-> "list", items |-> <<EV(p[2]), EV(p[1])>>]), R("const", BV(TRUE))>>)}
ConstEnumSchemas == UNION {CE(p[1], p) \cup CE(p[2], p) : p \in Confusable}
\* a bound beyond 64 bits bounds nothing (an implementation may refuse it; it must not read it as another number): GenRules only
BigSchemas == {Lit(StrD(e), rs) : e \in {Sa, Sabcd}, rs \in {<<R("maxLength", NV(NBig))>>, <<R("minLength", NV(N1)), R("maxLength", NV(NBig))>>}}
NumLikeSchemas == {Lit(StrD(<<49, 46, 53>>), <<R("enum", [t |-> "list", items |-> <<EV(StrD(<<49, 46, 53>>)), EV(StrD(<<49, 48>>)), EV(StrD(<<45, 48>>))>>])>>),
                   Lit(StrD(<<49, 48>>), <<R("const", BV(TRUE))>>), Lit(StrD(<<45, 48>>), <<R("const", BV(TRUE)), R("enum", [t |-> "list", items |-> <<EV(StrD(<<45, 48>>)), EV(NumD(N0))>>])>>)}
Schemas == NumLikeSchemas \cup ConstEnumSchemas \cup NumSchemas \cup DecSchemas \cup StrSchemas \cup FmtSchemas \cup EnumSchemas \cup ConstSchemas \cup PlainTypes

===================================================================================
