package fs

import (
	"fmt"

	"verif/harness/ref/bytes"
)

// File represent a file.
type File struct {
	name    string
	content bytes.Bytes
}

// NewFile creates new File instance.
func NewFile[T FileContent](name string, content T) *File {
	return &File{
		name:    name,
		content: normalizeFileContent(content),
	}
}

// FileContent all allowed types for specifying File's content.
type FileContent interface {
	string | bytes.Bytes | []byte
}

// normalizeFileContent convert generic FileContent to bytes.Bytes 'cause we operate
// this type in the file.
func normalizeFileContent[T FileContent](content T) bytes.Bytes {
	switch c := any(content).(type) {
	case string:
		return bytes.Bytes(c)
	case []byte:
		return c
	case bytes.Bytes:
		return c
	}

	// This might happen only when we extend `FileContent` interface and forget
	// to add new case to the type switch above this point.
	panic(fmt.Sprintf("Unhandled content type %T", content))
}

// Name returns file name.
func (f File) Name() string {
	return f.name
}

// Content returns file content.
func (f File) Content() bytes.Bytes {
	return f.content
}
