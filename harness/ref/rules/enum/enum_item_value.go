package enum

import (
	jbytes "verif/harness/ref/bytes"
	jjson "verif/harness/ref/internal/json"
)

type enumItemValue struct {
	value    string
	jsonType jjson.Type
}

func newEnumItem(b jbytes.Bytes) enumItemValue {
	b = b.TrimSpaces()
	t := jjson.Guess(b).JsonType()
	if t == jjson.TypeString {
		b = b.Unquote()
	}
	return enumItemValue{
		value:    b.String(),
		jsonType: t,
	}
}
