package enum

import (
	stdErrors "errors"

	"verif/harness/ref/bytes"
	"verif/harness/ref/errors"
	"verif/harness/ref/fs"
	"verif/harness/ref/internal/ds"
	"verif/harness/ref/internal/lexeme"
)

type stepFunc func(byte) (state, error)

// state values are returned by the state transition functions assigned to
// scanner.state and the method scanner.eof.
// They give details about the current state of the scan that callers might be
// interested to know about.
// It is okay to ignore the return value of any particular call to scanner.state.
type state uint8

const (
	// scanSkip indicates an uninteresting byte, so we can keep scanning forward.
	scanSkip state = iota

	// scanBeginLiteral indicates beginning of any value outside an array or object.
	scanBeginLiteral
)

// scanner represents a scanner is a JSchema scanning state machine.
// Callers call scan.reset() and then pass bytes in one at a time
// by calling scan.step(&scan, c) for each byte.
// The return value, referred to as an opcode, tells the
// caller about significant parsing events like beginning
// and ending literals, objects, and arrays, so that the
// caller can follow along if it wishes.
// The return value scanEnd indicates that a single top-level
// JSON value has been completed, *before* the byte that
// just got passed in.  (The indication must be delayed in order
// to recognize the end of numbers: is 123 a whole value or
// the beginning of 12345e+6?).
type scanner struct {
	// step is a func to be called to execute the next transition.
	// Also tried using an integer constant and a single func
	// with a switch, but using the func directly was 10% faster
	// on a 64-bit Mac Mini, and it's nicer to read.
	step stepFunc

	// returnToStep a stack of step functions, to preserve the sequence of steps
	// (and return to them) in some cases.
	returnToStep *ds.Stack[stepFunc]

	// stack a stack of found lexical event. The stack is needed for the scanner
	// to take into account the nesting of SCHEME elements.
	stack *ds.Stack[lexeme.LexEvent]

	// uniqueValues represent a map of found values.
	// Useful for duplication tracking.
	uniqueValues map[enumItemValue]struct{}

	// file a structure containing jSchema data.
	file *fs.File

	// data jSchema content.
	data bytes.Bytes

	// finds a list of found types of lexical event for the current step. Several
	// lexical events can be found in one step (example: ArrayItemBegin and LiteralBegin).
	finds []lexeme.LexEventType

	// index scanned byte index.
	index bytes.Index

	// dataSize a size of schema data in bytes. Count once for optimization.
	dataSize bytes.Index

	// annotation one of the possible States of annotation processing (annotationNone,
	// annotationInline).
	annotation bool

	// unfinishedLiteral a sign that a literal has been started but not completed.
	unfinishedLiteral bool

	// lengthComputing used when a file contains data after the schema (for example,
	// in jApi).
	lengthComputing bool

	// afterFirstSlash the slash that begins a comment has been read, the byte
	// that tells which kind of comment has not.
	afterFirstSlash bool

	hasTrailingCharacters bool
}

func newScanner(file *fs.File, oo ...scannerOption) *scanner {
	content := file.Content()

	s := &scanner{
		file:         file,
		data:         content,
		dataSize:     bytes.Index(len(content)),
		returnToStep: &ds.Stack[stepFunc]{},
		stack:        &ds.Stack[lexeme.LexEvent]{},
		uniqueValues: map[enumItemValue]struct{}{},
		finds:        make([]lexeme.LexEventType, 0, 3),
	}

	s.step = s.stateBegin

	for _, o := range oo {
		o(s)
	}

	return s
}

type scannerOption func(*scanner)

// scannerComputeLength switch scanner in length computing mode.
// scanner in this mode shouldn't be used for parsing.
func scannerComputeLength(s *scanner) {
	s.lengthComputing = true
}

func (s *scanner) Length() (uint, error) {
	if !s.lengthComputing {
		return 0, stdErrors.New("method not allowed")
	}
	var length uint
	for {
		lex, err := s.Next()
		if stdErrors.Is(err, errEOS) {
			break
		}
		if err != nil {
			return 0, err
		}

		if lex.Type() == lexeme.EndTop {
			// Found character after the end of the schema and spaces.
			// Example: char "s" in "{} some text"
			length = uint(lex.End()) - 1
			break
		}

		length = uint(lex.End()) + 1
		if lex.End() == s.dataSize {
			length--
		}
	}
	if length > uint(s.dataSize) {
		// The last lexeme was closed by the end of the text.
		length = uint(s.dataSize)
	}
	for ; length > 0; length-- {
		c := s.data[length-1]
		if !bytes.IsBlank(c) {
			break
		}
	}
	return length, nil
}

var errEOS = stdErrors.New("end of stream")

// Next reads schema byte by byte.
// Stops if it detects lexical events.
// Returns pointer to found lexeme event, or nil if you have complete reading.
func (s *scanner) Next() (lexeme.LexEvent, error) {
	if len(s.finds) != 0 {
		lex, err := s.shiftFound()
		if err != nil {
			return lexeme.LexEvent{}, err
		}
		return s.processingFoundLexeme(lex)
	}

	for s.index < s.dataSize {
		c := s.data[s.index]
		s.index++

		_, err := s.step(c)
		if err != nil {
			return lexeme.LexEvent{}, err
		}

		if len(s.finds) != 0 {
			lex, err := s.shiftFound()
			if err != nil {
				return lexeme.LexEvent{}, err
			}
			return s.processingFoundLexeme(lex)
		}
	}

	return s.processTail()
}

func (s *scanner) processTail() (lexeme.LexEvent, error) {
	if s.stack.Len() == 0 {
		if s.afterFirstSlash && !s.lengthComputing {
			// "[1] /": the text ends inside the beginning of a comment.
			err := errors.NewDocumentError(s.file, errors.ErrUnexpectedEOF)
			err.SetIndex(s.dataSize - 1)
			return lexeme.LexEvent{}, err
		}
		return lexeme.LexEvent{}, errEOS
	}

	s.index++
	switch s.stack.Peek().Type() {
	case lexeme.LiteralBegin:
		if s.unfinishedLiteral {
			break
		}
		return s.processingFoundLexeme(lexeme.LiteralEnd)

	case lexeme.InlineAnnotationBegin:
		return s.processingFoundLexeme(lexeme.InlineAnnotationEnd)

	case lexeme.InlineAnnotationTextBegin:
		return s.processingFoundLexeme(lexeme.InlineAnnotationTextEnd)

	case lexeme.MultiLineAnnotationBegin, lexeme.MultiLineAnnotationTextBegin:
		// "[1] /* never closed": the text ends inside a comment. (When only
		// the length is asked for, what follows the list is not looked at.)
		if s.lengthComputing {
			if s.stack.Peek().Type() == lexeme.MultiLineAnnotationBegin {
				return s.processingFoundLexeme(lexeme.MultiLineAnnotationEnd)
			}
			return s.processingFoundLexeme(lexeme.MultiLineAnnotationTextEnd)
		}
	}

	err := errors.NewDocumentError(s.file, errors.ErrUnexpectedEOF)
	err.SetIndex(s.dataSize - 1)
	return lexeme.LexEvent{}, err
}

// stateBegin first state of the scanner.
// Expects open square brace as the start of the enum values.
func (s *scanner) stateBegin(c byte) (state, error) {
	if bytes.IsBlank(c) {
		return scanSkip, nil
	}

	if c != '[' {
		err := errors.NewDocumentError(s.file, errors.ErrEnumArrayExpected)
		err.SetIndex(s.index - 1)
		return scanSkip, err
	}

	s.found(lexeme.ArrayBegin)
	s.step = s.stateFoundArrayItemBeginOrEmpty
	return scanSkip, nil
}

func (s *scanner) stateFoundArrayItemBeginOrEmpty(c byte) (state, error) {
	if bytes.IsNewLine(c) {
		if s.annotation {
			return scanSkip, s.newDocumentErrorAtCharacter("inside inline annotation")
		}
		s.found(lexeme.NewLine)
		return scanSkip, nil
	}

	if c == ']' {
		return s.stateFoundArrayEnd()
	}

	r, err := s.stateBeginArrayItemOrEmpty(c)
	if err != nil {
		return scanSkip, err
	}
	if r == scanBeginLiteral {
		s.found(lexeme.ArrayItemBegin)
		s.found(lexeme.LiteralBegin)
	}
	return r, nil
}

func (s *scanner) stateFoundArrayItemBegin(c byte) (state, error) {
	r, err := s.stateBeginValue(c)
	if err != nil {
		return scanSkip, err
	}

	if r == scanBeginLiteral {
		s.found(lexeme.ArrayItemBegin)
		s.found(lexeme.LiteralBegin)
	}
	return r, nil
}

func (s *scanner) stateBeginValue(c byte) (state, error) { //nolint:gocyclo // It's okay.
	if bytes.IsNewLine(c) {
		if s.annotation {
			return scanSkip, s.newDocumentErrorAtCharacter("inside inline annotation")
		}
		s.found(lexeme.NewLine)
		return scanSkip, nil
	}
	if bytes.IsBlank(c) {
		return scanSkip, nil
	}
	if s.isAnnotationStart(c) {
		return scanSkip, s.switchToAnnotation()
	}
	switch c {
	case '"':
		s.step = s.stateInString
		s.unfinishedLiteral = true
		return scanBeginLiteral, nil
	case '-':
		s.step = s.stateNeg
		s.unfinishedLiteral = true
		return scanBeginLiteral, nil
	case '0': // beginning of 0.123
		s.step = s.state0
		return scanBeginLiteral, nil
	case 't': // beginning of true
		s.step = s.stateT
		s.unfinishedLiteral = true
		return scanBeginLiteral, nil
	case 'f': // beginning of false
		s.step = s.stateF
		s.unfinishedLiteral = true
		return scanBeginLiteral, nil
	case 'n': // beginning of null
		s.step = s.stateN
		s.unfinishedLiteral = true
		return scanBeginLiteral, nil
	}
	if '1' <= c && c <= '9' { // beginning of 1234.5
		s.step = s.state1
		return scanBeginLiteral, nil
	}
	return scanSkip, s.newDocumentErrorAtCharacter("looking for beginning of value")
}

// After reading `[`.
func (s *scanner) stateBeginArrayItemOrEmpty(c byte) (state, error) {
	if c == ']' {
		return s.stateFoundArrayEnd()
	}
	return s.stateBeginValue(c)
}

func (s *scanner) stateEndValue(c byte) (state, error) {
	length := s.stack.Len()

	if length == 0 { // json ex `{} `
		s.step = s.stateEndTop
		return s.step(c)
	}

	t := s.stack.Peek().Type()

	if t == lexeme.LiteralBegin {
		s.found(lexeme.LiteralEnd)

		if err := s.validateValue(); err != nil {
			return scanSkip, err
		}

		if length == 1 { // json ex `123 `
			s.step = s.stateEndTop
			return s.step(c)
		}

		t = s.stack.Get(length - 2).Type()
	}

	if t == lexeme.ArrayItemBegin {
		s.found(lexeme.ArrayItemEnd)
		s.step = s.stateAfterArrayItem
		return s.step(c)
	}
	if s.lengthComputing && t == lexeme.InlineAnnotationBegin {
		s.annotation = false
		_ = s.stack.Pop()
		s.step = s.returnToStep.Pop()
		return s.step(c)
	}

	return scanSkip, s.newDocumentErrorAtCharacter("at the end of value")
}

func (s *scanner) validateValue() error {
	begin := s.stack.Peek().Begin()

	v := s.file.Content().Slice(begin, s.index-2)
	key := newEnumItem(v)
	if _, ok := s.uniqueValues[key]; ok {
		e := errors.Format(errors.ErrDuplicationInEnumRule, v.String())
		err := errors.NewDocumentError(s.file, e)
		err.SetIndex(begin)
		return err
	}
	s.uniqueValues[key] = struct{}{}
	return nil
}

func (s *scanner) stateAfterArrayItem(c byte) (state, error) {
	if bytes.IsNewLine(c) {
		if s.annotation {
			return scanSkip, s.newDocumentErrorAtCharacter("inside inline annotation")
		}
		s.found(lexeme.NewLine)
		return scanSkip, nil
	}
	if bytes.IsBlank(c) {
		return scanSkip, nil
	}
	if s.isAnnotationStart(c) {
		return scanSkip, s.switchToAnnotation()
	}
	if c == ',' {
		s.step = s.stateFoundArrayItemBegin
		return scanSkip, nil
	}
	if c == ']' {
		return s.stateFoundArrayEnd()
	}
	return scanSkip, s.newDocumentErrorAtCharacter("after array item")
}

func (s *scanner) stateFoundArrayEnd() (state, error) {
	s.found(lexeme.ArrayEnd)
	if s.stack.Len() == 0 {
		s.step = s.stateEndTop
	} else {
		s.step = s.stateEndValue
	}
	return scanSkip, nil
}

// stateEndTop is the state after finishing the top-level value,
// such as after reading `{}` or `[1,2,3]`.
// Only space characters should be seen now.
func (s *scanner) stateEndTop(c byte) (state, error) {
	switch {
	case bytes.IsNewLine(c):
		if s.annotation {
			return scanSkip, s.newDocumentErrorAtCharacter("inside inline annotation")
		}
		s.found(lexeme.NewLine)
		return scanSkip, nil

	case s.isAnnotationStart(c):
		return scanSkip, s.switchToAnnotation()

	case !bytes.IsBlank(c):
		if s.lengthComputing {
			if s.stack.Len() > 0 {
				// Looks like we have invalid schema, and we should keep scanning.
				s.hasTrailingCharacters = true
				return scanSkip, nil
			}
			s.found(lexeme.EndTop)
			return scanSkip, errEOS
		} else if !s.annotation {
			return scanSkip, s.newDocumentErrorAtCharacter("non-space byte after top-level value")
		}
	}

	if s.hasTrailingCharacters {
		s.found(lexeme.EndTop)
		return scanSkip, errEOS
	}
	return scanSkip, nil
}

// After reading `"`.
func (s *scanner) stateInString(c byte) (state, error) {
	switch c {
	case '"':
		s.step = s.stateEndValue
		s.unfinishedLiteral = false
		return scanSkip, nil
	case '\\':
		s.step = s.stateInStringEsc
		return scanSkip, nil
	}
	if c < 0x20 {
		return scanSkip, s.newDocumentErrorAtCharacter("in string literal")
	}
	return scanSkip, nil
}

// After reading `"\` during a quoted string.
func (s *scanner) stateInStringEsc(c byte) (state, error) {
	switch c {
	case 'b', 'f', 'n', 'r', 't', '\\', '/', '"':
		s.step = s.stateInString
		return scanSkip, nil
	case 'u':
		s.returnToStep.Push(s.stateInString)
		s.step = s.stateInStringEscU
		return scanSkip, nil
	}
	return scanSkip, s.newDocumentErrorAtCharacter("in string escape code")
}

// After reading `"\u` during a quoted string.
func (s *scanner) stateInStringEscU(c byte) (state, error) {
	if bytes.IsHexDigit(c) {
		s.step = s.stateInStringEscU1
		return scanSkip, nil
	}
	return scanSkip, s.newDocumentErrorAtCharacter("in \\u hexadecimal character escape")
}

// After reading `"\u1` during a quoted string.
func (s *scanner) stateInStringEscU1(c byte) (state, error) {
	if bytes.IsHexDigit(c) {
		s.step = s.stateInStringEscU12
		return scanSkip, nil
	}
	return scanSkip, s.newDocumentErrorAtCharacter("in \\u hexadecimal character escape")
}

// After reading `"\u12` during a quoted string.
func (s *scanner) stateInStringEscU12(c byte) (state, error) {
	if bytes.IsHexDigit(c) {
		s.step = s.stateInStringEscU123
		return scanSkip, nil
	}
	return scanSkip, s.newDocumentErrorAtCharacter("in \\u hexadecimal character escape")
}

// After reading `"\u123` during a quoted string.
func (s *scanner) stateInStringEscU123(c byte) (state, error) {
	if bytes.IsHexDigit(c) {
		s.step = s.returnToStep.Pop()
		return scanSkip, nil
	}
	return scanSkip, s.newDocumentErrorAtCharacter("in \\u hexadecimal character escape")
}

// After reading `-` during a number.
func (s *scanner) stateNeg(c byte) (state, error) {
	if c == '0' {
		s.step = s.state0
		s.unfinishedLiteral = false
		return scanSkip, nil
	}
	if '1' <= c && c <= '9' {
		s.step = s.state1
		s.unfinishedLiteral = false
		return scanSkip, nil
	}
	return scanSkip, s.newDocumentErrorAtCharacter("in numeric literal")
}

// After reading a non-zero integer during a number, such as after reading `1` or
// `100` but not `0`.
func (s *scanner) state1(c byte) (state, error) {
	if bytes.IsDigit(c) {
		s.step = s.state1
		return scanSkip, nil
	}
	return s.state0(c)
}

// After reading `0` during a number.
func (s *scanner) state0(c byte) (state, error) {
	if c == '.' {
		s.unfinishedLiteral = true
		s.step = s.stateDot
		return scanSkip, nil
	}
	if c == 'e' || c == 'E' {
		return scanSkip, s.newDocumentErrorAtCharacter(messageEIsNotAllowed)
	}
	return s.stateEndValue(c)
}

// After reading the integer and decimal point in a number, such as after reading `1.`.
func (s *scanner) stateDot(c byte) (state, error) {
	if bytes.IsDigit(c) {
		s.unfinishedLiteral = false
		s.step = s.stateDot0
		return scanSkip, nil
	}
	return scanSkip, s.newDocumentErrorAtCharacter("after decimal point in numeric literal")
}

// After reading the integer, decimal point, and subsequent digits of a number,
// such as after reading `3.14`.
func (s *scanner) stateDot0(c byte) (state, error) {
	if bytes.IsDigit(c) {
		return scanSkip, nil
	}
	if c == 'e' || c == 'E' {
		return scanSkip, s.newDocumentErrorAtCharacter(messageEIsNotAllowed)
	}
	return s.stateEndValue(c)
}

// After reading `t`.
func (s *scanner) stateT(c byte) (state, error) {
	if c == 'r' {
		s.step = s.stateTr
		return scanSkip, nil
	}
	return scanSkip, s.newDocumentErrorAtCharacter("in literal true (expecting 'r')")
}

// After reading `tr`.
func (s *scanner) stateTr(c byte) (state, error) {
	if c == 'u' {
		s.step = s.stateTru
		return scanSkip, nil
	}
	return scanSkip, s.newDocumentErrorAtCharacter("in literal true (expecting 'u')")
}

// After reading `tru`.
func (s *scanner) stateTru(c byte) (state, error) {
	if c == 'e' {
		s.step = s.stateEndValue
		s.unfinishedLiteral = false
		return scanSkip, nil
	}
	return scanSkip, s.newDocumentErrorAtCharacter("in literal true (expecting 'e')")
}

// After reading `f`.
func (s *scanner) stateF(c byte) (state, error) {
	if c == 'a' {
		s.step = s.stateFa
		return scanSkip, nil
	}
	return scanSkip, s.newDocumentErrorAtCharacter("in literal false (expecting 'a')")
}

// After reading `fa`.
func (s *scanner) stateFa(c byte) (state, error) {
	if c == 'l' {
		s.step = s.stateFal
		return scanSkip, nil
	}
	return scanSkip, s.newDocumentErrorAtCharacter("in literal false (expecting 'l')")
}

// After reading `fal`.
func (s *scanner) stateFal(c byte) (state, error) {
	if c == 's' {
		s.step = s.stateFals
		return scanSkip, nil
	}
	return scanSkip, s.newDocumentErrorAtCharacter("in literal false (expecting 's')")
}

// After reading `fals`.
func (s *scanner) stateFals(c byte) (state, error) {
	if c == 'e' {
		s.step = s.stateEndValue
		s.unfinishedLiteral = false
		return scanSkip, nil
	}
	return scanSkip, s.newDocumentErrorAtCharacter("in literal false (expecting 'e')")
}

// After reading `n`.
func (s *scanner) stateN(c byte) (state, error) {
	if c == 'u' {
		s.step = s.stateNu
		return scanSkip, nil
	}
	return scanSkip, s.newDocumentErrorAtCharacter("in literal null (expecting 'u')")
}

// After reading `nu`.
func (s *scanner) stateNu(c byte) (state, error) {
	if c == 'l' {
		s.step = s.stateNul
		return scanSkip, nil
	}
	return scanSkip, s.newDocumentErrorAtCharacter("in literal null (expecting 'l')")
}

// After reading `nul`.
func (s *scanner) stateNul(c byte) (state, error) {
	if c == 'l' {
		s.step = s.stateEndValue
		s.unfinishedLiteral = false
		return scanSkip, nil
	}
	return scanSkip, s.newDocumentErrorAtCharacter("in literal null (expecting 'l')")
}

func (s *scanner) stateAnyAnnotationStart(c byte) (st state, err error) {
	s.afterFirstSlash = false
	switch c {
	case '/':
		s.annotation = true
		s.found(lexeme.InlineAnnotationBegin)
		s.step = s.stateInlineAnnotation
	case '*':
		s.annotation = true
		s.found(lexeme.MultiLineAnnotationBegin)
		s.step = s.stateMultiLineAnnotation
	default:
		err = s.newDocumentErrorAtCharacter("after first slash")
	}
	return scanSkip, err
}

func (s *scanner) stateInlineAnnotation(c byte) (state, error) {
	// Only spaces and tabs are skipped: a line break ends the annotation even
	// if it is empty.
	if bytes.IsSpace(c) {
		return scanSkip, nil
	}

	s.found(lexeme.InlineAnnotationTextBegin)
	s.step = s.stateInlineAnnotationText
	return s.step(c)
}

func (s *scanner) stateMultiLineAnnotation(c byte) (state, error) {
	if bytes.IsNewLine(c) {
		s.found(lexeme.NewLine)
		return scanSkip, nil
	}
	if bytes.IsBlank(c) {
		return scanSkip, nil
	}
	s.found(lexeme.MultiLineAnnotationTextBegin)
	s.step = s.stateMultiLineAnnotationText
	return s.step(c)
}

func (s *scanner) stateMultiLineAnnotationText(c byte) (state, error) {
	if c == '*' && s.index < s.dataSize && s.data[s.index] == '/' {
		s.found(lexeme.MultiLineAnnotationTextEnd)
		s.step = s.stateMultiLineAnnotationEnd
	}
	return scanSkip, nil
}

func (s *scanner) stateMultiLineAnnotationEnd(c byte) (state, error) {
	if c != '/' {
		return scanSkip, s.newDocumentErrorAtCharacter("in multi-line annotation after \"*\" character")
	}
	// after *
	s.found(lexeme.MultiLineAnnotationEnd)
	s.step = s.returnToStep.Pop()
	s.annotation = false
	return scanSkip, nil
}

func (s *scanner) stateInlineAnnotationText(c byte) (state, error) {
	if bytes.IsNewLine(c) {
		s.found(lexeme.InlineAnnotationTextEnd)
		s.found(lexeme.InlineAnnotationEnd)
		s.found(lexeme.NewLine)
		s.step = s.returnToStep.Pop()
		s.annotation = false
	}
	return scanSkip, nil
}

const messageEIsNotAllowed = "isn't allowed 'cause not obvious it's a float or an integer"

func (s *scanner) found(lexType lexeme.LexEventType) {
	s.finds = append(s.finds, lexType)
}

func (s *scanner) shiftFound() (lexeme.LexEventType, error) {
	length := len(s.finds)
	if length == 0 {
		return 0, stdErrors.New("empty set of found lexical event")
	}
	lexType := s.finds[0]
	copy(s.finds[0:], s.finds[1:])
	s.finds = s.finds[:length-1]
	return lexType, nil
}

func (s *scanner) newDocumentErrorAtCharacter(context string) errors.DocumentError {
	// Make runes (utf8 symbols) from current index to last of slice s.data.
	// Get first rune. Then make string with format ' symbol '
	runes := []rune(string(s.data[(s.index - 1):]))
	e := errors.Format(errors.ErrInvalidCharacter, string(runes[0]), context)
	err := errors.NewDocumentError(s.file, e)
	err.SetIndex(s.index - 1)
	return err
}

func (s *scanner) processingFoundLexeme(lexType lexeme.LexEventType) (lexeme.LexEvent, error) {
	i := s.index - 1
	switch {
	case lexType == lexeme.NewLine || lexType == lexeme.EndTop:
		return lexeme.NewLexEvent(lexType, i, i, s.file), nil

	case lexType.IsOpening():
		// `[`, `"` or literal first character (ex: `1` in `123`).
		lex := lexeme.NewLexEvent(lexType, i, i, s.file)
		s.stack.Push(lex)
		return lex, nil
	}

	return s.processingFoundLexemeClosingTag(lexType, i)
}

func (s *scanner) processingFoundLexemeClosingTag(lexType lexeme.LexEventType, i bytes.Index) (lexeme.LexEvent, error) {
	pair := s.stack.Pop()
	pairType := pair.Type()

	switch {
	case isNonScalarPair(pairType, lexType):
		return lexeme.NewLexEvent(lexType, pair.Begin(), i, s.file), nil

	case isScalarPair(pairType, lexType):
		if lexType == lexeme.MixedValueEnd && s.data[i-1] == ' ' {
			i--
		}
		return lexeme.NewLexEvent(lexType, pair.Begin(), i-1, s.file), nil
	}
	return lexeme.LexEvent{}, stdErrors.New("incorrect ending of the lexical event")
}

func isNonScalarPair(pairType, lexType lexeme.LexEventType) bool {
	return (pairType == lexeme.ArrayBegin && lexType == lexeme.ArrayEnd) ||
		(pairType == lexeme.MultiLineAnnotationBegin && lexType == lexeme.MultiLineAnnotationEnd)
}

func isScalarPair(pairType, lexType lexeme.LexEventType) bool { //nolint:gocyclo // We can't do anything about it.
	return (pairType == lexeme.LiteralBegin && lexType == lexeme.LiteralEnd) ||
		(pairType == lexeme.ArrayItemBegin && lexType == lexeme.ArrayItemEnd) ||
		(pairType == lexeme.MultiLineAnnotationTextBegin && lexType == lexeme.MultiLineAnnotationTextEnd) ||
		(pairType == lexeme.InlineAnnotationTextBegin && lexType == lexeme.InlineAnnotationTextEnd) ||
		(pairType == lexeme.InlineAnnotationBegin && lexType == lexeme.InlineAnnotationEnd) ||
		(pairType == lexeme.MixedValueBegin && lexType == lexeme.MixedValueEnd)
}

func (*scanner) isAnnotationStart(c byte) bool {
	return c == '/'
}

func (s *scanner) switchToAnnotation() error {
	if s.annotation {
		return s.newDocumentErrorAtCharacter("inside inline annotation")
	}
	s.returnToStep.Push(s.step)
	s.step = s.stateAnyAnnotationStart
	s.afterFirstSlash = true
	return nil
}
