package bytes

import "strconv"

// IsBlank returns true if provided byte is space or a new line.
func IsBlank(c byte) bool {
	return IsSpace(c) || IsNewLine(c)
}

// IsSpace returns true is provided byte is space.
func IsSpace(c byte) bool {
	return c == ' ' || c == '\t'
}

// IsNewLine returns true if provided byte is a new line.
func IsNewLine(c byte) bool {
	return c == '\n' || c == '\r'
}

// IsDigit returns true if provided byte is a digit.
func IsDigit(c byte) bool {
	return '0' <= c && c <= '9'
}

// IsHexDigit returns true if provided byte is a hex digit.
func IsHexDigit(c byte) bool {
	return IsDigit(c) || 'a' <= c && c <= 'f' || 'A' <= c && c <= 'F'
}

// IsValidUserTypeNameByte returns true if specified rune can be a part of user
// type name.
// Important: `@` isn't valid here 'cause schema name should start with `@` but
// it didn't allow to use that symbol in the name.
func IsValidUserTypeNameByte(c byte) bool {
	return c == '-' || c == '_' || ('a' <= c && c <= 'z') || ('A' <= c && c <= 'Z') || IsDigit(c)
}

// QuoteChar formats char as a quoted character literal.
func QuoteChar(c byte) string {
	// special cases - different from quoted strings
	if c == '\'' {
		return `'\''`
	}
	if c == '"' {
		return `'"'`
	}
	// use quoted string with different quotation marks
	s := strconv.Quote(string(c))
	return "'" + s[1:len(s)-1] + "'"
}
