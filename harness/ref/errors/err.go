package errors

type Err interface {
	error

	Code() ErrorCode
}

type Error interface {
	Filename() string
	Position() uint
	Message() string
	ErrCode() int
	IncorrectUserType() string
}
