package errors

import (
	"fmt"
	"strings"

	"verif/harness/ref/bytes"
	"verif/harness/ref/fs"
)

// DocumentError contains methods for forming a detailed description of the error
// for a person.
// The resulting message will contain the filename, line number, and where the error
// occurred.
type DocumentError struct {
	// A file containing jSchema or JSON data.
	file              *fs.File
	message           string
	incorrectUserType string
	code              ErrorCode

	// index of the byte in which the error was found.
	index bytes.Index

	// A length of file content.
	length bytes.Index

	// hasIndex true if the value for Index have been defined.
	hasIndex bool

	// prepared is true when preliminary calculations are made, the results of
	// which are used in some methods.
	prepared bool

	// nl represent new line symbol.
	nl byte
}

var (
	_ Error = DocumentError{}
	_ error = DocumentError{}
)

func NewDocumentError(file *fs.File, err Err) DocumentError {
	return DocumentError{
		code:    err.Code(),
		message: err.Error(),
		file:    file,
	}
}

func (e DocumentError) Code() ErrorCode {
	return e.code
}

func (e DocumentError) ErrCode() int {
	return int(e.code)
}

func (e DocumentError) Filename() string {
	if e.file == nil {
		return ""
	}
	return e.file.Name()
}

// HasFile tells whether the error already refers to a file (which may have an
// empty name).
func (e DocumentError) HasFile() bool {
	return e.file != nil
}

func (e DocumentError) Message() string {
	return e.message
}

func (e DocumentError) Position() uint {
	return uint(e.index)
}

func (e DocumentError) Index() bytes.Index {
	return e.index
}

func (e *DocumentError) SetIndex(index bytes.Index) {
	e.index = index
	e.hasIndex = true
}

func (e DocumentError) IncorrectUserType() string {
	return e.incorrectUserType
}

func (e *DocumentError) SetIncorrectUserType(s string) {
	e.incorrectUserType = s
}

func (e *DocumentError) SetFile(file *fs.File) {
	e.file = file
	// What was computed for the previous file (length, line break symbol) is
	// void.
	e.prepared = false
}

func (e *DocumentError) SetMessage(message string) {
	e.message = message
}

// The method performs preparatory calculations, the results of which are used in other methods.
func (e *DocumentError) preparation() {
	if e.prepared {
		return
	}

	if e.file == nil {
		panic("The file is not specified")
	}
	e.length = bytes.Index(len(e.file.Content()))
	e.detectNewLineSymbol()
	e.prepared = true
}

func (e *DocumentError) detectNewLineSymbol() {
	content := e.file.Content()
	e.nl = '\n' // default new line
	var found bool
	for _, c := range content {
		if bytes.IsNewLine(c) {
			e.nl = c
			found = true
		} else if found { // first symbol after new line
			break
		}
	}
}

// lineBeginning
// Before calling this method, you must run the e.preparation().
func (e DocumentError) lineBeginning() bytes.Index {
	content := e.file.Content()
	i := e.index
	for {
		c := content[i]
		if c == e.nl {
			if i != e.index {
				i++ // step forward from new line
				break
			}
		}
		if i == 0 { // It is important because an unsigned value (i := 0; i--; i == [large positive number])
			break
		}
		i--
	}
	return i
}

// lineEnd
// Before calling this method, you must run the e.preparation().
func (e DocumentError) lineEnd() bytes.Index {
	content := e.file.Content()
	i := e.index
	for i < e.length {
		c := content[i]
		if c == e.nl {
			break
		}
		i++
	}
	if i > 0 {
		c := content[i-1]
		if (e.nl == '\n' && c == '\r') || (e.nl == '\r' && c == '\n') {
			i--
		}
	}
	return i
}

// Line returns 0, if cannot determine the line number, or 1+ if it can.
func (e *DocumentError) Line() uint {
	if e.file == nil || len(e.file.Content()) == 0 {
		return 0
	}

	e.preparation()

	content := e.file.Content()
	i := e.index
	var n uint

	for {
		c := content[i]
		if c == e.nl {
			if i != e.index {
				n++
			}
		}
		if i == 0 { // It is important because an unsigned value (i := 0; i--; i == [large positive number])
			break
		}
		i--
	}

	return n + 1
}

// SourceSubString returns empty string, if cannot determine the source sub-string.
func (e *DocumentError) SourceSubString() string {
	const maxLength = 200

	if e.file == nil || len(e.file.Content()) == 0 {
		return ""
	}

	e.preparation()

	content := e.file.Content()
	begin := e.lineBeginning()
	end := e.lineEnd()

	if end-begin > maxLength {
		end = begin + maxLength - 3
		return string(content[begin:end].TrimSpacesFromLeft()) + "..."
	}

	return string(content[begin:end].TrimSpacesFromLeft())
}

func (e *DocumentError) pointerToTheErrorCharacter() string {
	e.preparation()

	content := e.file.Content()
	begin := e.lineBeginning()
	// The indentation of this line, not of the rest of the file.
	spaces := content[begin:e.lineEnd()].CountSpacesFromLeft()

	i := int(e.index) - int(begin) - spaces
	if i < 0 {
		// The error is inside the trimmed indentation of the line.
		i = 0
	}
	return strings.Repeat("-", i) + "^"
}

func (e DocumentError) Error() string {
	return e.String()
}

func (e *DocumentError) String() string {
	var prefix string
	if e.code == ErrGeneric {
		prefix = "ERROR"
	} else {
		prefix = "ERROR (code " + e.code.Itoa() + ")"
	}
	if e.file != nil {
		filename := e.file.Name()
		// The source line can be shown only for a position inside the file.
		if e.hasIndex && int(e.index) < len(e.file.Content()) {
			return fmt.Sprintf(`%s: %s
	in line %d on file %s
	> %s
	--%s`, prefix, e.message, e.Line(), filename, e.SourceSubString(), e.pointerToTheErrorCharacter())
		} else if filename != "" {
			return fmt.Sprintf("%s: %s\n\tin file %s", prefix, e.message, filename)
		}
	}
	return fmt.Sprintf("%s: %s", prefix, e.message)
}
