package errors

import (
	"fmt"
	"strings"
)

type Errorf struct { //nolint:errname // This is okay.
	args []interface{}
	code ErrorCode
}

func Format(code ErrorCode, args ...interface{}) Errorf {
	return Errorf{
		code: code,
		args: args,
	}
}

func (e Errorf) Code() ErrorCode {
	return e.code
}

func (e Errorf) Error() string {
	if format, ok := errorFormat[e.code]; ok {
		cnt := strings.Count(format, "%s")
		cnt += strings.Count(format, "%q")
		if cnt != len(e.args) {
			panic("Invalid error message: " + format)
		}
		if cnt == 0 {
			return format
		} else {
			return fmt.Sprintf(format, e.args...)
		}
	}
	panic("Unknown error code")
}
