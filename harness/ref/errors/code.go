package errors

import (
	"strconv"
	"strings"
)

type ErrorCode int //nolint:errname // This is okay.

const (
	ErrGeneric    ErrorCode = 0
	ErrImpossible ErrorCode = 1

	// Main & common.

	ErrUserTypeFound             ErrorCode = 101
	ErrUnknownType               ErrorCode = 102
	ErrUnknownJSchemaType        ErrorCode = 103
	ErrInfinityRecursionDetected ErrorCode = 104

	// Validator.

	ErrValidator                       ErrorCode = 201
	ErrEmptySchema                     ErrorCode = 202
	ErrEmptyJson                       ErrorCode = 203
	ErrOrRuleSetValidation             ErrorCode = 204
	ErrRequiredKeyNotFound             ErrorCode = 205
	ErrSchemaDoesNotSupportKey         ErrorCode = 206
	ErrUnexpectedLexInLiteralValidator ErrorCode = 207
	ErrUnexpectedLexInObjectValidator  ErrorCode = 208
	ErrUnexpectedLexInArrayValidator   ErrorCode = 209
	ErrInvalidValueType                ErrorCode = 210
	ErrInvalidKeyType                  ErrorCode = 211
	ErrUnexpectedLexInMixedValidator   ErrorCode = 212

	// Scanner.

	ErrInvalidCharacter                      ErrorCode = 301
	ErrInvalidCharacterInAnnotationObjectKey ErrorCode = 302
	ErrUnexpectedEOF                         ErrorCode = 303
	ErrAnnotationNotAllowed                  ErrorCode = 304

	// Schema.

	ErrNodeGrow                 ErrorCode = 401
	ErrDuplicateKeysInSchema    ErrorCode = 402
	ErrDuplicationOfNameOfTypes ErrorCode = 403

	// Node.

	ErrDuplicateRule ErrorCode = 501

	// Constraint

	ErrUnknownRule                                 ErrorCode = 601
	ErrConstraintValidation                        ErrorCode = 602
	ErrConstraintStringLengthValidation            ErrorCode = 603
	ErrInvalidValueOfConstraint                    ErrorCode = 604
	ErrZeroPrecision                               ErrorCode = 605
	ErrEmptyEmail                                  ErrorCode = 606
	ErrInvalidEmail                                ErrorCode = 607
	ErrConstraintMinItemsValidation                ErrorCode = 608
	ErrConstraintMaxItemsValidation                ErrorCode = 609
	ErrDoesNotMatchAnyOfTheEnumValues              ErrorCode = 610
	ErrDoesNotMatchRegularExpression               ErrorCode = 611
	ErrInvalidUri                                  ErrorCode = 612
	ErrInvalidDateTime                             ErrorCode = 613
	ErrInvalidUuid                                 ErrorCode = 614
	ErrInvalidConst                                ErrorCode = 615
	ErrInvalidDate                                 ErrorCode = 616
	ErrValueOfOneConstraintGreaterThanAnother      ErrorCode = 617
	ErrValueOfOneConstraintGreaterOrEqualToAnother ErrorCode = 618

	// Loader.

	ErrInvalidSchemaName                ErrorCode = 701
	ErrInvalidSchemaNameInAllOfRule     ErrorCode = 702
	ErrUnacceptableRecursionInAllOfRule ErrorCode = 703
	ErrUnacceptableUserTypeInAllOfRule  ErrorCode = 704
	ErrConflictAdditionalProperties     ErrorCode = 705

	// Rule loader.

	ErrLoader                           ErrorCode = 801
	ErrIncorrectRuleValueType           ErrorCode = 802
	ErrIncorrectRuleWithoutExample      ErrorCode = 803
	ErrIncorrectRuleForSeveralNode      ErrorCode = 804
	ErrLiteralValueExpected             ErrorCode = 805
	ErrInvalidValueInEnumRule           ErrorCode = 806
	ErrIncorrectArrayItemTypeInEnumRule ErrorCode = 807
	ErrUnacceptableValueInAllOfRule     ErrorCode = 808
	ErrTypeNameNotFoundInAllOfRule      ErrorCode = 809
	ErrDuplicationInEnumRule            ErrorCode = 810

	// "or" rule loader.

	ErrArrayWasExpectedInOrRule       ErrorCode = 901
	ErrEmptyArrayInOrRule             ErrorCode = 902
	ErrOneElementInArrayInOrRule      ErrorCode = 903
	ErrIncorrectArrayItemTypeInOrRule ErrorCode = 904
	ErrEmptyRuleSet                   ErrorCode = 905

	// Compiler.

	ErrRuleOptionalAppliesOnlyToObjectProperties ErrorCode = 1101
	ErrCannotSpecifyOtherRulesWithTypeReference  ErrorCode = 1102
	ErrShouldBeNoOtherRulesInSetWithOr           ErrorCode = 1103
	ErrShouldBeNoOtherRulesInSetWithEnum         ErrorCode = 1104
	ErrShouldBeNoOtherRulesInSetWithAny          ErrorCode = 1105
	ErrInvalidNestedElementsFoundForTypeAny      ErrorCode = 1106
	ErrInvalidChildNodeTogetherWithTypeReference ErrorCode = 1107
	ErrInvalidChildNodeTogetherWithOrRule        ErrorCode = 1108
	ErrConstraintMinNotFound                     ErrorCode = 1109
	ErrConstraintMaxNotFound                     ErrorCode = 1110
	ErrInvalidValueInTheTypeRule                 ErrorCode = 1111
	ErrNotFoundRulePrecision                     ErrorCode = 1112
	ErrNotFoundRuleEnum                          ErrorCode = 1113
	ErrNotFoundRuleOr                            ErrorCode = 1114
	ErrIncompatibleTypes                         ErrorCode = 1115
	// ErrUnknownAdditionalPropertiesTypes          ErrorCode = 1116

	ErrUnexpectedConstraint ErrorCode = 1117

	// Checker.

	ErrChecker                               ErrorCode = 1201
	ErrElementNotFoundInArray                ErrorCode = 1203
	ErrIncorrectConstraintValueForEmptyArray ErrorCode = 1204

	// Link checker.

	ErrIncorrectUserType                              ErrorCode = 1301
	ErrTypeNotFound                                   ErrorCode = 1302
	ErrImpossibleToDetermineTheJsonTypeDueToRecursion ErrorCode = 1303
	ErrInvalidKeyShortcutType                         ErrorCode = 1304

	// SDK.

	ErrEmptyType                          ErrorCode = 1401
	ErrUnnecessaryLexemeAfterTheEndOfEnum ErrorCode = 1402

	// Regex.

	ErrRegexUnexpectedStart ErrorCode = 1500
	ErrRegexUnexpectedEnd   ErrorCode = 1501
	ErrRegexInvalid         ErrorCode = 1502

	// Enum.

	ErrEnumArrayExpected  ErrorCode = 1600
	ErrEnumIsHoldRuleName ErrorCode = 1601
	ErrEnumRuleNotFound   ErrorCode = 1602
	ErrNotAnEnumRule      ErrorCode = 1603
)

var errorFormat = map[ErrorCode]string{
	// old error format
	ErrGeneric: "%s",

	ErrImpossible: "The error should not occur during regular operation. May appear only in the process of unfinished code refactoring.", //nolint:lll

	// main & common
	ErrUserTypeFound:             "Found an invalid reference to the type",
	ErrUnknownType:               "Unknown type %q",
	ErrUnknownJSchemaType:        "Unknown JSchema type %q",
	ErrInfinityRecursionDetected: "Infinity recursion detected %s",

	// validator
	ErrValidator:                       "Validator error",
	ErrEmptySchema:                     "Empty schema",
	ErrEmptyJson:                       "Empty JSON",
	ErrOrRuleSetValidation:             `None of the rules in the "OR" set has been validated`,
	ErrRequiredKeyNotFound:             `Required key "%s" not found`,
	ErrSchemaDoesNotSupportKey:         `Schema does not support key "%s"`,
	ErrUnexpectedLexInLiteralValidator: `Invalid value, scalar expected`,
	ErrUnexpectedLexInObjectValidator:  `Invalid value, object expected`,
	ErrUnexpectedLexInArrayValidator:   `Invalid value, array expected`,
	ErrUnexpectedLexInMixedValidator:   `Invalid value, scalar, array, or object expected`,
	ErrInvalidValueType:                `Invalid value type "%s", expected "%s"`,
	ErrInvalidKeyType:                  `Incorrect key type "%s"`,

	// scanner
	ErrInvalidCharacter:                      "Invalid character %q %s",
	ErrInvalidCharacterInAnnotationObjectKey: "Invalid character %s in object key (inside comment)",
	ErrUnexpectedEOF:                         "Unexpected end of file",
	ErrAnnotationNotAllowed:                  "Annotation not allowed here",

	// schema
	ErrNodeGrow:                 "Node grow error",
	ErrDuplicateKeysInSchema:    "Duplicate keys (%s) in the schema",
	ErrDuplicationOfNameOfTypes: "Duplication of the name of the types (%s)",

	// node
	ErrDuplicateRule: "Duplicate %q rule",

	// constraint
	ErrUnknownRule:                                 `Unknown rule "%s"`,
	ErrConstraintValidation:                        "Invalid value for %q = %s constraint %s",
	ErrConstraintStringLengthValidation:            "Invalid string length for %q = %q constraint",
	ErrInvalidValueOfConstraint:                    "Invalid value of %q constraint",
	ErrZeroPrecision:                               "Precision can't be zero",
	ErrEmptyEmail:                                  "Empty email",
	ErrInvalidEmail:                                "Invalid email (%s)",
	ErrConstraintMinItemsValidation:                `The number of array elements does not match the "minItems" rule`,
	ErrConstraintMaxItemsValidation:                `The number of array elements does not match the "maxItems" rule`,
	ErrDoesNotMatchAnyOfTheEnumValues:              "Does not match any of the enumeration values",
	ErrDoesNotMatchRegularExpression:               "Does not match regular expression",
	ErrInvalidUri:                                  "Invalid URI (%s)",
	ErrInvalidDateTime:                             "Date/Time parsing error",
	ErrInvalidUuid:                                 "UUID parsing error: %s",
	ErrInvalidConst:                                "Does not match expected value (%s)",
	ErrInvalidDate:                                 "Date parsing error (%s)",
	ErrValueOfOneConstraintGreaterThanAnother:      "Value of constraint %q should be less or equal to value of %q constraint", //nolint:lll
	ErrValueOfOneConstraintGreaterOrEqualToAnother: "Value of constraint %q should be less than value of %q constraint",

	// loader
	ErrInvalidSchemaName:                "Invalid schema name (%s)",
	ErrInvalidSchemaNameInAllOfRule:     `Invalid schema name (%s) in "allOf" rule`,
	ErrUnacceptableRecursionInAllOfRule: `Unacceptable recursion in "allOf" rule`,
	ErrUnacceptableUserTypeInAllOfRule:  `Unacceptable type. The "%s" type in the "allOf" rule must be an object`,
	ErrConflictAdditionalProperties:     `Conflicting value in AdditionalProperties rules when inheriting from allOf`,

	// rule loader
	ErrLoader:                           "Loader error", // error somewhere in the loader code
	ErrIncorrectRuleValueType:           "Incorrect rule value type",
	ErrIncorrectRuleWithoutExample:      "You cannot place a RULE on line without EXAMPLE",
	ErrIncorrectRuleForSeveralNode:      "You cannot place a RULE on lines that contain more than one EXAMPLE node to which any RULES can apply. The only exception is when an object key and its value are found in one line.", //nolint:lll
	ErrLiteralValueExpected:             "Literal value expected",
	ErrInvalidValueInEnumRule:           `An array or rule name was expected as a value for the "enum"`,
	ErrIncorrectArrayItemTypeInEnumRule: `Incorrect array item type in "enum". Only literals are allowed.`,
	ErrUnacceptableValueInAllOfRule:     `Incorrect value in "allOf" rule. A type name, or list of type names, is expected.`, //nolint:lll
	ErrTypeNameNotFoundInAllOfRule:      `Type name not found in "allOf" rule`,
	ErrDuplicationInEnumRule:            `%s value duplicates in "enum"`,

	// "or" rule loader
	ErrArrayWasExpectedInOrRule:       `An array was expected as a value for the "or" rule`,
	ErrEmptyArrayInOrRule:             `Empty array in "or" rule`,
	ErrOneElementInArrayInOrRule:      `Array rule "or" must have at least two elements`,
	ErrIncorrectArrayItemTypeInOrRule: `Incorrect array item type in "or" rule`,
	ErrEmptyRuleSet:                   `Empty rule set`,

	// compiler
	ErrRuleOptionalAppliesOnlyToObjectProperties: `The rule "optional" applies only to object properties`,
	ErrCannotSpecifyOtherRulesWithTypeReference:  `Invalid rule set shared with a type reference`,
	ErrShouldBeNoOtherRulesInSetWithOr:           `Invalid rule set shared with "or"`,
	ErrShouldBeNoOtherRulesInSetWithEnum:         `Invalid rule set shared with "enum"`,
	ErrShouldBeNoOtherRulesInSetWithAny:          `Invalid rule set shared with "any"`,
	ErrInvalidNestedElementsFoundForTypeAny:      `Invalid nested elements found for an element of type "any"`,
	ErrInvalidChildNodeTogetherWithTypeReference: `You cannot specify child node if you use a type reference`,
	ErrInvalidChildNodeTogetherWithOrRule:        `You cannot specify child node if you use a "or" rule`,
	ErrConstraintMinNotFound:                     `Constraint "min" not found`,
	ErrConstraintMaxNotFound:                     `Constraint "max" not found`,
	ErrInvalidValueInTheTypeRule:                 `Invalid value in the "type" rule (%s)`,
	ErrNotFoundRulePrecision:                     `Not found the rule "precision" for the "decimal" type`,
	ErrNotFoundRuleEnum:                          `Not found the rule "enum" for the "enum" type`,
	ErrNotFoundRuleOr:                            `Not found the rule "or" for the "mixed" type`,
	ErrIncompatibleTypes:                         `Incompatible value of example and "type" rule (%s)`,
	// ErrUnknownAdditionalPropertiesTypes:          "Unknown type of additionalProperties (%s)",
	ErrUnexpectedConstraint: "The %q constraint can't be used for the %q type",

	// checker
	ErrChecker:                               `Checker error`,
	ErrElementNotFoundInArray:                `Element not found in schema array node`,
	ErrIncorrectConstraintValueForEmptyArray: `Incorrect constraint value for empty array`,

	// link checker
	ErrIncorrectUserType: "Incorrect type of user type",
	ErrTypeNotFound:      "Type %q not found",
	ErrImpossibleToDetermineTheJsonTypeDueToRecursion: `It is impossible to determine the json type due to recursion of type %q`, //nolint:lll
	ErrInvalidKeyShortcutType:                         "Key shortcut %q should be string but %q given",

	// sdk
	ErrEmptyType:                          `Type "%s" must not be empty`,
	ErrUnnecessaryLexemeAfterTheEndOfEnum: `An unnecessary non-space character after the end of the enum`,
	ErrRegexUnexpectedStart:               "Regex should starts with '/' character, but found %s",
	ErrRegexUnexpectedEnd:                 "Regex should ends with '/' character, but found %s",
	ErrRegexInvalid:                       "Invalid regex %s",

	// enum
	ErrEnumArrayExpected:  `An array was expected as a value for the "enum"`,
	ErrEnumIsHoldRuleName: "Can't append specific value to enum initialized with rule name",
	ErrEnumRuleNotFound:   "Enum rule %q not found",
	ErrNotAnEnumRule:      "Rule %q not an Enum",
}

func (c ErrorCode) Code() ErrorCode {
	return c
}

func (c ErrorCode) Itoa() string {
	return strconv.Itoa(int(c))
}

func (c ErrorCode) Error() string {
	if format, ok := errorFormat[c]; ok {
		cnt := strings.Count(format, "%s")
		cnt += strings.Count(format, "%q")
		if cnt == 0 {
			return format
		} else {
			panic("Not enough data to generate an error message from template: " + format)
		}
	}
	panic("Unknown error code")
}
