package regex

import (
	stdErrors "errors"
	"fmt"
	"regexp"

	"github.com/lucasjones/reggen"

	jschema "verif/harness/ref"
	"verif/harness/ref/bytes"
	"verif/harness/ref/errors"
	"verif/harness/ref/fs"
	"verif/harness/ref/internal/sync"
)

type Schema struct {
	file *fs.File

	pattern       string
	compileOnce   sync.ErrOnce
	exampleOnce   sync.ErrOnceWithValue[[]byte]
	generatorSeed int64
}

var _ jschema.Schema = &Schema{}

// exampleAttempts how many generated strings are tried as the example.
const exampleAttempts = 100

type Option func(*Schema)

// WithGeneratorSeed pass specific seed to regex example generator.
// Necessary for test.
func WithGeneratorSeed(seed int64) Option {
	return func(s *Schema) {
		s.generatorSeed = seed
	}
}

// New creates a Regex schema with specified name and content.
func New[T fs.FileContent](name string, content T, oo ...Option) *Schema {
	return FromFile(fs.NewFile(name, content), oo...)
}

// FromFile creates a Regex schema from file.
func FromFile(f *fs.File, oo ...Option) *Schema {
	s := &Schema{
		file: f,
	}

	for _, o := range oo {
		o(s)
	}

	return s
}

func (s *Schema) Pattern() (string, error) {
	if err := s.compile(); err != nil {
		return "", err
	}
	return s.pattern, nil
}

func (s *Schema) Len() (uint, error) {
	if err := s.compile(); err != nil {
		return 0, err
	}
	// Add 2 for beginning and ending '/' character.
	return uint(len(s.pattern)) + 2, nil
}

func (s *Schema) Example() ([]byte, error) {
	if err := s.compile(); err != nil {
		return nil, err
	}

	return s.generateExample()
}

// generateExample returns the example of this type. It is generated once: the
// generator is not safe for concurrent use and advances with every call, and
// the example of a type must not depend on how often it was asked for.
func (s *Schema) generateExample() ([]byte, error) {
	ex, err := s.exampleOnce.Do(func() (ex []byte, err error) {
		defer func() {
			// The generator panics on some patterns it cannot serve (an empty
			// character class, for one).
			if r := recover(); r != nil {
				e := errors.NewDocumentError(s.file, errors.Format(errors.ErrGeneric, fmt.Sprintf("example generator: %v", r)))
				ex, err = nil, e
			}
		}()
		g, err := reggen.NewGenerator(s.pattern)
		if err != nil {
			return nil, err
		}
		g.SetSeed(s.generatorSeed)

		// The generator knows nothing about anchors inside alternatives and the
		// like: what it makes is taken only if the pattern matches it.
		re, err := regexp.Compile(s.pattern)
		if err != nil {
			return nil, err
		}
		for i := 0; i < exampleAttempts; i++ {
			if ex := []byte(g.Generate(1)); re.Match(ex) {
				return ex, nil
			}
		}
		e := errors.NewDocumentError(s.file, errors.Format(errors.ErrGeneric, "example generator: no example matching the pattern found"))
		return nil, e
	})
	if err != nil {
		return nil, err
	}

	// The caller gets bytes of its own.
	return append([]byte(nil), ex...), nil
}

func (*Schema) AddType(string, jschema.Schema) error {
	// Regex doesn't use any user types at all.
	return nil
}

func (*Schema) AddRule(string, jschema.Rule) error {
	// Regex doesn't use any rules at all.
	return nil
}

func (s *Schema) Check() error {
	return s.compile()
}

func (*Schema) Validate(jschema.Document) error {
	return stdErrors.New("unimplemented")
}

func (s *Schema) GetAST() (jschema.ASTNode, error) {
	if err := s.compile(); err != nil {
		return jschema.ASTNode{}, err
	}
	return jschema.ASTNode{
		IsKeyShortcut: false,
		TokenType:     jschema.TokenTypeString,
		SchemaType:    string(jschema.SchemaTypeString),
		Rules:         nil,
		Value:         "/" + s.pattern + "/",
	}, nil
}

func (*Schema) UsedUserTypes() ([]string, error) {
	// Regex doesn't use any user types at all.
	return nil, nil
}

func (s *Schema) compile() error {
	return s.compileOnce.Do(func() error {
		return s.doCompile()
	})
}

func (s *Schema) doCompile() error {
	content := s.file.Content()

	if len(content) == 0 {
		return errors.NewDocumentError(s.file, errors.Format(errors.ErrRegexUnexpectedStart, "end of input"))
	}

	if content[0] != '/' {
		return s.newDocumentError(errors.ErrRegexUnexpectedStart, 0, content[0])
	}

	var escaped, closed bool

loop:
	for i, c := range content[1:] {
		switch c {
		case '\\':
			escaped = !escaped

		case '/':
			if !escaped {
				s.pattern = string(content[1 : i+1])
				closed = true
				break loop
			}
			escaped = false

		default:
			escaped = false
		}
	}

	if !closed { // "//" is the empty pattern
		idx := uint(len(content) - 1)
		return s.newDocumentError(errors.ErrRegexUnexpectedEnd, idx, content[idx])
	}

	if _, err := regexp.Compile(s.pattern); err != nil {
		e := errors.Format(errors.ErrRegexInvalid, content)
		err := errors.NewDocumentError(s.file, e)
		err.SetIndex(bytes.Index(0))
		return err
	}
	return nil
}

func (s *Schema) newDocumentError(code errors.ErrorCode, idx uint, c byte) errors.DocumentError {
	e := errors.Format(code, bytes.QuoteChar(c))
	err := errors.NewDocumentError(s.file, e)
	err.SetIndex(bytes.Index(idx))
	return err
}
