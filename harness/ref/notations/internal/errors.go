package internal

import (
	jschema "verif/harness/ref"
	"verif/harness/ref/errors"
)

type ValidationError struct {
	message string
	code    errors.ErrorCode
}

var _ jschema.ValidationError = ValidationError{}

func NewValidatorError(c errors.ErrorCode, msg string) ValidationError {
	return ValidationError{
		message: msg,
		code:    c,
	}
}

func (v ValidationError) Error() string {
	return errors.Format(v.code).Error()
}

func (v ValidationError) Message() string {
	return v.message
}

func (v ValidationError) ErrCode() int {
	return int(v.code)
}
