package jschema

import (
	stdErrors "errors"
	"fmt"
	"io"
	"strings"

	jschema "verif/harness/ref"
	"verif/harness/ref/errors"
	"verif/harness/ref/formats/json"
	"verif/harness/ref/fs"
	"verif/harness/ref/internal/panics"
	"verif/harness/ref/internal/sync"
	"verif/harness/ref/notations/internal"
	"verif/harness/ref/notations/jschema/internal/checker"
	"verif/harness/ref/notations/jschema/internal/loader"
	"verif/harness/ref/notations/jschema/internal/scanner"
	internalSchema "verif/harness/ref/notations/jschema/internal/schema"
	"verif/harness/ref/notations/jschema/internal/schema/constraint"
	"verif/harness/ref/notations/jschema/internal/validator"
	"verif/harness/ref/notations/regex"
)

type Schema struct {
	file  *fs.File
	inner *internalSchema.Schema

	rules map[string]jschema.Rule

	usedUserTypes []string

	lenOnce     sync.ErrOnceWithValue[uint]
	loadOnce    sync.ErrOnce
	compileOnce sync.ErrOnce

	astNode                  jschema.ASTNode
	areKeysOptionalByDefault bool
}

var _ jschema.Schema = (*Schema)(nil)

// New creates a Jsight schema with specified name and content.
func New[T fs.FileContent](name string, content T, oo ...Option) *Schema {
	return FromFile(fs.NewFile(name, content), oo...)
}

// FromFile creates a Jsight schema from file.
func FromFile(f *fs.File, oo ...Option) *Schema {
	s := &Schema{
		file:  f,
		rules: map[string]jschema.Rule{},
	}

	for _, o := range oo {
		o(s)
	}

	return s
}

type Option func(s *Schema)

func KeysAreOptionalByDefault() Option {
	return func(s *Schema) {
		s.areKeysOptionalByDefault = true
	}
}

func (s *Schema) Len() (uint, error) {
	return s.lenOnce.Do(func() (uint, error) {
		return s.computeLen()
	})
}

func (s *Schema) computeLen() (length uint, err error) {
	// Iterate through all lexemes until we reach the end
	// We should rewind here in case we call NextLexeme method.
	defer func() {
		err = panics.Handle(recover(), err)
	}()

	return scanner.New(s.file, scanner.ComputeLength).Length(), err
}

func (s *Schema) Example() (b []byte, err error) {
	defer func() {
		err = panics.Handle(recover(), err)
	}()

	if err := s.compile(); err != nil {
		return nil, err
	}

	if s.inner.RootNode() == nil {
		return nil, errors.NewDocumentError(s.file, errors.ErrEmptySchema)
	}

	return newExampleBuilder(s.inner.TypesList()).Build(s.inner.RootNode())
}

func (s *Schema) AddType(name string, sc jschema.Schema) (err error) {
	defer func() {
		err = panics.Handle(recover(), err)
	}()

	if err := s.load(); err != nil {
		return err
	}

	switch typ := sc.(type) {
	case *Schema:
		if err := typ.load(); err != nil {
			return fmt.Errorf("load added type: %w", err)
		}

		s.inner.AddNamedType(name, typ.inner, typ.file, 0)
	case *regex.Schema:
		pattern, err := typ.Pattern()
		if err != nil {
			return err
		}

		example, err := typ.Example()
		if err != nil {
			return fmt.Errorf("generate example for Regex type: %w", err)
		}

		// JSON quoting, not Go's: %q writes control characters as \x07 or \a,
		// which the schema scanner rightly refuses.
		typSc := New(name, fmt.Sprintf("\"%s\" // {regex: \"%s\"}", escapeJSONString(string(example)), escapeJSONString(pattern)))
		if err := typSc.load(); err != nil {
			return fmt.Errorf("load added type: %w", err)
		}

		s.inner.AddNamedType(name, typSc.inner, typSc.file, 0)

	default:
		return fmt.Errorf("schema should be JSight or Regex schema, but %T given", sc)
	}

	return nil
}

func (s *Schema) AddRule(n string, r jschema.Rule) error {
	if s.inner != nil {
		return stdErrors.New("schema is already compiled")
	}

	if r == nil {
		return stdErrors.New("rule is nil")
	}

	if err := r.Check(); err != nil {
		return err
	}
	s.rules[n] = r
	return nil
}

func (s *Schema) Check() (err error) {
	defer func() {
		err = panics.Handle(recover(), err)
	}()
	return s.compile()
}

func (s *Schema) Validate(document jschema.Document) (err error) {
	defer func() {
		err = panics.Handle(recover(), err)
	}()
	if err := s.compile(); err != nil {
		return err
	}

	jsonDocument, ok := document.(*json.Document)
	if !ok {
		return fmt.Errorf("support only JSON documents, but got %T", document)
	}
	// The document may have been read before, by an earlier Validate or by
	// the caller: the verdict is about the whole document.
	jsonDocument.Rewind()

	if s.inner.RootNode() == nil {
		return errors.NewDocumentError(s.file, errors.ErrEmptySchema)
	}

	return s.validate(document)
}

func (s *Schema) validate(document jschema.Document) error {
	tree := validator.NewTree(
		validator.NodeValidatorList(s.inner.RootNode(), *s.inner, nil),
	)

	empty := true

	for {
		jsonLex, err := document.NextLexeme()
		if err != nil {
			if stdErrors.Is(err, io.EOF) {
				break
			}
			return err
		}

		empty = false
		if tree.FeedLeaves(jsonLex) { // can panic: error of validation
			break
		}
	}

	if empty {
		return internal.NewValidatorError(errors.ErrEmptyJson, "")
	}

	// check for error: Invalid non-space byte after top-level value
	for {
		_, err := document.NextLexeme()
		if err != nil {
			if stdErrors.Is(err, io.EOF) {
				break
			}
			return err
		}
	}
	return nil
}

func (s *Schema) GetAST() (an jschema.ASTNode, err error) {
	if err := s.compile(); err != nil {
		return jschema.ASTNode{}, err
	}

	return s.astNode, nil
}

func (s *Schema) UsedUserTypes() ([]string, error) {
	if err := s.load(); err != nil {
		return nil, err
	}
	return s.usedUserTypes, nil
}

func (s *Schema) load() error {
	return s.loadOnce.Do(func() (err error) {
		defer func() {
			err = panics.Handle(recover(), err)
		}()
		sc := loader.LoadSchemaWithoutCompile(
			scanner.New(s.file),
			nil,
			s.rules,
		)
		s.inner = &sc
		s.astNode = s.buildASTNode()
		s.collectUserTypes()
		loader.CompileBasic(s.inner, s.areKeysOptionalByDefault)
		return nil
	})
}

func (s *Schema) Build() error {
	return s.compile()
}

func (s *Schema) collectUserTypes() {
	node := s.inner.RootNode()
	// This is possible when schema isn't valid.
	if node == nil {
		return
	}

	s.usedUserTypes = collectUserTypes(node, s.inner.TypesList())
}

func collectUserTypes(node internalSchema.Node, types map[string]internalSchema.Type) []string {
	c := &userTypesCollector{
		alreadyProcessed: map[string]struct{}{},
		types:            types,
	}
	c.collect(node)
	return c.userTypes
}

type userTypesCollector struct {
	alreadyProcessed map[string]struct{}
	userTypes        []string

	// types the types known to the schema: the unnamed ones (the rule sets of
	// an "or" rule) are looked into, they are part of the schema's own text.
	types map[string]internalSchema.Type
}

func (c *userTypesCollector) collect(node internalSchema.Node) {
	c.collectUserTypesFromTypesListConstraint(node)
	c.collectUserTypesFromTypeConstraint(node)
	c.collectUserTypesFromAllOfConstraint(node)

	switch n := node.(type) {
	case *internalSchema.ObjectNode:
		c.collectUserTypesFromAdditionalPropertiesOfConstraint(node)
		c.collectUserTypesObjectNode(n)

	case *internalSchema.ArrayNode:
		for _, child := range n.Children() {
			c.collect(child)
		}

	case *internalSchema.MixedValueNode:
		for _, ut := range strings.Split(n.Value().String(), "|") {
			s := strings.TrimSpace(ut)
			if strings.HasPrefix(s, "@") {
				c.addType(s)
			}
		}
	}
}

func (c *userTypesCollector) collectUserTypesFromTypesListConstraint(node internalSchema.Node) {
	cnstr := node.Constraint(constraint.TypesListConstraintType)
	if cnstr == nil {
		return
	}

	list, ok := cnstr.(*constraint.TypesList)
	if !ok {
		return
	}

	for _, name := range list.Names() {
		if strings.HasPrefix(name, "@") {
			c.addType(name)
			continue
		}
		// A rule set such as {type: "@x", nullable: true}.
		if _, done := c.alreadyProcessed[name]; !done && strings.HasPrefix(name, "#") {
			c.alreadyProcessed[name] = struct{}{}
			if t, ok := c.types[name]; ok && t.Schema().RootNode() != nil {
				c.collect(t.Schema().RootNode())
			}
		}
	}
}

func (c *userTypesCollector) collectUserTypesFromTypeConstraint(node internalSchema.Node) {
	cnstr := node.Constraint(constraint.TypeConstraintType)
	if cnstr == nil {
		return
	}

	typ, ok := cnstr.(*constraint.TypeConstraint)
	if !ok {
		return
	}

	name := typ.Bytes().Unquote().String()
	if strings.HasPrefix(name, "@") {
		c.addType(name)
	}
}

func (c *userTypesCollector) collectUserTypesFromAllOfConstraint(node internalSchema.Node) {
	cnstr := node.Constraint(constraint.AllOfConstraintType)
	if c == nil {
		return
	}

	allOf, ok := cnstr.(*constraint.AllOf)
	if !ok {
		return
	}

	for _, name := range allOf.SchemaNames() {
		if strings.HasPrefix(name, "@") {
			c.addType(name)
		}
	}
}

func (c *userTypesCollector) collectUserTypesFromAdditionalPropertiesOfConstraint(node internalSchema.Node) {
	cnstr := node.Constraint(constraint.AdditionalPropertiesConstraintType)
	if c == nil {
		return
	}

	ap, ok := cnstr.(*constraint.AdditionalProperties)
	if !ok {
		return
	}

	if ap.Mode() == constraint.AdditionalPropertiesMustBeUserType {
		c.addType(ap.TypeName().String())
	}
}

func (c *userTypesCollector) collectUserTypesObjectNode(node *internalSchema.ObjectNode) {
	for _, v := range node.Keys().Data {
		k := v.Key

		if v.IsShortcut {
			if strings.HasPrefix(k, "@") {
				c.addType(k)
			}
		}

		child, ok := node.Child(k, v.IsShortcut)
		if ok {
			c.collect(child)
		}
	}
}

func (c *userTypesCollector) addType(n string) {
	if _, ok := c.alreadyProcessed[n]; ok {
		return
	}
	c.alreadyProcessed[n] = struct{}{}
	c.userTypes = append(c.userTypes, n)
}

func (s *Schema) buildASTNode() jschema.ASTNode {
	root := s.inner.RootNode()
	if root == nil {
		// This case will be handled in loader.CompileBasic.
		return jschema.ASTNode{
			Rules: &jschema.RuleASTNodes{},
		}
	}

	an, err := root.ASTNode()
	if err != nil {
		panic(err)
	}
	return an
}

func (s *Schema) compile() error {
	return s.compileOnce.Do(func() (err error) {
		defer func() {
			err = panics.Handle(recover(), err)
		}()
		if err := s.load(); err != nil {
			return err
		}
		// The types an added type knows - the parents of its "allOf" rules
		// among them - have to be known before those rules are compiled; the
		// compilation hands down further types, which are taken over after it.
		loader.AddUnnamedTypes(s.inner)
		loader.CompileAllOf(s.inner)
		loader.AddUnnamedTypes(s.inner)
		checker.CheckRootSchema(s.inner)
		return checker.CheckRecursion(s.file.Name(), s.inner)
	})
}
