package scanner

import (
	"verif/harness/ref/bytes"
	"verif/harness/ref/errors"
	"verif/harness/ref/internal/lexeme"
)

type annotation uint8

const (
	// annotationNone not inside the annotation.
	annotationNone annotation = iota

	// annotationInline inside the inline annotation.
	annotationInline

	// annotationMultiLine inside the multi-line annotation.
	annotationMultiLine
)

func (*Scanner) isAnnotationStart(c byte) bool {
	return c == '/'
}

func (s *Scanner) switchToAnnotation() {
	if !s.allowAnnotation {
		err := errors.NewDocumentError(s.file, errors.Format(errors.ErrAnnotationNotAllowed))
		err.SetIndex(s.index - 1)
		panic(err)
	}

	s.returnToStep.Push(s.step)
	s.afterFirstSlash = true

	switch s.annotation {
	case annotationNone:
		s.step = stateAnyAnnotationStart

	case annotationMultiLine:
		s.step = stateInlineAnnotationStart

	default:
		panic(s.newDocumentErrorAtCharacter("inside inline annotation"))
	}
}

func stateAnyAnnotationStart(s *Scanner, c byte) state {
	s.afterFirstSlash = false
	switch c {
	case '/': // second slash - inline annotation
		s.annotation = annotationInline
		s.found(lexeme.InlineAnnotationBegin)
		s.step = stateInlineAnnotation
		return scanContinue
	case '*': // multi-line annotation
		s.annotation = annotationMultiLine
		s.found(lexeme.MultiLineAnnotationBegin)
		s.step = stateMultiLineAnnotation
		return scanContinue
	}
	panic(s.newDocumentErrorAtCharacter("after first slash"))
}

/////////////////////////////
// Inline annotations states.

func stateInlineAnnotationStart(s *Scanner, c byte) state {
	s.afterFirstSlash = false
	// second slash - inline annotation
	if c != '/' {
		panic(s.newDocumentErrorAtCharacter("after first slash on start inline annotation"))
	}
	s.annotation = annotationInline
	s.found(lexeme.InlineAnnotationBegin)
	s.step = stateInlineAnnotation
	return scanContinue
}

func stateInlineAnnotation(s *Scanner, c byte) state {
	switch c {
	case ' ', '\t':
		return scanContinue

	case '{':
		return stateFoundRootValue(s, c)
	}

	s.found(lexeme.InlineAnnotationTextBegin)
	s.step = stateInlineAnnotationText
	return s.step(s, c)
}

func stateInlineAnnotationTextPrefix(s *Scanner, c byte) state {
	switch {
	case bytes.IsSpace(c):

	case bytes.IsNewLine(c):
		s.found(lexeme.InlineAnnotationEnd)
		s.found(lexeme.NewLine)
		// As after an annotation which ends in a note: no annotation on a line
		// of its own may follow.
		fn := s.returnToStep.Pop()
		s.step = func(s *Scanner, c byte) state {
			if s.isAnnotationStart(c) && s.annotation != annotationMultiLine {
				panic(s.newDocumentErrorAtCharacter("after inline annotation"))
			}
			return fn(s, c)
		}

		s.annotation = annotationNone
		if s.isInsideMultiLineAnnotation() {
			s.annotation = annotationMultiLine
		}

	case s.isCommentStart(c):
		s.switchToComment()

	case c == '-':
		s.step = stateInlineAnnotationTextPrefix2

	default:
		panic(s.newDocumentErrorAtCharacter("after object in inline annotation"))
	}

	return scanContinue
}

func stateInlineAnnotationTextPrefix2(s *Scanner, c byte) state {
	if bytes.IsSpace(c) {
		return scanContinue
	}
	s.found(lexeme.InlineAnnotationTextBegin)
	s.step = stateInlineAnnotationText
	return s.step(s, c)
}

func stateInlineAnnotationText(s *Scanner, c byte) state {
	switch c {
	case '\n', '\r':
		s.found(lexeme.InlineAnnotationTextEnd)
		s.found(lexeme.InlineAnnotationEnd)
		s.found(lexeme.NewLine)
		fn := s.returnToStep.Pop()
		s.step = func(s *Scanner, c byte) state {
			// Inside a multi-line annotation this was a comment in a list of
			// values: another comment line may follow it.
			if s.isAnnotationStart(c) && s.annotation != annotationMultiLine {
				panic(s.newDocumentErrorAtCharacter("after inline annotation"))
			}
			return fn(s, c)
		}

		s.annotation = annotationNone
		if s.isInsideMultiLineAnnotation() {
			s.annotation = annotationMultiLine
		}

	case '#':
		if !s.isInsideMultiLineAnnotation() {
			s.found(lexeme.InlineAnnotationTextEnd)
			s.found(lexeme.InlineAnnotationEnd)
			s.step = stateInlineAnnotationTextSkip
		}
	}
	return scanContinue
}

func stateInlineAnnotationTextSkip(s *Scanner, c byte) state {
	if !bytes.IsNewLine(c) {
		return scanContinue
	}

	s.found(lexeme.NewLine)
	fn := s.returnToStep.Pop()
	s.step = func(s *Scanner, c byte) state {
		if s.isAnnotationStart(c) {
			panic(s.newDocumentErrorAtCharacter("after inline annotation"))
		}
		return fn(s, c)
	}

	s.annotation = annotationNone
	if s.isInsideMultiLineAnnotation() {
		s.annotation = annotationMultiLine
	}
	return scanContinue
}

/////////////////////////////////
// Multi-line annotations states.

func stateMultiLineAnnotation(s *Scanner, c byte) state {
	if s.isNewLine(c) {
		s.found(lexeme.NewLine)
		return scanContinue
	}
	if bytes.IsBlank(c) {
		return scanContinue
	}
	if c == '{' {
		return stateFoundRootValue(s, c)
	}

	s.found(lexeme.MultiLineAnnotationTextBegin)
	s.step = stateMultiLineAnnotationText
	return s.step(s, c)
}

func stateMultiLineAnnotationTextPrefix(s *Scanner, c byte) state {
	switch {
	case bytes.IsNewLine(c):
		s.found(lexeme.NewLine)

	case bytes.IsSpace(c):

	case s.isCommentStart(c):
		s.switchToComment()

	case c == '*':
		s.step = stateMultiLineAnnotationEnd

	case c == '-':
		s.step = stateMultiLineAnnotationTextPrefix2

	default:
		panic(s.newDocumentErrorAtCharacter("after object in multi-line annotation"))
	}
	return scanContinue
}

func stateMultiLineAnnotationTextPrefix2(s *Scanner, c byte) state {
	if bytes.IsSpace(c) {
		return scanContinue
	}
	s.found(lexeme.MultiLineAnnotationTextBegin)
	s.step = stateMultiLineAnnotationText
	return s.step(s, c)
}

func stateMultiLineAnnotationEnd(s *Scanner, c byte) state {
	if c != '/' {
		panic(s.newDocumentErrorAtCharacter("in multi-line annotation after \"*\" character"))
	}
	// after *
	s.annotation = annotationNone
	s.found(lexeme.MultiLineAnnotationEnd)
	s.step = s.returnToStep.Pop()
	return scanContinue
}

func stateMultiLineAnnotationText(s *Scanner, c byte) state {
	if c == '*' && s.index < s.dataSize && s.data[s.index] == '/' {
		s.found(lexeme.MultiLineAnnotationTextEnd)
		s.step = stateMultiLineAnnotationEnd
	}
	return scanContinue
}

/////////////////////////////
// Common annotations states.

func stateBeginAnnotationObjectKeyOrEmpty(s *Scanner, c byte) state {
	if c == '}' {
		return stateFoundObjectEnd(s)
	}
	s.found(lexeme.ObjectKeyBegin)
	return stateBeginAnnotationObjectKey(s, c)
}

func stateBeginAnnotationObjectKey(s *Scanner, c byte) state {
	if c == '"' {
		s.boundary = '"'
		s.step = stateInString
		return scanBeginLiteral
	}

	s.boundary = 0 // default value
	s.step = stateInAnnotationObjectKeyFirstLetter
	return s.step(s, c)
}

func stateInAnnotationObjectKeyFirstLetter(s *Scanner, c byte) state {
	if (s.boundary == 0 && (c == ':' || bytes.IsNewLine(c) || c == '\\')) || c == s.boundary || c < 0x20 {
		panic(s.newDocumentError(errors.ErrInvalidCharacterInAnnotationObjectKey, c))
	}
	s.step = stateInAnnotationObjectKey
	return scanContinue
}

func stateInAnnotationObjectKey(s *Scanner, c byte) state {
	switch {
	case s.boundary == 0 && c == ':':
		return stateEndValue(s, c)

	case c == s.boundary:
		s.step = stateEndValue

	case bytes.IsSpace(c) || (s.annotation == annotationMultiLine && bytes.IsNewLine(c)):
		// In a multi-line annotation the colon may stand on the next line.
		s.step = stateInAnnotationObjectKeyAfter

	case c < 0x20 || (c == '"' || bytes.IsNewLine(c)):
		panic(s.newDocumentError(errors.ErrInvalidCharacterInAnnotationObjectKey, c))
	}
	return scanContinue
}

func stateInAnnotationObjectKeyAfter(s *Scanner, c byte) state {
	switch {
	case s.boundary == 0 && c == ':':
		return stateEndValue(s, c)

	case bytes.IsSpace(c) || (s.annotation == annotationMultiLine && bytes.IsNewLine(c)):
		return scanContinue
	}
	panic(s.newDocumentError(errors.ErrInvalidCharacterInAnnotationObjectKey, c))
}
