package schema

import (
	"errors"

	jschema "verif/harness/ref"
	"verif/harness/ref/notations/jschema/internal/schema/constraint"
)

func newASTNode() jschema.ASTNode {
	return jschema.ASTNode{
		Rules: &jschema.RuleASTNodes{},
	}
}

func astNodeFromNode(n Node) jschema.ASTNode {
	an := newASTNode()

	an.TokenType = n.Type().ToTokenType()
	an.SchemaType = getASTNodeSchemaType(n)
	an.Rules = collectASTRules(n.ConstraintMap())
	an.Comment = n.Comment()

	return an
}

func getASTNodeSchemaType(n Node) string {
	if n.Constraint(constraint.EnumConstraintType) != nil {
		return "enum"
	}

	if n.Constraint(constraint.OrConstraintType) != nil {
		return string(jschema.SchemaTypeMixed)
	}

	if c := n.Constraint(constraint.TypeConstraintType); c != nil {
		if tc, ok := c.(*constraint.TypeConstraint); ok {
			return tc.Bytes().Unquote().String()
		}
	}

	if n.Constraint(constraint.PrecisionConstraintType) != nil {
		return string(jschema.SchemaTypeDecimal)
	}

	return n.Type().String()
}

func collectASTRules(cc *Constraints) *jschema.RuleASTNodes {
	nn := &jschema.RuleASTNodes{}

	err := cc.Each(func(k constraint.Type, v constraint.Constraint) error {
		switch k {
		// The `Or` constraint doesn't contain all required values, but they are placed
		// in the `type` constraint.
		case constraint.OrConstraintType:
			types, ok := cc.Get(constraint.TypesListConstraintType)
			if !ok {
				//goland:noinspection GoErrorStringFormat
				return errors.New(`Can't collect rules: "types" constraint is required with "or"" constraint`)
			}

			nn.Set(constraint.OrConstraintType.String(), types.ASTNode())

		case constraint.TypesListConstraintType:
			// do nothing

		default:
			nn.Set(k.String(), v.ASTNode())
		}
		return nil
	})
	if err != nil {
		panic(err)
	}
	return nn
}
