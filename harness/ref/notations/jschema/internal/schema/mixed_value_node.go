package schema

import (
	"strings"

	jschema "verif/harness/ref"
	"verif/harness/ref/bytes"
	"verif/harness/ref/errors"
	"verif/harness/ref/internal/json"
	"verif/harness/ref/internal/lexeme"
	"verif/harness/ref/notations/jschema/internal/schema/constraint"
)

type MixedValueNode struct {
	schemaType string
	value      string

	types []string

	baseNode
}

var _ Node = (*MixedValueNode)(nil)

func NewMixedValueNode(lex lexeme.LexEvent) *MixedValueNode {
	n := MixedValueNode{
		baseNode: newBaseNode(lex),
	}
	n.setJsonType(json.TypeMixed)
	n.realType = json.TypeMixed.String()
	return &n
}

func (*MixedValueNode) SetRealType(string) bool {
	// Mixed value node is always have mixed type.
	return true
}

func (n *MixedValueNode) AddConstraint(c constraint.Constraint) {
	switch t := c.(type) {
	case *constraint.TypeConstraint:
		n.addTypeConstraint(t)
		// The rule type: "mixed" names no type, the types of the value stay.
		if t.Bytes().Unquote().String() != "mixed" {
			n.types = []string{t.Bytes().String()}
		}

	case *constraint.Or:
		n.addOrConstraint(t)

	case *constraint.TypesList:
		n.types = t.Names()
		n.baseNode.AddConstraint(t)

	default:
		n.baseNode.AddConstraint(t)
	}
}

func (n *MixedValueNode) addTypeConstraint(c *constraint.TypeConstraint) {
	exists, ok := n.constraints.Get(constraint.TypeConstraintType)
	if !ok {
		n.baseNode.AddConstraint(c)
		n.schemaType = c.Bytes().Unquote().String()
		return
	}

	newVal := c.Bytes().Unquote().String()
	existsVal := exists.(constraint.BytesKeeper).Bytes().Unquote().String()
	if newVal != existsVal && newVal != "mixed" {
		panic(errors.Format(errors.ErrDuplicateRule, c.Type().String()))
	}
	n.constraints.Set(c.Type(), c)
	n.schemaType = "mixed"
}

func (n *MixedValueNode) addOrConstraint(c *constraint.Or) {
	if tc, ok := n.constraints.Get(constraint.TypeConstraintType); ok {
		n.addTypeConstraint(constraint.NewType(
			bytes.Bytes(`"mixed"`),
			tc.(*constraint.TypeConstraint).Source(),
		))
	}
	n.baseNode.AddConstraint(c)
}

func (n *MixedValueNode) Grow(lex lexeme.LexEvent) (Node, bool) {
	switch lex.Type() {
	case lexeme.MixedValueBegin:

	case lexeme.MixedValueEnd:
		n.schemaLexEvent = lex
		n.value = lex.Value().TrimSpaces().String()
		n.schemaType = n.value
		return n.parent, false

	default:
		panic(`Unexpected lexical event "` + lex.Type().String() + `" in mixed value node`)
	}

	return n, false
}

func (n *MixedValueNode) ASTNode() (jschema.ASTNode, error) {
	an := astNodeFromNode(n)

	an.SchemaType = n.schemaType
	if strings.ContainsRune(n.value, '|') {
		an.SchemaType = json.TypeMixed.String()
	}
	an.Value = n.value
	return an, nil
}

func (n *MixedValueNode) GetTypes() []string {
	return n.types
}
