package schema

//go:generate mockery --name Node --output ../mocks

import (
	"sync"

	jschema "verif/harness/ref"
	"verif/harness/ref/bytes"
	"verif/harness/ref/internal/json"
	"verif/harness/ref/internal/lexeme"
	"verif/harness/ref/notations/jschema/internal/schema/constraint"
)

// The Node of the internal representation of the scheme.
// Roughly corresponds to the JSON element in the EXAMPLE of schema.
// Contains information about the constraints imposed on the node.
type Node interface {
	// Type returns type of this node.
	Type() json.Type

	SetRealType(string) bool
	RealType() string

	// Parent returns a parent of this node.
	Parent() Node

	// SetParent sets a parent for this node.
	SetParent(Node)

	// BasisLexEventOfSchemaForNode returns a LexEvent from the scheme on the
	// basis of which the node is created. It is used to check on the schemes for
	// compliance with the example and the list of constraints. Also used to display
	// an error.
	BasisLexEventOfSchemaForNode() lexeme.LexEvent

	// Grow this method receives the input lexical event from the scanner, fill
	// yourself with data from them. If necessary, creates children. Returns the
	// node to which you want to pass the next lexeme (yourself, child, or parent).
	Grow(lexeme.LexEvent) (Node, bool)

	// Constraint returns a constraint by its type.
	Constraint(constraint.Type) constraint.Constraint

	// AddConstraint adds a constraint to this node.
	AddConstraint(constraint.Constraint)

	// DeleteConstraint removes a constraint from this node.
	DeleteConstraint(constraint.Type)

	// ConstraintMap returns a list of constraints or nil (if empty).
	ConstraintMap() *Constraints

	// NumberOfConstraints returns the number of constraints.
	NumberOfConstraints() int

	// Value returns this node's value.
	Value() bytes.Bytes

	// ASTNode returns proper ASTNode for this node.
	ASTNode() (jschema.ASTNode, error)

	// SetComment sets a comment for this node.
	SetComment(string)

	// Comment returns this node comment.
	Comment() string
}

// Constraints an ordered map of node constraints.
// gen:OrderedMap
type Constraints struct {
	data  map[constraint.Type]constraint.Constraint
	order []constraint.Type
	mx    sync.RWMutex
}

// BranchNode that can contain child elements (an array or an object).
type BranchNode interface {
	Children() []Node
	Len() int
}

func NewNode(lex lexeme.LexEvent) Node {
	switch lex.Type() { //nolint:exhaustive // We will throw a panic in over cases.
	case lexeme.LiteralBegin:
		return newLiteralNode(lex)
	case lexeme.ObjectBegin:
		return newObjectNode(lex)
	case lexeme.ArrayBegin:
		return newArrayNode(lex)
	case lexeme.MixedValueBegin:
		return NewMixedValueNode(lex)
	}
	panic(`Can not create node from the lexical event "` + lex.Type().String() + `"`)
}

// IsOptionalNode returns true is node is optional.
func IsOptionalNode(n Node) bool {
	c := n.Constraint(constraint.OptionalConstraintType)
	if c == nil {
		return false
	}

	bk, ok := c.(constraint.BoolKeeper)
	if !ok {
		return false
	}

	return bk.Bool()
}
