package schema

import (
	jschema "verif/harness/ref"
	"verif/harness/ref/errors"
	"verif/harness/ref/internal/json"
	"verif/harness/ref/internal/lexeme"
)

type ArrayNode struct {
	// children a children node list.
	children []Node

	baseNode

	// waitingForChild indicates that we should add children.
	// The Grow method will create a child node by getting the next lexical event.
	waitingForChild bool
}

var _ Node = &ArrayNode{}

func newArrayNode(lex lexeme.LexEvent) *ArrayNode {
	n := ArrayNode{
		baseNode: newBaseNode(lex),
		children: make([]Node, 0, 10),
	}
	n.setJsonType(json.TypeArray)
	return &n
}

func (n *ArrayNode) Grow(lex lexeme.LexEvent) (Node, bool) {
	if n.waitingForChild {
		n.waitingForChild = false
		child := NewNode(lex)
		n.addChild(child)
		return child, true
	}

	switch lex.Type() {
	case lexeme.ArrayBegin, lexeme.ArrayItemEnd:

	case lexeme.ArrayItemBegin:
		n.waitingForChild = true

	case lexeme.ArrayEnd:
		return n.parent, false

	default:
		panic(`Unexpected lexical event "` + lex.Type().String() + `" in array node`)
	}

	return n, false
}

func (n *ArrayNode) addChild(child Node) {
	child.SetParent(n)
	n.children = append(n.children, child)
}

func (n ArrayNode) Children() []Node {
	return n.children
}

func (n ArrayNode) Len() int {
	return len(n.children)
}

func (n ArrayNode) Child(i uint) Node {
	length := uint(len(n.children))
	if length == 0 {
		panic(errors.ErrElementNotFoundInArray)
	} else if i >= length {
		i = length - 1
	}
	return n.children[i]
}

func (n *ArrayNode) ASTNode() (jschema.ASTNode, error) {
	an := astNodeFromNode(n)
	l := len(n.children)

	if l > 0 {
		an.Children = make([]jschema.ASTNode, 0, l)
	}

	for _, c := range n.children {
		cn, err := c.ASTNode()
		if err != nil {
			return jschema.ASTNode{}, err
		}
		an.Children = append(an.Children, cn)
	}

	return an, nil
}
