package schema

import (
	"verif/harness/ref/errors"
	"verif/harness/ref/internal/lexeme"
)

type ObjectNodeKeys struct {
	index map[indexKey]int
	Data  []ObjectNodeKey
}

type ObjectNodeKey struct {
	Key        string
	Lex        lexeme.LexEvent
	Index      int
	IsShortcut bool
}

type indexKey struct {
	Key        string
	IsShortcut bool
}

func indexKeyFromObjectNodeKey(k ObjectNodeKey) indexKey {
	return indexKey{
		Key:        k.Key,
		IsShortcut: k.IsShortcut,
	}
}

func newObjectNodeKeys() *ObjectNodeKeys {
	return &ObjectNodeKeys{
		Data:  make([]ObjectNodeKey, 0, 5),
		index: make(map[indexKey]int, 5),
	}
}

func (k *ObjectNodeKeys) Set(v ObjectNodeKey) {
	if k.isDuplicatedKey(v) {
		panic(errors.Format(errors.ErrDuplicateKeysInSchema, v.Key))
	}

	k.index[indexKeyFromObjectNodeKey(v)] = v.Index
	k.Data = append(k.Data, v)
}

func (k *ObjectNodeKeys) isDuplicatedKey(newKey ObjectNodeKey) bool {
	_, ok := k.index[indexKeyFromObjectNodeKey(newKey)]
	return ok
}

func (k ObjectNodeKeys) Find(i int) (ObjectNodeKey, bool) {
	if len(k.Data) > i {
		return k.Data[i], true
	}
	return ObjectNodeKey{}, false
}

func (k ObjectNodeKeys) Get(key string, isShortcut bool) (ObjectNodeKey, bool) {
	if i, ok := k.index[indexKey{
		Key:        key,
		IsShortcut: isShortcut,
	}]; ok {
		return k.Data[i], true
	}
	return ObjectNodeKey{}, false
}
