package constraint //nolint:dupl // Duplicates exclusive minimum with small differences.

import (
	"strconv"

	jschema "verif/harness/ref"
	"verif/harness/ref/bytes"
	"verif/harness/ref/errors"
	"verif/harness/ref/internal/json"
)

type ExclusiveMinimum struct {
	exclusive bool
}

var (
	_ Constraint = ExclusiveMinimum{}
	_ Constraint = (*ExclusiveMinimum)(nil)
)

func NewExclusiveMinimum(ruleValue bytes.Bytes) *ExclusiveMinimum {
	c := ExclusiveMinimum{}

	var err error
	if c.exclusive, err = ruleValue.ParseBool(); err != nil {
		panic(errors.Format(errors.ErrInvalidValueOfConstraint, ExclusiveMinimumConstraintType.String()))
	}
	return &c
}

func (ExclusiveMinimum) IsJsonTypeCompatible(t json.Type) bool {
	return t == json.TypeInteger || t == json.TypeFloat
}

func (ExclusiveMinimum) Type() Type {
	return ExclusiveMinimumConstraintType
}

func (c ExclusiveMinimum) String() string {
	str := "[ UNVERIFIABLE CONSTRAINT ] " + ExclusiveMinimumConstraintType.String()
	if c.exclusive {
		str += ": true"
	} else {
		str += ": false"
	}
	return str
}

func (c ExclusiveMinimum) IsExclusive() bool {
	return c.exclusive
}

func (c ExclusiveMinimum) ASTNode() jschema.RuleASTNode {
	return newRuleASTNode(jschema.TokenTypeBoolean, strconv.FormatBool(c.exclusive), jschema.RuleASTNodeSourceManual)
}
