package constraint

import (
	"strings"

	jschema "verif/harness/ref"
	"verif/harness/ref/internal/json"
)

type TypesList struct {
	innerTypeNames []string

	// typeNames collection of real type names, used only for building AST nodes.
	typeNames []string

	// elementASTNodes contains an AST node for all items in this constraint
	// This property was added only for build AST node, so it won't affect current
	// logic at all.
	elementASTNodes []jschema.RuleASTNode

	source jschema.RuleASTNodeSource

	hasUserTypes bool
}

var (
	_ Constraint = TypesList{}
	_ Constraint = (*TypesList)(nil)
)

func NewTypesList(s jschema.RuleASTNodeSource) *TypesList {
	return &TypesList{
		innerTypeNames: make([]string, 0, 5),
		source:         s,
	}
}

func (c TypesList) HasUserTypes() bool {
	return c.hasUserTypes
}

func (TypesList) IsJsonTypeCompatible(json.Type) bool {
	return true
}

func (TypesList) Type() Type {
	return TypesListConstraintType
}

func (c TypesList) String() string {
	return TypesListConstraintType.String() + ": " + strings.Join(c.innerTypeNames, ", ")
}

func (c *TypesList) AddName(name, typ string, s jschema.RuleASTNodeSource) {
	c.AddNameWithASTNode(name, typ, newRuleASTNode(jschema.TokenTypeString, typ, s))
}

func (c *TypesList) AddNameWithASTNode(name, typ string, an jschema.RuleASTNode) {
	c.innerTypeNames = append(c.innerTypeNames, name)
	c.typeNames = append(c.typeNames, typ)
	c.elementASTNodes = append(c.elementASTNodes, an)
	c.hasUserTypes = c.hasUserTypes || name[0] == '@'
}

func (c TypesList) Names() []string {
	return c.innerTypeNames
}

func (c TypesList) Len() int {
	return len(c.innerTypeNames)
}

func (c TypesList) ASTNode() jschema.RuleASTNode {
	n := newRuleASTNode(jschema.TokenTypeArray, "", c.source)
	n.Items = c.elementASTNodes
	return n
}

func (c TypesList) Source() jschema.RuleASTNodeSource { return c.source }
