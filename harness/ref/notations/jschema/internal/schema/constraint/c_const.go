package constraint

import (
	"strconv"

	jschema "verif/harness/ref"
	"verif/harness/ref/bytes"
	"verif/harness/ref/errors"
	"verif/harness/ref/internal/json"
)

type Const struct {
	nodeValue bytes.Bytes
	apply     bool
}

var (
	_ Constraint       = Const{}
	_ Constraint       = (*Const)(nil)
	_ BoolKeeper       = Const{}
	_ BoolKeeper       = (*Const)(nil)
	_ LiteralValidator = Const{}
	_ LiteralValidator = (*Const)(nil)
)

func NewConst(value, nodeValue bytes.Bytes) *Const {
	c := Const{
		nodeValue: nodeValue,
	}

	var err error
	if c.apply, err = value.ParseBool(); err != nil {
		panic(errors.Format(errors.ErrInvalidValueOfConstraint, ConstConstraintType.String()))
	}
	return &c
}

func (Const) IsJsonTypeCompatible(t json.Type) bool {
	return t != json.TypeObject && t != json.TypeArray
}

func (Const) Type() Type {
	return ConstConstraintType
}

func (c Const) String() string {
	if c.apply {
		return ConstConstraintType.String() + ": true"
	}
	return ConstConstraintType.String() + ": false"
}

func (c Const) Bool() bool {
	return c.apply
}

func (c Const) Validate(v bytes.Bytes) {
	if !c.apply {
		return
	}

	if v.InQuotes() && c.nodeValue.InQuotes() {
		// Two strings are compared by their decoded values: "a" and "\u0061"
		// are the same JSON string.
		if v.Unquote().String() == c.nodeValue.Unquote().String() {
			return
		}
	}

	if v.String() != c.nodeValue.String() {
		panic(errors.Format(errors.ErrInvalidConst, c.nodeValue.String()))
	}
}

func (c Const) ASTNode() jschema.RuleASTNode {
	return newRuleASTNode(jschema.TokenTypeBoolean, strconv.FormatBool(c.apply), jschema.RuleASTNodeSourceManual)
}
