package constraint

import (
	"strconv"

	jschema "verif/harness/ref"
	"verif/harness/ref/bytes"
	"verif/harness/ref/errors"
	"verif/harness/ref/internal/json"
)

type Const struct {
	nodeValue bytes.Bytes
	apply     bool
}

var (
	_ Constraint       = Const{}
	_ Constraint       = (*Const)(nil)
	_ BoolKeeper       = Const{}
	_ BoolKeeper       = (*Const)(nil)
	_ LiteralValidator = Const{}
	_ LiteralValidator = (*Const)(nil)
)

func NewConst(value, nodeValue bytes.Bytes) *Const {
	c := Const{
		nodeValue: nodeValue,
	}

	var err error
	if c.apply, err = value.ParseBool(); err != nil {
		panic(errors.Format(errors.ErrInvalidValueOfConstraint, ConstConstraintType.String()))
	}
	return &c
}

func (Const) IsJsonTypeCompatible(t json.Type) bool {
	return t != json.TypeObject && t != json.TypeArray
}

func (Const) Type() Type {
	return ConstConstraintType
}

func (c Const) String() string {
	if c.apply {
		return ConstConstraintType.String() + ": true"
	}
	return ConstConstraintType.String() + ": false"
}

func (c Const) Bool() bool {
	return c.apply
}

func (c Const) Validate(v bytes.Bytes) {
	if !c.apply {
		return
	}

	if v.InQuotes() && c.nodeValue.InQuotes() {
		// Two strings are compared by their decoded values: "a" and "\u0061"
		// are the same JSON string.
		if v.Unquote().String() == c.nodeValue.Unquote().String() {
			return
		}
	}

	if sameNumber(v, c.nodeValue) {
		return
	}

	if v.String() != c.nodeValue.String() {
		panic(errors.Format(errors.ErrInvalidConst, c.nodeValue.String()))
	}
}

// sameNumber tells whether a and b are JSON numbers of the same kind (integer
// or float) and of the same value, however they are written (1.5, 1.50, 15e-1).
func sameNumber(a, b bytes.Bytes) bool {
	isNumeral := func(x bytes.Bytes) bool {
		return len(x) != 0 && (x[0] == '-' || ('0' <= x[0] && x[0] <= '9'))
	}
	if !isNumeral(a) || !isNumeral(b) {
		return false
	}
	na, err := json.NewNumber(a)
	if err != nil {
		return false
	}
	nb, err := json.NewNumber(b)
	if err != nil {
		return false
	}
	return json.Guess(a).IsInteger() == json.Guess(b).IsInteger() && na.Cmp(nb) == 0
}

func (c Const) ASTNode() jschema.RuleASTNode {
	return newRuleASTNode(jschema.TokenTypeBoolean, strconv.FormatBool(c.apply), jschema.RuleASTNodeSourceManual)
}
