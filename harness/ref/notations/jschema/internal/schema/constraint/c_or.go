package constraint

import (
	jschema "verif/harness/ref"
	"verif/harness/ref/internal/json"
)

// Or constraint.
// Used for compile-time checking.
type Or struct {
	source jschema.RuleASTNodeSource
}

var (
	_ Constraint = Or{}
	_ Constraint = (*Or)(nil)
)

func NewOr(s jschema.RuleASTNodeSource) *Or {
	return &Or{
		source: s,
	}
}

func (c Or) IsGenerated() bool {
	return c.source == jschema.RuleASTNodeSourceGenerated
}

func (Or) IsJsonTypeCompatible(json.Type) bool {
	return true
}

func (Or) Type() Type {
	return OrConstraintType
}

func (Or) String() string {
	return "[ UNVERIFIABLE CONSTRAINT ] " + OrConstraintType.String()
}

func (Or) ASTNode() jschema.RuleASTNode {
	// Check `collectASTRules` function for the actual logic.
	return newEmptyRuleASTNode()
}
