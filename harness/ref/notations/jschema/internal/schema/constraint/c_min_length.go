package constraint

import (
	"strconv"

	jschema "verif/harness/ref"
	"verif/harness/ref/bytes"
	"verif/harness/ref/errors"
	"verif/harness/ref/internal/json"
)

type MinLength struct {
	value uint
}

var (
	_ Constraint       = MinLength{}
	_ Constraint       = (*MinLength)(nil)
	_ LiteralValidator = MinLength{}
	_ LiteralValidator = (*MinLength)(nil)
)

func NewMinLength(ruleValue bytes.Bytes) *MinLength {
	return &MinLength{
		value: parseUint(ruleValue, MinLengthConstraintType),
	}
}

func (MinLength) IsJsonTypeCompatible(t json.Type) bool {
	return t == json.TypeString
}

func (MinLength) Type() Type {
	return MinLengthConstraintType
}

func (c MinLength) String() string {
	return MinLengthConstraintType.String() + ": " + strconv.FormatUint(uint64(c.value), 10)
}

func (c MinLength) Validate(value bytes.Bytes) {
	length := uint(len(value.Unquote()))
	if length < c.value {
		panic(errors.Format(
			errors.ErrConstraintStringLengthValidation,
			MinLengthConstraintType.String(),
			strconv.FormatUint(uint64(c.value), 10),
		))
	}
}

func (c MinLength) ASTNode() jschema.RuleASTNode {
	return newRuleASTNode(
		jschema.TokenTypeNumber,
		strconv.FormatUint(uint64(c.value), 10),
		jschema.RuleASTNodeSourceManual,
	)
}

func (c MinLength) Value() uint {
	return c.value
}
