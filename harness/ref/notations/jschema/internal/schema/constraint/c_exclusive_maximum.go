package constraint //nolint:dupl // Duplicates exclusive minimum with small differences.

import (
	"strconv"

	jschema "verif/harness/ref"
	"verif/harness/ref/bytes"
	"verif/harness/ref/errors"
	"verif/harness/ref/internal/json"
)

type ExclusiveMaximum struct {
	exclusive bool
}

var (
	_ Constraint = ExclusiveMaximum{}
	_ Constraint = (*ExclusiveMaximum)(nil)
)

func NewExclusiveMaximum(ruleValue bytes.Bytes) *ExclusiveMaximum {
	c := ExclusiveMaximum{}
	var err error
	if c.exclusive, err = ruleValue.ParseBool(); err != nil {
		panic(errors.Format(errors.ErrInvalidValueOfConstraint, ExclusiveMaximumConstraintType.String()))
	}
	return &c
}

func (ExclusiveMaximum) IsJsonTypeCompatible(t json.Type) bool {
	return t == json.TypeInteger || t == json.TypeFloat
}

func (ExclusiveMaximum) Type() Type {
	return ExclusiveMaximumConstraintType
}

func (c ExclusiveMaximum) String() string {
	str := "[ UNVERIFIABLE CONSTRAINT ] " + ExclusiveMaximumConstraintType.String()
	if c.exclusive {
		str += ": true"
	} else {
		str += ": false"
	}
	return str
}

func (c ExclusiveMaximum) IsExclusive() bool {
	return c.exclusive
}

func (c ExclusiveMaximum) ASTNode() jschema.RuleASTNode {
	return newRuleASTNode(jschema.TokenTypeBoolean, strconv.FormatBool(c.exclusive), jschema.RuleASTNodeSourceManual)
}
