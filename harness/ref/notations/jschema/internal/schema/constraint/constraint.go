package constraint

import (
	jschema "verif/harness/ref"
	"verif/harness/ref/bytes"
	"verif/harness/ref/errors"
	"verif/harness/ref/internal/json"
	"verif/harness/ref/internal/lexeme"
)

type Constraint interface {
	// Type returns the type of constraint.
	Type() Type

	// IsJsonTypeCompatible checks the compatibility of the constraint and json
	// types.
	IsJsonTypeCompatible(json.Type) bool

	// String returns a textual description of the constraint.
	String() string

	// ASTNode returns an AST node for this constraint.
	ASTNode() jschema.RuleASTNode
}

type LiteralValidator interface {
	Validate(bytes.Bytes) // Checks the parameter value against the constraint. Panic on an error.
}

type ArrayValidator interface {
	ValidateTheArray(numberOfChildren uint)
	Value() uint
}

type BytesKeeper interface {
	Bytes() bytes.Bytes
}

type BoolKeeper interface {
	Bool() bool
}

// NewConstraintFromRule creates a Constraint from the rule.
// Might return nil.
func NewConstraintFromRule( //nolint:gocyclo // For now it's okay.
	ruleNameLex lexeme.LexEvent,
	ruleValue bytes.Bytes,
	nodeValue bytes.Bytes,
) Constraint {
	str := ruleNameLex.Value().TrimSpaces().Unquote().String()
	switch str {
	case "minLength":
		return NewMinLength(ruleValue)
	case "maxLength":
		return NewMaxLength(ruleValue)
	case "min":
		return NewMin(ruleValue)
	case "max":
		return NewMax(ruleValue)
	case "exclusiveMinimum":
		return NewExclusiveMinimum(ruleValue)
	case "exclusiveMaximum":
		return NewExclusiveMaximum(ruleValue)
	case "type":
		return NewType(ruleValue, jschema.RuleASTNodeSourceManual)
	case "precision":
		return NewPrecision(ruleValue)
	case "optional":
		return NewOptional(ruleValue)
	case "minItems":
		return NewMinItems(ruleValue)
	case "maxItems":
		return NewMaxItems(ruleValue)
	case "additionalProperties":
		return NewAdditionalProperties(ruleValue)
	case "nullable":
		return NewNullable(ruleValue)
	case "regex":
		return NewRegex(ruleValue)
	case "const":
		return NewConst(ruleValue, nodeValue)
	}
	panic(lexeme.NewLexEventError(ruleNameLex, errors.Format(errors.ErrUnknownRule, str)))
}
