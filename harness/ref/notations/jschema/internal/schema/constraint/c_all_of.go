package constraint

import (
	"strings"

	jschema "verif/harness/ref"
	"verif/harness/ref/bytes"
	"verif/harness/ref/errors"
	"verif/harness/ref/internal/json"
)

type AllOf struct {
	schemaName []string

	// list is true if the value was written as an array (of any length).
	list bool
}

var (
	_ Constraint = AllOf{}
	_ Constraint = (*AllOf)(nil)
)

func NewAllOf() *AllOf {
	return &AllOf{
		schemaName: make([]string, 0, 3),
	}
}

func (AllOf) IsJsonTypeCompatible(t json.Type) bool {
	return t == json.TypeObject
}

func (AllOf) Type() Type {
	return AllOfConstraintType
}

func (c AllOf) String() string {
	return AllOfConstraintType.String() + ": " + strings.Join(c.schemaName, ", ")
}

func (c *AllOf) Append(scalar bytes.Bytes) {
	if !json.Guess(scalar).IsString() {
		panic(errors.ErrUnacceptableValueInAllOfRule)
	}

	s := scalar.Unquote()

	if !s.IsUserTypeName() {
		panic(errors.Format(errors.ErrInvalidSchemaNameInAllOfRule, s))
	}
	c.schemaName = append(c.schemaName, s.String())
}

// SetList records that the value of the rule was written as an array, so that
// the AST shows a one-item array as an array and not as a single reference.
func (c *AllOf) SetList() {
	c.list = true
}

func (c AllOf) SchemaNames() []string {
	return c.schemaName
}

func (c AllOf) ASTNode() jschema.RuleASTNode {
	const source = jschema.RuleASTNodeSourceManual

	if len(c.schemaName) == 1 && !c.list {
		return newRuleASTNode(jschema.TokenTypeShortcut, c.schemaName[0], source)
	}

	n := newRuleASTNode(jschema.TokenTypeArray, "", source)
	n.Items = make([]jschema.RuleASTNode, 0, len(c.schemaName))

	for _, sn := range c.schemaName {
		n.Items = append(n.Items, newRuleASTNode(jschema.TokenTypeShortcut, sn, source))
	}

	return n
}
