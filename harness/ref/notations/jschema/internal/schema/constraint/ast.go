package constraint

import (
	jschema "verif/harness/ref"
)

func newEmptyRuleASTNode() jschema.RuleASTNode {
	return jschema.RuleASTNode{
		Properties: &jschema.RuleASTNodes{},
		Source:     jschema.RuleASTNodeSourceManual,
	}
}

func newRuleASTNode(t jschema.TokenType, v string, s jschema.RuleASTNodeSource) jschema.RuleASTNode {
	an := newEmptyRuleASTNode()

	an.TokenType = t
	an.Value = v
	an.Source = s

	return an
}
