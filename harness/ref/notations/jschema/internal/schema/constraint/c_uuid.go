package constraint

import (
	"bytes"
	stdErrors "errors"
	"fmt"

	jschema "verif/harness/ref"
	jbytes "verif/harness/ref/bytes"
	"verif/harness/ref/errors"
	"verif/harness/ref/internal/json"
)

type UUID struct{}

var (
	_ Constraint       = UUID{}
	_ Constraint       = (*UUID)(nil)
	_ LiteralValidator = UUID{}
	_ LiteralValidator = (*UUID)(nil)
)

func NewUuid() *UUID {
	return &UUID{}
}

func (UUID) IsJsonTypeCompatible(t json.Type) bool {
	return t == json.TypeString
}

func (UUID) Type() Type {
	return UuidConstraintType
}

func (UUID) String() string {
	return UuidConstraintType.String()
}

func (UUID) Validate(value jbytes.Bytes) {
	err := parseBytes(value.Unquote())
	if err != nil {
		panic(errors.Format(errors.ErrInvalidUuid, err))
	}
}

func (UUID) ASTNode() jschema.RuleASTNode {
	return newEmptyRuleASTNode()
}

// parseBytes parse UUID bytes.
// All the following on the basis of github.com/google/uuid.
func parseBytes(b []byte) error { //nolint:gocyclo // For now it's okay.
	switch len(b) {
	case 36: // xxxxxxxx-xxxx-xxxx-xxxx-xxxxxxxxxxxx
	case 36 + 9: // urn:uuid:xxxxxxxx-xxxx-xxxx-xxxx-xxxxxxxxxxxx
		if !bytes.Equal(bytes.ToLower(b[:9]), []byte("urn:uuid:")) {
			return fmt.Errorf("invalid urn prefix: %q", b[:9])
		}
		b = b[9:]
	case 36 + 2: // {xxxxxxxx-xxxx-xxxx-xxxx-xxxxxxxxxxxx}
		if b[0] != '{' || b[37] != '}' {
			return stdErrors.New("invalid prefix: braces expected")
		}
		b = b[1:]
	case 32: // xxxxxxxxxxxxxxxxxxxxxxxxxxxxxxxx
		for i := 0; i < 32; i += 2 {
			if !xtob(b[i], b[i+1]) {
				return stdErrors.New("invalid UUID format")
			}
		}
		return nil
	default:
		return fmt.Errorf("invalid UUID length: %d", len(b))
	}

	// it must be of the form  xxxxxxxx-xxxx-xxxx-xxxx-xxxxxxxxxxxx
	if b[8] != '-' || b[13] != '-' || b[18] != '-' || b[23] != '-' {
		return stdErrors.New("invalid UUID format")
	}
	for _, x := range [16]int{
		0, 2, 4, 6,
		9, 11,
		14, 16,
		19, 21,
		24, 26, 28, 30, 32, 34} {
		if !xtob(b[x], b[x+1]) {
			return stdErrors.New("invalid UUID format")
		}
	}
	return nil
}

func xtob(x1, x2 byte) bool {
	b1 := xvalues[x1]
	b2 := xvalues[x2]
	return b1 != 255 && b2 != 255
}

var xvalues = [256]byte{
	255, 255, 255, 255, 255, 255, 255, 255, 255, 255, 255, 255, 255, 255, 255, 255,
	255, 255, 255, 255, 255, 255, 255, 255, 255, 255, 255, 255, 255, 255, 255, 255,
	255, 255, 255, 255, 255, 255, 255, 255, 255, 255, 255, 255, 255, 255, 255, 255,
	0, 1, 2, 3, 4, 5, 6, 7, 8, 9, 255, 255, 255, 255, 255, 255,
	255, 10, 11, 12, 13, 14, 15, 255, 255, 255, 255, 255, 255, 255, 255, 255,
	255, 255, 255, 255, 255, 255, 255, 255, 255, 255, 255, 255, 255, 255, 255, 255,
	255, 10, 11, 12, 13, 14, 15, 255, 255, 255, 255, 255, 255, 255, 255, 255,
	255, 255, 255, 255, 255, 255, 255, 255, 255, 255, 255, 255, 255, 255, 255, 255,
	255, 255, 255, 255, 255, 255, 255, 255, 255, 255, 255, 255, 255, 255, 255, 255,
	255, 255, 255, 255, 255, 255, 255, 255, 255, 255, 255, 255, 255, 255, 255, 255,
	255, 255, 255, 255, 255, 255, 255, 255, 255, 255, 255, 255, 255, 255, 255, 255,
	255, 255, 255, 255, 255, 255, 255, 255, 255, 255, 255, 255, 255, 255, 255, 255,
	255, 255, 255, 255, 255, 255, 255, 255, 255, 255, 255, 255, 255, 255, 255, 255,
	255, 255, 255, 255, 255, 255, 255, 255, 255, 255, 255, 255, 255, 255, 255, 255,
	255, 255, 255, 255, 255, 255, 255, 255, 255, 255, 255, 255, 255, 255, 255, 255,
	255, 255, 255, 255, 255, 255, 255, 255, 255, 255, 255, 255, 255, 255, 255, 255,
}
