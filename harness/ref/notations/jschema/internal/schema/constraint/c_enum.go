package constraint

import (
	"encoding/json"
	"strings"

	jschema "verif/harness/ref"
	jbytes "verif/harness/ref/bytes"
	"verif/harness/ref/errors"
	jjson "verif/harness/ref/internal/json"
)

type Enum struct {
	uniqueIdx map[enumItemValue]struct{}
	ruleName  string
	items     []EnumItem
}

type EnumItem struct {
	src     jbytes.Bytes
	comment string
	enumItemValue
}

type enumItemValue struct {
	value    string
	jsonType jjson.Type
}

func (v enumItemValue) String() string {
	if v.jsonType == jjson.TypeString {
		b, err := json.Marshal(v.value)
		if err != nil {
			panic(errors.ErrImpossible)
		}
		return string(b)
	} else {
		return v.value
	}
}

func NewEnumItem(b jbytes.Bytes, c string) EnumItem {
	i := EnumItem{src: b, comment: c}
	b = b.TrimSpaces()
	i.jsonType = jjson.Guess(b).JsonType()
	if i.jsonType == jjson.TypeString {
		b = b.Unquote()
	}
	i.value = b.String()
	return i
}

var (
	_ Constraint       = Enum{}
	_ Constraint       = (*Enum)(nil)
	_ LiteralValidator = Enum{}
	_ LiteralValidator = (*Enum)(nil)
)

func NewEnum() *Enum {
	return &Enum{
		uniqueIdx: make(map[enumItemValue]struct{}),
		items:     make([]EnumItem, 0, 5),
	}
}

func (Enum) IsJsonTypeCompatible(t jjson.Type) bool {
	return t.IsLiteralType()
}

func (Enum) Type() Type {
	return EnumConstraintType
}

func (c Enum) String() string {
	var str strings.Builder
	str.WriteString(EnumConstraintType.String())
	str.WriteString(": [")
	for i, v := range c.items {
		str.WriteString(v.enumItemValue.String())
		if len(c.items)-1 != i {
			str.WriteString(", ")
		}
	}
	str.WriteString("]")
	return str.String()
}

func (c *Enum) Append(i EnumItem) int {
	if _, ok := c.uniqueIdx[i.enumItemValue]; ok {
		panic(errors.Format(errors.ErrDuplicationInEnumRule, i.src.String()))
	}
	idx := len(c.items)
	c.items = append(c.items, i)
	c.uniqueIdx[i.enumItemValue] = struct{}{}
	return idx
}

// Len returns the number of values added so far.
func (c *Enum) Len() int {
	return len(c.items)
}

func (c *Enum) SetComment(idx int, comment string) {
	c.items[idx].comment = comment
}

func (c *Enum) SetRuleName(s string) {
	c.ruleName = s
}

func (c *Enum) RuleName() string {
	return c.ruleName
}

func (c Enum) Validate(a jbytes.Bytes) {
	aa := NewEnumItem(a, "")
	for _, b := range c.items {
		if aa.enumItemValue == b.enumItemValue {
			return
		}
		// Numbers are compared by their values, not by the way they are written.
		if aa.jsonType == b.jsonType && aa.jsonType != jjson.TypeString &&
			sameNumber(jbytes.Bytes(aa.value), jbytes.Bytes(b.value)) {
			return
		}
	}
	panic(errors.ErrDoesNotMatchAnyOfTheEnumValues)
}

func (c Enum) ASTNode() jschema.RuleASTNode {
	const source = jschema.RuleASTNodeSourceManual

	if c.ruleName != "" {
		return newRuleASTNode(jschema.TokenTypeShortcut, c.ruleName, source)
	}

	n := newRuleASTNode(jschema.TokenTypeArray, "", source)
	n.Items = make([]jschema.RuleASTNode, 0, len(c.items))

	for _, b := range c.items {
		an := newRuleASTNode(
			b.jsonType.ToTokenType(),
			b.value,
			source,
		)
		an.Comment = b.comment

		n.Items = append(n.Items, an)
	}

	return n
}
