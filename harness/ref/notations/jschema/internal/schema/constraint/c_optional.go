package constraint

import (
	"strconv"

	jschema "verif/harness/ref"
	"verif/harness/ref/bytes"
	"verif/harness/ref/errors"
	"verif/harness/ref/internal/json"
)

type Optional struct {
	value bool
}

var (
	_ Constraint = Optional{}
	_ Constraint = (*Optional)(nil)
	_ BoolKeeper = Optional{}
	_ BoolKeeper = (*Optional)(nil)
)

func NewOptional(ruleValue bytes.Bytes) *Optional {
	c := Optional{}

	var err error
	if c.value, err = ruleValue.ParseBool(); err != nil {
		panic(errors.Format(errors.ErrInvalidValueOfConstraint, OptionalConstraintType.String()))
	}
	return &c
}

func (Optional) IsJsonTypeCompatible(json.Type) bool {
	return true
}

func (Optional) Type() Type {
	return OptionalConstraintType
}

func (c Optional) String() string {
	str := "[ UNVERIFIABLE CONSTRAINT ] " + OptionalConstraintType.String()
	if c.value {
		str += ": true"
	} else {
		str += ": false"
	}
	return str
}

func (c Optional) Bool() bool {
	return c.value
}

func (c Optional) ASTNode() jschema.RuleASTNode {
	return newRuleASTNode(jschema.TokenTypeBoolean, strconv.FormatBool(c.value), jschema.RuleASTNodeSourceManual)
}
