package constraint

import (
	"verif/harness/ref/bytes"
	"verif/harness/ref/errors"
)

func parseUint(v bytes.Bytes, c Type) uint {
	u, err := v.ParseUint()
	if err != nil {
		panic(errors.Format(errors.ErrInvalidValueOfConstraint, c.String()))
	}
	return u
}
