package constraint

import (
	"strconv"

	jschema "verif/harness/ref"
	"verif/harness/ref/bytes"
	"verif/harness/ref/errors"
	"verif/harness/ref/internal/json"
)

type MaxLength struct {
	value uint
}

var (
	_ Constraint       = MaxLength{}
	_ Constraint       = (*MaxLength)(nil)
	_ LiteralValidator = MaxLength{}
	_ LiteralValidator = (*MaxLength)(nil)
)

func NewMaxLength(ruleValue bytes.Bytes) *MaxLength {
	return &MaxLength{
		value: parseUint(ruleValue, MaxLengthConstraintType),
	}
}

func (MaxLength) IsJsonTypeCompatible(t json.Type) bool {
	return t == json.TypeString
}

func (MaxLength) Type() Type {
	return MaxLengthConstraintType
}

func (c MaxLength) String() string {
	return MaxLengthConstraintType.String() + ": " + strconv.FormatUint(uint64(c.value), 10)
}

func (c MaxLength) Validate(value bytes.Bytes) {
	length := uint(len(value.Unquote()))
	if length > c.value {
		panic(errors.Format(
			errors.ErrConstraintStringLengthValidation,
			MaxLengthConstraintType.String(),
			strconv.FormatUint(uint64(c.value), 10),
		))
	}
}

func (c MaxLength) ASTNode() jschema.RuleASTNode {
	return newRuleASTNode(
		jschema.TokenTypeNumber,
		strconv.FormatUint(uint64(c.value), 10),
		jschema.RuleASTNodeSourceManual,
	)
}

func (c MaxLength) Value() uint {
	return c.value
}
