package constraint

import (
	"net/mail"

	jschema "verif/harness/ref"
	"verif/harness/ref/bytes"
	"verif/harness/ref/errors"
	"verif/harness/ref/internal/json"
)

type Email struct{}

var (
	_ Constraint       = Email{}
	_ Constraint       = (*Email)(nil)
	_ LiteralValidator = Email{}
	_ LiteralValidator = (*Email)(nil)
)

func NewEmail() *Email {
	return &Email{}
}

func (Email) IsJsonTypeCompatible(t json.Type) bool {
	return t == json.TypeString
}

func (Email) Type() Type {
	return EmailConstraintType
}

func (Email) String() string {
	return EmailConstraintType.String()
}

func (Email) Validate(email bytes.Bytes) {
	email = email.Unquote()

	if len(email) == 0 {
		panic(errors.ErrEmptyEmail)
	}

	char := email[0] // first char
	if char == ' ' || char == '<' {
		panic(errors.Format(errors.ErrInvalidEmail, email.String()))
	}

	char = email[len(email)-1] // last char
	if char == ' ' || char == '>' {
		panic(errors.Format(errors.ErrInvalidEmail, email.String()))
	}

	emailStr := email.String()

	_, err := mail.ParseAddress(emailStr)
	if err != nil {
		panic(errors.Format(errors.ErrInvalidEmail, emailStr))
	}
}

func (Email) ASTNode() jschema.RuleASTNode {
	return newEmptyRuleASTNode()
}
