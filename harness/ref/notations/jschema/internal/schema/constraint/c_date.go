package constraint

import (
	"time"

	jschema "verif/harness/ref"
	"verif/harness/ref/bytes"
	"verif/harness/ref/errors"
	"verif/harness/ref/internal/json"
)

type Date struct{}

var (
	_ Constraint       = Date{}
	_ Constraint       = (*Date)(nil)
	_ LiteralValidator = Date{}
	_ LiteralValidator = (*Date)(nil)
)

func NewDate() *Date {
	return &Date{}
}

func (Date) IsJsonTypeCompatible(t json.Type) bool {
	return t == json.TypeString
}

func (Date) Type() Type {
	return DateConstraintType
}

func (Date) String() string {
	return DateConstraintType.String()
}

func (Date) Validate(value bytes.Bytes) {
	str := value.Unquote().String()
	_, err := time.Parse("2006-01-02", str)
	if err != nil {
		panic(errors.Format(errors.ErrInvalidDate, err))
	}
}

func (Date) ASTNode() jschema.RuleASTNode {
	return newEmptyRuleASTNode()
}
