package constraint

import (
	"net/url"

	jschema "verif/harness/ref"
	"verif/harness/ref/bytes"
	"verif/harness/ref/errors"
	"verif/harness/ref/internal/json"
)

type Uri struct{}

var (
	_ Constraint       = Uri{}
	_ Constraint       = (*Uri)(nil)
	_ LiteralValidator = Uri{}
	_ LiteralValidator = (*Uri)(nil)
)

func NewUri() *Uri {
	return &Uri{}
}

func (Uri) IsJsonTypeCompatible(t json.Type) bool {
	return t == json.TypeString
}

func (Uri) Type() Type {
	return UriConstraintType
}

func (Uri) String() string {
	return UriConstraintType.String()
}

func (Uri) Validate(value bytes.Bytes) {
	val := value.Unquote().String()
	u, err := url.ParseRequestURI(val)
	if err != nil || !u.IsAbs() || u.Hostname() == "" {
		panic(errors.Format(errors.ErrInvalidUri, val))
	}
}

func (Uri) ASTNode() jschema.RuleASTNode {
	return newEmptyRuleASTNode()
}
