package constraint

import (
	"strconv"

	jschema "verif/harness/ref"
	"verif/harness/ref/bytes"
	"verif/harness/ref/errors"
	"verif/harness/ref/internal/json"
)

type MinItems struct {
	value uint
}

var (
	_ Constraint     = MinItems{}
	_ Constraint     = (*MinItems)(nil)
	_ ArrayValidator = MinItems{}
	_ ArrayValidator = (*MinItems)(nil)
)

func NewMinItems(ruleValue bytes.Bytes) *MinItems {
	return &MinItems{
		value: parseUint(ruleValue, MinItemsConstraintType),
	}
}

func (MinItems) IsJsonTypeCompatible(t json.Type) bool {
	return t == json.TypeArray
}

func (MinItems) Type() Type {
	return MinItemsConstraintType
}

func (c MinItems) String() string {
	return MinItemsConstraintType.String() + ": " + strconv.FormatUint(uint64(c.value), 10)
}

func (c MinItems) ValidateTheArray(numberOfChildren uint) {
	if numberOfChildren < c.value {
		panic(errors.ErrConstraintMinItemsValidation)
	}
}

func (c MinItems) Value() uint {
	return c.value
}

func (c MinItems) ASTNode() jschema.RuleASTNode {
	return newRuleASTNode(
		jschema.TokenTypeNumber,
		strconv.FormatUint(uint64(c.value), 10),
		jschema.RuleASTNodeSourceManual,
	)
}
