package constraint

// Type available constraint types.
// gen:Stringer t Unknown constraint type
type Type int

const (
	MinLengthConstraintType            Type = iota // minLength
	MaxLengthConstraintType                        // maxLength
	MinConstraintType                              // min
	MaxConstraintType                              // max
	ExclusiveMinimumConstraintType                 // exclusiveMinimum
	ExclusiveMaximumConstraintType                 // exclusiveMaximum
	PrecisionConstraintType                        // precision
	TypeConstraintType                             // type
	TypesListConstraintType                        // types
	OptionalConstraintType                         // optional
	OrConstraintType                               // or
	RequiredKeysConstraintType                     // required-keys
	EmailConstraintType                            // email
	MinItemsConstraintType                         // minItems
	MaxItemsConstraintType                         // maxItems
	EnumConstraintType                             // enum
	AdditionalPropertiesConstraintType             // additionalProperties
	AllOfConstraintType                            // allOf
	AnyConstraintType                              // any
	NullableConstraintType                         // nullable
	RegexConstraintType                            // regex
	UriConstraintType                              // uri
	DateConstraintType                             // date
	DateTimeConstraintType                         // datetime
	UuidConstraintType                             // uuid
	ConstConstraintType                            // const
)
