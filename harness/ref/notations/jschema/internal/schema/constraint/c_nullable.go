package constraint

import (
	"strconv"

	jschema "verif/harness/ref"
	"verif/harness/ref/bytes"
	"verif/harness/ref/errors"
	"verif/harness/ref/internal/json"
)

type Nullable struct {
	value bool
}

var (
	_ Constraint = Nullable{}
	_ Constraint = (*Nullable)(nil)
	_ BoolKeeper = Nullable{}
	_ BoolKeeper = (*Nullable)(nil)
)

func NewNullable(ruleValue bytes.Bytes) *Nullable {
	c := Nullable{}

	var err error
	if c.value, err = ruleValue.ParseBool(); err != nil {
		panic(errors.Format(errors.ErrInvalidValueOfConstraint, NullableConstraintType.String()))
	}
	return &c
}

func (Nullable) IsJsonTypeCompatible(json.Type) bool {
	return true
}

func (Nullable) Type() Type {
	return NullableConstraintType
}

func (c Nullable) String() string {
	if c.value {
		return NullableConstraintType.String() + ": true"
	}
	return NullableConstraintType.String() + ": false"
}

func (c Nullable) Bool() bool {
	return c.value
}

func (c Nullable) ASTNode() jschema.RuleASTNode {
	return newRuleASTNode(jschema.TokenTypeBoolean, strconv.FormatBool(c.value), jschema.RuleASTNodeSourceManual)
}
