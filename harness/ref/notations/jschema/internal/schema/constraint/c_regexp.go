package constraint

import (
	"encoding/json"
	"regexp"

	jschema "verif/harness/ref"
	"verif/harness/ref/bytes"
	"verif/harness/ref/errors"
	internalJSON "verif/harness/ref/internal/json"
)

type Regex struct {
	re         *regexp.Regexp
	expression string
}

var (
	_ Constraint       = Regex{}
	_ Constraint       = (*Regex)(nil)
	_ LiteralValidator = Regex{}
	_ LiteralValidator = (*Regex)(nil)
)

func NewRegex(value bytes.Bytes) *Regex {
	var str string // decoded json string. JSON "aaa\\bbb" to string "aaa\bbb".
	err := json.Unmarshal(value, &str)
	if err != nil {
		panic(err)
	}

	return &Regex{
		expression: str,
		re:         regexp.MustCompile(str), // can panic
	}
}

func (Regex) IsJsonTypeCompatible(t internalJSON.Type) bool {
	return t == internalJSON.TypeString
}

func (Regex) Type() Type {
	return RegexConstraintType
}

func (c Regex) String() string {
	return RegexConstraintType.String() + ": " + c.expression
}

func (c Regex) Validate(value bytes.Bytes) {
	if !c.re.Match(value.Unquote()) {
		panic(errors.ErrDoesNotMatchRegularExpression)
	}
}

func (c Regex) ASTNode() jschema.RuleASTNode {
	return newRuleASTNode(jschema.TokenTypeString, c.expression, jschema.RuleASTNodeSourceManual)
}
