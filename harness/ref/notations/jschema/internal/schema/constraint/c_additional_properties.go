package constraint

import (
	"strings"

	jschema "verif/harness/ref"
	"verif/harness/ref/bytes"
	"verif/harness/ref/errors"
	"verif/harness/ref/internal/json"
)

type AdditionalPropertiesMode int

const (
	AdditionalPropertiesCanBeAny AdditionalPropertiesMode = iota
	AdditionalPropertiesMustBeSchemaType
	AdditionalPropertiesMustBeUserType
	AdditionalPropertiesNotAllowed
)

type AdditionalProperties struct {
	schemaType jschema.SchemaType // only for AdditionalPropertiesMustBeSchemaType
	typeName   bytes.Bytes        // only for AdditionalPropertiesMustBeUserType
	astNode    jschema.RuleASTNode
	mode       AdditionalPropertiesMode
}

var (
	_ Constraint = AdditionalProperties{}
	_ Constraint = (*AdditionalProperties)(nil)
)

// NewAdditionalProperties create an additional properties constraint.
// Depends on `ruleValue` value, might return nil.
// Might panic if got unknown JSON type.
//
// Handle next cases:
//
//	{additionalProperties: "any"}
//	{additionalProperties: true}
//	{additionalProperties: false} - in that case this function will return nil.
//	{additionalProperties: "@Foo"}
//	{additionalProperties: "string"}
func NewAdditionalProperties(ruleValue bytes.Bytes) *AdditionalProperties {
	c := &AdditionalProperties{}

	c.astNode = newEmptyRuleASTNode()
	c.astNode.Source = jschema.RuleASTNodeSourceManual

	txt := ruleValue.Unquote()
	txtStr := txt.String()
	switch {
	case txt.OneOf("any", "true"):
		if txt.String() == "true" {
			c.astNode.TokenType = jschema.TokenTypeBoolean
			c.astNode.Value = "true"
		} else {
			c.astNode.TokenType = jschema.TokenTypeString
			c.astNode.Value = txtStr
		}
		c.mode = AdditionalPropertiesCanBeAny

	case txt.String() == "false":
		c.astNode.TokenType = jschema.TokenTypeBoolean
		c.astNode.Value = "false"
		c.mode = AdditionalPropertiesNotAllowed

	case txt.IsUserTypeName():
		c.astNode.TokenType = jschema.TokenTypeString
		c.astNode.Value = txtStr
		c.mode = AdditionalPropertiesMustBeUserType
		c.typeName = txt

	case jschema.IsValidType(txtStr):
		c.astNode.TokenType = jschema.TokenTypeString
		c.astNode.Value = txtStr
		c.mode = AdditionalPropertiesMustBeSchemaType
		c.schemaType = jschema.SchemaType(txtStr)

	default:
		panic(errors.Format(errors.ErrUnknownJSchemaType, txtStr))
	}
	return c
}

func (AdditionalProperties) IsJsonTypeCompatible(t json.Type) bool {
	return t == json.TypeObject
}

func (AdditionalProperties) Type() Type {
	return AdditionalPropertiesConstraintType
}

func (c AdditionalProperties) String() string {
	buf := strings.Builder{}
	buf.WriteString(AdditionalPropertiesConstraintType.String() + ": ")

	switch c.mode {
	case AdditionalPropertiesCanBeAny:
		buf.WriteString("any")

	case AdditionalPropertiesMustBeSchemaType:
		buf.WriteString(string(c.schemaType))

	case AdditionalPropertiesMustBeUserType:
		buf.WriteString(c.typeName.String())

	case AdditionalPropertiesNotAllowed:
		buf.WriteString("false")

	default:
		panic(errors.Format(errors.ErrGeneric, "Constraint error"))
	}

	return buf.String()
}

func (c AdditionalProperties) Mode() AdditionalPropertiesMode {
	return c.mode
}

func (c AdditionalProperties) SchemaType() jschema.SchemaType {
	return c.schemaType
}

func (c AdditionalProperties) TypeName() bytes.Bytes {
	return c.typeName
}

func (c AdditionalProperties) IsEqual(c2 AdditionalProperties) bool {
	return c.schemaType == c2.schemaType && c.typeName.String() == c2.typeName.String()
}

func (c AdditionalProperties) ASTNode() jschema.RuleASTNode {
	return c.astNode
}
