package constraint

import (
	jschema "verif/harness/ref"
	"verif/harness/ref/internal/json"
)

type AnyConstraint struct{}

var (
	_ Constraint = AnyConstraint{}
	_ Constraint = (*AnyConstraint)(nil)
)

func NewAny() *AnyConstraint {
	return &AnyConstraint{}
}

func (AnyConstraint) IsJsonTypeCompatible(json.Type) bool {
	return true
}

func (AnyConstraint) Type() Type {
	return AnyConstraintType
}

func (AnyConstraint) String() string {
	return AnyConstraintType.String()
}

func (AnyConstraint) ASTNode() jschema.RuleASTNode {
	return newEmptyRuleASTNode()
}
