package constraint

import (
	"strconv"

	jschema "verif/harness/ref"
	"verif/harness/ref/bytes"
	"verif/harness/ref/errors"
	"verif/harness/ref/internal/json"
)

type MaxItems struct {
	value uint
}

var (
	_ Constraint     = MaxItems{}
	_ Constraint     = (*MaxItems)(nil)
	_ ArrayValidator = MaxItems{}
	_ ArrayValidator = (*MaxItems)(nil)
)

func NewMaxItems(ruleValue bytes.Bytes) *MaxItems {
	return &MaxItems{
		value: parseUint(ruleValue, MaxItemsConstraintType),
	}
}

func (MaxItems) IsJsonTypeCompatible(t json.Type) bool {
	return t == json.TypeArray
}

func (MaxItems) Type() Type {
	return MaxItemsConstraintType
}

func (c MaxItems) String() string {
	return MaxItemsConstraintType.String() + ": " + strconv.FormatUint(uint64(c.value), 10)
}

func (c MaxItems) ValidateTheArray(numberOfChildren uint) {
	if numberOfChildren > c.value {
		panic(errors.ErrConstraintMaxItemsValidation)
	}
}

func (c MaxItems) Value() uint {
	return c.value
}

func (c MaxItems) ASTNode() jschema.RuleASTNode {
	return newRuleASTNode(
		jschema.TokenTypeNumber,
		strconv.FormatUint(uint64(c.value), 10),
		jschema.RuleASTNodeSourceManual,
	)
}
