package constraint

import (
	"time"

	jschema "verif/harness/ref"
	"verif/harness/ref/bytes"
	"verif/harness/ref/errors"
	"verif/harness/ref/internal/json"
)

type DateTime struct{}

var (
	_ Constraint       = DateTime{}
	_ Constraint       = (*DateTime)(nil)
	_ LiteralValidator = DateTime{}
	_ LiteralValidator = (*DateTime)(nil)
)

func NewDateTime() *DateTime {
	return &DateTime{}
}

func (DateTime) IsJsonTypeCompatible(t json.Type) bool {
	return t == json.TypeString
}

func (DateTime) Type() Type {
	return DateTimeConstraintType
}

func (DateTime) String() string {
	return DateTimeConstraintType.String()
}

func (DateTime) Validate(value bytes.Bytes) {
	str := value.Unquote().String()
	_, err := time.Parse(time.RFC3339, str)
	if err != nil {
		panic(errors.ErrInvalidDateTime)
	}
}

func (DateTime) ASTNode() jschema.RuleASTNode {
	return newEmptyRuleASTNode()
}
