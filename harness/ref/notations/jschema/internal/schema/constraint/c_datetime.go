package constraint

import (
	"regexp"
	"time"

	jschema "verif/harness/ref"
	"verif/harness/ref/bytes"
	"verif/harness/ref/errors"
	"verif/harness/ref/internal/json"
)

type DateTime struct{}

var (
	_ Constraint       = DateTime{}
	_ Constraint       = (*DateTime)(nil)
	_ LiteralValidator = DateTime{}
	_ LiteralValidator = (*DateTime)(nil)
)

func NewDateTime() *DateTime {
	return &DateTime{}
}

func (DateTime) IsJsonTypeCompatible(t json.Type) bool {
	return t == json.TypeString
}

func (DateTime) Type() Type {
	return DateTimeConstraintType
}

func (DateTime) String() string {
	return DateTimeConstraintType.String()
}

// rfc3339Shape the form of an RFC 3339 date-time. time.Parse alone is more
// generous: it takes a one-digit hour, a comma in front of the fraction and an
// offset of 24 hours.
var rfc3339Shape = regexp.MustCompile(`^\d{4}-\d{2}-\d{2}T\d{2}:\d{2}:\d{2}(\.\d+)?(Z|[+-]([01]\d|2[0-3]):[0-5]\d)$`)

func (DateTime) Validate(value bytes.Bytes) {
	str := value.Unquote().String()
	_, err := time.Parse(time.RFC3339, str)
	if err != nil || !rfc3339Shape.MatchString(str) {
		panic(errors.ErrInvalidDateTime)
	}
}

func (DateTime) ASTNode() jschema.RuleASTNode {
	return newEmptyRuleASTNode()
}
