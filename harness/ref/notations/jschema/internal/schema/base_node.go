package schema

import (
	jschema "verif/harness/ref"
	"verif/harness/ref/bytes"
	"verif/harness/ref/errors"
	"verif/harness/ref/internal/json"
	"verif/harness/ref/internal/lexeme"
	"verif/harness/ref/notations/jschema/internal/schema/constraint"
)

type baseNode struct {
	// parent a parent node.
	parent Node

	realType string

	// comment a node comment.
	comment string

	// constraints a list of this node constraints.
	constraints *Constraints

	// schemaLexEvent used to check and display an error if the node value does
	// not match the constraints.
	schemaLexEvent lexeme.LexEvent

	// jsonType a JSON type for this node.
	jsonType json.Type
}

func newBaseNode(lex lexeme.LexEvent) baseNode {
	return baseNode{
		parent:         nil,
		jsonType:       json.TypeUndefined,
		schemaLexEvent: lex,
		constraints:    &Constraints{},
	}
}

func (n baseNode) Type() json.Type {
	return n.jsonType
}

func (n baseNode) SchemaType() jschema.SchemaType {
	for k, v := range constraintToSchemaTypeMap {
		if n.constraints.Has(k) {
			return v
		}
	}
	return jschema.SchemaType(n.jsonType.String())
}

var constraintToSchemaTypeMap = map[constraint.Type]jschema.SchemaType{
	constraint.AnyConstraintType:      jschema.SchemaTypeAny,
	constraint.DateConstraintType:     jschema.SchemaTypeDate,
	constraint.DateTimeConstraintType: jschema.SchemaTypeDateTime,
	constraint.UuidConstraintType:     jschema.SchemaTypeUUID,
	constraint.UriConstraintType:      jschema.SchemaTypeURI,
	constraint.EmailConstraintType:    jschema.SchemaTypeEmail,
}

func (n *baseNode) SetRealType(s string) bool {
	// Make sure current real type is compatible with node type.
	avail, ok := compatibleTypes[s]
	if !ok {
		return false
	}

	if _, ok := avail[n.jsonType]; !ok {
		return false
	}

	n.realType = s
	return true
}

var compatibleTypes = map[string]map[json.Type]struct{}{
	"mixed": availableJSONTypes(
		json.TypeObject,
		json.TypeArray,
		json.TypeString,
		json.TypeInteger,
		json.TypeFloat,
		json.TypeBoolean,
		json.TypeNull,
		json.TypeMixed,
	),
	"enum": availableJSONTypes(
		json.TypeString,
		json.TypeInteger,
		json.TypeFloat,
		json.TypeBoolean,
		json.TypeNull,
	),
	"any": availableJSONTypes(
		json.TypeObject,
		json.TypeArray,
		json.TypeString,
		json.TypeInteger,
		json.TypeFloat,
		json.TypeBoolean,
		json.TypeNull,
		json.TypeMixed,
	),
	"decimal":  availableJSONTypes(json.TypeFloat),
	"email":    availableJSONTypes(json.TypeString),
	"uri":      availableJSONTypes(json.TypeString),
	"uuid":     availableJSONTypes(json.TypeString),
	"date":     availableJSONTypes(json.TypeString),
	"datetime": availableJSONTypes(json.TypeString),
	"object":   availableJSONTypes(json.TypeObject),
	"array":    availableJSONTypes(json.TypeArray),
	"string":   availableJSONTypes(json.TypeString),
	"integer":  availableJSONTypes(json.TypeInteger),
	"float":    availableJSONTypes(json.TypeFloat),
	"boolean":  availableJSONTypes(json.TypeBoolean),
	"null":     availableJSONTypes(json.TypeNull),
}

func availableJSONTypes(tt ...json.Type) map[json.Type]struct{} {
	res := map[json.Type]struct{}{}
	for _, t := range tt {
		res[t] = struct{}{}
	}
	return res
}

func (n *baseNode) RealType() string {
	if n.realType == "" {
		return n.jsonType.String()
	}
	return n.realType
}

func (n *baseNode) setJsonType(t json.Type) {
	n.jsonType = t
}

func (n baseNode) Parent() Node {
	return n.parent
}

func (n *baseNode) SetParent(parent Node) {
	n.parent = parent
}

func (n baseNode) BasisLexEventOfSchemaForNode() lexeme.LexEvent {
	return n.schemaLexEvent
}

// Constraint returns requested Constraint if found.
func (n baseNode) Constraint(t constraint.Type) constraint.Constraint {
	if n.constraints == nil {
		return nil
	}
	c, ok := n.constraints.Get(t)
	if ok {
		return c
	}
	return nil
}

// AddConstraint adds new constraint to this node.
// Won't add if c is nil.
func (n *baseNode) AddConstraint(c constraint.Constraint) {
	if c == nil {
		return
	}

	if n.constraints.Has(c.Type()) { // find an existing constraint
		panic(errors.Format(errors.ErrDuplicateRule, c.Type().String()))
	}

	n.constraints.Set(c.Type(), c)
}

func (n *baseNode) DeleteConstraint(t constraint.Type) {
	n.constraints.Delete(t)
}

// ConstraintMap returns all constraints.
func (n baseNode) ConstraintMap() *Constraints {
	return n.constraints
}

func (n baseNode) NumberOfConstraints() int {
	return n.constraints.Len()
}

func (n baseNode) Value() bytes.Bytes {
	return n.schemaLexEvent.Value()
}

func (n *baseNode) SetComment(s string) {
	n.comment = s
}

func (n *baseNode) Comment() string {
	return n.comment
}
