package schema

//go:generate mockery --name Node --inpackage --testonly
