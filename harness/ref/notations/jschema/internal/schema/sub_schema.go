package schema

import (
	"verif/harness/ref/bytes"
	"verif/harness/ref/fs"
)

type Type struct {
	schema   *Schema
	rootFile *fs.File
	begin    bytes.Index
}

func (s *Type) Schema() *Schema {
	return s.schema
}

func (s *Type) RootFile() *fs.File {
	return s.rootFile
}

func (s *Type) Begin() bytes.Index {
	return s.begin
}
