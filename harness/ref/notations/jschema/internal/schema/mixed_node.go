package schema

import (
	jschema "verif/harness/ref"
	"verif/harness/ref/errors"
	"verif/harness/ref/internal/json"
	"verif/harness/ref/internal/lexeme"
)

type MixedNode struct {
	baseNode
}

var _ Node = &MixedNode{}

func NewMixedNode(lex lexeme.LexEvent) *MixedNode {
	n := MixedNode{
		baseNode: newBaseNode(lex),
	}
	n.setJsonType(json.Guess(lex.Value()).JsonType())
	return &n
}

func (*MixedNode) SetRealType(string) bool {
	// Mixed value node is always have mixed type.
	return true
}

// SetJsonType for mixed node n.baseNode.jsonType is an EXAMPLE type
func (n *MixedNode) SetJsonType(t json.Type) {
	n.setJsonType(t)
}

func (*MixedNode) Grow(lexeme.LexEvent) (Node, bool) {
	panic(errors.ErrNodeGrow)
}

func (n MixedNode) ASTNode() (jschema.ASTNode, error) {
	an := newASTNode()

	an.SchemaType = n.Type().String()
	an.Value = n.Value().Unquote().String()
	an.Rules = collectASTRules(n.constraints)
	an.Comment = n.comment

	return an, nil
}
