package schema

import (
	jschema "verif/harness/ref"
	"verif/harness/ref/internal/json"
	"verif/harness/ref/internal/lexeme"
)

type LiteralNode struct {
	baseNode
}

var _ Node = &LiteralNode{}

func newLiteralNode(lex lexeme.LexEvent) *LiteralNode {
	n := LiteralNode{
		baseNode: newBaseNode(lex),
	}
	return &n
}

func (n *LiteralNode) Grow(lex lexeme.LexEvent) (Node, bool) {
	switch lex.Type() {
	case lexeme.LiteralBegin:

	case lexeme.LiteralEnd:
		n.schemaLexEvent = lex
		t := json.Guess(lex.Value()).LiteralJsonType()
		n.setJsonType(t)
		return n.parent, false

	default:
		panic(`Unexpected lexical event "` + lex.Type().String() + `" in literal node`)
	}

	return n, false
}

func (n *LiteralNode) ASTNode() (jschema.ASTNode, error) {
	an := astNodeFromNode(n)
	an.Value = n.Value().Unquote().String()
	return an, nil
}
