package schema

import (
	"fmt"

	"verif/harness/ref/bytes"
	"verif/harness/ref/errors"
	"verif/harness/ref/fs"
)

type Schema struct {
	// types the map where key is the name of the type (or included Schema).
	types    map[string]Type
	rootNode Node
}

func New() Schema {
	return Schema{
		types: make(map[string]Type, 5),
	}
}

func (s Schema) TypesList() map[string]Type {
	return s.types
}

// MustType returns *Schema or panic if not found.
// Deprecated: use Schema.MustType instead
func (s Schema) MustType(name string) *Schema {
	t, ok := s.types[name]
	if ok {
		return t.schema
	}
	panic(errors.Format(errors.ErrTypeNotFound, name))
}

// Type returns specified type's schema.
func (s Schema) Type(name string) (*Schema, errors.Err) {
	t, ok := s.types[name]
	if ok {
		return t.schema, nil
	}
	return nil, errors.Format(errors.ErrTypeNotFound, name)
}

func (s Schema) RootNode() Node {
	return s.rootNode
}

func (s *Schema) AddNamedType(name string, typ *Schema, rootFile *fs.File, begin bytes.Index) {
	if !bytes.Bytes(name).IsUserTypeName() {
		panic(errors.Format(errors.ErrInvalidSchemaName, name))
	}
	s.addType(name, typ, rootFile, begin)
}

// AddUnnamedType Adds an unnamed TYPE to the SCHEMA. Returns a unique name for the added TYPE.
func (s *Schema) AddUnnamedType(typ *Schema, rootFile *fs.File, begin bytes.Index) string {
	name := fmt.Sprintf("#%p", typ)
	s.addType(name, typ, rootFile, begin)
	return name
}

func (s *Schema) addType(name string, schema *Schema, rootFile *fs.File, begin bytes.Index) {
	if _, ok := s.types[name]; ok {
		panic(errors.Format(errors.ErrDuplicationOfNameOfTypes, name))
	}
	s.types[name] = Type{schema, rootFile, begin}
}

func (s *Schema) AddType(n string, t Type) {
	s.types[n] = t
}

func (s *Schema) SetRootNode(node Node) {
	s.rootNode = node
}
