package validator

import (
	"verif/harness/ref/internal/lexeme"
	"verif/harness/ref/notations/jschema/internal/schema"
)

type validator interface {
	parent() validator
	setParent(validator)

	// feed returns array (pointers to validators, or nil if not found), bool
	// (true if validator of node is completed), panic on error.
	feed(jsonLexeme lexeme.LexEvent) ([]validator, bool)

	// node returns this validator node.
	// For debug/log only.
	node() schema.Node
}
