package validator

import (
	"bytes"
	"sort"
	"strings"

	jbytes "verif/harness/ref/bytes"
	"verif/harness/ref/errors"
	"verif/harness/ref/internal/lexeme"
	"verif/harness/ref/notations/jschema/internal/schema"
	"verif/harness/ref/notations/jschema/internal/schema/constraint"
)

// Validates json according to jSchema's ObjectNode.

type objectValidator struct {
	requiredKeys map[string]int

	// node_ an object or mixed.
	node_   schema.Node
	parent_ validator

	// rootSchema the scheme from which it is possible to receive type by their
	// name.
	rootSchema      schema.Schema
	lastFoundKeyLex lexeme.LexEvent
}

func newObjectValidator(node schema.Node, parent validator, rootSchema schema.Schema) *objectValidator {
	switch node.(type) {
	case *schema.ObjectNode, *schema.MixedNode, *schema.MixedValueNode:
		v := objectValidator{
			node_:        node,
			parent_:      parent,
			rootSchema:   rootSchema,
			requiredKeys: make(map[string]int, 5),
		}
		v.initRequiredKeys()
		return &v
	default:
		panic(errors.ErrValidator)
	}
}

func (v *objectValidator) initRequiredKeys() {
	requiredKeysConstraint := v.node_.Constraint(constraint.RequiredKeysConstraintType)
	if requiredKeysConstraint != nil {
		for i, k := range requiredKeysConstraint.(*constraint.RequiredKeys).Keys() {
			v.requiredKeys[k] = i
		}
	}
}

func (v objectValidator) node() schema.Node {
	return v.node_
}

func (v objectValidator) parent() validator {
	return v.parent_
}

func (v *objectValidator) setParent(parent validator) {
	v.parent_ = parent
}

// feed returns array (pointers to validators, or nil if not found) and bool (true
// if validator is done).
func (v *objectValidator) feed(jsonLexeme lexeme.LexEvent) ([]validator, bool) {
	defer lexeme.CatchLexEventError(jsonLexeme)

	switch jsonLexeme.Type() { //nolint:exhaustive // We will throw a panic in over cases.
	case lexeme.ObjectBegin, lexeme.ObjectKeyBegin, lexeme.ObjectValueEnd:
		return nil, false

	case lexeme.ObjectKeyEnd:
		v.feedObjectKeyEnd(jsonLexeme)
		return nil, false

	case lexeme.ObjectValueBegin:
		return v.feedObjectValueBegin()

	case lexeme.ObjectEnd:
		if len(v.requiredKeys) != 0 {
			panic(errors.Format(errors.ErrRequiredKeyNotFound, v.requiredKeysString()))
		}
		return nil, true
	}

	panic(errors.ErrUnexpectedLexInObjectValidator)
}

func (v *objectValidator) feedObjectKeyEnd(jsonLexeme lexeme.LexEvent) {
	v.lastFoundKeyLex = jsonLexeme
	if _, ok := v.node_.(*schema.ObjectNode); !ok { // mixed node
		panic(lexeme.NewLexEventError(
			v.lastFoundKeyLex,
			errors.Format(errors.ErrSchemaDoesNotSupportKey, v.lastFoundKeyLex.Value().Unquote().String())),
		)
	}
	delete(v.requiredKeys, v.lastFoundKeyLex.Value().Unquote().String())
}

func (v *objectValidator) feedObjectValueBegin() ([]validator, bool) {
	objectNode, ok := v.node_.(*schema.ObjectNode)
	if !ok {
		panic(errors.ErrImpossible)
	}

	childNode, ok := objectNode.ChildByRawKey(v.lastFoundKeyLex.Value())
	if ok {
		return NodeValidatorList(childNode, v.rootSchema, v), false
	}

	// child node not found on schema object
	if key, ok := v.validateTypeRules(objectNode, v.lastFoundKeyLex.Value()); ok {
		child, ok := objectNode.ChildByRawKey([]byte(key))
		if ok {
			delete(v.requiredKeys, key)
			return NodeValidatorList(child, v.rootSchema, v), false
		}
	}
	if c := v.node_.Constraint(constraint.AdditionalPropertiesConstraintType); c != nil {
		ap := c.(*constraint.AdditionalProperties) //nolint:errcheck // The constraint of this type.
		// With "additionalProperties: false" the key itself is at fault, as
		// without the rule: the error below names the key and points at it.
		if ap.Mode() != constraint.AdditionalPropertiesNotAllowed {
			return newAdditionalPropertiesValidator(v.node_, v, ap), false
		}
	}

	panic(lexeme.NewLexEventError(
		v.lastFoundKeyLex,
		errors.Format(errors.ErrSchemaDoesNotSupportKey, v.lastFoundKeyLex.Value().Unquote().String())),
	)
}

func (v objectValidator) requiredKeysString() string {
	keys := make([]string, 0, 5)
	for k := range v.requiredKeys {
		keys = append(keys, k)
	}
	// The same document gives the same message.
	sort.Strings(keys)
	return strings.Join(keys, ", ")
}

// validate with rules
func (v objectValidator) validateTypeRules(objectNode *schema.ObjectNode, value jbytes.Bytes) (string, bool) {
	// Every key shortcut of the object is tried, in schema order, whether or
	// not it is required and whether or not it has matched a key before.
	for _, k := range objectNode.Keys().Data {
		if !k.IsShortcut {
			continue
		}
		if v.keyTypeAdmits(k.Key, value, map[string]struct{}{}) {
			return k.Key, true
		}
	}
	return "", false
}

// keyTypeAdmits tells whether the string type name admits value as a key. A
// type which is a shortcut to other types (@K = @L, @K = @L | @M) admits what
// any of them admits: Check lets such types pass as key types, too.
func (v objectValidator) keyTypeAdmits(name string, value jbytes.Bytes, seen map[string]struct{}) bool {
	if _, ok := seen[name]; ok {
		return false
	}
	seen[name] = struct{}{}

	typ, ok := v.rootSchema.TypesList()[name]
	if !ok {
		return false
	}
	node := typ.Schema().RootNode()

	if mixed, ok := node.(*schema.MixedValueNode); ok {
		for _, tn := range mixed.GetTypes() {
			if jbytes.Bytes(tn).IsUserTypeName() && v.keyTypeAdmits(tn, value, seen) {
				return true
			}
		}
		return false
	}

	if node.Type().String() != "string" {
		panic(errors.Format(errors.ErrInvalidKeyType, v.requiredKeysString()))
	}

	flag := false
	inside := false
	i := 0

	node.ConstraintMap().EachSafe(func(_ constraint.Type, v constraint.Constraint) {
		inside = true
		if i == 0 {
			flag = true
		}
		flag = flag && checkConstraint(v, value)
		i++
	})

	if !inside {
		if bytes.Equal(node.Value(), value) {
			flag = true
		}
	}
	// all rules ok for a node
	return flag
}

func checkConstraint(constr constraint.Constraint, value jbytes.Bytes) (b bool) {
	defer func() {
		if r := recover(); r != nil {
			b = false
		}
	}()

	switch ct := constr.(type) {
	case *constraint.MinLength:
		ct.Validate(value)
		return true
	case *constraint.MaxLength:
		ct.Validate(value)
		return true
	case *constraint.Regex:
		ct.Validate(value)
		return true
	case *constraint.Enum:
		ct.Validate(value)
		return true
	case constraint.LiteralValidator:
		// The formats (email, uri, uuid, date, datetime) and const judge the
		// text of a string like the rules above.
		ct.Validate(value)
		return true
	default:
		// Rules that say nothing about the text of a string (type, optional,
		// nullable, ...).
		return true
	}
}
