package validator

import (
	"verif/harness/ref/internal/lexeme"
	"verif/harness/ref/notations/jschema/internal/schema"
)

// validator to process any nested structures.

type anyNestedStructure struct {
	node_   schema.Node
	parent_ validator
	depth   uint
}

func newAnyNestedStructureValidator(node schema.Node, parent validator) *anyNestedStructure {
	v := anyNestedStructure{
		node_:   node,
		parent_: parent,
	}
	return &v
}

func (v anyNestedStructure) node() schema.Node {
	return v.node_
}

func (v anyNestedStructure) parent() validator {
	return v.parent_
}

func (v *anyNestedStructure) setParent(parent validator) {
	v.parent_ = parent
}

// return nil (empty list pointers to validators) and bool (true if validator is done)
func (v *anyNestedStructure) feed(jsonLexeme lexeme.LexEvent) ([]validator, bool) {
	if jsonLexeme.Type().IsOpening() {
		v.depth++
	} else {
		v.depth--
	}

	if v.depth == 0 {
		return nil, true
	}

	return nil, false
}
