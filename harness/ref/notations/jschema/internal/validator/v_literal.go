package validator

import (
	"verif/harness/ref/errors"
	"verif/harness/ref/internal/lexeme"
	"verif/harness/ref/notations/jschema/internal/schema"
)

// Validates json according to jSchema's LiteralNode.

type literalValidator struct {
	node_   schema.Node
	parent_ validator

	// nullOnly the validator admits nothing but the literal null (the extra
	// alternative of a nullable node).
	nullOnly bool
}

func newNullValidator(node schema.Node, parent validator) *literalValidator {
	v := newLiteralValidator(node, parent)
	v.nullOnly = true
	return v
}

func newLiteralValidator(node schema.Node, parent validator) *literalValidator {
	switch node.(type) {
	case *schema.LiteralNode, *schema.MixedNode, *schema.MixedValueNode, *schema.ObjectNode, *schema.ArrayNode:
		v := literalValidator{
			node_:   node,
			parent_: parent,
		}
		return &v
	default:
		panic(errors.ErrValidator)
	}
}

func (v literalValidator) node() schema.Node {
	return v.node_
}

func (v literalValidator) parent() validator {
	return v.parent_
}

func (v *literalValidator) setParent(parent validator) {
	v.parent_ = parent
}

// return array (pointers to validators, or nil if not found) and bool (true if validator is done)
func (v *literalValidator) feed(jsonLexeme lexeme.LexEvent) ([]validator, bool) {
	defer lexeme.CatchLexEventError(jsonLexeme)

	switch jsonLexeme.Type() { //nolint:exhaustive // We will throw a panic in over cases.
	case lexeme.LiteralBegin:
		return nil, false
	case lexeme.LiteralEnd:
		if v.nullOnly && jsonLexeme.Value().String() != "null" {
			panic(errors.Format(errors.ErrInvalidValueType, jsonLexeme.Value().String(), "null"))
		}
		ValidateLiteralValue(v.node_, jsonLexeme.Value()) // can panic
		return nil, true
	}

	panic(errors.ErrUnexpectedLexInLiteralValidator)
}
