package validator

import (
	"sort"

	"verif/harness/ref/bytes"
	"verif/harness/ref/errors"
	"verif/harness/ref/internal/json"
	"verif/harness/ref/notations/jschema/internal/schema"
	"verif/harness/ref/notations/jschema/internal/schema/constraint"
)

func ValidateLiteralValue(node schema.Node, jsonValue bytes.Bytes) {
	checkNotAnEnum(node, jsonValue)

	// sorting to make it easier to debug the scheme if there are several errors in it
	m := node.ConstraintMap()
	l := m.Len()
	keys := make([]int, 0, l)

	m.EachSafe(func(k constraint.Type, _ constraint.Constraint) {
		keys = append(keys, int(k))
	})

	sort.Ints(keys)

	var isNullable bool
	if c, ok := m.Get(constraint.NullableConstraintType); ok {
		isNullable = c.(constraint.BoolKeeper).Bool()
	}

	if isNullable && jsonValue.String() == "null" {
		// A null admitted by `nullable: true` is valid whatever other rules are present.
		return
	}

	for _, k := range keys {
		t := constraint.Type(k)
		c := m.GetValue(t)

		if _, ok := c.(*constraint.Enum); ok && isNullable && jsonValue.String() == "null" {
			// Handle cases like `null // {enum: [1, 2], nullable: true}`.
			continue
		}

		if v, ok := c.(constraint.LiteralValidator); ok {
			v.Validate(jsonValue)
		}
	}
}

func checkNotAnEnum(node schema.Node, value bytes.Bytes) {
	if node.Constraint(constraint.EnumConstraintType) != nil {
		return
	}

	jsonType := json.Guess(value).LiteralJsonType() // can panic
	schemaType := node.Type()
	if !(jsonType == schemaType ||
		(jsonType == json.TypeInteger && schemaType == json.TypeFloat) ||
		(jsonType == json.TypeNull && node.Constraint(constraint.NullableConstraintType) != nil)) {
		panic(errors.Format(errors.ErrInvalidValueType, jsonType.String(), schemaType.String()))
	}
}
