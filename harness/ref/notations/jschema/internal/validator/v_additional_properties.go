package validator

import (
	jschema "verif/harness/ref"
	"verif/harness/ref/errors"
	"verif/harness/ref/internal/lexeme"
	"verif/harness/ref/notations/jschema/internal/schema"
	"verif/harness/ref/notations/jschema/internal/schema/constraint"
)

// validator to process additional properties.

type additionalPropertiesValidator struct {
	node_           schema.Node                               // always schema.ObjectNode
	parentValidator validator                                 // always objectValidator
	feedFunc        func(lexeme.LexEvent) ([]validator, bool) // can panic
	schemaType      jschema.SchemaType
	depth           uint
}

// The constructor can return multiple validators because a type can contain an
// "OR" rule.

func newAdditionalPropertiesValidator(
	node schema.Node,
	parentValidator validator,
	c *constraint.AdditionalProperties,
) []validator {
	v := additionalPropertiesValidator{
		node_:           node,            // always schema.ObjectNode
		parentValidator: parentValidator, // always objectValidator
	}

	switch c.Mode() {
	case constraint.AdditionalPropertiesCanBeAny:
		v.feedFunc = v.feedAny

	case constraint.AdditionalPropertiesMustBeSchemaType:
		v.schemaType = c.SchemaType()
		switch v.schemaType {
		case jschema.SchemaTypeObject:
			v.feedFunc = v.feedObject

		case jschema.SchemaTypeArray:
			v.feedFunc = v.feedArray

		default:
			v.feedFunc = v.feedLiteral
		}

	case constraint.AdditionalPropertiesMustBeUserType:
		schem := parentValidator.(*objectValidator).rootSchema
		return NodeValidatorList(
			schem.MustType(c.TypeName().String()).RootNode(), // can panic
			schem,
			parentValidator,
		)

	case constraint.AdditionalPropertiesNotAllowed:
		v.feedFunc = v.feedNotAllowed

	default:
		panic(errors.ErrValidator)
	}

	list := make([]validator, 1)
	list[0] = &v
	return list
}

func (v additionalPropertiesValidator) node() schema.Node {
	return v.node_
}

func (v additionalPropertiesValidator) parent() validator {
	return v.parentValidator
}

func (v *additionalPropertiesValidator) setParent(parent validator) {
	v.parentValidator = parent
}

func (v *additionalPropertiesValidator) feed(jsonLexeme lexeme.LexEvent) ([]validator, bool) {
	defer lexeme.CatchLexEventError(jsonLexeme)
	return v.feedFunc(jsonLexeme)
}

func (v *additionalPropertiesValidator) feedAny(jsonLexeme lexeme.LexEvent) ([]validator, bool) {
	if jsonLexeme.Type().IsOpening() {
		v.depth++
	} else {
		v.depth--
	}

	if v.depth == 0 {
		return nil, true
	}

	return nil, false
}

func (v *additionalPropertiesValidator) feedObject(jsonLexeme lexeme.LexEvent) ([]validator, bool) {
	if jsonLexeme.Type() != lexeme.ObjectBegin {
		panic(errors.ErrUnexpectedLexInObjectValidator)
	}
	v.feedFunc = v.feedAny
	_, b := v.feedFunc(jsonLexeme)
	return nil, b
}

func (v *additionalPropertiesValidator) feedArray(jsonLexeme lexeme.LexEvent) ([]validator, bool) {
	if jsonLexeme.Type() != lexeme.ArrayBegin {
		panic(errors.ErrUnexpectedLexInArrayValidator)
	}
	v.feedFunc = v.feedAny
	_, b := v.feedFunc(jsonLexeme)
	return nil, b
}

func (v *additionalPropertiesValidator) feedLiteral(jsonLexeme lexeme.LexEvent) ([]validator, bool) {
	switch jsonLexeme.Type() { //nolint:exhaustive // We will throw a panic in over cases.
	case lexeme.LiteralBegin:
		return nil, false
	case lexeme.LiteralEnd:
		actualType, err := jschema.GuessSchemaType(jsonLexeme.Value())
		if err != nil {
			panic(err)
		}
		if !v.schemaType.IsEqualSoft(actualType) {
			panic(errors.Format(errors.ErrInvalidValueType, actualType, v.schemaType))
		}
		return nil, true
	}
	panic(errors.ErrUnexpectedLexInLiteralValidator)
}

func (*additionalPropertiesValidator) feedNotAllowed(lex lexeme.LexEvent) ([]validator, bool) {
	panic(lexeme.NewLexEventError(
		lex,
		errors.Format(errors.ErrSchemaDoesNotSupportKey, lex.Value().Unquote().String())),
	)
}
