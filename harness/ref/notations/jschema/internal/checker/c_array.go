package checker

import (
	"verif/harness/ref/errors"
	"verif/harness/ref/internal/lexeme"
)

type arrayChecker struct{}

var _ nodeChecker = arrayChecker{}

func newArrayChecker() arrayChecker {
	return arrayChecker{}
}

func (arrayChecker) Check(nodeLex lexeme.LexEvent) errors.Error {
	if nodeLex.Type() != lexeme.ArrayEnd {
		return lexeme.NewLexEventError(nodeLex, errors.ErrChecker)
	}

	return nil
}
