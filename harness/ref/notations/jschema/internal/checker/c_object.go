package checker

import (
	"verif/harness/ref/errors"
	"verif/harness/ref/internal/lexeme"
)

type objectChecker struct{}

func newObjectChecker() objectChecker {
	return objectChecker{}
}

func (objectChecker) Check(nodeLex lexeme.LexEvent) errors.Error {
	if nodeLex.Type() != lexeme.ObjectEnd {
		return lexeme.NewLexEventError(nodeLex, errors.ErrChecker)
	}

	return nil
}
