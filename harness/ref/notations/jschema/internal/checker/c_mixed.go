package checker

import (
	"fmt"

	"verif/harness/ref/errors"
	"verif/harness/ref/internal/lexeme"
	"verif/harness/ref/notations/jschema/internal/schema"
	"verif/harness/ref/notations/jschema/internal/validator"
)

type mixedChecker struct {
	node schema.Node
}

func newMixedChecker(node schema.Node) mixedChecker {
	return mixedChecker{
		node: node,
	}
}

func (c mixedChecker) Check(nodeLex lexeme.LexEvent) (err errors.Error) {
	defer func() {
		if r := recover(); r != nil {
			switch val := r.(type) {
			case errors.DocumentError:
				err = val
			case errors.Err:
				err = lexeme.NewLexEventError(nodeLex, val)
			default:
				err = lexeme.NewLexEventError(nodeLex, errors.Format(errors.ErrGeneric, fmt.Sprintf("%s", r)))
			}
		}
	}()

	if nodeLex.Type() == lexeme.LiteralEnd {
		validator.ValidateLiteralValue(c.node, nodeLex.Value()) // can panic
	}

	return nil
}
