package checker

import (
	"verif/harness/ref/errors"
	"verif/harness/ref/internal/lexeme"
	"verif/harness/ref/notations/jschema/internal/schema"
)

type nodeChecker interface {
	Check(lexeme.LexEvent) errors.Error
}

func newNodeChecker(node schema.Node) (nodeChecker, error) {
	switch node.(type) {
	case *schema.LiteralNode:
		return newLiteralChecker(node), nil

	case *schema.ObjectNode:
		return newObjectChecker(), nil

	case *schema.ArrayNode:
		return newArrayChecker(), nil

	case *schema.MixedNode:
		return newMixedChecker(node), nil

	default:
		return nil, errors.ErrImpossible
	}
}
