package checker

import (
	"strings"

	"verif/harness/ref/errors"
	"verif/harness/ref/notations/jschema/internal/schema"
	"verif/harness/ref/notations/jschema/internal/schema/constraint"
)

// CheckRecursion checks that given schema doesn't have invalid recursions.
//
// Examples of invalid recursions:
//
//	TYPE @foo
//	{
//	  "foo": @foo
//	}
//
// Examples of valid recursions:
//
//	TYPE @foo
//	{
//	  "foo": @foo // {optional: true}
//	}
//
//	TYPE @foo
//	{
//	  "foo": [@foo]
//	}
func CheckRecursion(rootTypeName string, rootSchema *schema.Schema) error {
	if rootSchema.RootNode() == nil {
		return nil
	}

	rc := &recursionChecker{
		visited: map[string]struct{}{
			// Obviously, root type was visited.
			rootTypeName: {},
		},
		path: []string{rootTypeName},
	}

	return rc.check(rootSchema.RootNode(), rootSchema.TypesList())
}

type recursionChecker struct {
	// visited a set of visited types.
	visited map[string]struct{}

	// path a path to current type.
	// Necessary for building an error message 'cause user should understand where
	// recursion was found.
	path []string
}

func (c *recursionChecker) check(node schema.Node, types map[string]schema.Type) error {
	// We can represent checked type and all dependent types as a graph. Root node
	// is a checked type. This is a directed graph with two types of edges: required
	// and optional.
	//
	// Edge between two types will be required if first type requires second type,
	// for instance when we have something like this:
	// {
	//   "foo": @bar
	// }
	// Here main type require `@bar` type.
	//
	// Edge between two types will be optional if first type doesn't require second
	// type, for instance:
	// {
	//   "foo": @bar // {optional: true}
	// }
	// Here main type doesn't require `@bar` type.
	//
	// So, we will visit all required types and skip optional and mark all passed
	// types until we pass all types. Or we try to mark already marked type. In
	// that case we have infinity recursion.
	//
	// Example:
	//
	// TYPE @foo
	// {
	//   "foo1": [@foo],
	//   "foo2": @bar
	// }
	//
	// TYPE @bar
	// {
	//   "bar1": @fizz
	//   "bar2": @bar // {optional: true}
	// }
	//
	// TYPE @fizz
	// {
	//   "fizz1": @foo
	// }
	//
	// Here we check `@foo` type. We can omit all optional dependencies, and we
	// will get next situation:
	//
	// @foo -> @bar -> @fizz -> @foo -> @bar -> @fizz -> @foo ...
	//
	// Obviously, this is an infinity recursion. And no mater which type we will
	// take to check we will get an infinity recursion here.

	// Ignore optional node.
	if schema.IsOptionalNode(node) {
		return nil
	}

	switch node := node.(type) {
	// Array might contain no items, so it's optional and should be skipped.
	// Literal nodes should be skipped 'cause it doesn't contain any fields or
	// type names.
	// Mixed node doesn't contain user type.
	case *schema.ArrayNode, *schema.LiteralNode, *schema.MixedNode:
		return nil

	// Special logic for mixed value 'cause it can contain a link to another type.
	case *schema.MixedValueNode:
		return c.checkMixedValueNode(node, types)

	// We should check all fields in the object 'cause some of them can be required.
	case *schema.ObjectNode:
		for i, n := range node.Children() {
			// A key is required or not by the list the compiler has made, which
			// takes the "keys are optional by default" option into account.
			if !isRequiredKey(node, node.Key(i).Key) {
				continue
			}
			if err := c.check(n, types); err != nil {
				return err
			}
		}

	default:
		return errors.ErrImpossible
	}

	return nil
}

func (c *recursionChecker) checkMixedValueNode(
	node *schema.MixedValueNode,
	types map[string]schema.Type,
) error {
	tt := node.GetTypes()

	// We should check all types and return an error only if all paths leads
	// to infinity recursion.
	errs := make([]error, 0, len(tt))
	for _, t := range tt {
		if err := c.checkType(t, types); err != nil {
			errs = append(errs, err)
		}
	}

	if len(errs) > 0 && len(errs) == len(tt) {
		// Just return first found error.
		return errs[0]
	}
	return nil
}

func (c *recursionChecker) checkType(typeName string, types map[string]schema.Type) error {
	if !c.visit(typeName) {
		return c.createError()
	}
	defer c.leave(typeName)

	t := types[typeName]
	if t.Schema() == nil {
		// This might happen if we didn't know anything about this type.
		// Normally we shouldn't get this situation.
		return nil
	}

	return c.check(t.Schema().RootNode(), t.Schema().TypesList())
}

func (c *recursionChecker) visit(typeName string) bool {
	c.path = append(c.path, typeName)
	if _, ok := c.visited[typeName]; ok {
		return false
	}
	c.visited[typeName] = struct{}{}
	return true
}

func (c *recursionChecker) leave(typeName string) {
	if len(c.path) > 0 {
		c.path = c.path[:len(c.path)-1]
	}
	delete(c.visited, typeName)
}

func (c *recursionChecker) createError() error {
	return errors.Format(errors.ErrInfinityRecursionDetected, strings.Join(c.path, " -> "))
}

func isRequiredKey(node *schema.ObjectNode, key string) bool {
	c, ok := node.Constraint(constraint.RequiredKeysConstraintType).(*constraint.RequiredKeys)
	if !ok {
		return false
	}
	for _, k := range c.Keys() {
		if k == key {
			return true
		}
	}
	return false
}
