package checker

import (
	"sort"

	"verif/harness/ref/errors"
	"verif/harness/ref/internal/json"
	"verif/harness/ref/internal/lexeme"
	"verif/harness/ref/notations/jschema/internal/schema"
	"verif/harness/ref/notations/jschema/internal/schema/constraint"
)

// Checks the SAMPLE SCHEMA and all TYPES for compliance with all RULES.

type checkSchema struct {
	rootSchema *schema.Schema

	// foundTypeNames the names of the type encountered during checking. Are used
	// to control recursion.
	foundTypeNames map[string]struct{}

	// allowedJsonTypes the list of available json-types from types.
	allowedJsonTypes map[json.Type]struct{}
}

func CheckRootSchema(rootSchema *schema.Schema) {
	c := checkSchema{
		rootSchema:       rootSchema,
		foundTypeNames:   make(map[string]struct{}, 10),
		allowedJsonTypes: make(map[json.Type]struct{}, 10),
	}

	// The types are checked in the order of their names, so that the error
	// reported for several broken types does not depend on map iteration.
	types := rootSchema.TypesList()
	names := make([]string, 0, len(types))
	for name := range types {
		names = append(names, name)
	}
	// An unnamed type is named by an address: it takes its place by the file
	// and the position it was read from, after the named ones.
	sort.Slice(names, func(i, j int) bool {
		a, b := types[names[i]], types[names[j]]
		ua, ub := names[i][0] == '#', names[j][0] == '#'
		switch {
		case ua != ub:
			return ub
		case !ua || a.RootFile() == nil || b.RootFile() == nil:
			return names[i] < names[j]
		case a.RootFile().Name() != b.RootFile().Name():
			return a.RootFile().Name() < b.RootFile().Name()
		}
		return a.Begin() < b.Begin()
	})
	// An empty type is reported as such wherever it is referred to: the nodes
	// which refer to it would look into a root node which does not exist.
	for _, name := range names {
		if typ := types[name]; typ.Schema().RootNode() == nil {
			panic(errors.NewDocumentError(typ.RootFile(), errors.Format(errors.ErrEmptyType, name)))
		}
	}

	if rootSchema.RootNode() != nil { // the root schema may contain no nodes
		c.checkNode(rootSchema.RootNode(), rootSchema.TypesList())
	}

	for _, name := range names {
		c.checkType(name, types[name], types)
	}
}

func (c *checkSchema) checkType(name string, typ schema.Type, ss map[string]schema.Type) {
	defer func() {
		r := recover()
		if r == nil {
			return
		}

		// Return an error with the full set of bytes of the root schema.
		if documentError, ok := r.(errors.DocumentError); ok {
			// The nodes of a type, named or not, carry positions in the file
			// they were read from, which for a property inherited through
			// "allOf" is the file of another type: the error keeps its file
			// and its position.
			if !documentError.HasFile() {
				documentError.SetFile(typ.RootFile())
			}
			// An unnamed type (a rule set of an "or" rule, a member of a type
			// shortcut) is named by an address: the error names the user type
			// whose text it stands in, if that is one.
			if name[0] == '#' {
				name = ""
				if f := typ.RootFile(); f != nil && len(f.Name()) > 0 && f.Name()[0] == '@' {
					name = f.Name()
				}
			}
			documentError.SetIncorrectUserType(name)
			panic(documentError)
		}

		panic(r)
	}()

	root := typ.Schema().RootNode()
	if root == nil {
		panic(errors.NewDocumentError(typ.RootFile(), errors.Format(errors.ErrEmptyType, name)))
	}
	c.checkNode(root, ss)
}

func (c *checkSchema) checkerList(node schema.Node, ss map[string]schema.Type) []nodeChecker {
	l := nodeCheckerListConstructor{
		rootSchema: c.rootSchema,
		types:      ss,
	}
	l.buildList(node)
	return l.list
}

func (c checkSchema) checkNode(node schema.Node, ss map[string]schema.Type) {
	defer lexeme.CatchLexEventError(node.BasisLexEventOfSchemaForNode())
	switch node := node.(type) {
	case *schema.LiteralNode:
		c.checkCompatibilityOfConstraints(node)
		c.checkLinksOfNode(node, ss) // can panic
		c.checkLiteralNode(node, ss)
	case *schema.ArrayNode:
		c.checkCompatibilityOfConstraints(node)
		c.checkLinksOfNode(node, ss) // can panic
		c.checkArrayItems(node)
		c.checkArrayNode(node)
	case *schema.ObjectNode:
		c.checkCompatibilityOfConstraints(node)
		c.checkLinksOfNode(node, ss) // can panic
		if err := c.ensureShortcutKeysAreValid(node); err != nil {
			panic(err)
		}
		c.checkAdditionalPropertiesConstraint(node, ss)
	case *schema.MixedNode:
		c.checkCompatibilityOfConstraints(node)
		c.checkLinksOfNode(node, ss) // can panic
	case *schema.MixedValueNode:
		c.checkCompatibilityOfConstraints(node)
		c.checkLinksOfNode(node, ss) // can panic
	default:
		panic(errors.ErrImpossible)
	}

	if branchingNode, ok := node.(schema.BranchNode); ok {
		for _, child := range branchingNode.Children() {
			c.checkNode(child, ss) // can panic
		}
	}
}

func (c checkSchema) checkLiteralNode(node schema.Node, ss map[string]schema.Type) {
	checkerList := c.checkerList(node, ss)
	errorsCount := 0
	var err errors.Error

	for _, checker := range checkerList {
		err = checker.Check(node.BasisLexEventOfSchemaForNode())
		if err != nil {
			errorsCount++
		}
	}

	if errorsCount == len(checkerList) {
		if len(checkerList) == 1 {
			panic(err)
		} else {
			panic(lexeme.NewLexEventError(node.BasisLexEventOfSchemaForNode(), errors.ErrOrRuleSetValidation))
		}
	}
}

// Checks for array elements. Including recursively for types. Or if the array
// type is "any".
func (c checkSchema) checkArrayItems(node schema.Node) {
	arrayNode := node.(*schema.ArrayNode) //nolint:errcheck // We're sure about this type.

	if arrayNode.Len() != 0 {
		return
	}

	if arrayNode.Constraint(constraint.AnyConstraintType) != nil {
		return
	}

	if typesList := arrayNode.Constraint(constraint.TypesListConstraintType); typesList != nil {
		for _, name := range typesList.(*constraint.TypesList).Names() {
			typeRootNode := c.rootSchema.MustType(name).RootNode() // can panic

			if arrayNode, ok := typeRootNode.(*schema.ArrayNode); ok {
				c.checkArrayItems(arrayNode)
			}
		}
	}
}

func (checkSchema) checkArrayNode(node schema.Node) {
	arrayNode := node.(*schema.ArrayNode) //nolint:errcheck // We're sure about this type.

	length := uint(arrayNode.Len())

	if cnstr := arrayNode.Constraint(constraint.MinItemsConstraintType); cnstr != nil {
		cnstr.(*constraint.MinItems).ValidateTheArray(length)
	}

	if cnstr := arrayNode.Constraint(constraint.MaxItemsConstraintType); cnstr != nil {
		cnstr.(*constraint.MaxItems).ValidateTheArray(length)
	}
}

// check all constraints for compatibility with the json-type of the node
func (checkSchema) checkCompatibilityOfConstraints(node schema.Node) {
	_, isMixed := node.(*schema.MixedNode)
	_, isMixedValue := node.(*schema.MixedValueNode)

	err := node.ConstraintMap().Each(func(k constraint.Type, v constraint.Constraint) error {
		if !v.IsJsonTypeCompatible(node.Type()) && !isMixed && !isMixedValue {
			return errors.Format(errors.ErrUnexpectedConstraint, v.Type().String(), node.RealType())
		}
		return nil
	})
	if err != nil {
		panic(err)
	}
}

func (c *checkSchema) checkLinksOfNode(node schema.Node, ss map[string]schema.Type) {
	if node.Constraint(constraint.TypesListConstraintType) == nil {
		return // to optimize memory allocation
	}

	for k := range c.foundTypeNames {
		delete(c.foundTypeNames, k)
	}
	for k := range c.allowedJsonTypes {
		delete(c.allowedJsonTypes, k)
	}

	c.collectAllowedJsonTypes(node, ss)
	if _, ok := c.allowedJsonTypes[node.Type()]; !ok {
		panic(errors.ErrIncorrectUserType)
	}
}

func (c *checkSchema) ensureShortcutKeysAreValid(node *schema.ObjectNode) error {
	for _, v := range node.Keys().Data {
		if !v.IsShortcut {
			continue
		}

		s, err := c.rootSchema.Type(v.Key)
		if err != nil {
			return lexeme.NewLexEventError(v.Lex, err)
		}
		actualType := actualRootType(s, c.rootSchema, map[string]struct{}{v.Key: {}})

		if actualType != json.TypeString {
			return lexeme.NewLexEventError(
				v.Lex,
				errors.Format(errors.ErrInvalidKeyShortcutType, v.Key, actualType),
			)
		}
	}
	return nil
}

// actualRootType returns the JSON type of the root of s, looking through type
// shortcuts. seen holds the names of the types being looked through: a type
// which refers back to one of them has no JSON type of its own.
func actualRootType(s, root *schema.Schema, seen map[string]struct{}) json.Type {
	t := s.RootNode().Type()
	if t != json.TypeMixed {
		return t
	}

	// mixed type for example: @aaa | @bbb
	if n, ok := s.RootNode().(*schema.MixedValueNode); ok {
		types := make(map[json.Type]struct{}, 2)
		var tt json.Type
		for _, tn := range n.GetTypes() {
			ss, err := root.Type(tn)
			if err != nil {
				return json.TypeMixed
			}
			if _, ok := seen[tn]; ok {
				return json.TypeMixed
			}
			seen[tn] = struct{}{}
			tt = actualRootType(ss, root, seen)
			delete(seen, tn)
			types[tt] = struct{}{}
		}
		if len(types) == 1 { // all USER TYPES (example: @aaa | @bbb) have the same type (example: string)
			return tt
		}
	}

	return json.TypeMixed
}

func (c *checkSchema) collectAllowedJsonTypes(node schema.Node, ss map[string]schema.Type) {
	if _, ok := node.(*schema.MixedValueNode); ok {
		// This node can be anything.
		for _, t := range json.AllTypes {
			c.allowedJsonTypes[t] = struct{}{}
		}

		// Check all user types are defined.
		if typesConstraint := node.Constraint(constraint.TypesListConstraintType); typesConstraint != nil {
			for _, typeName := range typesConstraint.(*constraint.TypesList).Names() {
				c.rootSchema.MustType(typeName) // can panic
			}
		}
		return
	}

	typesConstraint := node.Constraint(constraint.TypesListConstraintType)

	if typesConstraint == nil {
		c.allowedJsonTypes[node.Type()] = struct{}{}
		return
	}

	for _, typeName := range typesConstraint.(*constraint.TypesList).Names() {
		if _, ok := c.foundTypeNames[typeName]; ok {
			panic(errors.Format(errors.ErrImpossibleToDetermineTheJsonTypeDueToRecursion, typeName))
		}
		c.foundTypeNames[typeName] = struct{}{}
		c.collectAllowedJsonTypes(getType(typeName, c.rootSchema, ss).RootNode(), ss) // can panic
	}
}

func (c *checkSchema) checkAdditionalPropertiesConstraint(node schema.Node, ss map[string]schema.Type) {
	cnstr := node.Constraint(constraint.AdditionalPropertiesConstraintType)
	if c == nil {
		return
	}

	ap, ok := cnstr.(*constraint.AdditionalProperties)
	if !ok {
		return
	}

	if ap.Mode() == constraint.AdditionalPropertiesMustBeUserType {
		getType(ap.TypeName().String(), c.rootSchema, ss)
	}
}

func getType(n string, rootSchema *schema.Schema, ss map[string]schema.Type) (ret *schema.Schema) {
	getFromRoot := func() *schema.Schema {
		return rootSchema.MustType(n)
	}

	getFromMap := func() *schema.Schema {
		s, ok := ss[n]
		if !ok {
			panic(errors.Format(errors.ErrTypeNotFound, n))
		}
		return s.Schema()
	}

	main := getFromRoot
	alternative := getFromMap
	if len(n) > 0 && n[0] == '#' {
		main = getFromMap
		alternative = getFromRoot
	}

	defer func() {
		if r := recover(); r == nil {
			return
		}

		ret = alternative()
	}()
	return main()
}
