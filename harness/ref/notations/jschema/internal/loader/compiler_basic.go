package loader

import (
	jschema "verif/harness/ref"
	"verif/harness/ref/bytes"
	"verif/harness/ref/errors"
	"verif/harness/ref/internal/json"
	"verif/harness/ref/internal/lexeme"
	"verif/harness/ref/notations/jschema/internal/schema"
	"verif/harness/ref/notations/jschema/internal/schema/constraint"
)

// schemaCompiler works with each node's constraints. This process adjust constraints
// so that they were in peace with each other. For example, if node has "precision"
// constraint, we have to add to this node "decimal" constraint, because only
// decimal can have precision. Another interesting example: if key-value node doesn't
// have an "optional" constraint, we have to add to parent object "required key"
// constraint, because this node's key is required in the object.
type schemaCompiler struct {
	rootSchema               *schema.Schema
	areKeysOptionalByDefault bool
}

func CompileBasic(rootSchema *schema.Schema, areKeysOptionalByDefault bool) {
	// The root node can be empty, if you specify only ATTRIBUTES without EXAMPLE.
	if rootSchema.RootNode() == nil {
		return
	}

	compile := schemaCompiler{
		rootSchema:               rootSchema,
		areKeysOptionalByDefault: areKeysOptionalByDefault,
	}
	compile.compileNode(rootSchema.RootNode(), 0)
}

func (compile schemaCompiler) compileNode(node schema.Node, indexOfNode int) {
	lex := node.BasisLexEventOfSchemaForNode()
	defer lexeme.CatchLexEventError(lex)

	compile.falseConstraints(node)    // can panic
	compile.orConstraint(node)        // can panic. Must be called before compile.typeConstraint()
	compile.enumConstraint(node)      // can panic. Must be called before compile.typeConstraint()
	compile.precisionConstraint(node) // can panic. Must be called before compile.typeConstraint()
	compile.ruleSetConstraints(node)  // can panic. Must be called before compile.typeConstraint()
	compile.typeConstraint(node)      // can panic
	if err := compile.allowedConstraintCheck(node); err != nil {
		panic(err)
	}
	compile.anyConstraint(node)              // can panic
	compile.exclusiveMinimumConstraint(node) // can panic
	compile.exclusiveMaximumConstraint(node) // can panic
	// After the exclusive flags became part of "min" and "max": with either of
	// them the bounds have to differ.
	if err := compile.checkPairConstraints(node); err != nil {
		panic(err)
	}
	compile.optionalConstraints(node, indexOfNode) // can panic

	if branchingNode, ok := node.(schema.BranchNode); ok {
		compile.emptyArray(node) // can panic
		for i, child := range branchingNode.Children() {
			compile.compileNode(child, i) // can panic
		}
	}
}

func (schemaCompiler) falseConstraints(node schema.Node) {
	node.ConstraintMap().Filter(func(k constraint.Type, c constraint.Constraint) bool {
		if k == constraint.NullableConstraintType || k == constraint.ConstConstraintType {
			if b, ok := c.(constraint.BoolKeeper); ok && !b.Bool() {
				return false
			}
		}
		return true
	})
}

func (schemaCompiler) orConstraint(node schema.Node) {
	if node.Constraint(constraint.OrConstraintType) == nil {
		return
	}

	if node.Constraint(constraint.TypesListConstraintType) == nil {
		panic(errors.ErrLoader) // Links to the schema not found
	}

	// check for a permissible constraints
	n := node.NumberOfConstraints()
	n-- // if node.Constraint(constraint.TypesListConstraintType) != nil - checked above
	if node.Constraint(constraint.OrConstraintType) != nil {
		n--
	}
	if node.Constraint(constraint.OptionalConstraintType) != nil {
		n--
	}
	if node.Constraint(constraint.NullableConstraintType) != nil {
		n--
	}
	if typeConstraint := node.Constraint(constraint.TypeConstraintType); typeConstraint != nil {
		n--
		if t := typeConstraint.(*constraint.TypeConstraint).Bytes().String(); t != `"mixed"` {
			panic(errors.Format(errors.ErrInvalidValueInTheTypeRule, t))
		}
	}
	if n != 0 {
		panic(errors.ErrShouldBeNoOtherRulesInSetWithOr)
	}

	ensureCanUseORConstraint(node)
	node.DeleteConstraint(constraint.OrConstraintType)
}

func ensureCanUseORConstraint(node schema.Node) {
	if branchNode, ok := node.(schema.BranchNode); ok {
		// Since "req.jschema.rules.type.reference 0.2" we didn't allow
		// empty object and arrays as well for the type constraint.
		checkBranchNodeWithOrConstraint(node, branchNode)
	}

	if _, ok := node.(*schema.MixedValueNode); !ok {
		return
	}

	or := node.Constraint(constraint.OrConstraintType).(*constraint.Or) //nolint:errcheck // We are sure about that.
	if or.IsGenerated() {
		return
	}

	// The value is a type shortcut and the rule was written by hand: whatever
	// the rule lists, user types or JSON types, it would take the place of the
	// type the value names (and the value is no example of a JSON type).
	panic(errors.ErrInvalidChildNodeTogetherWithOrRule)
}

func checkBranchNodeWithOrConstraint(schemaNode schema.Node, jsonNode schema.BranchNode) {
	if jsonNode.Len() != 0 {
		panic(errors.ErrInvalidChildNodeTogetherWithOrRule)
	}

	// Since "req.jschema.rules.or" we didn't allow empty object and arrays for
	// or with at least one user type.
	hasUserTypeInOr := false

	c, ok := schemaNode.Constraint(constraint.TypesListConstraintType).(*constraint.TypesList)
	if !ok {
		return
	}

	for _, n := range c.Names() {
		if n[0] == '@' {
			hasUserTypeInOr = true
			break
		}
	}

	if hasUserTypeInOr {
		panic(errors.ErrInvalidChildNodeTogetherWithOrRule)
	}
}

func (schemaCompiler) enumConstraint(node schema.Node) {
	if node.Constraint(constraint.EnumConstraintType) == nil {
		return
	}

	// check for a permissible constraints
	n := node.NumberOfConstraints()
	n-- // if node.Constraint(constraint.EnumConstraintType) != nil - checked above
	if node.Constraint(constraint.OptionalConstraintType) != nil {
		n--
	}
	if node.Constraint(constraint.ConstConstraintType) != nil {
		n--
	}
	if node.Constraint(constraint.NullableConstraintType) != nil {
		n--
	}
	if typeConstraint := node.Constraint(constraint.TypeConstraintType); typeConstraint != nil {
		n--
		if t := typeConstraint.(*constraint.TypeConstraint).Bytes().String(); t != `"enum"` {
			panic(errors.Format(errors.ErrInvalidValueInTheTypeRule, t))
		}
	}
	if n != 0 {
		panic(errors.ErrShouldBeNoOtherRulesInSetWithEnum)
	}
}

func (compile schemaCompiler) typeConstraint(node schema.Node) {
	c := node.Constraint(constraint.TypeConstraintType)
	if c == nil {
		return
	}

	typeConstraint := c.(*constraint.TypeConstraint) //nolint:errcheck // We sure about that.
	val := typeConstraint.Bytes().Unquote()

	if val.IsUserTypeName() {
		compile.typeConstraintForUserType(node, typeConstraint, val.String())
	} else {
		compile.typeConstraintForJSONTypes(node, val)
	}

	node.DeleteConstraint(constraint.TypeConstraintType)
}

func (schemaCompiler) typeConstraintForUserType(
	node schema.Node,
	typeConstraint *constraint.TypeConstraint,
	val string,
) {
	n := node.NumberOfConstraints()
	if node.Constraint(constraint.OptionalConstraintType) != nil {
		n--
	}
	if node.Constraint(constraint.NullableConstraintType) != nil {
		n--
	}
	if n != 1 {
		panic(errors.ErrCannotSpecifyOtherRulesWithTypeReference)
	}

	if _, ok := node.(schema.BranchNode); ok {
		// Since "req.jschema.rules.type.reference 0.2" we didn't allow
		// empty object and arrays as well for the type constraint.
		panic(errors.ErrInvalidChildNodeTogetherWithTypeReference)
	}

	if _, ok := node.(*schema.MixedValueNode); ok && !typeConstraint.IsGenerated() {
		panic(errors.ErrInvalidChildNodeTogetherWithTypeReference)
	}

	c := constraint.NewTypesList(jschema.RuleASTNodeSourceManual)
	c.AddName(val, val, jschema.RuleASTNodeSourceManual)

	node.AddConstraint(c) // can panic: Unable to add constraint
}

func (schemaCompiler) typeConstraintForJSONTypes(node schema.Node, val bytes.Bytes) {
	valStr := val.String()

	h, ok := jsonTypesHandler[valStr]
	if ok {
		h(node)
	} else {
		t := json.NewJsonType(val)                         // can panic
		if mixedNode, ok := node.(*schema.MixedNode); ok { // defined json type for mixed node
			mixedNode.SetJsonType(t)
		} else if t != node.Type() { // check json type for non-mixed node
			panic(errors.Format(errors.ErrIncompatibleTypes, t.String()))
		}
	}
	if !node.SetRealType(valStr) {
		panic(errors.Format(errors.ErrIncompatibleTypes, valStr))
	}
}

var jsonTypesHandler = map[string]func(node schema.Node){
	"mixed": func(node schema.Node) {
		typesListConstraint := node.Constraint(constraint.TypesListConstraintType)
		if typesListConstraint == nil {
			panic(errors.ErrNotFoundRuleOr)
		}

		if typesListConstraint.(*constraint.TypesList).Len() < 2 {
			panic(errors.ErrNotFoundRuleOr)
		}
	},

	constraint.EnumConstraintType.String(): func(node schema.Node) {
		if node.Constraint(constraint.EnumConstraintType) == nil {
			panic(errors.ErrNotFoundRuleEnum)
		}
	},

	"any": func(node schema.Node) {
		node.AddConstraint(constraint.NewAny())
	},

	"decimal": func(node schema.Node) {
		if node.Constraint(constraint.PrecisionConstraintType) == nil {
			panic(errors.ErrNotFoundRulePrecision)
		}
	},

	"email": func(node schema.Node) {
		node.AddConstraint(constraint.NewEmail()) // can panic: Unable to add constraint
	},

	"uri": func(node schema.Node) {
		node.AddConstraint(constraint.NewUri())
	},

	"uuid": func(node schema.Node) {
		node.AddConstraint(constraint.NewUuid())
	},

	"date": func(node schema.Node) {
		node.AddConstraint(constraint.NewDate())
	},

	"datetime": func(node schema.Node) {
		node.AddConstraint(constraint.NewDateTime())
	},
}

func (schemaCompiler) allowedConstraintCheck(node schema.Node) (err error) {
	bannedConstraints := map[constraint.Type][]constraint.Type{
		constraint.EmailConstraintType: {
			constraint.MinLengthConstraintType,
			constraint.MaxLengthConstraintType,
			constraint.RegexConstraintType,
		},

		constraint.UriConstraintType: {
			constraint.MinLengthConstraintType,
			constraint.MaxLengthConstraintType,
			constraint.RegexConstraintType,
		},

		constraint.DateConstraintType: {
			constraint.MinLengthConstraintType,
			constraint.MaxLengthConstraintType,
			constraint.RegexConstraintType,
		},

		constraint.DateTimeConstraintType: {
			constraint.MinLengthConstraintType,
			constraint.MaxLengthConstraintType,
			constraint.RegexConstraintType,
		},

		constraint.UuidConstraintType: {
			constraint.MinLengthConstraintType,
			constraint.MaxLengthConstraintType,
			constraint.RegexConstraintType,
			constraint.RegexConstraintType,
		},

		constraint.AnyConstraintType: {
			constraint.ConstConstraintType,
		},
	}

	for t, tt := range bannedConstraints {
		if node.Constraint(t) != nil {
			for _, bt := range tt {
				if node.Constraint(bt) != nil {
					return errors.Format(errors.ErrUnexpectedConstraint, bt.String(), t.String())
				}
			}
		}
	}
	return nil
}

func (schemaCompiler) anyConstraint(node schema.Node) {
	if node.Constraint(constraint.AnyConstraintType) == nil {
		return
	}

	// check for a permissible constraints
	n := node.NumberOfConstraints()
	n-- // AnyConstraintType - checked above
	if node.Constraint(constraint.OptionalConstraintType) != nil {
		n--
	}
	if node.Constraint(constraint.NullableConstraintType) != nil {
		n--
	}
	if node.Constraint(constraint.ConstConstraintType) != nil {
		n--
	}
	if n != 0 {
		panic(errors.ErrShouldBeNoOtherRulesInSetWithAny)
	}

	if branchNode, ok := node.(schema.BranchNode); ok {
		if branchNode.Len() != 0 {
			panic(errors.ErrInvalidNestedElementsFoundForTypeAny)
		}
	}
}

// checkPairConstraints checks some constraints which has pairs such as `min` and `max`,
// `minLength` and `maxLength`, etc.
func (compile schemaCompiler) checkPairConstraints(node schema.Node) error {
	checkers := []func(schema.Node) error{
		compile.checkMinAndMax,
		compile.checkMinLengthAndMaxLength,
		compile.checkMinItemsAndMaxItems,
	}

	for _, fn := range checkers {
		if err := fn(node); err != nil {
			return err
		}
	}
	return nil
}

func (schemaCompiler) checkMinAndMax(node schema.Node) error {
	minRaw := node.Constraint(constraint.MinConstraintType)
	maxRaw := node.Constraint(constraint.MaxConstraintType)

	if minRaw == nil || maxRaw == nil {
		return nil
	}

	min := minRaw.(*constraint.Min) //nolint:errcheck // We're sure about this type.
	max := maxRaw.(*constraint.Max) //nolint:errcheck // We're sure about this type.

	if min.Exclusive() || max.Exclusive() {
		if min.Value().GreaterThanOrEqual(max.Value()) {
			return errors.Format(
				errors.ErrValueOfOneConstraintGreaterOrEqualToAnother,
				"min",
				"max",
			)
		}
	} else {
		if min.Value().GreaterThan(max.Value()) {
			return errors.Format(
				errors.ErrValueOfOneConstraintGreaterThanAnother,
				"min",
				"max",
			)
		}
	}
	return nil
}

func (schemaCompiler) checkMinLengthAndMaxLength(node schema.Node) error {
	minLengthRaw := node.Constraint(constraint.MinLengthConstraintType)
	maxLengthRaw := node.Constraint(constraint.MaxLengthConstraintType)

	if minLengthRaw == nil || maxLengthRaw == nil {
		return nil
	}

	minLength := minLengthRaw.(*constraint.MinLength) //nolint:errcheck // We're sure about this type.
	maxLength := maxLengthRaw.(*constraint.MaxLength) //nolint:errcheck // We're sure about this type.

	if minLength.Value() > maxLength.Value() {
		return errors.Format(
			errors.ErrValueOfOneConstraintGreaterThanAnother,
			"minLength",
			"maxLength",
		)
	}
	return nil
}

func (schemaCompiler) checkMinItemsAndMaxItems(node schema.Node) error {
	minItemsRaw := node.Constraint(constraint.MinItemsConstraintType)
	maxItemsRaw := node.Constraint(constraint.MaxItemsConstraintType)

	if minItemsRaw == nil || maxItemsRaw == nil {
		return nil
	}

	minItems := minItemsRaw.(*constraint.MinItems) //nolint:errcheck // We're sure about this type.
	maxItems := maxItemsRaw.(*constraint.MaxItems) //nolint:errcheck // We're sure about this type.

	if minItems.Value() > maxItems.Value() {
		return errors.Format(
			errors.ErrValueOfOneConstraintGreaterThanAnother,
			"minItems",
			"maxItems",
		)
	}
	return nil
}

func (schemaCompiler) exclusiveMinimumConstraint(node schema.Node) {
	exclusiveMin := node.Constraint(constraint.ExclusiveMinimumConstraintType)
	if exclusiveMin != nil {
		min := node.Constraint(constraint.MinConstraintType)
		if min == nil {
			panic(errors.ErrConstraintMinNotFound)
		}
		if exclusiveMin.(*constraint.ExclusiveMinimum).IsExclusive() {
			min.(*constraint.Min).SetExclusive(true)
		}
		node.DeleteConstraint(constraint.ExclusiveMinimumConstraintType)
	}
}

func (schemaCompiler) exclusiveMaximumConstraint(node schema.Node) {
	exclusiveMax := node.Constraint(constraint.ExclusiveMaximumConstraintType)
	if exclusiveMax != nil {
		max := node.Constraint(constraint.MaxConstraintType)
		if max == nil {
			panic(errors.ErrConstraintMaxNotFound)
		}
		if exclusiveMax.(*constraint.ExclusiveMaximum).IsExclusive() {
			max.(*constraint.Max).SetExclusive(true)
		}
		node.DeleteConstraint(constraint.ExclusiveMaximumConstraintType)
	}
}

func (compile schemaCompiler) optionalConstraints(node schema.Node, indexOfNode int) {
	optional := node.Constraint(constraint.OptionalConstraintType)
	parentNode := node.Parent()
	objectNode, ok := parentNode.(*schema.ObjectNode)

	if optional == nil {
		if ok && !compile.areKeysOptionalByDefault {
			addRequiredKey(objectNode, objectNode.Key(indexOfNode).Key)
		}
	} else {
		if !ok {
			panic(errors.ErrRuleOptionalAppliesOnlyToObjectProperties)
		}

		if !optional.(constraint.BoolKeeper).Bool() {
			addRequiredKey(objectNode, objectNode.Key(indexOfNode).Key)
		}
	}
}

func (schemaCompiler) precisionConstraint(node schema.Node) {
	if node.Constraint(constraint.PrecisionConstraintType) == nil {
		return
	}

	c := node.Constraint(constraint.TypeConstraintType)
	if c == nil {
		return
	}

	t := c.(*constraint.TypeConstraint).Bytes().Unquote().String()
	if t != "decimal" {
		panic(errors.Format(errors.ErrUnexpectedConstraint, constraint.PrecisionConstraintType, t))
	}
}

// ruleSetConstraints a rule set of an "or" rule describes values of one kind -
// the one its "type" names, else the kind of the example it stands next to.
// Its other rules have to apply to that kind, as they have to on a node.
func (schemaCompiler) ruleSetConstraints(node schema.Node) {
	if _, ok := node.(*schema.MixedNode); !ok {
		return
	}
	if node.Constraint(constraint.OrConstraintType) != nil ||
		node.Constraint(constraint.TypesListConstraintType) != nil ||
		node.Constraint(constraint.EnumConstraintType) != nil {
		return // the node that carries the "or" rule itself, or a list of values
	}

	t := node.Type()
	name := t.String()
	if c := node.Constraint(constraint.TypeConstraintType); c != nil {
		val := c.(*constraint.TypeConstraint).Bytes().Unquote()
		name = val.String()
		switch name {
		case "any", "enum", "mixed":
			return
		case "email", "uri", "uuid", "date", "datetime":
			t = json.TypeString
		case "decimal":
			t = json.TypeFloat
		default:
			if val.IsUserTypeName() {
				return
			}
			t = json.NewJsonType(val) // can panic
		}
	}

	err := node.ConstraintMap().Each(func(_ constraint.Type, v constraint.Constraint) error {
		if !v.IsJsonTypeCompatible(t) {
			return errors.Format(errors.ErrUnexpectedConstraint, v.Type().String(), name)
		}
		return nil
	})
	if err != nil {
		panic(err)
	}
}

func (schemaCompiler) emptyArray(node schema.Node) {
	arrayNode, ok := node.(*schema.ArrayNode)

	if !ok || arrayNode.Len() != 0 {
		return
	}

	if min := node.Constraint(constraint.MinItemsConstraintType); min != nil {
		if min.(constraint.ArrayValidator).Value() != 0 {
			panic(errors.ErrIncorrectConstraintValueForEmptyArray)
		}
	}
	if max := node.Constraint(constraint.MaxItemsConstraintType); max != nil {
		if max.(constraint.ArrayValidator).Value() != 0 {
			panic(errors.ErrIncorrectConstraintValueForEmptyArray)
		}
	}
}
