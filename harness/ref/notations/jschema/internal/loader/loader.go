package loader

import (
	"sync"

	jschema "verif/harness/ref"
	"verif/harness/ref/internal/lexeme"
	"verif/harness/ref/notations/jschema/internal/scanner"
	"verif/harness/ref/notations/jschema/internal/schema"
)

// mode contains information about the mode in which the loader is located.
// It affects how the received lexical events will be interpreted depending on
// whether they are in the comments or not.
type mode int

const (
	readDefault mode = iota
	readInlineComment
	readMultiLineComment
)

// loader loads the schema from the scanner into the internal view.
// Does not check for the correctness of the branch because it deals with the scanner.
type loader struct {
	// The schema resulting.
	schema schema.Schema

	// rootSchema a scheme into which types can be added from the "or" rule.
	rootSchema *schema.Schema

	// scanner a tool to search for lexical events in a byte sequence containing
	// a schema.
	scanner *scanner.Scanner

	// lastAddedNode the last node added to the internal Schema.
	lastAddedNode schema.Node

	// rules all available rules.
	rules map[string]jschema.Rule

	// The rule is responsible for creating constraints for SCHEMA internal representation
	// nodes from the RULES described in the SCHEMA file.
	rule *ruleLoader

	// The node class is responsible for loading the JSON elements in the nodes
	// of the internal representation of the SCHEMA.
	node *nodeLoader

	// mode used for processing inline comment, multi-line comment, or no comment
	// section.
	mode mode

	// nodesPerCurrentLineCount the number of nodes in a line. To check because
	// the rule cannot be added if there is more than one nodes suitable for this
	// in the row.
	nodesPerCurrentLineCount uint

	// keyPending an object key has been read and its value has not begun yet.
	keyPending bool

	// pendingNote the note of an annotation found between a key and its value:
	// it belongs to the value, which is not there yet.
	pendingNote string
}

func LoadSchema(scan *scanner.Scanner, rootSchema *schema.Schema) *schema.Schema {
	s := LoadSchemaWithoutCompile(scan, rootSchema, nil)
	CompileBasic(&s, false)
	return &s
}

var loaderPool = sync.Pool{
	New: func() interface{} {
		return &loader{
			schema: schema.New(),
		}
	},
}

func LoadSchemaWithoutCompile(
	scan *scanner.Scanner,
	rootSchema *schema.Schema,
	rules map[string]jschema.Rule,
) schema.Schema {
	l := loaderPool.Get().(*loader) //nolint:errcheck // We're sure about this type.
	defer func() {
		l.reset()
		loaderPool.Put(l)
	}()

	l.scanner = scan
	l.rules = rules

	l.rootSchema = rootSchema
	if rootSchema == nil {
		l.rootSchema = &l.schema
	}

	l.node = newNodeLoader(&l.schema, &l.nodesPerCurrentLineCount)
	l.doLoad()

	return l.schema
}

func (l *loader) reset() {
	l.schema = schema.New()
	l.rootSchema = nil
	l.scanner = nil
	l.lastAddedNode = nil
	l.rules = nil
	l.rule = nil
	l.node = nil
	l.mode = readDefault
	l.nodesPerCurrentLineCount = 0
	l.keyPending = false
	l.pendingNote = ""
}

// doLoad the main function, in which there is a cycle of scanning and loading schemas.
func (l *loader) doLoad() {
	for {
		lex, ok := l.scanner.Next()
		if !ok {
			break
		}

		skip, err := l.handleLex(lex)
		if err != nil {
			panic(err)
		}

		if skip {
			continue
		}

		switch l.mode {
		case readMultiLineComment, readInlineComment:
			l.rule.load(lex)
		default:
			if t := lex.Type(); t == lexeme.ObjectKeyEnd || t == lexeme.KeyShortcutEnd {
				l.keyPending = true
			}
			if node := l.node.Load(lex); node != nil {
				if lex.Type() != lexeme.ObjectEnd { // a new node
					if l.pendingNote != "" {
						node.SetComment(l.pendingNote)
					}
					l.keyPending, l.pendingNote = false, ""
				}
				l.lastAddedNode = node
			}
		}
	}
}

func (l *loader) handleLex(lex lexeme.LexEvent) (bool, error) { //nolint:gocyclo // Pretty readable though.
	switch lex.Type() {
	case lexeme.TypesShortcutBegin, lexeme.KeyShortcutBegin:
		return l.mode != readMultiLineComment && l.mode != readInlineComment, nil

	case lexeme.TypesShortcutEnd:
		if l.mode == readMultiLineComment || l.mode == readInlineComment {
			return false, nil
		}

		l.mode = readDefault
		if err := addShortcutConstraint(l.lastAddedNode, l.rootSchema, lex); err != nil {
			return false, err
		}
		return true, nil

	case lexeme.MultiLineAnnotationBegin:
		l.mode = readMultiLineComment
		l.rule = l.newRuleLoader()
		return true, nil

	case lexeme.MultiLineAnnotationEnd:
		l.mode = readDefault
		return true, nil

	case lexeme.InlineAnnotationBegin:
		if l.mode == readDefault { // not multiLine comment
			l.mode = readInlineComment
			l.rule = l.newRuleLoader()
			return true, nil
		}

	case lexeme.InlineAnnotationEnd:
		if l.mode == readInlineComment { // not multiLine comment
			l.mode = readDefault
			return true, nil
		}
	}

	return false, nil
}

func (l *loader) newRuleLoader() *ruleLoader {
	rl := newRuleLoader(l.lastAddedNode, l.nodesPerCurrentLineCount, l.rootSchema, l.rules)
	if l.keyPending {
		// A note between a key and its value is a note of the value, not of
		// the node before the key.
		rl.onNote = func(s string) { l.pendingNote = s }
	}
	return rl
}
