package loader

import (
	"verif/harness/ref/notations/jschema/internal/schema"
	"verif/harness/ref/notations/jschema/internal/schema/constraint"
)

func addRequiredKey(node *schema.ObjectNode, key string) {
	requiredKeys := node.Constraint(constraint.RequiredKeysConstraintType)
	if requiredKeys == nil {
		requiredKeys := constraint.NewRequiredKeys()
		requiredKeys.AddKey(key)
		node.AddConstraint(requiredKeys)
	} else {
		requiredKeys.(*constraint.RequiredKeys).AddKey(key)
	}
}
