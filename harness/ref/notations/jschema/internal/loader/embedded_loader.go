package loader

import (
	"verif/harness/ref/internal/lexeme"
)

type embeddedLoader interface {
	Load(lex lexeme.LexEvent) bool
}
