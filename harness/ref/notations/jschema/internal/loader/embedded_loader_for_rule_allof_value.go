package loader

import (
	"verif/harness/ref/errors"
	"verif/harness/ref/internal/lexeme"
	"verif/harness/ref/notations/jschema/internal/schema/constraint"
)

// allOfValueLoader loader for "allOf" rule value (string or array).
// example: "@name"
// example: ["@name1", "@name2"]
type allOfValueLoader struct {
	allOfConstraint *constraint.AllOf

	// stateFunc a function for running a state machine (the current state of the
	// state machine).
	stateFunc func(lexeme.LexEvent)

	// inProgress indicates loading finished.
	inProgress bool
}

var _ embeddedLoader = (*allOfValueLoader)(nil)

func newAllOfValueLoader(allOfConstraint *constraint.AllOf) *allOfValueLoader {
	l := &allOfValueLoader{
		allOfConstraint: allOfConstraint,
		inProgress:      true,
	}
	l.stateFunc = l.begin
	return l
}

func (l *allOfValueLoader) Load(lex lexeme.LexEvent) bool {
	defer lexeme.CatchLexEventError(lex)
	l.stateFunc(lex)
	return l.inProgress
}

// begin of array "[" or scalar '"'.
func (l *allOfValueLoader) begin(lex lexeme.LexEvent) {
	switch lex.Type() {
	case lexeme.ArrayBegin:
		l.allOfConstraint.SetList()
		l.stateFunc = l.arrayItemBeginOrArrayEnd
	case lexeme.LiteralBegin:
		l.stateFunc = l.scalarValue
	default:
		panic(errors.ErrUnacceptableValueInAllOfRule)
	}
}

// arrayItemBeginOrArrayEnd begin of array item or array end.
func (l *allOfValueLoader) arrayItemBeginOrArrayEnd(lex lexeme.LexEvent) {
	switch lex.Type() {
	case lexeme.ArrayItemBegin:
		l.stateFunc = l.arrayItemValue
	case lexeme.ArrayEnd:
		l.stateFunc = l.endOfLoading
		l.inProgress = false
	default:
		panic(errors.ErrLoader)
	}
}

func (l *allOfValueLoader) arrayItemValue(lex lexeme.LexEvent) {
	switch lex.Type() {
	case lexeme.LiteralBegin:
		return
	case lexeme.LiteralEnd:
		l.allOfConstraint.Append(lex.Value())
		l.stateFunc = l.arrayItemEnd
	default:
		panic(errors.ErrUnacceptableValueInAllOfRule)
	}
}

func (l *allOfValueLoader) arrayItemEnd(lex lexeme.LexEvent) {
	if lex.Type() != lexeme.ArrayItemEnd {
		panic(errors.ErrLoader)
	}
	l.stateFunc = l.arrayItemBeginOrArrayEnd
}

func (l *allOfValueLoader) scalarValue(lex lexeme.LexEvent) {
	if lex.Type() != lexeme.LiteralEnd {
		panic(errors.ErrUnacceptableValueInAllOfRule)
	}
	l.allOfConstraint.Append(lex.Value())
	l.stateFunc = l.endOfLoading
	l.inProgress = false
}

// endOfLoading the method should not be called during normal operation. Ensures
// that the loader will not continue to work after the load is complete.
func (*allOfValueLoader) endOfLoading(lexeme.LexEvent) {
	panic(errors.ErrLoader)
}
