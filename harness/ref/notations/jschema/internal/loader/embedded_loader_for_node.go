package loader

import (
	"verif/harness/ref/internal/lexeme"
	"verif/harness/ref/notations/jschema/internal/schema"
)

// nodeLoader is responsible for loading the JSON elements in the nodes of the
// internal representation of the SCHEMA.
type nodeLoader struct {
	// The schema.
	// Parameter from the main loader.
	schema *schema.Schema

	// nodesPerCurrentLineCount counts the number of nodes in a line. To check
	// because the rule cannot be added if there is more than one node suitable
	// for this in the row.
	// Parameter from the main loader.
	nodesPerCurrentLineCount *uint

	// leaf a schema node which is processed at the moment. A schema is a tree of
	// nodes. Starting from the root node, we fill the nodes with lexeme events.
	// If necessary, new nodes are added. Thus, the complete scheme tree is constructed.
	leaf schema.Node
}

func newNodeLoader(
	schem *schema.Schema,
	nodesPerCurrentLineCount *uint,
) *nodeLoader {
	return &nodeLoader{
		schema:                   schem,
		nodesPerCurrentLineCount: nodesPerCurrentLineCount,
	}
}

// Load returns the node an annotation which follows the lexeme belongs to: the
// newly added node, the object which has just been closed, or nil.
func (nl *nodeLoader) Load(lex lexeme.LexEvent) schema.Node {
	defer lexeme.CatchLexEventError(lex)

	switch lex.Type() {
	case lexeme.NewLine:
		*(nl.nodesPerCurrentLineCount) = 0
		return nil
	case lexeme.EndTop:
		return nil
	}

	if nl.leaf == nil {
		node := schema.NewNode(lex)
		nl.schema.SetRootNode(node)
		nl.leaf = node
		*(nl.nodesPerCurrentLineCount)++
		return node
	}

	var closed schema.Node
	if lex.Type() == lexeme.ObjectEnd {
		// A note after the closing brace is a note of the object, not of its
		// last property.
		closed = nl.leaf
	}

	var isNewChildNode bool
	nl.leaf, isNewChildNode = nl.leaf.Grow(lex)
	if isNewChildNode {
		*(nl.nodesPerCurrentLineCount)++
		return nl.leaf
	}

	return closed
}
