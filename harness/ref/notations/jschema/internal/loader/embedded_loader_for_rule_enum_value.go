package loader

import (
	stdErrors "errors"
	"fmt"
	"strings"

	jschemaLib "verif/harness/ref"
	"verif/harness/ref/errors"
	"verif/harness/ref/internal/lexeme"
	"verif/harness/ref/notations/jschema/internal/schema/constraint"
	"verif/harness/ref/rules/enum"
)

// enumValueLoader loader for "enum" rule value (array of literals).
// Ex: [123, 45.67, "abc", true, null]
type enumValueLoader struct {
	enumConstraint *constraint.Enum

	// stateFunc a function for running a state machine (the current state of the
	// state machine).
	stateFunc func(lexeme.LexEvent)

	// rules a set of all available rules.
	// Will be used for creating enum from one of rule.
	rules map[string]jschemaLib.Rule

	// lastIdx index of last added enum value.
	lastIdx int

	// commented the last value has got its comment: a comment line which
	// follows belongs to no value.
	commented bool

	// inProgress true - if loading in progress, false - if loading finisher.
	inProgress bool
}

var _ embeddedLoader = (*enumValueLoader)(nil)

func newEnumValueLoader(
	enumConstraint *constraint.Enum,
	rules map[string]jschemaLib.Rule,
) *enumValueLoader {
	l := &enumValueLoader{
		enumConstraint: enumConstraint,
		inProgress:     true,
		rules:          rules,
	}
	l.stateFunc = l.begin
	return l
}

func (l *enumValueLoader) Load(lex lexeme.LexEvent) bool {
	defer lexeme.CatchLexEventError(lex)
	l.stateFunc(lex)
	return l.inProgress
}

// begin of array "[", or "@"
func (l *enumValueLoader) begin(lex lexeme.LexEvent) {
	switch lex.Type() {
	case lexeme.ArrayBegin:
		l.stateFunc = l.arrayItemBeginOrArrayEnd
	case lexeme.MixedValueBegin:
		l.stateFunc = l.ruleNameBegin
	default:
		panic(errors.ErrInvalidValueInEnumRule)
	}
}

// arrayItemBeginOrArrayEnd begin of array item begin or array end
// ex: [1 <--
// ex: [" <--
// ex: ] <--
func (l *enumValueLoader) arrayItemBeginOrArrayEnd(lex lexeme.LexEvent) {
	switch lex.Type() {
	case lexeme.ArrayItemBegin:
		l.stateFunc = l.literal
	case lexeme.ArrayEnd:
		l.stateFunc = l.endOfLoading
		l.inProgress = false
	case lexeme.InlineAnnotationBegin:
		l.stateFunc = l.commentStart
	default:
		panic(errors.ErrLoader)
	}
}

func (l *enumValueLoader) commentStart(lex lexeme.LexEvent) {
	if lex.Type() != lexeme.InlineAnnotationTextBegin {
		panic(errors.ErrLoader)
	}
	l.stateFunc = l.commentEnd
}

func (l *enumValueLoader) commentEnd(lex lexeme.LexEvent) {
	if lex.Type() != lexeme.InlineAnnotationTextEnd {
		panic(errors.ErrLoader)
	}

	// A comment in front of the first value belongs to no value.
	if l.lastIdx < l.enumConstraint.Len() && !l.commented {
		l.enumConstraint.SetComment(l.lastIdx, lex.Value().TrimSpaces().String())
		l.commented = true
	}
	l.stateFunc = l.annotationEnd
}

func (l *enumValueLoader) annotationEnd(lex lexeme.LexEvent) {
	if lex.Type() != lexeme.InlineAnnotationEnd {
		panic(errors.ErrLoader)
	}
	l.stateFunc = l.arrayItemBeginOrArrayEnd
}

// array item value (literal)
func (l *enumValueLoader) literal(lex lexeme.LexEvent) {
	switch lex.Type() {
	case lexeme.LiteralBegin:
	case lexeme.LiteralEnd:
		l.lastIdx = l.enumConstraint.Append(constraint.NewEnumItem(lex.Value(), ""))
		l.commented = false
		l.stateFunc = l.arrayItemEnd
	default:
		panic(errors.ErrIncorrectArrayItemTypeInEnumRule)
	}
}

func (l *enumValueLoader) arrayItemEnd(lex lexeme.LexEvent) {
	if lex.Type() != lexeme.ArrayItemEnd {
		panic(errors.ErrLoader)
	}
	l.stateFunc = l.arrayItemBeginOrArrayEnd
}

// ruleNameBegin process expected rule name.
// ex: @ <--
func (l *enumValueLoader) ruleNameBegin(lex lexeme.LexEvent) {
	if lex.Type() != lexeme.TypesShortcutBegin {
		panic(errors.ErrLoader)
	}
	l.stateFunc = l.ruleName
}

// ruleName process rule name
func (l *enumValueLoader) ruleName(lex lexeme.LexEvent) {
	if lex.Type() != lexeme.TypesShortcutEnd {
		panic(errors.ErrLoader)
	}

	v := strings.TrimSpace(string(lex.Value()))

	r, ok := l.rules[v]
	if !ok {
		panic(errors.Format(errors.ErrEnumRuleNotFound, v))
	}

	e, ok := r.(*enum.Enum)
	if !ok {
		panic(errors.Format(errors.ErrNotAnEnumRule, v))
	}

	vv, err := e.Values()
	if err != nil {
		panic(fmt.Errorf("Invalid enum %q: %s", v, getDetailsFromEnumError(err)))
	}

	l.enumConstraint.SetRuleName(v)
	for _, v := range vv {
		if v.Type == jschemaLib.SchemaTypeComment {
			continue
		}
		l.enumConstraint.Append(constraint.NewEnumItem(v.Value, v.Comment))
	}
	l.stateFunc = l.endOfLoading
	l.inProgress = false
}

func getDetailsFromEnumError(err error) string {
	var de interface{ Message() string }
	if stdErrors.As(err, &de) {
		return de.Message()
	}
	return err.Error()
}

// The endOfLoading method should not be called during normal operation. Ensures
// that the loader will not continue to work after the load is complete.
func (*enumValueLoader) endOfLoading(lexeme.LexEvent) {
	panic(errors.ErrLoader)
}
