package loader

import (
	"sort"

	"verif/harness/ref/notations/jschema/internal/schema"
)

// AddUnnamedTypes makes the types known to the types of the root schema (the
// unnamed types of their "or" rules first of all) known to the root schema as
// well, transitively. The types are visited in the order of their names and a
// type the root schema already has is kept, so that the result does not depend
// on the iteration order of the maps (which are extended while being walked).
func AddUnnamedTypes(rootSchema *schema.Schema) {
	queue := sortedTypeNames(rootSchema.TypesList())
	seen := make(map[string]struct{}, len(queue))

	for len(queue) > 0 {
		name := queue[0]
		queue = queue[1:]
		if _, ok := seen[name]; ok {
			continue
		}
		seen[name] = struct{}{}

		typ := rootSchema.TypesList()[name]
		inner := typ.Schema().TypesList()
		for _, innerName := range sortedTypeNames(inner) {
			if _, ok := rootSchema.TypesList()[innerName]; !ok {
				rootSchema.AddType(innerName, inner[innerName])
			}
			queue = append(queue, innerName)
		}
	}
}

func sortedTypeNames(tt map[string]schema.Type) []string {
	names := make([]string, 0, len(tt))
	for name := range tt {
		names = append(names, name)
	}
	sort.Strings(names)
	return names
}
