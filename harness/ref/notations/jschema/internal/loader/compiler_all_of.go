package loader

import (
	"verif/harness/ref/errors"
	"verif/harness/ref/internal/lexeme"
	"verif/harness/ref/internal/verifhook"
	"verif/harness/ref/notations/jschema/internal/schema"
	"verif/harness/ref/notations/jschema/internal/schema/constraint"
)

type allOfConstraintCompiler struct {
	rootSchema *schema.Schema

	// processingTypes a list of schema names that are in the process of compilation
	// (i.e., schemas that contain at least one "allow" rule somewhere inside).
	// Recursive schema processing can occur during compilation.
	processingTypes map[string]struct{}

	// compiledTypes a list of compiled schemas, or schemas that do not need to
	// be compiled (within which the "all Of" rule is not used).
	compiledTypes map[string]struct{}

	foundTypes map[string]schema.Type
}

// CompileAllOf compile "allOf" rules in root schema, and in all types.
// Adds the necessary properties to objects, removes "allOf" rule.
func CompileAllOf(rootSchema *schema.Schema) {
	c := allOfConstraintCompiler{
		rootSchema:      rootSchema,
		processingTypes: make(map[string]struct{}),
		compiledTypes:   make(map[string]struct{}),
		foundTypes:      make(map[string]schema.Type),
	}

	c.processSchema(rootSchema)

	// In case allow is used only in types (not in the root schema). The types
	// are taken in the order of their names, so that the error reported when
	// several of them are broken does not depend on map iteration.
	for _, name := range sortedTypeNames(rootSchema.TypesList()) {
		c.processType(name)
	}

	for n, t := range c.foundTypes {
		rootSchema.AddType(n, t)
	}
}

// processSchema searches the schema and processes nodes that contain the "allOf"
// rule.
func (c *allOfConstraintCompiler) processSchema(schem *schema.Schema) {
	if node := schem.RootNode(); node != nil {
		c.processNode(node)
	}
}

// processNode recursively searches and processing nodes for the "allOf" rule.
func (c *allOfConstraintCompiler) processNode(node schema.Node) {
	verifhook.Yield("allof.read")
	if allOf := node.Constraint(constraint.AllOfConstraintType); allOf != nil {
		c.extend(node, allOf.(*constraint.AllOf).SchemaNames())
		verifhook.Yield("allof.delete")
		node.DeleteConstraint(constraint.AllOfConstraintType)
	}

	if branchNode, ok := node.(schema.BranchNode); ok {
		for _, childNode := range branchNode.Children() {
			c.processNode(childNode)
		}
	}
}

func (c *allOfConstraintCompiler) extend(node schema.Node, schemaNames []string) {
	defer lexeme.CatchLexEventError(node.BasisLexEventOfSchemaForNode())

	if len(schemaNames) == 0 {
		panic(errors.ErrTypeNameNotFoundInAllOfRule)
	}

	for _, name := range schemaNames {
		c.extendWith(node, name)
	}
}

func (c *allOfConstraintCompiler) extendWith(node schema.Node, name string) {
	lex := node.BasisLexEventOfSchemaForNode()
	defer lexeme.CatchLexEventErrorWithIncorrectUserType(
		lex,
		lex.File().Name(),
	)
	schem := c.processType(name)

	for n, t := range schem.TypesList() {
		c.foundTypes[n] = t
	}

	fromObject, ok := schem.RootNode().(*schema.ObjectNode)
	if !ok {
		panic(errors.Format(errors.ErrUnacceptableUserTypeInAllOfRule, name))
	}

	// It is not obligatory to make a check for casting to type *schema.ObjectNode.
	// The constraint cannot be applied to other types of nodes.
	toObject, ok := node.(*schema.ObjectNode)
	if !ok {
		panic(errors.Format(errors.ErrUnexpectedConstraint, constraint.AllOfConstraintType.String(), node.Type().String())) //nolint:lll
	}

	if fromAdditionalProperties := fromObject.Constraint(constraint.AdditionalPropertiesConstraintType); fromAdditionalProperties != nil { //nolint:lll
		fromAdditionalProperties := fromAdditionalProperties.(*constraint.AdditionalProperties)                                          //nolint:errcheck // We're sure about this type.
		if toAdditionalProperties := toObject.Constraint(constraint.AdditionalPropertiesConstraintType); toAdditionalProperties != nil { //nolint:lll
			toAdditionalProperties := toAdditionalProperties.(*constraint.AdditionalProperties) //nolint:errcheck // We're sure about this type.
			if !fromAdditionalProperties.IsEqual(*toAdditionalProperties) {
				panic(errors.ErrConflictAdditionalProperties)
			}
		} else {
			toObject.AddConstraint(fromAdditionalProperties)
		}
	}

	for i, childNode := range fromObject.Children() {
		key := fromObject.Key(i)
		verifhook.Yield("allof.add")
		toObject.AddChild(key, childNode) // can panic ErrDuplicateKeysInSchema
	}

	if requiredKeys := fromObject.Constraint(constraint.RequiredKeysConstraintType); requiredKeys != nil {
		for _, key := range requiredKeys.(*constraint.RequiredKeys).Keys() {
			addRequiredKey(toObject, key)
		}
	}
}

func (c *allOfConstraintCompiler) processType(name string) *schema.Schema {
	if _, ok := c.processingTypes[name]; ok {
		panic(errors.ErrUnacceptableRecursionInAllOfRule)
	}

	typ := c.rootSchema.MustType(name) // can panic

	if _, ok := c.compiledTypes[name]; ok {
		return typ
	}

	c.processingTypes[name] = struct{}{}
	c.processSchema(typ)
	delete(c.processingTypes, name)

	c.compiledTypes[name] = struct{}{}

	return typ
}
