package loader

import (
	"strings"

	jschema "verif/harness/ref"
	"verif/harness/ref/bytes"
	"verif/harness/ref/errors"
	"verif/harness/ref/internal/lexeme"
	"verif/harness/ref/notations/jschema/internal/schema"
	"verif/harness/ref/notations/jschema/internal/schema/constraint"
)

func addShortcutConstraint(node schema.Node, rootSchema *schema.Schema, lex lexeme.LexEvent) error {
	if lex.Type() != lexeme.TypesShortcutEnd {
		return errors.ErrLoader
	}

	// At this point lexeme value is valid, and we can safely use it.
	// Lexeme value examples:
	// - @foo
	// - @foo | @bar

	// Determines which constraint should be used.
	val := lex.Value().String()

	if strings.ContainsRune(val, '|') {
		addORShortcut(node, rootSchema, val)
	} else {
		addTypeShortcut(node, val)
	}
	return nil
}

func addORShortcut(node schema.Node, rootSchema *schema.Schema, val string) {
	// At this point lexeme value is valid, and we can safely use it.
	// Lexeme value example: "@foo | @bar"

	ss := constraint.NewTypesList(jschema.RuleASTNodeSourceGenerated)
	for _, s := range strings.Split(val, "|") {
		typ := schema.New()
		typ.SetRootNode(node)

		CompileBasic(&typ, true)

		lex := node.BasisLexEventOfSchemaForNode()
		rootSchema.AddUnnamedType(&typ, lex.File(), lex.Begin())

		s = strings.TrimSpace(s)
		ss.AddName(s, s, jschema.RuleASTNodeSourceGenerated)
	}

	node.AddConstraint(ss)
	node.AddConstraint(constraint.NewOr(jschema.RuleASTNodeSourceGenerated))
}

func addTypeShortcut(node schema.Node, val string) {
	node.AddConstraint(constraint.NewType(
		bytes.Bytes(strings.TrimSpace(val)),
		jschema.RuleASTNodeSourceGenerated,
	))
}
