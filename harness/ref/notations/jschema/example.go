package jschema

import (
	"fmt"

	"verif/harness/ref/bytes"
	"verif/harness/ref/errors"
	"verif/harness/ref/internal/sync"
	internalSchema "verif/harness/ref/notations/jschema/internal/schema"
	"verif/harness/ref/notations/jschema/internal/schema/constraint"
)

type exampleBuilder struct {
	// types all user types used in this schema.
	types map[string]internalSchema.Type

	// processedTypes an unordered set of processed types required for handling
	// recursion.
	// Infinity recursion can't happen here 'cause we check it before building
	// example, but optional recursion can be there.
	processedTypes map[string]int

	// cutPoints the number of optional properties and array items around the
	// node being built, i.e. of places where a cut recursion can be left out.
	cutPoints int
}

func newExampleBuilder(types map[string]internalSchema.Type) *exampleBuilder {
	return &exampleBuilder{
		types:          types,
		processedTypes: map[string]int{},
	}
}

func (b *exampleBuilder) Build(node internalSchema.Node) ([]byte, error) {
	ex, err := b.build(node)
	if ex != nil {
		// The bytes may belong to a pooled buffer which is reused as soon as
		// the builder returns: hand out a copy.
		ex = append([]byte(nil), ex...)
	}
	return ex, err
}

func (b *exampleBuilder) build(node internalSchema.Node) ([]byte, error) {
	switch typedNode := node.(type) {
	case *internalSchema.ObjectNode:
		return b.buildExampleForObjectNode(typedNode)

	case *internalSchema.ArrayNode:
		return b.buildExampleForArrayNode(typedNode)

	case *internalSchema.LiteralNode:
		return typedNode.BasisLexEventOfSchemaForNode().Value(), nil

	case *internalSchema.MixedValueNode:
		return b.buildExampleForMixedValueNode(typedNode)

	default:
		return nil, fmt.Errorf("unhandled node type %T", node)
	}
}

func (b *exampleBuilder) buildExampleForObjectNode(node *internalSchema.ObjectNode) ([]byte, error) {
	// An object carrying an "or" rule has passed the check only if it has no
	// children and "{}" satisfies one of the rule sets: it is its own example.

	buf := exampleBufferPool.Get()
	defer exampleBufferPool.Put(buf)

	buf.WriteRune('{')
	children := node.Children()
	written := 0
	for i, childNode := range children {
		required := isRequiredKey(node, node.Key(i).Key)
		if !required {
			b.cutPoints++
		}
		ex, err := b.Build(childNode)
		if !required {
			b.cutPoints--
		}
		if err != nil {
			return nil, err
		}

		if ex == nil {
			if required && b.cutPoints > 0 {
				// The recursion was cut inside a required property: this
				// object has no example at this depth either. The cut moves
				// up to the nearest optional property or array item.
				return nil, nil
			}
			continue
		}

		k, err := b.buildObjectKey(node.Key(i))
		if err != nil {
			return nil, err
		}

		if written != 0 {
			buf.WriteRune(',')
		}
		written++
		buf.WriteRune('"')
		buf.Write(k)
		buf.WriteString(`":`)
		buf.Write(ex)
	}
	buf.WriteRune('}')
	// Copy before the deferred Put hands the buffer to somebody else.
	return append([]byte(nil), buf.Bytes()...), nil
}

func isRequiredKey(node *internalSchema.ObjectNode, key string) bool {
	c, ok := node.Constraint(constraint.RequiredKeysConstraintType).(*constraint.RequiredKeys)
	if !ok {
		return false
	}
	for _, k := range c.Keys() {
		if k == key {
			return true
		}
	}
	return false
}

func (b *exampleBuilder) buildObjectKey(k internalSchema.ObjectNodeKey) ([]byte, error) {
	if !k.IsShortcut {
		// The key is stored decoded, it has to be escaped again.
		return escapeJSONString(k.Key), nil
	}

	typ, ok := b.types[k.Key]
	if !ok {
		return nil, errors.Format(errors.ErrUnknownType, k.Key)
	}

	ex, err := b.Build(typ.Schema().RootNode())
	if err != nil {
		return nil, err
	}
	// Only the enclosing quotes go: the example may itself end in an escaped quote.
	if len(ex) >= 2 && ex[0] == '"' && ex[len(ex)-1] == '"' {
		ex = ex[1 : len(ex)-1]
	}
	return ex, nil
}

// escapeJSONString returns s as the content of a JSON string (without the
// surrounding quotes).
func escapeJSONString(s string) []byte {
	out := make([]byte, 0, len(s))
	for i := 0; i < len(s); i++ {
		switch c := s[i]; {
		case c == '"' || c == '\\':
			out = append(out, '\\', c)
		case c == '\n':
			out = append(out, '\\', 'n')
		case c == '\r':
			out = append(out, '\\', 'r')
		case c == '\t':
			out = append(out, '\\', 't')
		case c < 0x20:
			out = append(out, fmt.Sprintf("\\u%04x", c)...)
		default:
			out = append(out, c)
		}
	}
	return out
}

func (b *exampleBuilder) buildExampleForArrayNode(node *internalSchema.ArrayNode) ([]byte, error) {
	// See buildExampleForObjectNode: "[]" with an "or" rule is its own example.

	buf := exampleBufferPool.Get()
	defer exampleBufferPool.Put(buf)

	buf.WriteRune('[')
	children := node.Children()
	written := 0
	for _, childNode := range children {
		b.cutPoints++
		ex, err := b.Build(childNode)
		b.cutPoints--
		if err != nil {
			return nil, err
		}

		if ex == nil {
			// The items are matched by their position: the array ends where
			// the recursion was cut.
			break
		}

		if written != 0 {
			buf.WriteRune(',')
		}
		written++
		buf.Write(ex)
	}
	buf.WriteRune(']')
	// Copy before the deferred Put hands the buffer to somebody else.
	return append([]byte(nil), buf.Bytes()...), nil
}

func (b *exampleBuilder) buildExampleForMixedValueNode(node *internalSchema.MixedValueNode) ([]byte, error) {
	tt := node.GetTypes()
	if len(tt) == 0 {
		// Normally this shouldn't happen, but we still have to handle this case.
		return nil, errors.ErrLoader
	}

	// The first alternative that yields an example is used: an alternative
	// which only leads back into a type being processed yields nothing.
	for i, typeName := range tt {
		// A cut inside this alternative can be left out as long as another
		// alternative follows.
		hasNext := i+1 < len(tt)
		if hasNext {
			b.cutPoints++
		}
		ex, err := b.buildExampleForType(node, typeName)
		if hasNext {
			b.cutPoints--
		}
		if err != nil || ex != nil {
			return ex, err
		}
	}
	return nil, nil
}

func (b *exampleBuilder) buildExampleForType(node *internalSchema.MixedValueNode, typeName string) ([]byte, error) {
	if !bytes.Bytes(typeName).IsUserTypeName() {
		return node.Value(), nil
	}

	if cnt := b.processedTypes[typeName]; cnt > 1 {
		// Do not process already processed type more than twice.
		return nil, nil
	}

	b.processedTypes[typeName]++
	defer func() {
		b.processedTypes[typeName]--
	}()

	t, ok := b.types[typeName]
	if !ok {
		return nil, errors.Format(errors.ErrTypeNotFound, typeName)
	}
	return b.Build(t.Schema().RootNode())
}

func buildExample(node internalSchema.Node, types map[string]internalSchema.Type) ([]byte, error) {
	switch typedNode := node.(type) {
	case *internalSchema.ObjectNode:
		return buildExampleForObjectNode(typedNode, types)

	case *internalSchema.ArrayNode:
		return buildExampleForArrayNode(typedNode, types)

	case *internalSchema.LiteralNode:
		return typedNode.BasisLexEventOfSchemaForNode().Value(), nil

	case *internalSchema.MixedValueNode:
		return buildExampleForMixedValueNode(typedNode, types)

	default:
		return nil, fmt.Errorf("unhandled node type %T", node)
	}
}

func buildExampleForObjectNode(
	node *internalSchema.ObjectNode,
	types map[string]internalSchema.Type,
) ([]byte, error) {
	if node.Constraint(constraint.TypesListConstraintType) != nil {
		return nil, errors.ErrUserTypeFound
	}

	b := exampleBufferPool.Get()
	defer exampleBufferPool.Put(b)

	b.WriteRune('{')
	children := node.Children()
	length := len(children)
	for i, childNode := range children {
		key := node.Key(i)
		b.WriteRune('"')
		b.WriteString(key.Key)
		b.WriteString(`":`)

		ex, err := buildExample(childNode, types)
		if err != nil {
			return nil, err
		}
		b.Write(ex)
		if i+1 != length {
			b.WriteRune(',')
		}
	}
	b.WriteRune('}')
	return b.Bytes(), nil
}

func buildExampleForArrayNode(
	node *internalSchema.ArrayNode,
	types map[string]internalSchema.Type,
) ([]byte, error) {
	if node.Constraint(constraint.TypesListConstraintType) != nil {
		return nil, errors.ErrUserTypeFound
	}

	b := exampleBufferPool.Get()
	defer exampleBufferPool.Put(b)

	b.WriteRune('[')
	children := node.Children()
	length := len(children)
	for i, childNode := range children {
		ex, err := buildExample(childNode, types)
		if err != nil {
			return nil, err
		}
		b.Write(ex)
		if i+1 != length {
			b.WriteRune(',')
		}
	}
	b.WriteRune(']')
	return b.Bytes(), nil
}

var exampleBufferPool = sync.NewBufferPool(512)

func buildExampleForMixedValueNode(
	node *internalSchema.MixedValueNode,
	types map[string]internalSchema.Type,
) ([]byte, error) {
	tt := node.GetTypes()
	if len(tt) == 0 {
		// Normally this shouldn't happen, but we still have to handle this case.
		return nil, errors.ErrLoader
	}

	typeName := tt[0]
	if !bytes.Bytes(typeName).IsUserTypeName() {
		return node.Value(), nil
	}

	t, ok := types[typeName]
	if !ok {
		return nil, errors.Format(errors.ErrTypeNotFound, typeName)
	}
	return buildExample(t.Schema().RootNode(), types)
}
