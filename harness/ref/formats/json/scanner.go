package json

import (
	"verif/harness/ref/bytes"
	"verif/harness/ref/errors"
	"verif/harness/ref/fs"
	"verif/harness/ref/internal/ds"
	"verif/harness/ref/internal/lexeme"
)

type (
	stepFunc func(*scanner, byte) state
)

// state values are returned by the state transition functions assigned to
// scanner.state and the method scanner.eof.
// They give details about the current state of the scan that callers might be
// interested to know about.
// It is okay to ignore the return value of any particular call to scanner.state.
type state uint8

const (
	// scanContinue indicates an uninteresting byte, so we can keep scanning forward.
	scanContinue state = iota // uninteresting byte

	// scanBeginObject indicates beginning of an object.
	scanBeginObject

	// scanBeginArray indicates beginning of an array.
	scanBeginArray

	// scanBeginLiteral indicates beginning of any value outside an array or object.
	scanBeginLiteral
)

// scanner represents a scanner is a JSON scanning state machine.
// Callers call scan.reset() and then pass bytes in one at a time by calling
// scan.step(&scan, c) for each byte.
// The return value, referred to as an opcode, tells the caller about significant
// parsing events like beginning and ending literals, objects, and arrays, so that
// the caller can follow along if it wishes.
// The return value scanEnd indicates that a single top-level JSON value has been
// completed, *before* the byte that just got passed in.  (The indication must be
// delayed in order to recognize the end of numbers: is 123 a whole value or the
// beginning of 12345e+6?).
type scanner struct {
	// step is a func to be called to execute the next transition.
	// Also tried using an integer constant and a single func with a switch, but
	// using the func directly was 10% faster on a 64-bit Mac Mini, and it's nicer
	// to read.
	step stepFunc

	// returnToStep a stack of step functions, to preserve the sequence of steps
	// (and return to them) in some cases.
	returnToStep *ds.Stack[stepFunc]

	// file a structure containing JSON data.
	file *fs.File

	// data a JSON content.
	data bytes.Bytes

	// stack a stack of found lexical event. The stack is needed for the scanner
	// to take into account the nesting of JSON or SCHEME elements.
	stack *ds.Stack[lexeme.LexEvent]

	// finds a list of found types of lexical event for the current step. Several
	// lexical events can be found in one step (example: ArrayItemBegin and LiteralBegin).
	finds []lexeme.LexEventType

	// index scanned byte index.
	index bytes.Index

	// dataSize a size of JSON data in bytes. Count once for optimization.
	dataSize bytes.Index

	// unfinishedLiteral a sign that a literal has been started but not completed.
	unfinishedLiteral bool

	// allowTrailingNonSpaceCharacters allows to have non-empty characters at the
	// end of the JSON.
	allowTrailingNonSpaceCharacters bool
}

func newScanner(file *fs.File) *scanner {
	return &scanner{
		step:         stateFoundRootValue,
		file:         file,
		data:         file.Content(),
		dataSize:     bytes.Index(len(file.Content())),
		returnToStep: &ds.Stack[stepFunc]{},
		stack:        &ds.Stack[lexeme.LexEvent]{},
		finds:        make([]lexeme.LexEventType, 0, 3),
	}
}

func (s *scanner) Length() uint {
	var length uint
	for {
		lex, ok := s.Next()
		if !ok {
			break
		}

		if lex.Type() == lexeme.EndTop {
			// Found character after the end of the JSON and spaces. Ex: char
			// "s" in "{} some text". The lexeme points at that character, so its
			// index is the number of bytes before it.
			length = uint(lex.End())
			break
		}
		length = uint(lex.End()) + 1
	}
	for {
		if length == 0 {
			break
		}
		c := s.data[length-1]
		if bytes.IsBlank(c) {
			length--
		} else {
			break
		}
	}
	return length
}

// Next reads JSON byte by byte.
// Panic if an invalid JSON structure is found.
// Stops if it detects lexical events.
// Returns pointer to found lexeme event, or nil if you have complete JSON reading.
func (s *scanner) Next() (lexeme.LexEvent, bool) {
	if len(s.finds) != 0 {
		return s.processingFoundLexeme(s.shiftFound()), true
	}

	for s.index < s.dataSize {
		c := s.data[s.index]
		s.index++

		s.step(s, c)

		if len(s.finds) != 0 {
			return s.processingFoundLexeme(s.shiftFound()), true
		}
	}

	if s.stack.Len() != 0 {
		s.index++
		switch s.stack.Peek().Type() { //nolint:exhaustive // We handle all cases.
		case lexeme.LiteralBegin:
			if s.unfinishedLiteral {
				break
			}
			return s.processingFoundLexeme(lexeme.LiteralEnd), true
		case lexeme.InlineAnnotationBegin:
			return s.processingFoundLexeme(lexeme.InlineAnnotationEnd), true
		case lexeme.InlineAnnotationTextBegin:
			return s.processingFoundLexeme(lexeme.InlineAnnotationTextEnd), true
		}
		err := errors.NewDocumentError(s.file, errors.ErrUnexpectedEOF)
		err.SetIndex(s.dataSize - 1)
		panic(err)
	}

	return lexeme.LexEvent{}, false
}

func (s *scanner) found(lexType lexeme.LexEventType) {
	s.finds = append(s.finds, lexType)
}

func (s *scanner) shiftFound() lexeme.LexEventType {
	length := len(s.finds)
	if length == 0 {
		panic("Empty set of found lexical event")
	}
	lexType := s.finds[0]
	copy(s.finds[0:], s.finds[1:])
	s.finds = s.finds[:length-1]
	return lexType
}

func (s *scanner) processingFoundLexeme(lexType lexeme.LexEventType) lexeme.LexEvent {
	i := s.index - 1
	if lexType == lexeme.NewLine || lexType == lexeme.EndTop {
		return lexeme.NewLexEvent(lexType, i, i, s.file)
	}

	if lexType.IsOpening() {
		var lex lexeme.LexEvent
		if lexType == lexeme.InlineAnnotationBegin || lexType == lexeme.MultiLineAnnotationBegin {
			lex = lexeme.NewLexEvent(lexType, i-1, i, s.file) // `//` or `/*`
		} else {
			// `{`, `[`, `"` or literal first character (ex: `1` in `123`).
			lex = lexeme.NewLexEvent(lexType, i, i, s.file)
		}
		s.stack.Push(lex)
		return lex
	}

	return s.processFoundLexemeClosingTag(lexType, i)
}

func (s *scanner) processFoundLexemeClosingTag(lexType lexeme.LexEventType, i bytes.Index) lexeme.LexEvent {
	pair := s.stack.Pop()
	pairType := pair.Type()
	if isNonScalarPair(pairType, lexType) {
		return lexeme.NewLexEvent(lexType, pair.Begin(), i, s.file)
	}

	if isScalarPair(pairType, lexType) {
		return lexeme.NewLexEvent(lexType, pair.Begin(), i-1, s.file)
	}
	panic("Incorrect ending of the lexical event")
}

func isNonScalarPair(pairType, lexType lexeme.LexEventType) bool {
	return (pairType == lexeme.ObjectBegin && lexType == lexeme.ObjectEnd) ||
		(pairType == lexeme.ArrayBegin && lexType == lexeme.ArrayEnd)
}

func isScalarPair(pairType, lexType lexeme.LexEventType) bool {
	return (pairType == lexeme.LiteralBegin && lexType == lexeme.LiteralEnd) ||
		(pairType == lexeme.ArrayItemBegin && lexType == lexeme.ArrayItemEnd) ||
		(pairType == lexeme.ObjectKeyBegin && lexType == lexeme.ObjectKeyEnd) ||
		(pairType == lexeme.ObjectValueBegin && lexType == lexeme.ObjectValueEnd)
}

func stateFoundRootValue(s *scanner, c byte) state {
	r := stateBeginValue(s, c)
	switch r { //nolint:exhaustive // It's okay.
	case scanBeginObject:
		s.found(lexeme.ObjectBegin)

	case scanBeginArray:
		s.found(lexeme.ArrayBegin)

	case scanBeginLiteral:
		s.found(lexeme.LiteralBegin)
	}
	return r
}

func stateFoundObjectKeyBeginOrEmpty(s *scanner, c byte) state {
	if bytes.IsBlank(c) {
		return scanContinue
	}

	return stateBeginKeyOrEmpty(s, c)
}

func stateFoundObjectKeyBegin(s *scanner, c byte) state {
	if bytes.IsBlank(c) {
		return scanContinue
	}

	r := stateBeginString(s, c)
	s.found(lexeme.ObjectKeyBegin)
	return r
}

func stateFoundObjectValueBegin(s *scanner, c byte) state {
	r := stateBeginValue(s, c)
	switch r { //nolint:exhaustive // It's okay.
	case scanBeginLiteral:
		s.found(lexeme.ObjectValueBegin)
		s.found(lexeme.LiteralBegin)

	case scanBeginObject:
		s.found(lexeme.ObjectValueBegin)
		s.found(lexeme.ObjectBegin)

	case scanBeginArray:
		s.found(lexeme.ObjectValueBegin)
		s.found(lexeme.ArrayBegin)
	}
	return r
}

func stateFoundArrayItemBeginOrEmpty(s *scanner, c byte) state {
	r := stateBeginArrayItemOrEmpty(s, c)
	switch r { //nolint:exhaustive // It's okay.
	case scanBeginLiteral:
		s.found(lexeme.ArrayItemBegin)
		s.found(lexeme.LiteralBegin)

	case scanBeginObject:
		s.found(lexeme.ArrayItemBegin)
		s.found(lexeme.ObjectBegin)

	case scanBeginArray:
		s.found(lexeme.ArrayItemBegin)
		s.found(lexeme.ArrayBegin)
	}
	return r
}

func stateFoundArrayItemBegin(s *scanner, c byte) state {
	r := stateBeginValue(s, c)
	switch r { //nolint:exhaustive // It's okay.
	case scanBeginLiteral:
		s.found(lexeme.ArrayItemBegin)
		s.found(lexeme.LiteralBegin)

	case scanBeginObject:
		s.found(lexeme.ArrayItemBegin)
		s.found(lexeme.ObjectBegin)

	case scanBeginArray:
		s.found(lexeme.ArrayItemBegin)
		s.found(lexeme.ArrayBegin)
	}
	return r
}

func stateBeginValue(s *scanner, c byte) state { //nolint:gocyclo // It's okay.
	if bytes.IsBlank(c) {
		return scanContinue
	}
	switch c {
	case '{':
		s.step = stateFoundObjectKeyBeginOrEmpty
		return scanBeginObject
	case '[':
		s.step = stateFoundArrayItemBeginOrEmpty
		return scanBeginArray
	case '"':
		s.step = stateInString
		s.unfinishedLiteral = true
		return scanBeginLiteral
	case '-':
		s.step = stateNeg
		s.unfinishedLiteral = true
		return scanBeginLiteral
	case '0': // beginning of 0.123
		s.step = state0
		return scanBeginLiteral
	case 't': // beginning of true
		s.step = stateT
		s.unfinishedLiteral = true
		return scanBeginLiteral
	case 'f': // beginning of false
		s.step = stateF
		s.unfinishedLiteral = true
		return scanBeginLiteral
	case 'n': // beginning of null
		s.step = stateN
		s.unfinishedLiteral = true
		return scanBeginLiteral
	}
	if '1' <= c && c <= '9' { // beginning of 1234.5
		s.step = state1
		return scanBeginLiteral
	}
	panic(s.newDocumentErrorAtCharacter("looking for beginning of value"))
}

// After reading `[`.
func stateBeginArrayItemOrEmpty(s *scanner, c byte) state {
	if c == ']' {
		return stateFoundArrayEnd(s)
	}
	return stateBeginValue(s, c)
}

// After reading `{`.
func stateBeginKeyOrEmpty(s *scanner, c byte) state {
	if c == '}' {
		return stateFoundObjectEnd(s)
	}
	s.found(lexeme.ObjectKeyBegin)
	return stateBeginString(s, c)
}

// After reading `{"key": value,`.
func stateBeginString(s *scanner, c byte) state {
	if c == '"' {
		s.step = stateInString
		return scanBeginLiteral
	}
	panic(s.newDocumentErrorAtCharacter("looking for beginning of string"))
}

func stateEndValue(s *scanner, c byte) state {
	length := s.stack.Len()

	if length == 0 { // json ex `{} `
		s.step = stateEndTop
		return s.step(s, c)
	}

	t := s.stack.Peek().Type()

	if t == lexeme.LiteralBegin {
		s.found(lexeme.LiteralEnd)

		if length == 1 { // json ex `123 `
			s.step = stateEndTop
			return s.step(s, c)
		}

		t = s.stack.Get(length - 2).Type()
	}

	switch t { //nolint:exhaustive // We will throw a panic in over cases.
	case lexeme.ObjectKeyBegin:
		s.found(lexeme.ObjectKeyEnd)
		s.step = stateAfterObjectKey
		return s.step(s, c)
	case lexeme.ObjectValueBegin:
		s.found(lexeme.ObjectValueEnd)
		s.step = stateAfterObjectValue
		return s.step(s, c)
	case lexeme.ArrayItemBegin:
		s.found(lexeme.ArrayItemEnd)
		s.step = stateAfterArrayItem
		return s.step(s, c)
	}
	panic(s.newDocumentErrorAtCharacter("at the end of value"))
}

func stateAfterObjectKey(s *scanner, c byte) state {
	if bytes.IsBlank(c) {
		return scanContinue
	}

	if c == ':' {
		s.step = stateFoundObjectValueBegin
		return scanContinue
	}
	panic(s.newDocumentErrorAtCharacter("after object key"))
}

func stateAfterObjectValue(s *scanner, c byte) state {
	if bytes.IsBlank(c) {
		return scanContinue
	}
	if c == ',' {
		s.step = stateFoundObjectKeyBegin
		return scanContinue
	}
	if c == '}' {
		return stateFoundObjectEnd(s)
	}
	panic(s.newDocumentErrorAtCharacter("after object key:value pair"))
}

func stateAfterArrayItem(s *scanner, c byte) state {
	if bytes.IsBlank(c) {
		return scanContinue
	}
	if c == ',' {
		s.step = stateFoundArrayItemBegin
		return scanContinue
	}
	if c == ']' {
		return stateFoundArrayEnd(s)
	}
	panic(s.newDocumentErrorAtCharacter("after array item"))
}

func stateFoundObjectEnd(s *scanner) state {
	s.found(lexeme.ObjectEnd)
	s.step = stateEndValue
	return scanContinue
}

func stateFoundArrayEnd(s *scanner) state {
	s.found(lexeme.ArrayEnd)
	if s.stack.Len() == 0 {
		s.step = stateEndTop
	} else {
		s.step = stateEndValue
	}
	return scanContinue
}

// stateEndTop is the state after finishing the top-level value, such as after
// reading `{}` or `[1,2,3]`.
// Only space characters should be seen now.
func stateEndTop(s *scanner, c byte) state {
	if !bytes.IsBlank(c) {
		if !s.allowTrailingNonSpaceCharacters {
			panic(s.newDocumentErrorAtCharacter("non-space byte after top-level value"))
		}
		s.found(lexeme.EndTop)
	}
	return scanContinue
}

// After reading `"`.
func stateInString(s *scanner, c byte) state {
	switch c {
	case '"':
		s.step = stateEndValue
		s.unfinishedLiteral = false
		return scanContinue
	case '\\':
		s.step = stateInStringEsc
		return scanContinue
	}
	if c < 0x20 {
		panic(s.newDocumentErrorAtCharacter("in string literal"))
	}
	return scanContinue
}

// After reading `"\` during a quoted string.
func stateInStringEsc(s *scanner, c byte) state {
	switch c {
	case 'b', 'f', 'n', 'r', 't', '\\', '/', '"':
		s.step = stateInString
		return scanContinue
	case 'u':
		s.returnToStep.Push(stateInString)
		s.step = stateInStringEscU
		return scanContinue
	}
	panic(s.newDocumentErrorAtCharacter("in string escape code"))
}

// After reading `"\u` during a quoted string.
func stateInStringEscU(s *scanner, c byte) state {
	if bytes.IsHexDigit(c) {
		s.step = stateInStringEscU1
		return scanContinue
	}
	panic(s.newDocumentErrorAtCharacter("in \\u hexadecimal character escape"))
}

// After reading `"\u1` during a quoted string.
func stateInStringEscU1(s *scanner, c byte) state {
	if bytes.IsHexDigit(c) {
		s.step = stateInStringEscU12
		return scanContinue
	}
	panic(s.newDocumentErrorAtCharacter("in \\u hexadecimal character escape"))
}

// After reading `"\u12` during a quoted string.
func stateInStringEscU12(s *scanner, c byte) state {
	if bytes.IsHexDigit(c) {
		s.step = stateInStringEscU123
		return scanContinue
	}
	panic(s.newDocumentErrorAtCharacter("in \\u hexadecimal character escape"))
}

// After reading `"\u123` during a quoted string.
func stateInStringEscU123(s *scanner, c byte) state {
	if bytes.IsHexDigit(c) {
		s.step = s.returnToStep.Pop() // = stateInString for JSON, = stateInAnnotationObjectKey for AnnotationObject
		return scanContinue
	}
	panic(s.newDocumentErrorAtCharacter("in \\u hexadecimal character escape"))
}

// After reading `-` during a number.
func stateNeg(s *scanner, c byte) state {
	if c == '0' {
		s.step = state0
		s.unfinishedLiteral = false
		return scanContinue
	}
	if '1' <= c && c <= '9' {
		s.step = state1
		s.unfinishedLiteral = false
		return scanContinue
	}
	panic(s.newDocumentErrorAtCharacter("in numeric literal"))
}

// After reading a non-zero integer during a number, such as after reading `1` or
// `100` but not `0`.
func state1(s *scanner, c byte) state {
	if bytes.IsDigit(c) {
		s.step = state1
		return scanContinue
	}
	return state0(s, c)
}

// After reading `0` during a number.
func state0(s *scanner, c byte) state {
	if c == '.' {
		s.unfinishedLiteral = true
		s.step = stateDot
		return scanContinue
	}
	if c == 'e' || c == 'E' {
		s.unfinishedLiteral = true
		s.step = stateE
		return scanContinue
	}
	return stateEndValue(s, c)
}

// After reading the integer and decimal point in a number, such as after reading
// `1.`.
func stateDot(s *scanner, c byte) state {
	if bytes.IsDigit(c) {
		s.unfinishedLiteral = false
		s.step = stateDot0
		return scanContinue
	}
	panic(s.newDocumentErrorAtCharacter("after decimal point in numeric literal"))
}

// After reading the integer, decimal point, and subsequent digits of a number,
// such as after reading `3.14`.
func stateDot0(s *scanner, c byte) state {
	if bytes.IsDigit(c) {
		return scanContinue
	}
	if c == 'e' || c == 'E' {
		s.unfinishedLiteral = true
		s.step = stateE
		return scanContinue
	}
	return stateEndValue(s, c)
}

// After reading the mantissa and e in a number, such as after reading `314e` or
// `0.314e`.
func stateE(s *scanner, c byte) state {
	if c == '+' || c == '-' {
		s.step = stateESign
		return scanContinue
	}
	return stateESign(s, c)
}

// After reading the mantissa, e, and sign in a number, such as after reading
// `314e-` or `0.314e+`.
func stateESign(s *scanner, c byte) state {
	if bytes.IsDigit(c) {
		s.unfinishedLiteral = false
		s.step = stateE0
		return scanContinue
	}
	panic(s.newDocumentErrorAtCharacter("in exponent of numeric literal"))
}

// After reading the mantissa, e, optional sign, and at least one digit of the
// exponent in a number, such as after reading `314e-2` or `0.314e+1` or `3.14e0`.
func stateE0(s *scanner, c byte) state {
	if bytes.IsDigit(c) {
		return scanContinue
	}
	return stateEndValue(s, c)
}

// After reading `t`.
func stateT(s *scanner, c byte) state {
	if c == 'r' {
		s.step = stateTr
		return scanContinue
	}
	panic(s.newDocumentErrorAtCharacter("in literal true (expecting 'r')"))
}

// After reading `tr`.
func stateTr(s *scanner, c byte) state {
	if c == 'u' {
		s.step = stateTru
		return scanContinue
	}
	panic(s.newDocumentErrorAtCharacter("in literal true (expecting 'u')"))
}

// After reading `tru`.
func stateTru(s *scanner, c byte) state {
	if c == 'e' {
		s.step = stateEndValue
		s.unfinishedLiteral = false
		return scanContinue
	}
	panic(s.newDocumentErrorAtCharacter("in literal true (expecting 'e')"))
}

// After reading `f`.
func stateF(s *scanner, c byte) state {
	if c == 'a' {
		s.step = stateFa
		return scanContinue
	}
	panic(s.newDocumentErrorAtCharacter("in literal false (expecting 'a')"))
}

// After reading `fa`.
func stateFa(s *scanner, c byte) state {
	if c == 'l' {
		s.step = stateFal
		return scanContinue
	}
	panic(s.newDocumentErrorAtCharacter("in literal false (expecting 'l')"))
}

// After reading `fal`.
func stateFal(s *scanner, c byte) state {
	if c == 's' {
		s.step = stateFals
		return scanContinue
	}
	panic(s.newDocumentErrorAtCharacter("in literal false (expecting 's')"))
}

// After reading `fals`.
func stateFals(s *scanner, c byte) state {
	if c == 'e' {
		s.step = stateEndValue
		s.unfinishedLiteral = false
		return scanContinue
	}
	panic(s.newDocumentErrorAtCharacter("in literal false (expecting 'e')"))
}

// After reading `n`.
func stateN(s *scanner, c byte) state {
	if c == 'u' {
		s.step = stateNu
		return scanContinue
	}
	panic(s.newDocumentErrorAtCharacter("in literal null (expecting 'u')"))
}

// After reading `nu`.
func stateNu(s *scanner, c byte) state {
	if c == 'l' {
		s.step = stateNul
		return scanContinue
	}
	panic(s.newDocumentErrorAtCharacter("in literal null (expecting 'l')"))
}

// After reading `nul`.
func stateNul(s *scanner, c byte) state {
	if c == 'l' {
		s.step = stateEndValue
		s.unfinishedLiteral = false
		return scanContinue
	}
	panic(s.newDocumentErrorAtCharacter("in literal null (expecting 'l')"))
}

func (s *scanner) newDocumentErrorAtCharacter(context string) errors.DocumentError {
	// Make runes (utf8 symbols) from current index to last of slice s.data.
	// Get first rune. Then make string with format ' symbol '
	runes := []rune(string(s.data[(s.index - 1):]))
	e := errors.Format(errors.ErrInvalidCharacter, string(runes[0]), context)
	err := errors.NewDocumentError(s.file, e)
	err.SetIndex(s.index - 1)
	return err
}
