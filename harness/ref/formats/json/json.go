package json

import (
	stdErrors "errors"
	"io"

	jschema "verif/harness/ref"
	"verif/harness/ref/bytes"
	"verif/harness/ref/errors"
	"verif/harness/ref/fs"
	"verif/harness/ref/internal/lexeme"
	"verif/harness/ref/internal/sync"
)

type Document struct {
	file    *fs.File
	scanner *scanner

	lenOnce   sync.ErrOnceWithValue[uint]
	checkOnce sync.ErrOnce

	allowTrailingNonSpaceCharacters bool

	// failed the error at which reading stopped: the scanner is left in the
	// middle of a token, so every further call returns the same error until
	// the document is rewound.
	failed error
}

var _ jschema.Document = &Document{}

// New creates a JSON document with specified name and content.
func New[T fs.FileContent](name string, content T, oo ...Option) jschema.Document {
	return FromFile(fs.NewFile(name, content), oo...)
}

// FromFile creates a JSON document from file.
func FromFile(f *fs.File, oo ...Option) jschema.Document {
	d := &Document{
		file: f,
	}

	for _, o := range oo {
		o(d)
	}

	d.rewind()

	return d
}

type Option func(s *Document)

func AllowTrailingNonSpaceCharacters() Option {
	return func(s *Document) {
		s.allowTrailingNonSpaceCharacters = true
	}
}

func (d *Document) NextLexeme() (lexeme.LexEvent, error) {
	return d.nextLexeme()
}

func (d *Document) Len() (uint, error) {
	// The first call leaves the document rewound; so does every later one,
	// which is answered from the cache.
	defer d.rewind()
	return d.lenOnce.Do(func() (uint, error) {
		return d.computeLen()
	})
}

func (d *Document) computeLen() (length uint, err error) {
	// Iterate through all lexemes until we reach the end
	// We should rewind here in case we call NextLexeme method.
	d.rewind()
	defer d.rewind()
	defer func() {
		r := recover()
		if r == nil {
			return
		}

		rErr, ok := r.(error)
		if !ok {
			panic(r)
		}
		err = rErr
	}()

	return d.scanner.Length(), err
}

func (d *Document) Check() error {
	// See Len: NextLexeme starts from the beginning after every Check.
	defer d.rewind()
	return d.checkOnce.Do(func() error {
		return d.check()
	})
}

func (d *Document) check() error {
	// Iterate through all lexemes until we reach the end or get some error.
	// We should rewind here in case we call NextLexeme method.
	d.rewind()
	defer d.rewind()

	var jsonLexCounter uint
	for {
		_, err := d.nextLexeme()
		if err == nil {
			jsonLexCounter++
			continue
		}

		if stdErrors.Is(err, io.EOF) {
			err = nil

			if jsonLexCounter == 0 {
				e := errors.NewDocumentError(d.file, errors.ErrEmptyJson)
				if n := len(d.file.Content()); n > 0 {
					// Only blanks: the input ends early, at its last byte.
					e.SetIndex(bytes.Index(n - 1))
				}
				err = e
			}
		}
		return err
	}
}

func (d *Document) nextLexeme() (lex lexeme.LexEvent, err error) {
	if d.failed != nil {
		return lexeme.LexEvent{}, d.failed
	}

	defer func() {
		r := recover()
		if r == nil {
			return
		}

		rErr, ok := r.(error)
		if !ok {
			panic(r)
		}
		err = rErr
		d.failed = rErr
	}()

	lex, ok := d.scanner.Next()
	if !ok {
		return lexeme.LexEvent{}, io.EOF
	}

	if lex.Type() == lexeme.EndTop {
		return lex, io.EOF
	}
	return lex, nil
}

// Rewind makes the next NextLexeme call start from the beginning of the
// document again.
func (d *Document) Rewind() {
	d.rewind()
}

// rewind rewinds document to the beginning.
func (d *Document) rewind() {
	d.failed = nil
	d.scanner = newScanner(d.file)
	d.scanner.allowTrailingNonSpaceCharacters = d.allowTrailingNonSpaceCharacters
}
