package jschema

//go:generate go run ./internal/cmd/generator/
//go:generate mockery --name Document --output ./internal/mocks
//go:generate mockery --name Rule --output ./internal/mocks
