package reader

import (
	"os"

	"verif/harness/ref/errors"
	"verif/harness/ref/fs"
)

// Read reads the contents of the file, returns a slice of bytes.
func Read(filename string) *fs.File {
	return ReadWithName(filename, filename)
}

func ReadWithName(filename, name string) *fs.File {
	data, err := os.ReadFile(filename)
	if err != nil {
		docErr := errors.DocumentError{}
		docErr.SetMessage(err.Error())
		panic(docErr)
	}
	return fs.NewFile(name, data)
}
