package kit

import (
	stdErrors "errors"
	"fmt"

	lib "verif/harness/ref"
	"verif/harness/ref/errors"
	"verif/harness/ref/fs"
)

type Error interface {
	Filename() string
	Position() uint
	Message() string
	ErrCode() int
	IncorrectUserType() string
}

// ConvertError converts error to Error interface.
// Added for BC
func ConvertError(f *fs.File, err error) Error {
	// An error of an added type comes wrapped ("load added type: ..."): what
	// is inside knows its file, its position and its code.
	var de errors.DocumentError
	if stdErrors.As(err, &de) {
		return de
	}

	switch e := err.(type) { //nolint:errorlint // This is okay.
	case errors.ErrorCode:
		return sdkError{
			filename: f.Name(),
			position: 0,
			message:  e.Error(),
			errCode:  int(e.Code()),
		}

	case errors.DocumentError:
		return e

	case lib.ParsingError:
		return sdkError{
			filename: f.Name(),
			position: e.Position(),
			message:  e.Message(),
			errCode:  e.ErrCode(),
		}

	case lib.ValidationError:
		return sdkError{
			filename: f.Name(),
			position: 0,
			message:  e.Message(),
			errCode:  e.ErrCode(),
		}
	}
	return errors.NewDocumentError(f, errors.Format(errors.ErrGeneric, fmt.Sprintf("%s", err)))
}

type sdkError struct {
	filename          string
	message           string
	incorrectUserType string
	position          uint
	errCode           int
}

func (s sdkError) Filename() string          { return s.filename }
func (s sdkError) Position() uint            { return s.position }
func (s sdkError) Message() string           { return s.message }
func (s sdkError) ErrCode() int              { return s.errCode }
func (s sdkError) IncorrectUserType() string { return s.incorrectUserType }
