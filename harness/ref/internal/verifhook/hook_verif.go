//go:build verif

// Package verifhook holds scheduling points used by the verification harness.
package verifhook

// Hook is called at every scheduling point when it is set.
var Hook func(point string)

// Yield marks a point at which a verification scheduler may pause the goroutine.
func Yield(point string) {
	if h := Hook; h != nil {
		h(point)
	}
}
