//go:build !verif

// Package verifhook holds scheduling points used by the verification harness.
// Without the "verif" build tag every hook is an empty function.
package verifhook

// Yield marks a point at which a verification scheduler may pause the goroutine.
func Yield(string) {}
