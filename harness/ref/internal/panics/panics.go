package panics

// Handle handles panics properly.
func Handle(r interface{}, originErr error) error {
	if originErr != nil {
		return originErr
	}

	if r == nil {
		return nil
	}

	rErr, ok := r.(error)
	if !ok {
		panic(r)
	}
	return rErr
}
