package lexeme

import (
	"fmt"

	"verif/harness/ref/errors"
)

func CatchLexEventError(lex LexEvent) {
	r := recover() //nolint:revive // It's okay.
	if r == nil {
		return
	}

	switch val := r.(type) {
	case errors.DocumentError:
		panic(r)
	case errors.Err:
		panic(NewLexEventError(lex, val))
	default:
		panic(NewLexEventError(lex, errors.Format(errors.ErrGeneric, fmt.Sprintf("%s", r))))
	}
}

func CatchLexEventErrorWithIncorrectUserType(lex LexEvent, name string) {
	if name == "" {
		CatchLexEventError(lex)
		return
	}
	r := recover() //nolint:revive // It's okay.
	if r == nil {
		return
	}

	switch val := r.(type) {
	case errors.DocumentError:
		panic(r)
	case errors.Err:
		e := NewLexEventError(lex, val)
		e.SetIncorrectUserType(name)
		panic(e)
	default:
		e := NewLexEventError(lex, errors.Format(errors.ErrGeneric, fmt.Sprintf("%s", r)))
		e.SetIncorrectUserType(name)
		panic(e)
	}
}

func NewLexEventError(lex LexEvent, err errors.Err) errors.DocumentError {
	e := errors.NewDocumentError(lex.File(), err)
	e.SetIndex(lex.Begin())
	return e
}
