package lexeme

// LexEventType available lexeme event types.
// gen:Stringer e Unknown lexical event type
type LexEventType uint8

const (
	LiteralBegin                 LexEventType = iota // literal-begin
	LiteralEnd                                       // literal-end
	ObjectBegin                                      // object-begin
	ObjectEnd                                        // object-end
	ObjectKeyBegin                                   // key-begin
	ObjectKeyEnd                                     // key-end
	ObjectValueBegin                                 // value-begin
	ObjectValueEnd                                   // value-end
	ArrayBegin                                       // array-begin
	ArrayEnd                                         // array-end
	ArrayItemBegin                                   // item-begin
	ArrayItemEnd                                     // item-end
	InlineAnnotationBegin                            // inline-annotation-begin
	InlineAnnotationEnd                              // inline-annotation-end
	InlineAnnotationTextBegin                        // inline-annotation-text-begin
	InlineAnnotationTextEnd                          // inline-annotation-text-end
	MultiLineAnnotationBegin                         // multi-line-annotation-begin
	MultiLineAnnotationEnd                           // multi-line-annotation-end
	MultiLineAnnotationTextBegin                     // multi-line-annotation-text-begin
	MultiLineAnnotationTextEnd                       // multi-line-annotation-text-end
	NewLine                                          // new-line

	// TypesShortcutBegin indicates that "type" or "or" shortcut was began.
	TypesShortcutBegin // types-shortcut-begin

	// TypesShortcutEnd indicates that "type" or "or" shortcut was ended.
	TypesShortcutEnd // types-shortcut-end

	KeyShortcutBegin // key-shortcut-begin
	KeyShortcutEnd   // key-shortcut-end

	// MixedValueBegin indicates that here can be anything: scalar, array, or object.
	MixedValueBegin // mixed-value-begin
	MixedValueEnd   // mixed-value-end

	// EndTop character after the last closing JSON or SCHEMA lexeme event.
	EndTop // end-top
)

func (e LexEventType) IsOpening() bool {
	switch e { //nolint:exhaustive // It's okay.
	case LiteralBegin,
		ObjectBegin,
		ObjectKeyBegin,
		ObjectValueBegin,
		ArrayBegin,
		ArrayItemBegin,
		MultiLineAnnotationBegin,
		InlineAnnotationBegin,
		InlineAnnotationTextBegin,
		MultiLineAnnotationTextBegin,
		TypesShortcutBegin,
		KeyShortcutBegin,
		MixedValueBegin:
		return true
	}
	return false
}
