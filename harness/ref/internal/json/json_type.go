//nolint:goconst // Not important here.
package json

import (
	"verif/harness/ref/bytes"
	"verif/harness/ref/errors"
)

type Type uint8

const (
	// TypeUndefined default value for literal and mixed nodes.
	TypeUndefined Type = iota
	TypeObject
	TypeArray
	TypeString
	TypeInteger
	// TypeFloat to be precise, there is no separate "Integer" and "Float" in JSON,
	// there is a single "Number" type. But in our case, we will assume that there is.
	TypeFloat
	TypeBoolean
	TypeNull

	// TypeMixed indicates that here can be anything.
	TypeMixed
)

func NewJsonType(bytes bytes.Bytes) Type {
	switch string(bytes) {
	case "object":
		return TypeObject
	case "array":
		return TypeArray
	case "string":
		return TypeString
	case "integer":
		return TypeInteger
	case "float":
		return TypeFloat
	case "boolean":
		return TypeBoolean
	case "null":
		return TypeNull
	}
	panic(errors.Format(errors.ErrUnknownType, string(bytes)))
}

var AllTypes = []Type{
	TypeObject,
	TypeArray,
	TypeString,
	TypeInteger,
	TypeFloat,
	TypeBoolean,
	TypeNull,
	TypeMixed,
}

func (t Type) String() string {
	switch t {
	case TypeObject:
		return "object"
	case TypeArray:
		return "array"
	case TypeString:
		return "string"
	case TypeInteger:
		return "integer"
	case TypeFloat:
		return "float"
	case TypeBoolean:
		return "boolean"
	case TypeNull:
		return "null"
	case TypeMixed:
		return "mixed"
	default:
		return "unknown"
	}
}

func (t Type) IsLiteralType() bool {
	switch t { //nolint:exhaustive // It's okay.
	case TypeString, TypeBoolean, TypeInteger, TypeFloat, TypeNull, TypeMixed:
		return true
	}
	return false
}

func (t Type) ToTokenType() string {
	switch t { //nolint:exhaustive // We return an empty string.
	case TypeObject:
		return "object"
	case TypeArray:
		return "array"
	case TypeString:
		return "string"
	case TypeInteger, TypeFloat:
		return "number"
	case TypeBoolean:
		return "boolean"
	case TypeNull:
		return "null"
	case TypeMixed:
		return "reference"
	}
	return ""
}
