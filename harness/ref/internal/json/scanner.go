package json

import (
	"fmt"

	"verif/harness/ref/bytes"
)

type scanner struct {
	stateFn func(byte) bool

	index    int
	intLen   int
	fraLen   int
	expBegin int

	finished bool
	negative bool
}

func newScanner() *scanner {
	s := &scanner{}
	s.stateFn = s.stateOnSearchStart
	return s
}

// maxExponent the largest exponent (in either direction) of a number.
const maxExponent = 1 << 20

func (s *scanner) Scan(value bytes.Bytes) (*Number, error) {
	for i, c := range value {
		s.index = i
		s.finished = true
		if !s.stateFn(c) {
			return nil, fmt.Errorf("Incorrect number value %q", value.String())
		}
	}

	if !s.finished {
		return nil, fmt.Errorf("Incorrect number value %q", value.String())
	}

	if err := s.setExp(value); err != nil {
		return nil, err
	}

	n := Number{
		neg: s.negative,
		nat: s.getNatural(value),
		exp: s.fraLen,
	}

	err := n.trimLeadingZerosInTheIntegerPart()
	if err != nil {
		return nil, err
	}

	err = n.trimTrailingZerosInTheFractionalPart()
	if err != nil {
		return nil, err
	}

	if len(n.nat) == 0 {
		// Negative zero equals zero.
		n.neg = false
	}

	return &n, nil
}

func (s *scanner) setExp(value bytes.Bytes) error {
	if s.expBegin == 0 {
		return nil
	}

	exp, err := value[s.expBegin:].ParseInt()
	if err != nil {
		return err
	}
	// The number is kept as a string of digits: an exponent of this size asks
	// for more memory than there is (or overflows the lengths below).
	if exp > maxExponent || exp < -maxExponent {
		return fmt.Errorf("The exponent of the number %q is too large", value.String())
	}
	// example with negative exp: 12.34E-1 = 1.234; exp = -1; intLen = 2 + (-1) = 1
	// example with positive exp: 12.34E+1 = 123.4; exp =  1; intLen = 2 + 1    = 3
	s.intLen += exp
	s.fraLen -= exp
	return nil
}

func (s *scanner) getNatural(value bytes.Bytes) bytes.Bytes {
	var natural bytes.Bytes

	switch {
	case s.intLen < 0: // example 1.2E-2 = .012
		natural = make(bytes.Bytes, 0, s.fraLen)
		natural = appendZeros(natural, -s.intLen)
		natural = appendDigits(value, natural)

	case s.fraLen < 0: // example 1.2E+2 = 120
		natural = make(bytes.Bytes, 0, s.intLen)
		natural = appendDigits(value, natural)
		natural = appendZeros(natural, -s.fraLen)
		s.fraLen = 0

	default: // example 12.3E-1 = 1.23
		natural = make(bytes.Bytes, 0, s.intLen+s.fraLen)
		natural = appendDigits(value, natural)
	}

	return natural
}

func (s *scanner) stateOnSearchStart(c byte) bool {
	switch c {
	case '-':
		s.negative = true
		s.finished = false
		s.stateFn = s.stateMinusFound

	case '0':
		s.intLen++
		s.stateFn = s.stateFirstZeroFound

	case '1', '2', '3', '4', '5', '6', '7', '8', '9':
		s.intLen++
		s.stateFn = s.stateIntegerNumberFound
	default:
		return false
	}
	return true
}

func (s *scanner) stateMinusFound(c byte) bool {
	switch c {
	case '0':
		s.intLen++
		s.stateFn = s.stateFirstZeroFound
	case '1', '2', '3', '4', '5', '6', '7', '8', '9':
		s.intLen++
		s.stateFn = s.stateIntegerNumberFound
	default:
		return false
	}
	return true
}

func (s *scanner) stateFirstZeroFound(c byte) bool {
	if c == '.' {
		s.stateFn = s.statePointFound
		return true
	}
	return false
}

func (s *scanner) stateIntegerNumberFound(c byte) bool {
	switch c {
	case '0', '1', '2', '3', '4', '5', '6', '7', '8', '9':
		s.intLen++

	case '.':
		s.stateFn = s.statePointFound

	case 'e', 'E':
		s.stateFn = s.stateExpFound
	default:
		return false
	}
	return true
}

func (s *scanner) statePointFound(c byte) bool {
	if '0' <= c && c <= '9' {
		s.fraLen++
		s.stateFn = s.stateFractionalNumberFound
		return true
	}
	return false
}

func (s *scanner) stateFractionalNumberFound(c byte) bool {
	switch c {
	case '0', '1', '2', '3', '4', '5', '6', '7', '8', '9':
		s.fraLen++
	case 'e', 'E':
		s.stateFn = s.stateExpFound
	default:
		return false
	}
	return true
}

func (s *scanner) stateExpFound(c byte) bool {
	switch c {
	case '+':
		s.stateFn = s.stateExpSignFound

	case '-':
		if s.expBegin == 0 {
			s.expBegin = s.index
		}
		s.stateFn = s.stateExpSignFound

	case '0', '1', '2', '3', '4', '5', '6', '7', '8', '9':
		if s.expBegin == 0 {
			s.expBegin = s.index
		}
	default:
		return false
	}
	return true
}

func (s *scanner) stateExpSignFound(c byte) bool {
	if '0' <= c && c <= '9' {
		if s.expBegin == 0 {
			s.expBegin = s.index
		}
		s.stateFn = s.stateExpNumberFound
		return true
	}
	return false
}

func (*scanner) stateExpNumberFound(c byte) bool {
	return '0' <= c && c <= '9'
}

func appendZeros(to bytes.Bytes, n int) bytes.Bytes {
	for ; n > 0; n-- {
		to = append(to, '0')
	}
	return to
}

func appendDigits(from bytes.Bytes, to bytes.Bytes) bytes.Bytes {
loop:
	for _, c := range from {
		switch c {
		case '-', '.':
			continue
		case '0', '1', '2', '3', '4', '5', '6', '7', '8', '9':
			to = append(to, c)
		default:
			break loop
		}
	}
	return to
}
