package sync

import "sync"

// ErrOnce we same as sync.Once but require a function which can return an error.
// This error will be hold inside this type and return every time when someone
// call `Do` method.
type ErrOnce struct {
	err  error
	once sync.Once
}

// Do doing the stuff.
func (e *ErrOnce) Do(fn func() error) error {
	e.once.Do(func() {
		e.err = fn()
	})
	return e.err
}

// ErrOnceWithValue we same as ErrOnce but holds the value as well.
type ErrOnceWithValue[T any] struct {
	value T
	err   error
	once  sync.Once
}

// Do doing the stuff.
func (e *ErrOnceWithValue[T]) Do(fn func() (T, error)) (T, error) {
	e.once.Do(func() {
		e.value, e.err = fn()
	})
	return e.value, e.err
}
