package sync

import (
	"bytes"
	"sync"
)

// BufferPool a wrapper under sync.Pool which holds buffers.
type BufferPool struct {
	pool sync.Pool
}

// NewBufferPool creates new instance of BufferPool.
func NewBufferPool(size int) *BufferPool {
	return &BufferPool{
		pool: sync.Pool{
			New: func() interface{} {
				return bytes.NewBuffer(make([]byte, 0, size))
			},
		},
	}
}

// Get returns new buffer from pool.
func (p *BufferPool) Get() *bytes.Buffer {
	return p.pool.Get().(*bytes.Buffer)
}

// Put returns buffer to pool.
func (p *BufferPool) Put(b *bytes.Buffer) {
	b.Reset()
	p.pool.Put(b)
}
