package ds

// Stack represent generic stack.
// Not a thread safe!
type Stack[T any] struct {
	vals []T
}

// Len returns length of the stack.
func (s *Stack[T]) Len() int {
	if s == nil {
		return 0
	}
	return len(s.vals)
}

// Push pushes a value onto the stack.
func (s *Stack[T]) Push(v T) {
	s.vals = append(s.vals, v)
}

// Pop pops a value from the stack.
func (s *Stack[T]) Pop() T {
	lex := s.Peek()
	s.vals = s.vals[:s.Len()-1]
	return lex
}

// Peek returns a value of the stack from the end, without removing.
func (s *Stack[T]) Peek() T {
	l := s.Len()
	if l == 0 {
		panic("Reading from empty stack")
	}
	return s.vals[l-1]
}

// Get returns a value of the stack, without removing.
func (s *Stack[T]) Get(i int) T {
	if i < 0 || i > s.Len()-1 {
		panic("Reading a nonexistent element of the stack")
	}
	return s.vals[i]
}
