//go:build hscan

package main

// The calls into the overlay-injected scanner hooks (hooks/notations/jschema/verif_scan.go, hooks/rules/enum/verif_scan.go).
// Kept in one file behind the tag hscan: a change of the scanners' internal interface then breaks only the checks that need
// their event streams (C06, C07, C17) and not the whole harness.

import (
	"fmt"

	"github.com/jsightapi/jsight-schema-go-library/notations/jschema"
	"github.com/jsightapi/jsight-schema-go-library/rules/enum"
)

const haveScanHook = true

func schemaEvents(text []byte) (evs []Event, fail string) {
	raw, _, f := jschema.VerifScan(text, false)
	for _, e := range raw {
		evs = append(evs, Event{e.Type, e.Begin, e.End})
	}
	if f != nil {
		fail = fmt.Sprint(f)
	}
	return
}

func enumEvents(text []byte) (evs []Event, fail string) {
	raw, f := enum.VerifScan(text)
	for _, e := range raw {
		evs = append(evs, Event{e.Type, e.Begin, e.End})
	}
	if f != nil {
		fail = fmt.Sprint(f)
	}
	return
}


// checkSchemaLex runs the schema scanner alone (hook VerifScan) over b.
func checkSchemaLex(b []byte) Outcome {
	_, _, f := jschema.VerifScan(b, false)
	if f == nil {
		return Outcome{OK: true, Pos: -1}
	}
	if e, ok := f.(error); ok {
		return outcomeOf(e)
	}
	return Outcome{Kind: "panic", Code: -2, Pos: -1, Panic: fmt.Sprint(f)}
}
