package main

// C16 / C13: which node an annotation belongs to. The layouts come from spec/Bind.tla (every placement of up to MaxAnn inline
// annotations in the slots of seven small shapes) with the R layer's expectation; this file runs the real loader on each text.

import (
	"encoding/json"
	"flag"
	"fmt"
	"os"

	jlib "github.com/jsightapi/jsight-schema-go-library"
	"github.com/jsightapi/jsight-schema-go-library/notations/jschema"
)

type bindCase struct {
	Text  string `json:"text"`
	Want  string `json:"want"` // ok | e803 | e804 | e304 | unspec
	Nodes []struct {
		Note  string `json:"note"`
		Rules bool   `json:"rules"`
	} `json:"nodes"`
}

type bindMismatch struct {
	Schema string `json:"schema"`
	Where  string `json:"where"`
}

func init() {
	register("c16bind", func(args []string) int {
		fs := flag.NewFlagSet("c16bind", flag.ExitOnError)
		casesPath := fs.String("cases", "", "cases ndjson (spec/Bind.tla)")
		out := fs.String("out", "-", "mismatch ndjson")
		fs.Parse(args)
		w := newNDWriter(*out)
		defer w.Close()
		n, judged, mism := 0, 0, 0
		byWant := map[string]int{}
		readLines(openIn(*casesPath), func(line []byte) {
			var c bindCase
			if err := json.Unmarshal(line, &c); err != nil {
				fatal(err)
			}
			n++
			byWant[c.Want]++
			if c.Want == "unspec" {
				return
			}
			judged++
			bad := func(where string) {
				mism++
				w.Write(bindMismatch{c.Text, where})
			}
			s := jschema.New("root", c.Text)
			_ = s.AddType("@t", jschema.New("@t", "1"))
			var ast jlib.ASTNode
			o := guard(func() error {
				if err := s.Check(); err != nil {
					return err
				}
				var err error
				ast, err = s.GetAST()
				return err
			})
			wantCode := map[string]int{"e803": 803, "e804": 804, "e304": 304}[c.Want]
			if c.Want != "ok" {
				if o.OK || o.Code != wantCode {
					bad(fmt.Sprintf("want error %d got %+v", wantCode, o))
				}
				return
			}
			if !o.OK {
				bad(fmt.Sprintf("want accepted got %+v", o))
				return
			}
			// the nodes in source order
			var flat []jlib.ASTNode
			var walk func(a jlib.ASTNode)
			walk = func(a jlib.ASTNode) {
				flat = append(flat, a)
				for _, ch := range a.Children {
					walk(ch)
				}
			}
			walk(ast)
			if len(flat) != len(c.Nodes) {
				bad(fmt.Sprintf("AST has %d nodes want %d", len(flat), len(c.Nodes)))
				return
			}
			for i, wn := range c.Nodes {
				hasRule := false
				if flat[i].Rules != nil {
					flat[i].Rules.EachSafe(func(k string, v jlib.RuleASTNode) {
						if k == "nullable" {
							hasRule = true
						}
					})
				}
				if flat[i].Comment != wn.Note || hasRule != wn.Rules {
					bad(fmt.Sprintf("node %d (key %q): note %q rules %v, want note %q rules %v", i+1, flat[i].Key, flat[i].Comment, hasRule, wn.Note, wn.Rules))
					return
				}
			}
		})
		b, _ := json.Marshal(map[string]interface{}{"layouts": n, "judged": judged, "mismatches": mism, "by_expectation": byWant})
		fmt.Fprintln(os.Stderr, "@@SUMMARY "+string(b))
		return 0
	})
}
