package main

// C06 on the Gaps spellings: the events the schema scanner (and the enum-rule scanner) delivers for a spelling are the events of the
// compact spelling - same kinds in the same order, literal / key / shortcut events covering exactly the same token text, annotation
// text the same note - new-line events aside; every span lies inside the text.

import (
	"encoding/json"
	"flag"
	"fmt"
	"os"
	"strings"
)

func eventSignature(text []byte, evs []Event, dropAnn bool) ([]string, string) {
	var sig []string
	for _, e := range evs {
		if e.B < 0 || e.E < e.B-1 || e.E >= len(text)+1 {
			return nil, fmt.Sprintf("event %s spans [%d, %d] in a text of %d bytes", e.Ty, e.B, e.E, len(text))
		}
		if dropAnn && strings.Contains(e.Ty, "annotation") {
			continue // in an enum rule the fillers are comments, which this scanner delivers as annotation events
		}
		switch e.Ty {
		case "new-line", "end-top":
			continue
		case "literal-end", "key-end", "key-shortcut-end", "types-shortcut-end", "inline-annotation-text-end", "multi-line-annotation-text-end":
			end := e.E + 1
			if end > len(text) {
				end = len(text)
			}
			tok := strings.TrimSpace(string(text[e.B:end]))
			if e.Ty == "types-shortcut-end" {
				tok = strings.NewReplacer(" ", "", "\t", "").Replace(tok)
			}
			sig = append(sig, e.Ty+":"+tok)
		default:
			sig = append(sig, e.Ty)
		}
	}
	return sig, ""
}

func init() {
	register("c06gaps", func(args []string) int {
		fs := flag.NewFlagSet("c06gaps", flag.ExitOnError)
		casesPath := fs.String("cases", "", "cases ndjson (spec/Gaps.tla)")
		out := fs.String("out", "-", "mismatch ndjson")
		fs.Parse(args)
		w := newNDWriter(*out)
		defer w.Close()
		n, mism := 0, 0
		bases := map[string][]string{}
		scan := func(kind string, text []byte) ([]Event, string) {
			if kind == "enum" {
				return enumEvents(text)
			}
			return schemaEvents(text)
		}
		readLines(openIn(*casesPath), func(line []byte) {
			var c gapCase
			if err := json.Unmarshal(line, &c); err != nil {
				fatal(err)
			}
			if c.Kind == "doc" {
				return
			}
			n++
			bad := func(where string) {
				mism++
				w.Write(gapMismatch{c.Text, c.Base, where})
			}
			want, ok := bases[c.Base]
			if !ok {
				evs, fail := scan(c.Kind, []byte(c.Base))
				if fail != "" {
					want = []string{"scan fails: " + fail}
				} else {
					var why string
					want, why = eventSignature([]byte(c.Base), evs, c.Kind == "enum")
					if why != "" {
						want = []string{"bad span: " + why}
					}
				}
				bases[c.Base] = want
			}
			evs, fail := scan(c.Kind, []byte(c.Text))
			if fail != "" {
				if len(want) == 1 && strings.HasPrefix(want[0], "scan fails") {
					return
				}
				bad("the scanner fails on this spelling: " + fail)
				return
			}
			got, why := eventSignature([]byte(c.Text), evs, c.Kind == "enum")
			if why != "" {
				bad(why)
				return
			}
			if strings.Join(got, "\x00") != strings.Join(want, "\x00") {
				i := 0
				for i < len(got) && i < len(want) && got[i] == want[i] {
					i++
				}
				g, wv := "<end>", "<end>"
				if i < len(got) {
					g = got[i]
				}
				if i < len(want) {
					wv = want[i]
				}
				bad(fmt.Sprintf("event %d is %q, in the compact spelling %q (%d / %d events)", i, g, wv, len(got), len(want)))
			}
		})
		b, _ := json.Marshal(map[string]int{"spellings": n, "mismatches": mism, "bases": len(bases)})
		fmt.Fprintln(os.Stderr, "@@SUMMARY "+string(b))
		return 0
	})
}
