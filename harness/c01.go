package main

// C01 (and the shared replay of "schema x document -> verdict" cases for C02/C03): the expected verdict vector
// of every schema comes from TLC (GenShape / GenRules / GenTypes); this file renders, runs Validate and compares.

import (
	"encoding/json"
	"flag"
	"fmt"
	"os"
	"sync/atomic"

	jdoc "github.com/jsightapi/jsight-schema-go-library/formats/json"
)

type semCase struct {
	Schema   Node  `json:"schema"`
	Env      Env   `json:"env"`
	Opt      bool  `json:"opt"`
	Verdicts []int `json:"verdicts"` // per document index: 0 reject, 1 accept, 2 unspecified
	MayRefuse bool `json:"mayrefuse"` // Check may reject the schema (a count beyond any machine integer); if it accepts, the verdicts apply
}

type semMismatch struct {
	Schema   string  `json:"schema"`
	Abstract Node    `json:"abstract"`
	Env      Env     `json:"env"`
	Opt      bool    `json:"opt"`
	Doc      string  `json:"doc"`
	DocAbs   Value   `json:"doc_abs"`
	Want     string  `json:"want"`
	Got      Outcome `json:"got"`
	Fresh    *bool   `json:"fresh_ok,omitempty"` // verdict on a freshly built schema object
	What     string  `json:"what"`
}

func hasObject(v Value) bool {
	switch v.T {
	case "obj":
		return true
	case "arr":
		for _, it := range v.Items {
			if hasObject(it) {
				return true
			}
		}
	}
	return false
}

func init() {
	register("semreplay", func(args []string) int {
		fs := flag.NewFlagSet("semreplay", flag.ExitOnError)
		docsPath := fs.String("docs", "", "documents ndjson {i, v}")
		casesPath := fs.String("cases", "", "cases ndjson")
		out := fs.String("out", "-", "mismatch ndjson")
		mesh := fs.Bool("mesh", true, "add every type to every type")
		fs.Parse(args)
		var docs []Value
		readLines(openIn(*docsPath), func(line []byte) {
			var d struct {
				I int   `json:"i"`
				V Value `json:"v"`
			}
			if err := json.Unmarshal(line, &d); err != nil {
				fatal(err)
			}
			for len(docs) < d.I {
				docs = append(docs, Value{})
			}
			docs[d.I-1] = d.V
		})
		var cases []semCase
		readLines(openIn(*casesPath), func(line []byte) {
			var c semCase
			if err := json.Unmarshal(line, &c); err != nil {
				fatal(fmt.Sprintf("%v in %.200s", err, line))
			}
			cases = append(cases, c)
		})
		w := newNDWriter(*out)
		defer w.Close()
		var evals, mism, accepts, rejects, unspec, checkFail int64
		// a second spelling of every document that has an object: properties reversed, every character of keys and strings
		// \u-escaped, blanks and line breaks between the tokens. The expected verdict is a function of the JSON value alone.
		alt := make([]string, len(docs))
		for i, d := range docs {
			if hasObject(d) && !hasDupKeys(d) {
				alt[i] = spellDoc(d, docSpell{WS: "lines", Order: "reversed", Esc: "unicode"})
			}
		}
		parallelFor(len(cases), func(ci int) {
			c := cases[ci]
			s, rr, err := buildSchema(c.Schema, c.Env, c.Opt, *mesh)
			if err == nil {
				err = s.Check()
			}
			if err != nil && c.MayRefuse {
				return
			}
			if err != nil {
				// the schema itself is rejected: every specified verdict is a disagreement of the same cause
				atomic.AddInt64(&checkFail, 1)
				atomic.AddInt64(&mism, 1)
				w.Write(semMismatch{Schema: rr.Text, Abstract: c.Schema, Env: c.Env, Opt: c.Opt, Want: "schema usable", Got: outcomeOf(err), What: "check"})
				return
			}
			for di, want := range c.Verdicts {
				if want == 2 {
					atomic.AddInt64(&unspec, 1)
					continue
				}
				atomic.AddInt64(&evals, 1)
				got := validateValue(s, docs[di])
				if want == 1 {
					atomic.AddInt64(&accepts, 1)
				} else {
					atomic.AddInt64(&rejects, 1)
				}
				if alt[di] != "" && got.OK == (want == 1) {
					atomic.AddInt64(&evals, 1)
					if g2 := guard(func() error { return s.Validate(jdoc.New("doc", alt[di])) }); g2.Kind == "panic" || g2.Kind == "foreign" || g2.OK != (want == 1) {
						atomic.AddInt64(&mism, 1)
						ws := "reject"
						if want == 1 {
							ws = "accept"
						}
						w.Write(semMismatch{Schema: rr.Text, Abstract: c.Schema, Env: c.Env, Opt: c.Opt, Doc: alt[di], DocAbs: docs[di], Want: ws, Got: g2, What: "verdict-respelled"})
					}
				}
				// the same document object after the caller has looked at its first lexemes: Validate reads the whole text whatever the
				// position the document was left at
				if (ci+di)%3 == 0 && got.OK == (want == 1) {
					atomic.AddInt64(&evals, 1)
					d := jdoc.New("doc", docs[di].JSON())
					k := (ci+di)%5 + 2
					guard(func() error {
						for j := 0; j < k; j++ {
							if _, err := d.NextLexeme(); err != nil {
								break
							}
						}
						return nil
					})
					if g2 := guard(func() error { return s.Validate(d) }); g2.Kind == "panic" || g2.Kind == "foreign" || g2.OK != (want == 1) {
						atomic.AddInt64(&mism, 1)
						ws := "reject"
						if want == 1 {
							ws = "accept"
						}
						w.Write(semMismatch{Schema: rr.Text, Abstract: c.Schema, Env: c.Env, Opt: c.Opt, Doc: docs[di].JSON(), DocAbs: docs[di], Want: ws, Got: g2, What: fmt.Sprintf("verdict-after-%d-lexemes-read", k)})
					}
				}
				if got.Kind == "panic" || got.Kind == "foreign" || got.OK != (want == 1) {
					// once more on a freshly built schema object
					s2, _, err2 := buildSchema(c.Schema, c.Env, c.Opt, *mesh)
					var fresh *bool
					if err2 == nil {
						g2 := validateValue(s2, docs[di])
						fresh = &g2.OK
					}
					atomic.AddInt64(&mism, 1)
					ws := "reject"
					if want == 1 {
						ws = "accept"
					}
					w.Write(semMismatch{Schema: rr.Text, Abstract: c.Schema, Env: c.Env, Opt: c.Opt, Doc: docs[di].JSON(), DocAbs: docs[di], Want: ws, Got: got, Fresh: fresh, What: "verdict"})
				}
			}
		})
		b, _ := json.Marshal(map[string]int64{"cases": int64(len(cases)), "docs": int64(len(docs)), "evaluations": evals, "accept": accepts,
			"reject": rejects, "unspecified": unspec, "mismatches": mism, "schema_rejected": checkFail})
		fmt.Fprintln(os.Stderr, "@@SUMMARY "+string(b))
		return 0
	})
}
