package main

// C15: Example(). Plumbing: build the schemas TLC enumerated, call Example(), parse the bytes into the abstract
// Value (order, repeats and numeral spelling kept) and log them; TraceSem.tla judges well-formedness and acceptance.

import (
	"bytes"
	"encoding/json"
	"flag"
	"fmt"
	"io"
	"os"
	"strings"

	jdoc "github.com/jsightapi/jsight-schema-go-library/formats/json"
)

func parseValue(dec *json.Decoder) (Value, error) {
	tok, err := dec.Token()
	if err != nil {
		return Value{}, err
	}
	switch t := tok.(type) {
	case json.Delim:
		if t == '[' {
			v := Value{T: "arr", Items: []Value{}}
			for dec.More() {
				it, err := parseValue(dec)
				if err != nil {
					return v, err
				}
				v.Items = append(v.Items, it)
			}
			_, err := dec.Token()
			return v, err
		}
		v := Value{T: "obj", Ps: []KV{}}
		for dec.More() {
			kt, err := dec.Token()
			if err != nil {
				return v, err
			}
			val, err := parseValue(dec)
			if err != nil {
				return v, err
			}
			v.Ps = append(v.Ps, KV{Key(kt.(string)), val})
		}
		_, err := dec.Token()
		return v, err
	case json.Number:
		return Value{T: "num", B: bytesToInts([]byte(t.String()))}, nil
	case string:
		cp := []int{}
		for _, r := range t {
			cp = append(cp, int(r))
		}
		return Value{T: "str", C: cp}, nil
	case bool:
		return Value{T: "bool", Bv: t}, nil
	case nil:
		return Value{T: "null"}, nil
	}
	return Value{}, fmt.Errorf("token %v", tok)
}

// abstractJSON parses text into the abstract Value; ok=false if encoding/json cannot parse it.
func abstractJSON(text []byte) (Value, bool) {
	dec := json.NewDecoder(bytes.NewReader(text))
	dec.UseNumber()
	v, err := parseValue(dec)
	if err != nil {
		return Value{T: "null"}, false
	}
	if _, err := dec.Token(); err != io.EOF {
		return Value{T: "null"}, false
	}
	return v, true
}

// Keys are logged as code points for TLC.
func (k Key) MarshalJSON() ([]byte, error) {
	cp := []int{}
	for _, r := range string(k) {
		cp = append(cp, int(r))
	}
	return json.Marshal(cp)
}

func init() {
	register("c15trace", func(args []string) int {
		fs := flag.NewFlagSet("c15trace", flag.ExitOnError)
		casesPath := fs.String("cases", "", "comma separated case files (schema, env, opt)")
		out := fs.String("out", "-", "trace")
		fs.Parse(args)
		w := newNDWriter(*out)
		defer w.Close()
		n, errs, checkFail := 0, 0, 0
		errSamples := []string{}
		for _, path := range strings.Split(*casesPath, ",") {
			readLines(openIn(path), func(line []byte) {
				var c semCase
				if err := json.Unmarshal(line, &c); err != nil {
					fatal(err)
				}
				s, rr, err := buildSchema(c.Schema, c.Env, c.Opt, true)
				if err == nil {
					err = s.Check()
				}
				if err != nil {
					checkFail++
					return
				}
				var ex []byte
				o := guard(func() error {
					var e error
					ex, e = s.Example()
					ex = append([]byte(nil), ex...)
					return e
				})
				if !o.OK {
					errs++
					if len(errSamples) < 5 {
						errSamples = append(errSamples, rr.Text+" => "+o.Msg+o.Panic)
					}
					w.Write(map[string]interface{}{"op": "example", "schema": c.Schema, "env": c.Env, "opt": c.Opt, "bytes": []int{}, "value": Value{T: "null"},
						"parsed": false, "error": o, "text": rr.Text})
					return
				}
				v, ok := abstractJSON(ex)
				// the library's own opinion (the statement's literal wording), logged for the record
				self := guard(func() error { return s.Validate(jdoc.New("example", ex)) })
				w.Write(map[string]interface{}{"op": "example", "schema": c.Schema, "env": c.Env, "opt": c.Opt, "bytes": bytesToInts(ex), "value": v,
					"parsed": ok, "self_ok": self.OK, "text": rr.Text, "out": string(ex)})
				n++
			})
		}
		b, _ := json.Marshal(map[string]interface{}{"examples": n, "example_errors": errs, "check_failed": checkFail, "error_samples": errSamples})
		fmt.Fprintln(os.Stderr, "@@SUMMARY "+string(b))
		return 0
	})
}
