package main

// C06: lexical events. Plumbing only: build text from tokens, run the three scanners, log/compare events.

import (
	"encoding/hex"
	"encoding/json"
	"errors"
	"flag"
	"fmt"
	"io"
	"os"
	"sync/atomic"

	jdoc "github.com/jsightapi/jsight-schema-go-library/formats/json"
)

type Event struct {
	Ty string `json:"ty"`
	B  int    `json:"b"`
	E  int    `json:"e"`
}

type tokH struct {
	C string `json:"c"`
	H string `json:"h,omitempty"`
	N int    `json:"n"`
}

// jsonEvents: the public NextLexeme stream. eof = stream ended with io.EOF (and nothing else).
func jsonEvents(text []byte, trailing bool) (evs []Event, eof bool, fail string) {
	return jsonEventsAfter(text, trailing, 0)
}

// prelude: public calls issued on the same Document before the events are read
// (0 none, 1 Check, 2 Len, 3 Check+Len, 4.. some NextLexeme calls and then Check and / or Len): the stream must not depend on them.
func jsonEventsAfter(text []byte, trailing bool, prelude int) (evs []Event, eof bool, fail string) {
	defer func() {
		if r := recover(); r != nil {
			fail = fmt.Sprint("panic: ", r)
		}
	}()
	var d = jdoc.New("doc", text)
	if trailing {
		d = jdoc.New("doc", text, jdoc.AllowTrailingNonSpaceCharacters())
	}
	if prelude >= 4 {
		// read the first k lexemes, then Check (or Len): both rewind, the stream starts over
		k := prelude/4 + prelude%3
		for j := 0; j < k; j++ {
			if _, err := d.NextLexeme(); err != nil {
				break
			}
		}
	}
	if prelude&1 != 0 || prelude >= 4 && prelude&2 == 0 {
		_ = d.Check()
	}
	if prelude&2 != 0 {
		_, _ = d.Len()
	}
	for i := 0; i < 20*len(text)+100; i++ {
		lex, err := d.NextLexeme()
		if err != nil {
			if errors.Is(err, io.EOF) {
				if lex.File() != nil && trailing { // end-top delivered together with io.EOF
					evs = append(evs, Event{lex.Type().String(), int(lex.Begin()), int(lex.End())})
				}
				return evs, true, ""
			}
			return evs, false, err.Error()
		}
		evs = append(evs, Event{lex.Type().String(), int(lex.Begin()), int(lex.End())})
	}
	return evs, false, "no termination"
}

func sameEvents(a, b []Event) bool {
	if len(a) != len(b) {
		return false
	}
	for i := range a {
		if a[i] != b[i] {
			return false
		}
	}
	return true
}

func dropNewLines(a []Event) []Event {
	r := a[:0:0]
	for _, e := range a {
		if e.Ty != "new-line" {
			r = append(r, e)
		}
	}
	return r
}

// which scanners a token list is in the language of
func hasExponent(toks []tokH, text func(tokH) string) bool {
	for _, t := range toks {
		if t.C == "num" {
			for _, c := range text(t) {
				if c == 'e' || c == 'E' {
					return true
				}
			}
		}
	}
	return false
}

// enum rules reject duplicate values, so an array with two equal items is outside the enum scanner's language
func distinctItems(toks []tokH, spell func(tokH) string) bool {
	seen := map[string]bool{}
	for _, t := range toks {
		switch t.C {
		case "str", "num", "true", "false", "null":
			k := t.C + ":" + spell(t)
			if t.C == "str" {
				var d string
				if json.Unmarshal([]byte(spell(t)), &d) == nil {
					k = "str:" + d
				}
			}
			if seen[k] {
				return false
			}
			seen[k] = true
		}
	}
	return true
}

func isScalarArray(toks []tokH) bool {
	depth := 0
	seen := false
	for _, t := range toks {
		switch t.C {
		case "[":
			depth++
			if depth > 1 || seen {
				return false
			}
			seen = true
		case "]":
			depth--
		case "{", "}", "key":
			return false
		case "ws":
		default:
			if depth == 0 {
				return false
			}
		}
	}
	return seen
}

type c06Mismatch struct {
	Scanner string  `json:"scanner"`
	Text    string  `json:"text"`
	Hex     string  `json:"hex"`
	Want    []Event `json:"want"`
	Got     []Event `json:"got"`
	EOF     bool    `json:"eof"`
	Fail    string  `json:"fail,omitempty"`
}

func init() {
	// c06replay: @@CASE lines from GenJson (expected events from TLC) -> run scanners -> mismatches
	register("c06replay", func(args []string) int {
		fs := flag.NewFlagSet("c06replay", flag.ExitOnError)
		in := fs.String("cases", "-", "case ndjson")
		out := fs.String("out", "-", "mismatch ndjson")
		fs.Parse(args)
		type kase struct {
			Toks   []tokH  `json:"toks"`
			Events []Event `json:"events"`
			Len    int     `json:"len"`
		}
		var cases []kase
		rd := openIn(*in)
		readLines(rd, func(line []byte) {
			var k kase
			if err := json.Unmarshal(line, &k); err != nil {
				fatal(err)
			}
			cases = append(cases, k)
		})
		w := newNDWriter(*out)
		defer w.Close()
		var nJson, nSchema, nEnum, nEmb, mism int64
		parallelFor(len(cases), func(i int) {
			k := cases[i]
			var text []byte
			for _, t := range k.Toks {
				b, err := hex.DecodeString(t.H)
				if err != nil || len(b) != t.N {
					fatal(fmt.Sprintf("bad token %v", t))
				}
				text = append(text, b...)
			}
			if len(text) != k.Len {
				fatal("length mismatch")
			}
			spell := func(t tokH) string { b, _ := hex.DecodeString(t.H); return string(b) }
			got, eof, fail := jsonEventsAfter(text, false, i%24)
			atomic.AddInt64(&nJson, 1)
			if !eof || !sameEvents(got, k.Events) {
				atomic.AddInt64(&mism, 1)
				w.Write(c06Mismatch{"json", string(text), hex.EncodeToString(text), k.Events, got, eof, fail})
			}
			{
				// the same value embedded in foreign text (AllowTrailingNonSpaceCharacters): the events of the value, whatever was called before
				tail := [][]byte{[]byte(" GET /cats"), []byte("\nPOST /x {}"), []byte("\t@t"), []byte("\r\n[1]")}[i%4]
				emb := append(append([]byte{}, text...), tail...)
				got, eof, fail := jsonEventsAfter(emb, true, (i/4)%24)
				got = dropEndTop(got)
				atomic.AddInt64(&nEmb, 1)
				if !eof || !sameEvents(got, k.Events) {
					atomic.AddInt64(&mism, 1)
					w.Write(c06Mismatch{"json-embedded", string(emb), hex.EncodeToString(emb), k.Events, got, eof, fail})
				}
			}
			if !hasExponent(k.Toks, spell) {
				atomic.AddInt64(&nSchema, 1)
				got, fail := schemaEvents(text)
				got = dropNewLines(got)
				if fail != "" || !sameEvents(got, k.Events) {
					atomic.AddInt64(&mism, 1)
					w.Write(c06Mismatch{"schema", string(text), hex.EncodeToString(text), k.Events, got, fail == "", fail})
				}
				if isScalarArray(k.Toks) && distinctItems(k.Toks, spell) {
					atomic.AddInt64(&nEnum, 1)
					got, fail := enumEvents(text)
					got = dropNewLines(got)
					if fail != "" || !sameEvents(got, k.Events) {
						atomic.AddInt64(&mism, 1)
						w.Write(c06Mismatch{"enum", string(text), hex.EncodeToString(text), k.Events, got, fail == "", fail})
					}
				}
			}
		})
		b, _ := json.Marshal(map[string]int64{"cases": int64(len(cases)), "json": nJson, "embedded": nEmb, "schema": nSchema, "enum": nEnum, "mismatches": mism})
		fmt.Fprintln(os.Stderr, "@@SUMMARY "+string(b))
		return 0
	})

	// c06trace: random texts (depth 8 x width 8), all three scanners, logged for TraceEvents.tla
	register("c06trace", func(args []string) int {
		fs := flag.NewFlagSet("c06trace", flag.ExitOnError)
		n := fs.Int("n", 100, "texts")
		out := fs.String("out", "-", "trace")
		fs.Parse(args)
		w := newNDWriter(*out)
		defer w.Close()
		r := newRand(6)
		type line struct {
			Scanner string  `json:"scanner"`
			Toks    []tokH  `json:"toks"`
			Events  []Event `json:"events"`
			EOF     bool    `json:"eof"`
			Text    string  `json:"text"`
		}
		for i := 0; i < *n; i++ {
			g := &jsonGen{r: r, maxDepth: 3, maxWidth: 3, exp: i%2 == 0, ws: true}
			if i%12 == 11 {
				g.maxDepth, g.maxWidth = 8, 8
			}
			var toks []Tok
			if i%5 == 4 { // an array of scalars: also in the enum scanner's language
				g.exp = false
				toks = append(toks, Tok{"[", "[", 1})
				m := 1 + r.Intn(5)
				for j := 0; j < m; j++ {
					g.maybeWS(&toks)
					g.maxDepth = 0
					g.value(1, &toks)
					g.maybeWS(&toks)
					if j < m-1 {
						toks = append(toks, Tok{",", ",", 1})
					}
				}
				toks = append(toks, Tok{"]", "]", 1})
			} else {
				toks = g.doc()
			}
			text := []byte(tokText(toks))
			if len(text) > 6000 {
				continue
			}
			th := make([]tokH, len(toks))
			for j, t := range toks {
				th[j] = tokH{C: t.C, N: t.N}
			}
			evs, eof, _ := jsonEventsAfter(text, false, i%24)
			w.Write(line{"json", th, orEmpty(evs), eof, string(text)})
			if !g.exp {
				evs, fail := schemaEvents(text)
				w.Write(line{"schema", th, orEmpty(evs), fail == "", string(text)})
				thS := make([]tokH, len(toks))
				for j, t := range toks {
					thS[j] = tokH{C: t.C, H: t.S, N: t.N}
				}
				if i%5 == 4 && distinctItems(thS, func(t tokH) string { return t.H }) {
					evs, fail := enumEvents(text)
					w.Write(line{"enum", th, orEmpty(evs), fail == "", string(text)})
				}
			}
		}
		return 0
	})
}

func dropEndTop(a []Event) []Event {
	var out []Event
	for _, e := range a {
		if e.Ty != "end-top" {
			out = append(out, e)
		}
	}
	return out
}

func orEmpty(e []Event) []Event {
	if e == nil {
		return []Event{}
	}
	return e
}
