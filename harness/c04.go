package main

// C04: Check accepts a schema only if its own EXAMPLE obeys its rules. Cases (good / corrupted, with the path of
// the corrupted value) come from TLC (GenCheck.tla); this file renders, calls Check / Validate and compares.

import (
	"encoding/json"
	"flag"
	"fmt"
	"os"
	"strings"
	"sync/atomic"

	jdoc "github.com/jsightapi/jsight-schema-go-library/formats/json"
)

type c04Case struct {
	Schema  Node     `json:"schema"`
	Env     Env      `json:"env"`
	Good    bool     `json:"good"`
	Path    []string `json:"path"`
	Example Value    `json:"example"`
	Self    string   `json:"self"`
	InType  bool     `json:"intype"`
	Plain   bool     `json:"plain"`
	TFile   string   `json:"tfile"` // the added type whose text holds the corrupted value ("" = @B at offset 0)
	TPath   []string `json:"tpath"` // path of the value inside that type
}

type c04Mismatch struct {
	Schema  string  `json:"schema"`
	Good    bool    `json:"good"`
	What    string  `json:"what"`
	WantPos int     `json:"want_pos"`
	Got     Outcome `json:"got"`
	Example string  `json:"example"`
}

func init() {
	register("c04replay", func(args []string) int {
		fs := flag.NewFlagSet("c04replay", flag.ExitOnError)
		casesPath := fs.String("cases", "", "cases ndjson")
		out := fs.String("out", "-", "mismatch ndjson")
		fs.Parse(args)
		var cases []c04Case
		readLines(openIn(*casesPath), func(line []byte) {
			var c c04Case
			if err := json.Unmarshal(line, &c); err != nil {
				fatal(fmt.Sprintf("%v in %.200s", err, line))
			}
			cases = append(cases, c)
		})
		w := newNDWriter(*out)
		defer w.Close()
		var good, bad, mism, checkRejectsGood int64
		parallelFor(len(cases), func(i int) {
			c := cases[i]
			s, rr, err := buildSchema(c.Schema, c.Env, false, true)
			var chk Outcome
			if err != nil {
				chk = outcomeOf(err)
			} else {
				chk = guard(s.Check)
			}
			ex := c.Example.JSON()
			if c.Good {
				atomic.AddInt64(&good, 1)
				if !chk.OK {
					// C04 says nothing about Check rejecting a schema whose example obeys (that is C08's matrix): counted only
					atomic.AddInt64(&checkRejectsGood, 1)
					return
				}
				if c.InType || !c.Plain {
					return // the root names types: its example is not plain JSON, the forward half of C04 does not apply
				}
				v := guard(func() error { return s.Validate(jdoc.New("example", ex)) })
				if !v.OK {
					atomic.AddInt64(&mism, 1)
					w.Write(c04Mismatch{rr.Text, true, "own-example-rejected", -1, v, ex})
				}
				return
			}
			atomic.AddInt64(&bad, 1)
			want := rr.Offsets["/"+strings.Join(c.Path, "/")]
			if len(c.Path) == 0 {
				want = rr.Offsets[""]
			}
			wantFile := ""
			if c.InType {
				want = 0 // offset of the value inside the added type's own text
				if c.TFile != "" {
					wantFile = c.TFile
					for _, t := range c.Env.Types {
						if t.Name == c.TFile {
							want = renderSchema(t.N).Offsets["/"+strings.Join(c.TPath, "/")]
						}
					}
				}
			}
			if chk.OK {
				atomic.AddInt64(&mism, 1)
				w.Write(c04Mismatch{rr.Text, false, "check-accepts-violating-example", want, chk, ex})
			} else if chk.Kind != "liberr" || chk.Pos != want {
				atomic.AddInt64(&mism, 1)
				w.Write(c04Mismatch{rr.Text, false, "position", want, chk, ex})
			} else if wantFile != "" && chk.File != wantFile {
				atomic.AddInt64(&mism, 1)
				w.Write(c04Mismatch{rr.Text, false, "position in the wrong file (want " + wantFile + ")", want, chk, ex})
			}
		})
		b, _ := json.Marshal(map[string]int64{"good": good, "bad": bad, "mismatches": mism, "check_rejects_obeying_example": checkRejectsGood})
		fmt.Fprintln(os.Stderr, "@@SUMMARY "+string(b))
		return 0
	})
}
