package main

// C09 / Known.tla: types that are handed down. Every configuration TLC printed (who was given which types, which types each
// text references, allOf parents) is built with real schema objects; Check has to succeed where the requirement says "accept" and to
// fail with 1302 naming a lacking type where it says "missing".

import (
	"encoding/json"
	"flag"
	"fmt"
	"os"
	"strings"
	"sync/atomic"

	"github.com/jsightapi/jsight-schema-go-library/notations/jschema"
)

type knownCase struct {
	Given   map[string][]string `json:"given"`
	Refs    map[string][]string `json:"refs"`
	Par     map[string]string   `json:"par"`
	Form    string              `json:"form"`
	Want    string              `json:"want"`
	Lacking []string            `json:"lacking"`
}

type knownMismatch struct {
	Case  knownCase         `json:"case"`
	Texts map[string]string `json:"texts"`
	Order string            `json:"order"`
	Check Outcome           `json:"check"`
	Bad   string            `json:"bad"`
}

func knownText(c knownCase, s string) string {
	short := strings.TrimPrefix(s, "@")
	var sb strings.Builder
	sb.WriteString("{")
	if p := c.Par[s]; p != "-" && p != "" {
		sb.WriteString(` // {allOf: "` + p + `"}`)
	}
	sb.WriteString("\n")
	for _, r := range c.Refs[s] {
		key := `  "` + short + "_to_" + strings.TrimPrefix(r, "@") + `": `
		switch c.Form {
		case "item":
			sb.WriteString(key + "[ // {optional: true}\n    " + r + "\n  ],\n") // (the annotation of an array stands after its opening bracket)
		case "orlist":
			sb.WriteString(key + `1, // {or: ["` + r + `", "integer"], optional: true}` + "\n")
		case "ruleset":
			sb.WriteString(key + `1, // {or: [{type: "` + r + `"}, {type: "integer"}], optional: true}` + "\n")
		default:
			sb.WriteString(key + r + ", // {optional: true}\n")
		}
	}
	// every text has a rule set of its own: an unnamed type that has to reach the root together with the type it stands in
	sb.WriteString(`  "set_` + short + `": 1, // {or: [{type: "integer"}, {type: "string", minLength: 1}]}` + "\n")
	sb.WriteString(`  "own_` + short + `": 1` + "\n}")
	return sb.String()
}

func init() {
	register("c09known", func(args []string) int {
		fs := flag.NewFlagSet("c09known", flag.ExitOnError)
		in := fs.String("cases", "-", "case ndjson")
		out := fs.String("out", "-", "mismatch ndjson")
		fs.Parse(args)
		w := newNDWriter(*out)
		defer w.Close()
		names := []string{"@a", "@b", "@c"}
		var judged, skipped, mism, total int64
		// the cases are judged in batches as they are read (the thorough tier has millions)
		var cases []knownCase
		base := 0
		var judge func(i int)
		flush := func() {
			parallelFor(len(cases), judge)
			base += len(cases)
			total += int64(len(cases))
			cases = cases[:0]
		}
		judge = func(j int) {
			c := cases[j]
			i := base + j
			if c.Want == "unspec" {
				atomic.AddInt64(&skipped, 1)
				return
			}
			texts := map[string]string{}
			ss := map[string]*jschema.Schema{}
			for _, n := range append([]string{"root"}, names...) {
				texts[n] = knownText(c, n)
				ss[n] = jschema.New(n, texts[n])
			}
			// who is given what: the types first (in either order of the names), the root last - or the root first
			order := [][]string{{"@a", "@b", "@c", "root"}, {"@c", "@b", "@a", "root"}, {"root", "@a", "@b", "@c"}}[i%3]
			var bad string
			for _, s := range order {
				for _, g := range c.Given[s] {
					if err := ss[s].AddType(g, ss[g]); err != nil {
						bad = "AddType(" + g + ") on " + s + " failed: " + err.Error()
					}
				}
			}
			o := guard(ss["root"].Check)
			atomic.AddInt64(&judged, 1)
			if bad == "" {
				switch c.Want {
				case "accept":
					if !o.OK {
						bad = "Check fails although every type that is wanted was given to the root or to a type it was given"
					}
				case "missing":
					named := false
					for _, l := range c.Lacking {
						if strings.Contains(o.Msg, `"`+l+`"`) {
							named = true
						}
					}
					if o.OK {
						bad = "Check succeeds although a wanted type was given to nobody the root knows"
					} else if o.Code != 1302 || !named {
						bad = "Check fails without naming a lacking type"
					}
				}
			}
			if bad != "" {
				atomic.AddInt64(&mism, 1)
				if mism <= 5000 {
					w.Write(knownMismatch{c, texts, strings.Join(order, ","), o, bad})
				}
			}
		}
		readLines(openIn(*in), func(line []byte) {
			var k knownCase
			if err := json.Unmarshal(line, &k); err != nil {
				fatal(err)
			}
			cases = append(cases, k)
			if len(cases) >= 50000 {
				flush()
			}
		})
		flush()
		b, _ := json.Marshal(map[string]int64{"cases": total, "judged": judged, "unspec": skipped, "mismatches": mism})
		fmt.Fprintln(os.Stderr, "@@SUMMARY "+string(b))
		return 0
	})
}
