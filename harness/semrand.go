package main

// Random tier (mechanism B) for C01-C03: seeded random abstract schemas (nesting to depth 5, width 4, user types,
// references, or rules, allOf, additionalProperties, scalar rules) with near-conforming documents; every real Validate
// call is logged with its abstract inputs and TLC (TraceSem, op "validate") computes the verdict the requirement demands.
// The document generator below only CHOOSES inputs (conforming documents and point mutations of them); it judges nothing.

import (
	"flag"
	"fmt"
	"math/rand"
	"os"
	"strconv"
	"strings"

	jdoc "github.com/jsightapi/jsight-schema-go-library/formats/json"
	"github.com/jsightapi/jsight-schema-go-library/notations/jschema"
)

type semGen struct {
	r     *rand.Rand
	types []NamedNode
	rich  bool // references / or / additionalProperties / allOf (C03); else the rule-free fragment with a few scalar rules
}

func numV(s string) *Value { return &Value{T: "num", B: bytesToInts([]byte(s))} }
func strV(s string) *Value {
	cp := []int{}
	for _, r := range s {
		cp = append(cp, int(r))
	}
	return &Value{T: "str", C: cp}
}
func boolRV(b bool) RV         { return RV{T: "bool", Bv: b} }
func numRV(s string) RV        { return RV{T: "num", B: bytesToInts([]byte(s))} }
func idRV(s string) RV         { return RV{T: "id", S: s} }
func trefRV(s string) RV       { return RV{T: "tref", S: s} }
func rule(n string, v RV) Rule { return Rule{N: n, V: v} }

var keyPool = []string{"a", "b", "c", "id", "name", "x", "y", "é", "k1"}

func (g *semGen) scalar() Node {
	switch g.r.Intn(7) {
	case 0:
		n := Node{T: "lit", V: numV([]string{"0", "1", "7", "-3", "42"}[g.r.Intn(5)])}
		if g.r.Intn(3) == 0 {
			n.Rules = append(n.Rules, rule("min", numRV("-5")))
		}
		if g.r.Intn(4) == 0 {
			n.Rules = append(n.Rules, rule("max", numRV("100")))
		}
		return n
	case 1:
		n := Node{T: "lit", V: numV([]string{"1.5", "0.25", "-2.5", "10.0"}[g.r.Intn(4)])}
		if g.r.Intn(4) == 0 {
			n.Rules = append(n.Rules, rule("min", numRV("-2.5")), rule("exclusiveMinimum", boolRV(false)))
		}
		return n
	case 2, 3:
		n := Node{T: "lit", V: strV([]string{"s", "abc", "", "a b", "é"}[g.r.Intn(5)])}
		if g.r.Intn(4) == 0 {
			n.Rules = append(n.Rules, rule("maxLength", numRV("5")))
		}
		return n
	case 4:
		return Node{T: "lit", V: &Value{T: "bool", Bv: g.r.Intn(2) == 0}}
	case 5:
		return Node{T: "lit", V: &Value{T: "null"}}
	default:
		return Node{T: "lit", V: numV("1"), Rules: []Rule{rule("type", idRV("any"))}}
	}
}

func (g *semGen) node(depth int) Node {
	var n Node
	k := g.r.Intn(10)
	if depth >= 5 {
		k = 9
	}
	switch {
	case k < 3: // object
		n = Node{T: "obj"}
		w := g.r.Intn(5)
		perm := g.r.Perm(len(keyPool))
		for i := 0; i < w; i++ {
			c := g.node(depth + 1)
			switch g.r.Intn(4) {
			case 0:
				c.Rules = append(c.Rules, rule("optional", boolRV(true)))
			case 1:
				if g.r.Intn(3) == 0 {
					c.Rules = append(c.Rules, rule("optional", boolRV(false)))
				}
			}
			n.Props = append(n.Props, Prop{K: Key(keyPool[perm[i]]), N: c})
		}
		if g.rich && g.r.Intn(4) == 0 {
			modes := []RV{boolRV(true), boolRV(false), idRV("string"), idRV("integer"), idRV("any")}
			if len(g.types) > 0 {
				modes = append(modes, trefRV(g.types[g.r.Intn(len(g.types))].Name))
			}
			n.Rules = append(n.Rules, rule("additionalProperties", modes[g.r.Intn(len(modes))]))
		}
	case k < 5: // array
		n = Node{T: "arr"}
		w := g.r.Intn(4)
		for i := 0; i < w; i++ {
			n.Items = append(n.Items, g.node(depth+1))
		}
		if w > 0 && g.r.Intn(4) == 0 {
			n.Rules = append(n.Rules, rule("maxItems", numRV(fmt.Sprint(w+g.r.Intn(3)))))
		}
		if w > 0 && g.r.Intn(6) == 0 {
			n.Rules = append(n.Rules, rule("minItems", numRV(fmt.Sprint(g.r.Intn(w+1)))))
		}
	case k < 7 && g.rich && len(g.types) > 0: // reference(s)
		names := []string{g.types[g.r.Intn(len(g.types))].Name}
		if g.r.Intn(3) == 0 {
			o := g.types[g.r.Intn(len(g.types))].Name
			if o != names[0] {
				names = append(names, o)
			}
		}
		n = Node{T: "ref", Names: names}
	case k == 7 && g.rich: // or rule over kinds / references
		items := []RV{idRV("integer"), idRV("string")}
		if len(g.types) > 0 && g.r.Intn(2) == 0 {
			items = append(items, trefRV(g.types[g.r.Intn(len(g.types))].Name))
		}
		n = Node{T: "lit", V: numV("1"), Rules: []Rule{rule("or", RV{T: "list", Items: items})}}
	default:
		n = g.scalar()
	}
	if g.r.Intn(6) == 0 && !hasRuleN(n, "type") {
		n.Rules = append(n.Rules, rule("nullable", boolRV(true)))
	}
	return n
}

func hasRuleN(n Node, name string) bool {
	for _, r := range n.Rules {
		if r.N == name {
			return true
		}
	}
	return false
}

func ruleBool(n Node, name string) (bool, bool) {
	for _, r := range n.Rules {
		if r.N == name && r.V.T == "bool" {
			return r.V.Bv, true
		}
	}
	return false, false
}

// inhabitant: a document shaped like the example (driver heuristic, not an oracle)
func (g *semGen) inhabitant(n Node, depth int) Value {
	if nb, ok := ruleBool(n, "nullable"); ok && nb && g.r.Intn(5) == 0 {
		return Value{T: "null"}
	}
	switch n.T {
	case "lit":
		return *n.V
	case "ref":
		if depth > 8 {
			return Value{T: "null"}
		}
		for _, t := range g.types {
			if t.Name == n.Names[g.r.Intn(len(n.Names))] {
				return g.inhabitant(t.N, depth+1)
			}
		}
		return Value{T: "null"}
	case "arr":
		v := Value{T: "arr", Items: []Value{}}
		for _, it := range n.Items {
			v.Items = append(v.Items, g.inhabitant(it, depth+1))
		}
		return v
	case "obj":
		v := Value{T: "obj", Ps: []KV{}}
		for _, p := range n.Props {
			if ob, ok := ruleBool(p.N, "optional"); ok && ob && g.r.Intn(2) == 0 {
				continue
			}
			v.Ps = append(v.Ps, KV{p.K, g.inhabitant(p.N, depth+1)})
		}
		return v
	}
	return Value{T: "null"}
}

var mutLeaves = []Value{{T: "null"}, {T: "bool", Bv: true}, *numV("1"), *numV("2.5"), *numV("-7"), *numV("1000"), *strV("s"), *strV("abcdefgh"), {T: "arr", Items: []Value{}}, {T: "obj", Ps: []KV{}}}

// mutate: one point mutation somewhere in the document
func (g *semGen) mutate(v Value) Value {
	switch v.T {
	case "arr":
		if len(v.Items) > 0 && g.r.Intn(2) == 0 {
			i := g.r.Intn(len(v.Items))
			items := append([]Value{}, v.Items...)
			items[i] = g.mutate(items[i])
			return Value{T: "arr", Items: items}
		}
		items := append([]Value{}, v.Items...)
		switch g.r.Intn(4) {
		case 0:
			if len(items) > 0 {
				items = items[:len(items)-1]
			}
		case 1:
			if len(items) > 0 {
				items = append(items, items[len(items)-1])
			} else {
				items = append(items, mutLeaves[g.r.Intn(len(mutLeaves))])
			}
		case 2:
			items = append(items, mutLeaves[g.r.Intn(len(mutLeaves))])
		default:
			for i := 0; i < 4; i++ {
				if len(items) > 0 {
					items = append(items, items[len(items)-1])
				}
			}
		}
		return Value{T: "arr", Items: items}
	case "obj":
		ps := append([]KV{}, v.Ps...)
		if len(ps) > 0 && g.r.Intn(2) == 0 {
			i := g.r.Intn(len(ps))
			ps[i] = KV{ps[i].K, g.mutate(ps[i].V)}
			return Value{T: "obj", Ps: ps}
		}
		switch g.r.Intn(5) {
		case 0:
			if len(ps) > 0 {
				i := g.r.Intn(len(ps))
				ps = append(ps[:i], ps[i+1:]...)
			}
		case 1:
			ps = append(ps, KV{Key(keyPool[g.r.Intn(len(keyPool))]), mutLeaves[g.r.Intn(len(mutLeaves))]})
		case 2:
			if len(ps) > 0 {
				ps = append(ps, ps[g.r.Intn(len(ps))])
			}
		case 3:
			g.r.Shuffle(len(ps), func(i, j int) { ps[i], ps[j] = ps[j], ps[i] })
		default:
			ps = append(ps, KV{Key("zz"), mutLeaves[g.r.Intn(len(mutLeaves))]})
		}
		return Value{T: "obj", Ps: ps}
	}
	return mutLeaves[g.r.Intn(len(mutLeaves))]
}

func init() {
	register("semrand", func(args []string) int {
		fs := flag.NewFlagSet("semrand", flag.ExitOnError)
		n := fs.Int("n", 200, "schemas")
		rich := fs.Bool("rich", false, "references, or rules, additionalProperties (C03); otherwise the fragment of C01/C02")
		out := fs.String("out", "-", "trace")
		fs.Parse(args)
		w := newNDWriter(*out)
		defer w.Close()
		r := newRand(31)
		if *rich {
			r = newRand(33)
		}
		schemas, calls, rejectedSchemas := 0, 0, 0
		for i := 0; i < *n; i++ {
			g := &semGen{r: r, rich: *rich}
			if *rich {
				nt := 1 + r.Intn(6)
				for t := 0; t < nt; t++ {
					g.types = append(g.types, NamedNode{Name: fmt.Sprintf("@t%d", t)})
				}
				for t := range g.types { // bodies may reference any type; keep them shallow so that most graphs are inhabited
					sub := &semGen{r: r, rich: true, types: g.types[:t]}
					body := sub.node(3)
					if t > 0 && r.Intn(4) == 0 { // an optional recursive property
						body = Node{T: "obj", Props: []Prop{{K: "v", N: sub.scalar()}, {K: "next", N: Node{T: "ref", Names: []string{g.types[t].Name}, Rules: []Rule{rule("optional", boolRV(true))}}}}}
					}
					g.types[t].N = body
				}
			}
			root := g.node(0)
			env := Env{Types: g.types}
			opt := r.Intn(2) == 0
			s, _, err := buildSchema(root, env, opt, true)
			if err != nil || s.Check() != nil {
				rejectedSchemas++
				continue
			}
			schemas++
			base := g.inhabitant(root, 0)
			for d := 0; d < 5; d++ {
				doc := base
				for m := 0; m < d%4; m++ {
					doc = g.mutate(doc)
				}
				got := validateValue(s, doc)
				calls++
				w.Write(map[string]interface{}{"op": "validate", "schema": root, "env": env, "opt": opt, "doc": doc, "ok": got.OK,
					"code": got.Code, "kind": got.Kind, "text": renderSchema(root).Text, "doctext": doc.JSON()})
			}
		}
		if !*rich {
			// values of any depth under {type: "any"}: depths around the sizes of small counters
			for _, depth := range []int{1, 100, 127, 128, 129, 200, 255, 256, 257, 300} {
				for _, kind := range []string{"obj", "arr"} {
					deep := Value{T: "num", B: bytesToInts([]byte("1"))}
					for i := 0; i < depth; i++ {
						if kind == "obj" {
							deep = Value{T: "obj", Ps: []KV{{Key("k"), deep}}}
						} else {
							deep = Value{T: "arr", Items: []Value{deep}}
						}
					}
					for _, root := range []Node{
						{T: "obj", Props: []Prop{{K: "a", N: Node{T: "lit", V: numV("1"), Rules: []Rule{rule("type", idRV("any"))}}}, {K: "b", N: Node{T: "lit", V: numV("2")}}}},
						{T: "arr", Items: []Node{{T: "lit", V: numV("1"), Rules: []Rule{rule("type", idRV("any"))}}}}} {
						// in the trace the deep value is one abstract value (TLC's JSON reader stops at 255 levels); the requirement does not
						// look into a value under "any"
						abs := map[string]interface{}{"t": "deep", "kind": kind, "depth": depth}
						var doc Value
						var docAbs map[string]interface{}
						if root.T == "obj" {
							doc = Value{T: "obj", Ps: []KV{{Key("a"), deep}, {Key("b"), Value{T: "num", B: bytesToInts([]byte("2"))}}}}
							docAbs = map[string]interface{}{"t": "obj", "ps": []interface{}{map[string]interface{}{"k": []int{97}, "v": abs},
								map[string]interface{}{"k": []int{98}, "v": map[string]interface{}{"t": "num", "b": []int{50}}}}}
						} else {
							doc = Value{T: "arr", Items: []Value{deep, deep}}
							docAbs = map[string]interface{}{"t": "arr", "items": []interface{}{abs, abs}}
						}
						sch, _, err := buildSchema(root, Env{}, false, true)
						if err != nil || sch.Check() != nil {
							fatal("the deep-any probe schema is not accepted")
						}
						got := validateValue(sch, doc)
						calls++
						w.Write(map[string]interface{}{"op": "validate", "schema": root, "env": Env{}, "opt": false, "doc": docAbs, "ok": got.OK,
							"code": got.Code, "kind": got.Kind, "text": renderSchema(root).Text, "doctext": fmt.Sprintf("%s nested %d deep under any", kind, depth)})
					}
				}
			}
			// long arrays: n equal items with one odd one at position `at` (one abstract value in the trace); sizes around the limits of small
			// counters. The position of the error is the offset of the odd item (C17 judges it from the same lines).
			for _, n := range []int{3, 255, 256, 257, 1000, 65535, 65536, 70000} {
				for _, at := range []int{0, 1, 2, 255, 256, 257, 65536, -1} { // -1: the last index
					a := at
					if a == -1 {
						a = n
					}
					if a > n {
						continue
					}
					for si, root := range []Node{
						{T: "arr", Items: []Node{{T: "lit", V: numV("1")}}},
						{T: "arr", Items: []Node{{T: "lit", V: numV("1")}, {T: "lit", V: strV("s")}}},
						{T: "arr", Items: []Node{{T: "lit", V: numV("1")}}, Rules: []Rule{rule("maxItems", numRV("65536"))}},
						{T: "arr", Items: []Node{{T: "lit", V: numV("1")}}, Rules: []Rule{rule("maxItems", numRV("255")), rule("minItems", numRV("1"))}}} {
						item, odd := "7", "true"
						if si == 1 {
							item, odd = `"x"`, "7" // [1, "s"]: the first item is a number, every further one a string
						}
						var sb strings.Builder
						sb.WriteByte('[')
						oddAt := -1
						for i := 1; i <= n; i++ {
							if i > 1 {
								sb.WriteByte(',')
							}
							switch {
							case i == a:
								oddAt = sb.Len()
								sb.WriteString(odd)
							case si == 1 && i == 1:
								sb.WriteString("7")
							default:
								sb.WriteString(item)
							}
						}
						sb.WriteByte(']')
						sch, _, err := buildSchema(root, Env{}, false, true)
						if err != nil || sch.Check() != nil {
							fatal("a long-array probe schema is not accepted")
						}
						got := guard(func() error { return sch.Validate(jdoc.New("doc", sb.String())) })
						calls++
						itemAbs := map[string]interface{}{"t": "num", "b": []int{55}}
						oddAbs := map[string]interface{}{"t": "bool", "bv": true}
						if si == 1 {
							itemAbs, oddAbs = map[string]interface{}{"t": "str", "c": []int{120}}, map[string]interface{}{"t": "num", "b": []int{55}}
						}
						docAbs := map[string]interface{}{"t": "reparr", "n": n, "item": itemAbs, "odd": oddAbs, "at": a}
						if si == 1 && a != 1 {
							// position 1 holds the number 7, not the repeated string: it is the odd one unless another index is
							if a == 0 {
								docAbs["at"], docAbs["odd"] = 1, map[string]interface{}{"t": "num", "b": []int{55}}
							} else {
								continue // two exceptions do not fit the pattern
							}
						}
						w.Write(map[string]interface{}{"op": "validate", "schema": root, "env": Env{}, "opt": false, "doc": docAbs, "ok": got.OK,
							"code": got.Code, "kind": got.Kind, "pos": got.Pos, "oddpos": oddAt, "text": renderSchema(root).Text, "doctext": fmt.Sprintf("%d items, the odd one at %d", n, a)})
					}
				}
			}
			// the optional escape \/ (and \b, \f) in keys and values of the DOCUMENT: the JSON value is what counts
			{
				root := Node{T: "obj", Props: []Prop{{K: "content/type", N: Node{T: "lit", V: strV("x")}}, {K: "a", N: Node{T: "lit", V: strV("b/c"), Rules: []Rule{rule("const", boolRV(true))}}},
					{K: "f", N: Node{T: "lit", V: strV("\f\b"), Rules: []Rule{rule("optional", boolRV(true)), rule("minLength", numRV("2"))}}}}}
				sch, _, err := buildSchema(root, Env{}, false, true)
				if err != nil || sch.Check() != nil {
					fatal("the escape probe schema is not accepted")
				}
				sv := func(s string) Value { return Value{T: "str", C: codePoints(s)} }
				for _, pr := range []struct {
					text string
					doc  Value
				}{
					{`{"content\/type": "q", "a": "b\/c"}`, Value{T: "obj", Ps: []KV{{Key("content/type"), sv("q")}, {Key("a"), sv("b/c")}}}},
					{`{"content/type": "q\/", "a": "b/c", "f": "\b\f"}`, Value{T: "obj", Ps: []KV{{Key("content/type"), sv("q/")}, {Key("a"), sv("b/c")}, {Key("f"), sv("\b\f")}}}},
					{`{"content\/type": "q", "a": "b\/d"}`, Value{T: "obj", Ps: []KV{{Key("content/type"), sv("q")}, {Key("a"), sv("b/d")}}}},
					{`{"content\\/type": "q", "a": "b/c"}`, Value{T: "obj", Ps: []KV{{Key("content\\/type"), sv("q")}, {Key("a"), sv("b/c")}}}},
					{`{"content\u002ftype": "q", "a": "b\u002Fc", "f": "\u000c"}`, Value{T: "obj", Ps: []KV{{Key("content/type"), sv("q")}, {Key("a"), sv("b/c")}, {Key("f"), sv("\f")}}}},
				} {
					got := guard(func() error { return sch.Validate(jdoc.New("doc", pr.text)) })
					calls++
					w.Write(map[string]interface{}{"op": "validate", "schema": root, "env": Env{}, "opt": false, "doc": pr.doc, "ok": got.OK,
						"code": got.Code, "kind": got.Kind, "text": renderSchema(root).Text, "doctext": pr.text})
				}
			}
			// long strings: exactly at their length, one below, one above
			for _, n := range []int{255, 256, 257, 65535, 65536, 65537, 70000, 1 << 20} {
				doc := "\"" + strings.Repeat("a", n) + "\""
				oks := []bool{}
				for _, k := range []int{n - 1, n, n + 1} {
					sch := jschema.New("s", fmt.Sprintf("%q // {minLength: %d, maxLength: %d}", strings.Repeat("b", k), k, k))
					oks = append(oks, guard(func() error { return sch.Validate(jdoc.New("d", doc)) }).OK)
				}
				w.Write(map[string]interface{}{"op": "biglen", "n": n, "oks": oks, "text": "{minLength: k, maxLength: k}, k = n-1, n, n+1", "doctext": fmt.Sprintf("a string of %d letters", n)})
				calls++
			}
			// wide objects: 300 named required properties (all present / one missing / one of the wrong kind / one too many), and 70 000 properties
			// under additionalProperties (in the trace: the two kinds of property that occur, the requirement does not count them)
			{
				const wide = 300
				props := make([]Prop, wide)
				for i := range props {
					props[i] = Prop{K: Key(fmt.Sprintf("p%03d", i)), N: Node{T: "lit", V: numV("1")}}
				}
				root := Node{T: "obj", Props: props}
				sch, _, err := buildSchema(root, Env{}, false, true)
				if err != nil || sch.Check() != nil {
					fatal("the wide-object probe schema is not accepted")
				}
				for _, variant := range []struct {
					missing, wrong int
					extra          bool
				}{{-1, -1, false}, {0, -1, false}, {256, -1, false}, {299, -1, false}, {-1, 0, false}, {-1, 255, false}, {-1, 256, false}, {-1, 299, false}, {-1, -1, true}} {
					doc := Value{T: "obj"}
					for i := wide - 1; i >= 0; i-- { // the document lists them in the reverse order
						if i == variant.missing {
							continue
						}
						v := Value{T: "num", B: bytesToInts([]byte("7"))}
						if i == variant.wrong {
							v = Value{T: "str", C: []int{120}}
						}
						doc.Ps = append(doc.Ps, KV{Key(fmt.Sprintf("p%03d", i)), v})
					}
					if variant.extra {
						doc.Ps = append(doc.Ps, KV{Key("p300"), Value{T: "num", B: bytesToInts([]byte("7"))}})
					}
					got := validateValue(sch, doc)
					calls++
					w.Write(map[string]interface{}{"op": "validate", "schema": root, "env": Env{}, "opt": false, "doc": doc, "ok": got.OK,
						"code": got.Code, "kind": got.Kind, "text": "300 required properties", "doctext": fmt.Sprintf("missing %d, wrong kind %d, extra %v", variant.missing, variant.wrong, variant.extra)})
				}
				open := Node{T: "obj", Rules: []Rule{rule("additionalProperties", idRV("integer"))}}
				osch, _, err := buildSchema(open, Env{}, false, true)
				if err != nil || osch.Check() != nil {
					fatal("the open-object probe schema is not accepted")
				}
				for _, n := range []int{255, 256, 257, 70000} {
					for _, at := range []int{0, 1, 256, n} {
						if at > n {
							continue
						}
						var sb strings.Builder
						sb.WriteByte('{')
						oddAt := -1
						for i := 1; i <= n; i++ {
							if i > 1 {
								sb.WriteByte(',')
							}
							fmt.Fprintf(&sb, "\"k%d\":", i)
							if i == at {
								oddAt = sb.Len()
								sb.WriteString("\"x\"")
							} else {
								sb.WriteString("7")
							}
						}
						sb.WriteByte('}')
						got := guard(func() error { return osch.Validate(jdoc.New("doc", sb.String())) })
						calls++
						ps := []interface{}{map[string]interface{}{"k": []int{107, 48}, "v": map[string]interface{}{"t": "num", "b": []int{55}}}}
						if at > 0 {
							ps = append(ps, map[string]interface{}{"k": []int{107, 57, 57}, "v": map[string]interface{}{"t": "str", "c": []int{120}}})
						}
						w.Write(map[string]interface{}{"op": "validate", "schema": open, "env": Env{}, "opt": false, "doc": map[string]interface{}{"t": "obj", "ps": ps}, "ok": got.OK,
							"code": got.Code, "kind": got.Kind, "pos": got.Pos, "oddpos": oddAt, "text": renderSchema(open).Text, "doctext": fmt.Sprintf("%d properties, the odd one at %d", n, at)})
					}
				}
			}
			// the unit of minLength / maxLength on strings outside ASCII (bytes or code points: the statement does not say, but it is ONE unit):
			// for every probe string the schemas {minLength: k, maxLength: k}, k = 0..9, accept it for exactly one k, its length
			// the second member of a pair: the spelling of the document when it is not the plain one - \u escapes, a surrogate pair, and a
			// surrogate escape without its partner (one replacement character, as every JSON decoder reads it; the text after it stays)
			for _, pr := range [][2]string{{"\u00e9\u00e9", ""}, {"\u043f", ""}, {"a\u20ac", ""}, {"\U0001F600", ""}, {"a\u00e9", ""}, {"\u00e9", ""}, {"ab\u00e9\u00e9c", ""}, {"\u20ac\u20ac\u20ac", ""},
				{"\U0001F600ab", `"\ud83d\ude00ab"`}, {"\u00e9A", `"\u00e9\u0041"`}, {"\ufffdabcdef", `"\ud800abcdef"`}, {"ab\ufffdcd", `"ab\udc00cd"`}, {"\ufffd\ufffdxy", `"\ud800\ud800xy"`}} {
				probe, doctext := pr[0], pr[1]
				if doctext == "" {
					doctext = strconv.Quote(probe)
				}
				oks := []bool{}
				for k := 0; k <= 9; k++ {
					sch := jschema.New("s", fmt.Sprintf("%q // {minLength: %d, maxLength: %d}", strings.Repeat("a", k), k, k))
					oks = append(oks, guard(func() error { return sch.Validate(jdoc.New("d", doctext)) }).OK)
				}
				cp := []int{}
				for _, r := range probe {
					cp = append(cp, int(r))
				}
				w.Write(map[string]interface{}{"op": "lenunit", "c": cp, "oks": oks, "text": "{minLength: k, maxLength: k}", "doctext": doctext})
				calls++
			}
		}
		fmt.Fprintf(os.Stderr, "@@SUMMARY {\"schemas\": %d, \"calls\": %d, \"schemas_rejected_by_check\": %d}\n", schemas, calls, rejectedSchemas)
		return 0
	})
}

func codePoints(s string) []int {
	out := []int{}
	for _, r := range s {
		out = append(out, int(r))
	}
	return out
}
