package main

// diffsem: differential amplification for C01 / C02 / C03 / C15. A frozen copy of the library (harness/ref, refreshed by mkref.py)
// and the current tree are given the same random schemas and documents - far more of them than TLC could judge. Only the
// inputs on which the two DIFFER are logged (abstract schema + document) for TraceSem, where Sem decides which side, if
// either, is wrong. The copy is never an oracle: where Sem has no verdict the difference is dropped, and on a tree that
// equals the copy nothing is logged at all.

import (
	"encoding/json"
	"flag"
	"fmt"
	"math/rand"
	"os"
	"strings"
	"sync"
	"sync/atomic"

	jlib "github.com/jsightapi/jsight-schema-go-library"
	jdoc "github.com/jsightapi/jsight-schema-go-library/formats/json"
	"github.com/jsightapi/jsight-schema-go-library/notations/jschema"
	"github.com/jsightapi/jsight-schema-go-library/rules/enum"

	rlib "verif/harness/ref"
	rdoc "verif/harness/ref/formats/json"
	rschema "verif/harness/ref/notations/jschema"
	renum "verif/harness/ref/rules/enum"
)

var _ = jlib.TokenTypeArray
var _ = rlib.TokenTypeArray

// buildRef: buildSchemaL for the frozen copy (mesh protocol).
func buildRef(root Node, env Env, keysOptional bool) (*rschema.Schema, error) {
	var opts []rschema.Option
	if keysOptional {
		opts = append(opts, rschema.KeysAreOptionalByDefault())
	}
	s := rschema.New("root", renderSchemaL(root, houseLayout).Text, opts...)
	types := make([]*rschema.Schema, len(env.Types))
	for i, t := range env.Types {
		types[i] = rschema.New(t.Name, renderSchemaL(t.N, houseLayout).Text, opts...)
	}
	all := append([]*rschema.Schema{s}, types...)
	for _, target := range all {
		for _, e := range env.Enums {
			if err := target.AddRule(e.Name, renum.New(e.Name, renderEnum(e.Items))); err != nil {
				return nil, err
			}
		}
	}
	for _, target := range all {
		for i, t := range env.Types {
			if err := target.AddType(t.Name, types[i]); err != nil {
				return nil, err
			}
		}
	}
	return s, nil
}

var _ = enum.New[string]
var _ = jschema.New[string]

// ---- a generator with wide pools (spellings, characters, boundaries) ----

type wideGen struct {
	r     *rand.Rand
	types []NamedNode
}

var wNums = []string{"0", "1", "2", "5", "7", "10", "-1", "-3", "42", "100", "1.5", "0.25", "-2.5", "10.0", "2.50", "0.5", "1.25", "99.99"}
var wDocNums = append([]string{"-0", "1e1", "1E1", "1.5E1", "15e-1", "15E-1", "1e0", "0.5e1", "2.50E+1", "1.0", "1.00", "100e-2", "-1.5E1", "1E+2", "150E-1",
	"0.1", "0.10", "3", "4", "6", "8", "9", "11", "-5", "-6", "101", "99", "5.0", "5.5", "2.5", "-2.50", "1e2", "1e-1", "123456789012345678901234567890", "0.000000000000000000001"}, wNums...)
var wStrs = []string{"", "s", "ab", "abc", "abcd", "a b", "é", "éé", "a\"b", "a\\b", "a/b", "line\nbreak", "tab\there", "€uro", "😀", "0", "true", "null", "A", "zzzzzzzzzz",
	"a@b.c", "x@y.zz", "not-an-email", "2021-01-02", "2021-02-29", "2024-02-29", "2021-13-01", "http://a.b/c", "nourl", "123e4567-e89b-12d3-a456-426614174000", "123e4567-e89b-12d3-a456-42661417400g"}
var wKeys = []string{"a", "b", "c", "id", "name", "x", "é", "k1", "", "a\"q", "with space", "A", "ab", "abc"}
var wRegex = []*RE{
	{T: "cat", A: &RE{T: "bol"}, B: &RE{T: "chr", C: 'a'}},
	{T: "cat", A: &RE{T: "chr", C: 'b'}, B: &RE{T: "eol"}},
	{T: "plus", A: &RE{T: "set", Cs: []int{'a', 'b', 'c'}}},
	{T: "cat", A: &RE{T: "bol"}, B: &RE{T: "cat", A: &RE{T: "star", A: &RE{T: "any"}}, B: &RE{T: "eol"}}},
}

func (g *wideGen) pick(ss []string) string { return ss[g.r.Intn(len(ss))] }

func (g *wideGen) scalar() Node {
	switch g.r.Intn(12) {
	case 0, 1: // number with bounds
		v := g.pick(wNums)
		n := Node{T: "lit", V: numV(v)}
		switch g.r.Intn(6) {
		case 0:
			n.Rules = append(n.Rules, rule("min", numRV(g.pick(wNums))))
		case 1:
			n.Rules = append(n.Rules, rule("max", numRV(g.pick(wNums))))
		case 2:
			n.Rules = append(n.Rules, rule("min", numRV(g.pick(wNums))), rule("exclusiveMinimum", boolRV(g.r.Intn(2) == 0)))
		case 3:
			n.Rules = append(n.Rules, rule("max", numRV(g.pick(wNums))), rule("exclusiveMaximum", boolRV(g.r.Intn(2) == 0)))
		case 4:
			n.Rules = append(n.Rules, rule("min", numRV(g.pick(wNums))), rule("max", numRV(g.pick(wNums))))
		}
		return n
	case 2: // decimal
		return Node{T: "lit", V: numV(g.pick([]string{"1.5", "0.25", "2.50", "1.25"})), Rules: []Rule{rule("type", idRV("decimal")), rule("precision", numRV(g.pick([]string{"1", "2", "3"})))}}
	case 3, 4: // string with lengths / regex
		n := Node{T: "lit", V: strV(g.pick(wStrs))}
		switch g.r.Intn(6) {
		case 0:
			n.Rules = append(n.Rules, rule("minLength", numRV(g.pick([]string{"0", "1", "2", "3"}))))
		case 1:
			n.Rules = append(n.Rules, rule("maxLength", numRV(g.pick([]string{"0", "1", "2", "3", "5", "10"}))))
		case 2:
			n.Rules = append(n.Rules, rule("minLength", numRV(g.pick([]string{"0", "1", "2"}))), rule("maxLength", numRV(g.pick([]string{"2", "3", "4", "10"}))))
		case 3:
			n.Rules = append(n.Rules, rule("regex", RV{T: "re", Re: wRegex[g.r.Intn(len(wRegex))]}))
		}
		return n
	case 5: // format
		f := g.pick([]string{"email", "uri", "uuid", "date", "datetime"})
		ex := map[string]string{"email": "a@b.c", "uri": "http://a.b/c", "uuid": "123e4567-e89b-12d3-a456-426614174000", "date": "2021-01-02", "datetime": "2021-01-02T03:04:05Z"}[f]
		return Node{T: "lit", V: strV(ex), Rules: []Rule{rule("type", idRV(f))}}
	case 6: // enum
		items := []RV{}
		for i := 0; i < 1+g.r.Intn(4); i++ {
			switch g.r.Intn(4) {
			case 0:
				items = append(items, RV{T: "val", V: numV(g.pick(wNums))})
			case 1:
				items = append(items, RV{T: "val", V: strV(g.pick(wStrs))})
			case 2:
				items = append(items, RV{T: "val", V: &Value{T: "bool", Bv: g.r.Intn(2) == 0}})
			default:
				items = append(items, RV{T: "val", V: &Value{T: "null"}})
			}
		}
		return Node{T: "lit", V: items[0].V, Rules: []Rule{rule("enum", RV{T: "list", Items: items})}}
	case 7: // const
		return Node{T: "lit", V: numV(g.pick(wNums)), Rules: []Rule{rule("const", boolRV(g.r.Intn(3) != 0))}}
	case 8:
		return Node{T: "lit", V: &Value{T: "bool", Bv: g.r.Intn(2) == 0}}
	case 9:
		return Node{T: "lit", V: &Value{T: "null"}}
	case 10:
		return Node{T: "lit", V: numV("1"), Rules: []Rule{rule("type", idRV("any"))}}
	default:
		return Node{T: "lit", V: strV(g.pick(wStrs))}
	}
}

func (g *wideGen) node(depth int) Node {
	var n Node
	k := g.r.Intn(12)
	if depth >= 4 {
		k = 11
	}
	switch {
	case k < 3:
		n = Node{T: "obj"}
		w := g.r.Intn(5)
		perm := g.r.Perm(len(wKeys))
		for i := 0; i < w; i++ {
			c := g.node(depth + 1)
			switch g.r.Intn(5) {
			case 0:
				c.Rules = append(c.Rules, rule("optional", boolRV(true)))
			case 1:
				c.Rules = append(c.Rules, rule("optional", boolRV(false)))
			}
			n.Props = append(n.Props, Prop{K: Key(wKeys[perm[i]]), N: c})
		}
		if g.r.Intn(3) == 0 {
			modes := []RV{boolRV(true), boolRV(false), idRV("string"), idRV("integer"), idRV("float"), idRV("boolean"), idRV("null"), idRV("object"), idRV("array"), idRV("any")}
			if len(g.types) > 0 {
				modes = append(modes, trefRV(g.types[g.r.Intn(len(g.types))].Name))
			}
			n.Rules = append(n.Rules, rule("additionalProperties", modes[g.r.Intn(len(modes))]))
		}
	case k < 5:
		n = Node{T: "arr"}
		w := g.r.Intn(4)
		for i := 0; i < w; i++ {
			n.Items = append(n.Items, g.node(depth+1))
		}
		if w > 0 && g.r.Intn(3) == 0 {
			n.Rules = append(n.Rules, rule("maxItems", numRV(fmt.Sprint(w+g.r.Intn(3)))))
		}
		if w > 0 && g.r.Intn(4) == 0 {
			n.Rules = append(n.Rules, rule("minItems", numRV(fmt.Sprint(g.r.Intn(w+1)))))
		}
	case k < 7 && len(g.types) > 0:
		names := []string{g.types[g.r.Intn(len(g.types))].Name}
		for g.r.Intn(3) == 0 && len(names) < 3 {
			o := g.types[g.r.Intn(len(g.types))].Name
			dup := false
			for _, x := range names {
				dup = dup || x == o
			}
			if !dup {
				names = append(names, o)
			}
		}
		n = Node{T: "ref", Names: names}
	case k == 7 && len(g.types) > 0:
		c := g.scalar()
		c.Rules = []Rule{rule("type", trefRV(g.types[g.r.Intn(len(g.types))].Name))}
		n = c
	case k == 8:
		c := g.scalar()
		alts := []RV{idRV(g.pick([]string{"integer", "float", "string", "boolean", "null"})), idRV(g.pick([]string{"integer", "string", "boolean"}))}
		if len(g.types) > 0 && g.r.Intn(2) == 0 {
			alts = append(alts, trefRV(g.types[g.r.Intn(len(g.types))].Name))
		}
		c.Rules = []Rule{rule("or", RV{T: "list", Items: alts})}
		n = c
	default:
		n = g.scalar()
	}
	if g.r.Intn(8) == 0 && (n.T == "lit" || n.T == "ref") {
		n.Rules = append(n.Rules, rule("nullable", boolRV(g.r.Intn(4) != 0)))
	}
	return n
}

// exampleOf: the literal example of a node (type references: the example of the first type).
func (g *wideGen) exampleOf(n Node, depth int) Value {
	switch n.T {
	case "lit":
		return *n.V
	case "arr":
		v := Value{T: "arr"}
		for _, it := range n.Items {
			v.Items = append(v.Items, g.exampleOf(it, depth+1))
		}
		return v
	case "obj":
		v := Value{T: "obj"}
		for _, p := range n.Props {
			v.Ps = append(v.Ps, KV{K: p.K, V: g.exampleOf(p.N, depth+1)})
		}
		return v
	case "ref":
		for _, t := range g.types {
			if t.Name == n.Names[0] && depth < 6 {
				return g.exampleOf(t.N, depth+1)
			}
		}
	}
	return Value{T: "null"}
}

func (g *wideGen) anyValue(depth int) Value {
	switch g.r.Intn(8) {
	case 0, 1:
		return *numV(g.pick(wDocNums))
	case 2, 3:
		return *strV(g.pick(wStrs))
	case 4:
		return Value{T: "bool", Bv: g.r.Intn(2) == 0}
	case 5:
		return Value{T: "null"}
	case 6:
		v := Value{T: "arr"}
		if depth < 3 {
			for i := 0; i < g.r.Intn(3); i++ {
				v.Items = append(v.Items, g.anyValue(depth+1))
			}
		}
		return v
	default:
		v := Value{T: "obj"}
		if depth < 3 {
			for i := 0; i < g.r.Intn(3); i++ {
				v.Ps = append(v.Ps, KV{K: Key(g.pick(wKeys)), V: g.anyValue(depth + 1)})
			}
		}
		return v
	}
}

// mutate: one or two local changes somewhere in the value
func (g *wideGen) mutate(v Value, depth int) Value {
	switch v.T {
	case "arr":
		if len(v.Items) > 0 && g.r.Intn(3) != 0 {
			i := g.r.Intn(len(v.Items))
			out := Value{T: "arr", Items: append([]Value{}, v.Items...)}
			out.Items[i] = g.mutate(v.Items[i], depth+1)
			return out
		}
		out := Value{T: "arr", Items: append([]Value{}, v.Items...)}
		switch g.r.Intn(4) {
		case 0:
			out.Items = append(out.Items, g.anyValue(depth+1))
		case 1:
			if len(out.Items) > 0 {
				out.Items = append(out.Items, out.Items[len(out.Items)-1], out.Items[0])
			}
		case 2:
			if len(out.Items) > 0 {
				out.Items = out.Items[:len(out.Items)-1]
			}
		default:
			return g.anyValue(depth)
		}
		return out
	case "obj":
		if len(v.Ps) > 0 && g.r.Intn(3) != 0 {
			i := g.r.Intn(len(v.Ps))
			out := Value{T: "obj", Ps: append([]KV{}, v.Ps...)}
			out.Ps[i] = KV{K: v.Ps[i].K, V: g.mutate(v.Ps[i].V, depth+1)}
			return out
		}
		out := Value{T: "obj", Ps: append([]KV{}, v.Ps...)}
		switch g.r.Intn(5) {
		case 0:
			out.Ps = append(out.Ps, KV{K: Key(g.pick(wKeys)), V: g.anyValue(depth + 1)})
		case 1:
			out.Ps = append(out.Ps, KV{K: Key(g.pick(wKeys)), V: g.anyValue(depth + 1)}, KV{K: Key(g.pick(wKeys)), V: g.anyValue(depth + 1)})
		case 2:
			if len(out.Ps) > 0 {
				i := g.r.Intn(len(out.Ps))
				out.Ps = append(out.Ps[:i:i], out.Ps[i+1:]...)
			}
		case 3:
			g.r.Shuffle(len(out.Ps), func(i, j int) { out.Ps[i], out.Ps[j] = out.Ps[j], out.Ps[i] })
		default:
			return g.anyValue(depth)
		}
		return out
	case "num":
		if g.r.Intn(2) == 0 {
			return *numV(g.pick(wDocNums))
		}
	case "str":
		if g.r.Intn(2) == 0 {
			return *strV(g.pick(wStrs))
		}
	}
	return g.anyValue(depth)
}

func init() {
	register("diffsem", func(args []string) int {
		fs := flag.NewFlagSet("diffsem", flag.ExitOnError)
		n := fs.Int("n", 20000, "schemas")
		docsPer := fs.Int("docs", 12, "documents per schema")
		out := fs.String("out", "-", "trace of the differing calls (TraceSem lines)")
		fs.Parse(args)
		w := newNDWriter(*out)
		defer w.Close()
		var schemas, calls, diffs, checkDiffs, exampleDiffs int64
		var mu sync.Mutex
		samples := []string{}
		parallelFor(*n, func(i int) {
			g := &wideGen{r: rand.New(rand.NewSource(seed()*7919 + int64(i)))}
			nt := g.r.Intn(5)
			for t := 0; t < nt; t++ {
				g.types = append(g.types, NamedNode{Name: fmt.Sprintf("@t%d", t)})
			}
			for t := range g.types {
				sub := &wideGen{r: g.r, types: g.types[:t]}
				body := sub.node(2)
				if t > 0 && g.r.Intn(4) == 0 {
					body = Node{T: "obj", Props: []Prop{{K: "v", N: sub.scalar()}, {K: "next", N: Node{T: "ref", Names: []string{g.types[t].Name}, Rules: []Rule{rule("optional", boolRV(true))}}}}}
				}
				g.types[t].N = body
			}
			root := g.node(0)
			env := Env{Types: g.types}
			opt := g.r.Intn(6) == 0
			cur, rr, err := buildSchemaL(root, env, opt, true, houseLayout)
			ref, rerr := buildRef(root, env, opt)
			atomic.AddInt64(&schemas, 1)
			var cc, rc Outcome
			if err != nil {
				cc = outcomeOf(err)
			} else {
				cc = guard(cur.Check)
			}
			if rerr != nil {
				rc = Outcome{Kind: "liberr"}
			} else {
				rc = guard(ref.Check)
			}
			if cc.OK != rc.OK || cc.Kind == "panic" {
				atomic.AddInt64(&checkDiffs, 1)
				mu.Lock()
				if len(samples) < 8 {
					samples = append(samples, fmt.Sprintf("Check: copy %v current %v %s%s | %s", rc.OK, cc.OK, cc.Msg, cc.Panic, strings.ReplaceAll(rr.Text, "\n", "\\n")))
				}
				mu.Unlock()
				w.Write(map[string]interface{}{"op": "check", "schema": root, "env": env, "opt": opt, "ok": cc.OK && cc.Kind != "panic", "text": rr.Text, "doctext": cc.Msg + cc.Panic})
				if cc.Kind == "panic" {
					w.Write(map[string]interface{}{"op": "validate", "schema": root, "env": env, "opt": opt, "doc": Value{T: "null"}, "ok": true, "code": -2, "kind": "panic",
						"text": rr.Text, "doctext": "(Check panicked: " + cc.Panic + ")", "forced": "panic"})
				}
			}
			if !cc.OK || !rc.OK {
				return
			}
			ex := g.exampleOf(root, 0)
			for d := 0; d < *docsPer; d++ {
				doc := ex
				for k := g.r.Intn(3); k > 0 || d == *docsPer-1 && k == 0 && false; k-- {
					doc = g.mutate(doc, 0)
				}
				if d%4 == 3 {
					doc = g.anyValue(0)
				}
				text := doc.JSON()
				got := guard(func() error { return cur.Validate(jdoc.New("doc", text)) })
				want := guard(func() error { return ref.Validate(rdoc.New("doc", text)) })
				atomic.AddInt64(&calls, 1)
				if got.OK != want.OK || got.Kind == "panic" || got.Kind == "foreign" {
					atomic.AddInt64(&diffs, 1)
					w.Write(map[string]interface{}{"op": "validate", "schema": root, "env": env, "opt": opt, "doc": doc, "ok": got.OK, "code": got.Code, "kind": got.Kind,
						"text": rr.Text, "doctext": text})
				}
			}
			// Example: bytes differ between the two trees -> the current one is judged by the "example" operation of TraceSem
			cex, e1 := cur.Example()
			rex, e2 := ref.Example()
			if (e1 == nil) != (e2 == nil) || string(cex) != string(rex) {
				atomic.AddInt64(&exampleDiffs, 1)
				if e1 != nil {
					w.Write(map[string]interface{}{"op": "example", "schema": root, "env": env, "opt": opt, "bytes": []int{}, "value": Value{T: "null"}, "parsed": false,
						"error": outcomeOf(e1), "text": rr.Text})
				} else {
					v, ok := abstractJSON(cex)
					w.Write(map[string]interface{}{"op": "example", "schema": root, "env": env, "opt": opt, "bytes": bytesToInts(cex), "value": v, "parsed": ok,
						"text": rr.Text, "out": string(cex)})
				}
			}
		})
		sb, _ := json.Marshal(map[string]interface{}{"schemas": schemas, "calls": calls, "validate_differences": diffs, "check_differences": checkDiffs,
			"example_differences": exampleDiffs, "samples": samples})
		fmt.Fprintln(os.Stderr, "@@SUMMARY "+string(sb))
		return 0
	})
}
