package main

// Abstract schemas and documents (DESIGN Appendix A.1) and their rendering to JSight / JSON text.
// Rendering is plumbing: no judgement about acceptance is made here.

import (
	"encoding/json"
	"fmt"
	"strconv"
	"strings"

	jlib "github.com/jsightapi/jsight-schema-go-library"
	jdoc "github.com/jsightapi/jsight-schema-go-library/formats/json"
	"github.com/jsightapi/jsight-schema-go-library/notations/jschema"
	"github.com/jsightapi/jsight-schema-go-library/rules/enum"
)

type Value struct {
	T     string          `json:"t"`
	B     []int           `json:"b,omitempty"`  // bytes of the numeral for t=num
	Bv    bool            `json:"bv,omitempty"` // t=bool
	C     []int           `json:"c,omitempty"`  // code points for t=str
	Items []Value         `json:"items,omitempty"`
	Ps    []KV            `json:"ps,omitempty"`
}

// Key is an object key: a string in the C01 domain, a code-point sequence elsewhere.
type Key string

func (k *Key) UnmarshalJSON(b []byte) error {
	if len(b) > 0 && b[0] == '"' {
		var s string
		if err := json.Unmarshal(b, &s); err != nil {
			return err
		}
		*k = Key(s)
		return nil
	}
	var cp []int
	if err := json.Unmarshal(b, &cp); err != nil {
		return err
	}
	r := make([]rune, len(cp))
	for i, c := range cp {
		r[i] = rune(c)
	}
	*k = Key(string(r))
	return nil
}

type KV struct {
	K Key   `json:"k"`
	V Value `json:"v"`
}

type RV struct {
	T     string          `json:"t"`
	B     []int           `json:"b,omitempty"`
	Bv    bool            `json:"bv,omitempty"`
	S     string          `json:"s,omitempty"`
	Re    *RE             `json:"re,omitempty"`
	C     []int           `json:"c,omitempty"`
	Items []RV            `json:"items,omitempty"`
	Rules []Rule          `json:"rules,omitempty"`
	V     *Value          `json:"v,omitempty"`
	Note  string          `json:"note,omitempty"` // list items only: the inline comment after the item (forces a multi-line annotation)
	Lead  string          `json:"lead,omitempty"` // lists only: an inline comment between the opening bracket and the first item (belongs to no item)
}

type Rule struct {
	N string `json:"n"`
	V RV     `json:"v"`
}

type Prop struct {
	K  Key    `json:"k"`
	Sc bool   `json:"sc"`
	Kt string `json:"kt,omitempty"` // key shortcut: the user type's name
	N  Node   `json:"n"`
}

type Node struct {
	T     string   `json:"t"`
	V     *Value   `json:"v,omitempty"`
	Props []Prop   `json:"props,omitempty"`
	Items []Node   `json:"items,omitempty"`
	Names []string `json:"names,omitempty"`
	Rules []Rule   `json:"rules,omitempty"`
	Note  string   `json:"note,omitempty"`
	Dash  bool     `json:"dash,omitempty"`  // rules followed by a dash and no note text: an empty note
	KNote string   `json:"knote,omitempty"` // properties only: a note written between the key and the value, which stands on the next line
	TNote string   `json:"tnote,omitempty"` // objects with properties only: a note written after the closing brace (the object's note)
	Ann   string   `json:"ann,omitempty"` // "block" / "spread": this node's annotation is written as a multi-line annotation whatever the layout says
}

type NamedNode struct {
	Name string `json:"name"`
	N    Node   `json:"n"`
}

type NamedEnum struct {
	Name  string  `json:"name"`
	Items []Value `json:"items"`
}

type Env struct {
	Types []NamedNode `json:"types,omitempty"`
	Enums []NamedEnum `json:"enums,omitempty"`
}

// RE is the abstract regular expression of spec/Sem.tla; Pattern renders it as RE2 text.
type RE struct {
	T   string `json:"t"`
	C   int    `json:"c,omitempty"`
	Cs  []int  `json:"cs,omitempty"`
	Neg bool   `json:"neg,omitempty"`
	A   *RE    `json:"a,omitempty"`
	B   *RE    `json:"b,omitempty"`
}

func reChar(c int, inClass bool) string {
	r := rune(c)
	if strings.ContainsRune(`\.+*?()|[]{}^$-/`, r) {
		return `\` + string(r)
	}
	if c == '\n' {
		return `\n`
	}
	if c < 32 || c == 127 {
		return fmt.Sprintf(`\x%02x`, c) // control characters by their RE2 escape: the pattern text itself stays printable
	}
	return string(r)
}

func (re *RE) Pattern() string {
	switch re.T {
	case "chr":
		return reChar(re.C, false)
	case "set":
		var sb strings.Builder
		sb.WriteByte('[')
		if re.Neg {
			sb.WriteByte('^')
		}
		for _, c := range re.Cs {
			sb.WriteString(reChar(c, true))
		}
		sb.WriteByte(']')
		return sb.String()
	case "any":
		return "."
	case "cat":
		return re.A.Pattern() + re.B.Pattern()
	case "alt":
		return "(?:" + re.A.Pattern() + "|" + re.B.Pattern() + ")"
	case "opt":
		return "(?:" + re.A.Pattern() + ")?"
	case "star":
		return "(?:" + re.A.Pattern() + ")*"
	case "plus":
		return "(?:" + re.A.Pattern() + ")+"
	case "bol":
		return "^"
	case "eol":
		return "$"
	case "eps":
		return ""
	}
	fatal("bad regex node " + re.T)
	return ""
}

func quoteCP(c []int) string {
	var sb strings.Builder
	sb.WriteByte('"')
	for _, r := range c {
		switch {
		case r == '"':
			sb.WriteString(`\"`)
		case r == '\\':
			sb.WriteString(`\\`)
		case r == '\n':
			sb.WriteString(`\n`)
		case r == '\t':
			sb.WriteString(`\t`)
		case r == '\r':
			sb.WriteString(`\r`)
		case r < 0x20:
			sb.WriteString(fmt.Sprintf(`\u%04x`, r))
		default:
			sb.WriteRune(rune(r))
		}
	}
	sb.WriteByte('"')
	return sb.String()
}

func quoteKey(k string) string {
	cp := []int{}
	for _, r := range k {
		cp = append(cp, int(r))
	}
	return quoteCP(cp)
}

// JSON text of a document value (compact).
func (v Value) JSON() string {
	switch v.T {
	case "null":
		return "null"
	case "bool":
		if v.Bv {
			return "true"
		}
		return "false"
	case "num":
		return string(intsToBytes(v.B))
	case "str":
		return quoteCP(v.C)
	case "arr":
		parts := make([]string, len(v.Items))
		for i, it := range v.Items {
			parts[i] = it.JSON()
		}
		return "[" + strings.Join(parts, ",") + "]"
	case "obj":
		parts := make([]string, len(v.Ps))
		for i, p := range v.Ps {
			parts[i] = quoteKey(string(p.K)) + ":" + p.V.JSON()
		}
		return "{" + strings.Join(parts, ",") + "}"
	}
	fatal("bad value kind " + v.T)
	return ""
}

func (r RV) text() string {
	switch r.T {
	case "bool":
		if r.Bv {
			return "true"
		}
		return "false"
	case "num":
		return string(intsToBytes(r.B))
	case "re":
		return strconv.Quote(r.Re.Pattern())
	case "id", "tref":
		return strconv.Quote(r.S)
	case "name":
		return r.S // @enumName, unquoted
	case "chars":
		return quoteCP(r.C)
	case "val":
		return r.V.JSON()
	case "list":
		parts := make([]string, len(r.Items))
		for i, it := range r.Items {
			parts[i] = it.text()
		}
		return "[" + strings.Join(parts, ", ") + "]"
	case "set":
		return rulesText(r.Rules)
	}
	fatal("bad rule value kind " + r.T)
	return ""
}

// A rule name that is not a plain word can only be written in quotes.
func ruleNameText(n string) string {
	for _, c := range n {
		if !(c >= 'a' && c <= 'z' || c >= 'A' && c <= 'Z' || c >= '0' && c <= '9' || c == '_') {
			return strconv.Quote(n)
		}
	}
	return n
}

func rulesText(rules []Rule) string {
	parts := make([]string, len(rules))
	for i, r := range rules {
		parts[i] = ruleNameText(r.N) + ": " + r.V.text()
	}
	return "{" + strings.Join(parts, ", ") + "}"
}

func annotation(n Node) string {
	s := ""
	if len(n.Rules) > 0 {
		s = " // " + rulesText(n.Rules)
		if n.Note != "" {
			s += " - " + n.Note
		}
	} else if n.Note != "" {
		s = " // " + n.Note
	}
	return s
}

// Rendered schema text plus the byte offset of every node's value (path "" = root, "/a", "/0" ...).
type Rendered struct {
	Text    string
	Offsets map[string]int
}

// Layout is one surface spelling of a schema (spec/Surface.tla enumerates the vectors).
type Layout struct {
	NL         string // "\n", "\r\n", "\r"
	Indent     string // one indentation unit
	Ann        string // inline | block | spread
	HashOwn    bool   // '#' comments on lines of their own
	HashTrail  bool   // '#' comment after the value / annotation
	HashBlock  bool   // '###' block comments
	Quoted     bool   // quoted rule names
	TrailComma bool   // trailing comma inside the rule object
	Reversed   bool   // rules in reverse order
	EmptyPad   bool   // a blank inside empty brackets
	Note       bool   // a note on every annotated node
	ColonPad   bool   // blanks around ':' and before ','
	RuleSep    string // "" | tab | break : what separates a rule name from its value besides the colon
	NoteTab    bool   // a tab (not a blank) after the rule object of an annotation: before "- note", or before the end of the annotation
}

var houseLayout = Layout{NL: "\n", Indent: "  ", Ann: "inline"}

func layoutFromSpec(m map[string]string) Layout {
	l := houseLayout
	switch m["nl"] {
	case "CRLF":
		l.NL = "\r\n"
	case "CR":
		l.NL = "\r"
	}
	switch m["indent"] {
	case "0":
		l.Indent = ""
	case "tab":
		l.Indent = "\t"
	}
	l.Ann = m["ann"]
	yes := func(k string) bool { return m[k] == "yes" }
	l.HashOwn, l.HashTrail, l.HashBlock = yes("hashOwn"), yes("hashTrail"), yes("hashBlock")
	l.Quoted, l.TrailComma, l.Reversed = yes("quoted"), yes("trailComma"), yes("reversed")
	l.EmptyPad, l.Note, l.ColonPad = yes("emptyPad"), yes("note"), yes("colonPad")
	l.NoteTab = yes("noteTab")
	if m["ruleSep"] != "no" {
		l.RuleSep = m["ruleSep"]
	}
	return l
}

type renderer struct {
	hashN   int
	sb      strings.Builder
	offsets map[string]int
	l       Layout
}

func (r *renderer) rulesText(rules []Rule) string {
	parts := make([]string, len(rules))
	for i, ru := range rules {
		name := ruleNameText(ru.N)
		if r.l.Quoted && name == ru.N {
			name = strconv.Quote(name)
		}
		v := ru.V.text()
		if ru.V.T == "set" {
			v = r.rulesText(ru.V.Rules)
		} else if ru.V.T == "list" {
			items := make([]string, len(ru.V.Items))
			noted := false
			for j, it := range ru.V.Items {
				if it.T == "set" {
					items[j] = r.rulesText(it.Rules)
				} else {
					items[j] = it.text()
				}
				noted = noted || it.Note != ""
			}
			noted = noted || ru.V.Lead != ""
			v = "[" + strings.Join(items, ", ") + "]"
			if noted { // one item per line, each followed by its comment
				v = "["
				if ru.V.Lead != "" {
					v += " // " + ru.V.Lead
				}
				v += r.l.NL
				for j, it := range ru.V.Items {
					v += "    " + items[j]
					if j+1 < len(items) {
						v += ","
					}
					if it.Note != "" {
						v += " // " + it.Note
						if r.l.NoteTab || j%2 == 0 {
							v += " \t " // blanks after a comment are not part of it
						}
					}
					v += r.l.NL
				}
				v += "  ]"
			}
		}
		switch {
		case r.l.RuleSep == "tab": // a tab between the name and the colon, another after it
			parts[i] = name + "\t:\t" + v
		case r.l.RuleSep == "break" && r.l.Ann != "inline": // the value on the line after its name (multi-line annotations only)
			parts[i] = name + ":" + r.l.NL + "    " + v
		default:
			parts[i] = name + ": " + v
		}
	}
	if r.l.Reversed {
		for i, j := 0, len(parts)-1; i < j; i, j = i+1, j-1 {
			parts[i], parts[j] = parts[j], parts[i]
		}
	}
	sep := ", "
	if r.l.Ann == "spread" {
		sep = "," + r.l.NL + "   "
	}
	tail := ""
	if r.l.TrailComma && len(parts) > 0 {
		tail = ","
	}
	return "{" + strings.Join(parts, sep) + tail + "}"
}

func (r *renderer) annotation(n Node) string {
	note := n.Note
	if r.l.Note && note == "" && len(n.Rules) > 0 {
		note = "a *note* x/y **"
	}
	body := ""
	if len(n.Rules) > 0 {
		body = r.rulesText(n.Rules)
		if note != "" {
			if r.l.NoteTab {
				body += "\t- " + note
			} else {
				body += " - " + note
			}
		} else if n.Dash {
			body += " -"
		} else if r.l.NoteTab && !hasItemNotes(n.Rules) {
			body += "\t"
		}
	} else if note != "" {
		body = note
	}
	s := ""
	if body != "" {
		ann := r.l.Ann
		if n.Ann != "" {
			ann = n.Ann
		}
		if hasItemNotes(n.Rules) && ann != "spread" {
			ann = "block" // comments after list items need an annotation that may span lines
		}
		switch ann {
		case "block":
			s = " /* " + body + " */"
		case "spread":
			s = " /*" + r.l.NL + "  " + body + r.l.NL + "*/"
		default:
			s = " // " + body
		}
	}
	if r.l.HashTrail { // also after the note of an inline annotation: the note ends at the comment
		r.hashN++
		if r.hashN%2 == 0 {
			s += " #" // an empty comment
		} else {
			s += " # trailing comment"
		}
	}
	return s
}

// pipeSpelling is how the alternatives of a type shortcut are joined: " | " in the house style; C09 / C13 also use "|" and "  |  ".
var pipeSpelling = " | "

func hasItemNotes(rules []Rule) bool {
	for _, ru := range rules {
		if ru.V.T == "list" {
			if ru.V.Lead != "" {
				return true
			}
			for _, it := range ru.V.Items {
				if it.Note != "" {
					return true
				}
			}
		}
	}
	return false
}

func (r *renderer) head(n Node) string { // first token of a node
	pad := ""
	if r.l.EmptyPad {
		pad = " "
	}
	switch n.T {
	case "lit":
		return n.V.JSON()
	case "ref":
		return strings.Join(n.Names, pipeSpelling)
	case "obj":
		if len(n.Props) == 0 {
			return "{" + pad + "}"
		}
		return "{"
	case "arr":
		if len(n.Items) == 0 {
			return "[" + pad + "]"
		}
		return "["
	}
	fatal("bad node kind " + n.T)
	return ""
}

func (r *renderer) ownLineComments(ind string, last bool) {
	if r.l.HashOwn {
		r.sb.WriteString(r.l.NL + ind + "# a comment on its own line")
	}
	if r.l.HashBlock && last {
		r.sb.WriteString(r.l.NL + ind + "###" + r.l.NL + ind + "a block" + r.l.NL + ind + "comment" + r.l.NL + ind + "###")
	}
}

// node writes n starting at the current position; `tail` (a comma or "") is placed where the language wants it.
func (r *renderer) node(n Node, path string, depth int, tail string) {
	r.offsets[path] = r.sb.Len()
	h := r.head(n)
	multi := (n.T == "obj" && len(n.Props) > 0) || (n.T == "arr" && len(n.Items) > 0)
	if tail != "" && r.l.ColonPad {
		tail = " " + tail
	}
	if !multi {
		r.sb.WriteString(h + tail + r.annotation(n))
		return
	}
	r.sb.WriteString(h + r.annotation(n))
	ind := strings.Repeat(r.l.Indent, depth+1)
	colon := ": "
	if r.l.ColonPad {
		colon = "  :   "
	}
	if n.T == "obj" {
		for i, p := range n.Props {
			r.ownLineComments(ind, i == len(n.Props)-1)
			r.sb.WriteString(r.l.NL + ind)
			if p.Sc {
				r.sb.WriteString(p.Kt)
			} else {
				r.sb.WriteString(quoteKey(string(p.K)))
			}
			r.sb.WriteString(colon)
			if p.N.KNote != "" {
				r.sb.WriteString("// " + p.N.KNote + r.l.NL + ind + r.l.Indent)
			}
			t := ","
			if i == len(n.Props)-1 {
				t = ""
			}
			r.node(p.N, path+"/"+string(p.K)+p.Kt, depth+1, t)
		}
		r.sb.WriteString(r.l.NL + strings.Repeat(r.l.Indent, depth) + "}" + tail)
		if n.TNote != "" {
			r.sb.WriteString(" // " + n.TNote)
		}
	} else {
		for i, it := range n.Items {
			r.ownLineComments(ind, i == len(n.Items)-1)
			r.sb.WriteString(r.l.NL + ind)
			t := ","
			if i == len(n.Items)-1 {
				t = ""
			}
			r.node(it, path+"/"+strconv.Itoa(i), depth+1, t)
		}
		r.sb.WriteString(r.l.NL + strings.Repeat(r.l.Indent, depth) + "]" + tail)
	}
}

func renderSchemaL(n Node, l Layout) Rendered {
	r := &renderer{offsets: map[string]int{}, l: l}
	if l.HashOwn {
		r.sb.WriteString("# a comment on the first line" + l.NL)
	}
	if l.HashBlock {
		r.sb.WriteString("###" + l.NL + "block comment" + l.NL + "###" + l.NL)
	}
	r.node(n, "", 0, "")
	return Rendered{r.sb.String(), r.offsets}
}

func renderSchema(n Node) Rendered { return renderSchemaL(n, houseLayout) }

func renderEnum(items []Value) string {
	parts := make([]string, len(items))
	for i, it := range items {
		parts[i] = it.JSON()
	}
	return "[" + strings.Join(parts, ", ") + "]"
}

// buildSchema creates the real schema object for (root, env) under the "mesh" or "star" protocol.
func buildSchema(root Node, env Env, keysOptional bool, mesh bool) (*jschema.Schema, Rendered, error) {
	return buildSchemaL(root, env, keysOptional, mesh, houseLayout)
}

// rootOnly != nil (with mesh): the root itself is given only the types named in rootOnly (the ones its own text references);
// whatever those refer to has to reach the root through them.
var rootOnly []string

// chainOnly (with mesh): every schema - the root and each type - is given exactly the types its own text names;
// the library has to find the rest through them (a type known to an added type is known to the root).
var chainOnly bool

func rvRefs(v RV, add func(string)) {
	if strings.HasPrefix(v.S, "@") {
		add(v.S)
	}
	for _, it := range v.Items {
		rvRefs(it, add)
	}
	for _, r := range v.Rules {
		rvRefs(r.V, add)
	}
}

// nodeRefs: the user type names a schema text mentions (type shortcuts, key shortcuts, type / or / allOf / additionalProperties rules).
func nodeRefs(n Node) []string {
	var out []string
	add := func(s string) {
		if !containsStr(out, s) {
			out = append(out, s)
		}
	}
	var walk func(n Node)
	walk = func(n Node) {
		for _, nm := range n.Names {
			if strings.HasPrefix(nm, "@") {
				add(nm)
			}
		}
		for _, r := range n.Rules {
			rvRefs(r.V, add)
		}
		for _, p := range n.Props {
			if p.Kt != "" {
				add(p.Kt)
			}
			walk(p.N)
		}
		for _, it := range n.Items {
			walk(it)
		}
	}
	walk(n)
	return out
}

func buildSchemaL(root Node, env Env, keysOptional bool, mesh bool, l Layout) (*jschema.Schema, Rendered, error) {
	var opts []jschema.Option
	if keysOptional {
		opts = append(opts, jschema.KeysAreOptionalByDefault())
	}
	rr := renderSchemaL(root, l)
	s := jschema.New("root", rr.Text, opts...)
	types := make([]*jschema.Schema, len(env.Types))
	for i, t := range env.Types {
		types[i] = jschema.New(t.Name, renderSchemaL(t.N, l).Text, opts...)
	}
	rules := make([]jlib.Rule, len(env.Enums))
	for i, e := range env.Enums {
		rules[i] = enum.New(e.Name, renderEnum(e.Items))
	}
	all := append([]*jschema.Schema{s}, types...)
	// rules first: AddRule is refused once a schema has been loaded, and AddType loads
	for k, target := range all {
		if k > 0 && !mesh {
			break
		}
		for i, e := range env.Enums {
			if err := target.AddRule(e.Name, rules[i]); err != nil {
				return nil, rr, err
			}
		}
	}
	for k, target := range all {
		if k > 0 && !mesh {
			break
		}
		for i, t := range env.Types {
			if k == 0 && mesh && rootOnly != nil && !containsStr(rootOnly, t.Name) {
				continue
			}
			if mesh && chainOnly {
				body := root
				if k > 0 {
					body = env.Types[k-1].N
				}
				if !containsStr(nodeRefs(body), t.Name) {
					continue
				}
			}
			if err := target.AddType(t.Name, types[i]); err != nil {
				return nil, rr, err
			}
		}
	}
	return s, rr, nil
}

func containsStr(a []string, x string) bool {
	for _, y := range a {
		if y == x {
			return true
		}
	}
	return false
}

func validateValue(s *jschema.Schema, v Value) Outcome {
	text := v.JSON()
	return guard(func() error { return s.Validate(jdoc.New("doc", text)) })
}

// ---- serialisation back to the spec's record shapes (exactly the fields of each kind, empty sequences kept) ----

func orEmptyInts(a []int) []int {
	if a == nil {
		return []int{}
	}
	return a
}

func (v Value) MarshalJSON() ([]byte, error) {
	switch v.T {
	case "bool":
		return json.Marshal(map[string]interface{}{"t": v.T, "bv": v.Bv})
	case "num":
		return json.Marshal(map[string]interface{}{"t": v.T, "b": orEmptyInts(v.B)})
	case "str":
		return json.Marshal(map[string]interface{}{"t": v.T, "c": orEmptyInts(v.C)})
	case "arr":
		items := v.Items
		if items == nil {
			items = []Value{}
		}
		return json.Marshal(map[string]interface{}{"t": v.T, "items": items})
	case "obj":
		ps := v.Ps
		if ps == nil {
			ps = []KV{}
		}
		return json.Marshal(map[string]interface{}{"t": v.T, "ps": ps})
	}
	return json.Marshal(map[string]interface{}{"t": v.T})
}

func (r RV) MarshalJSON() ([]byte, error) {
	m := map[string]interface{}{"t": r.T}
	switch r.T {
	case "bool":
		m["bv"] = r.Bv
	case "num":
		m["b"] = orEmptyInts(r.B)
	case "id", "tref", "name":
		m["s"] = r.S
	case "chars":
		m["c"] = orEmptyInts(r.C)
	case "re":
		m["re"] = r.Re
	case "val":
		m["v"] = r.V
	case "list":
		items := r.Items
		if items == nil {
			items = []RV{}
		}
		m["items"] = items
	case "set":
		rules := r.Rules
		if rules == nil {
			rules = []Rule{}
		}
		m["rules"] = rules
	}
	return json.Marshal(m)
}

func (re RE) MarshalJSON() ([]byte, error) {
	m := map[string]interface{}{"t": re.T}
	switch re.T {
	case "chr":
		m["c"] = re.C
	case "set":
		m["cs"] = orEmptyInts(re.Cs)
		m["neg"] = re.Neg
	case "cat", "alt":
		m["a"], m["b"] = re.A, re.B
	case "opt", "star", "plus":
		m["a"] = re.A
	}
	return json.Marshal(m)
}

func (n Node) MarshalJSON() ([]byte, error) {
	rules := n.Rules
	if rules == nil {
		rules = []Rule{}
	}
	m := map[string]interface{}{"t": n.T, "rules": rules}
	switch n.T {
	case "lit":
		m["v"] = n.V
	case "obj":
		props := n.Props
		if props == nil {
			props = []Prop{}
		}
		m["props"] = props
	case "arr":
		items := n.Items
		if items == nil {
			items = []Node{}
		}
		m["items"] = items
	case "ref":
		m["names"] = n.Names
	}
	return json.Marshal(m)
}

func (p Prop) MarshalJSON() ([]byte, error) {
	return json.Marshal(map[string]interface{}{"k": p.K, "sc": p.Sc, "kt": p.Kt, "n": p.N})
}

func (e Env) MarshalJSON() ([]byte, error) {
	types, enums := e.Types, e.Enums
	if types == nil {
		types = []NamedNode{}
	}
	if enums == nil {
		enums = []NamedEnum{}
	}
	return json.Marshal(map[string]interface{}{"types": types, "enums": enums})
}
