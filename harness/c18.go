package main

// C18: named enum rules and regex types behave like their inline forms. Cases with expected verdict vectors come from
// TLC (GenNamed.tla); regex examples are logged for TLC (TraceSem, op regex_example).

import (
	"encoding/json"
	"flag"
	"fmt"
	"os"
	"strconv"
	"strings"
	"sync"
	"sync/atomic"

	jdoc "github.com/jsightapi/jsight-schema-go-library/formats/json"
	"github.com/jsightapi/jsight-schema-go-library/notations/jschema"
	"github.com/jsightapi/jsight-schema-go-library/notations/regex"
	"github.com/jsightapi/jsight-schema-go-library/rules/enum"
)

type c18Case struct {
	Kind     string  `json:"kind"`
	Items    []Value `json:"items"`
	Layout   int     `json:"layout"`
	Dup      bool    `json:"dup"`
	Re       *RE     `json:"re"`
	Verdicts []int   `json:"verdicts"`
}

// jsonQuote: a JSON string literal (strconv.Quote writes \x7f and \a, which JSON does not know).
func jsonQuote(s string) string {
	cp := []int{}
	for _, r := range s {
		cp = append(cp, int(r))
	}
	return quoteCP(cp)
}

// escQuoteCP spells a string with every escape JSON permits: \/ for the solidus, \b and \f, and \u for the first of the other characters.
func escQuoteCP(c []int) string {
	var sb strings.Builder
	sb.WriteByte('"')
	first := true
	for _, r := range c {
		switch {
		case r == '/':
			sb.WriteString(`\/`)
		case r == 8:
			sb.WriteString(`\b`)
		case r == 12:
			sb.WriteString(`\f`)
		case r == '"':
			sb.WriteString(`\"`)
		case r == '\\':
			sb.WriteString(`\\`)
		case r == '\n':
			sb.WriteString(`\n`)
		case r == '\t':
			sb.WriteString(`\t`)
		case r == '\r':
			sb.WriteString(`\r`)
		case r < 0x20 || (first && r < 0x10000):
			sb.WriteString(fmt.Sprintf(`\u%04X`, r))
			first = false
		default:
			sb.WriteRune(rune(r))
		}
	}
	sb.WriteByte('"')
	return sb.String()
}

// enumItemType is the schema type of a literal: what it is, not what its text looks like ("1.5" is a string).
func enumItemType(it Value) string {
	switch it.T {
	case "str":
		return "string"
	case "bool":
		return "boolean"
	case "null":
		return "null"
	}
	b := string(intsToBytes(it.B))
	if strings.ContainsAny(b, ".") && !strings.ContainsAny(b, "eE") {
		return "float"
	}
	return "integer"
}

// enumLit is the literal as the layout writes it.
func enumLit(it Value, layout int) string {
	if layout == 7 && it.T == "str" {
		return escQuoteCP(it.C)
	}
	return it.JSON()
}

func enumText(items []Value, layout int) string {
	lits := make([]string, len(items))
	for i, it := range items {
		lits[i] = enumLit(it, layout)
	}
	switch layout {
	case 1, 4, 5, 6, 8:
		nl := map[int]string{1: "\n", 4: "\r\n", 5: "\r", 6: "\n", 8: "\n"}[layout]
		var sb strings.Builder
		sb.WriteString("[" + nl)
		for i, l := range lits {
			sb.WriteString("  " + l)
			if i < len(lits)-1 {
				sb.WriteString(",")
			}
			if layout == 6 {
				sb.WriteString(" //" + nl)
			} else {
				sb.WriteString(" // comment " + strconv.Itoa(i) + nl)
				if layout == 8 { // a comment line of its own after the comment of the value (belongs to no value), plain and indented
					sb.WriteString("// free line" + nl + "    // another" + nl)
				}
			}
		}
		sb.WriteString("]")
		return sb.String()
	case 2:
		var sb strings.Builder
		sb.WriteString("[ /* first */ ")
		for i, l := range lits {
			sb.WriteString(l)
			if i < len(lits)-1 {
				sb.WriteString(" /* multi\n line */ , ")
			}
		}
		sb.WriteString(" ]")
		return sb.String()
	case 3:
		return " \n [" + strings.Join(lits, ",\n\t") + "]  \n"
	}
	return "[" + strings.Join(lits, ", ") + "]"
}

type c18Mismatch struct {
	Kind string `json:"kind"`
	Text string `json:"text"`
	What string `json:"what"`
	Doc  string `json:"doc,omitempty"`
}

func init() {
	register("c18replay", func(args []string) int {
		fs := flag.NewFlagSet("c18replay", flag.ExitOnError)
		docsPath := fs.String("docs", "", "docs")
		casesPath := fs.String("cases", "", "cases")
		out := fs.String("out", "-", "mismatches")
		tr := fs.String("trace", "", "regex example trace for TLC")
		fs.Parse(args)
		var docs []Value
		readLines(openIn(*docsPath), func(line []byte) {
			var d struct {
				I int   `json:"i"`
				V Value `json:"v"`
			}
			if err := json.Unmarshal(line, &d); err != nil {
				fatal(err)
			}
			for len(docs) < d.I {
				docs = append(docs, Value{})
			}
			docs[d.I-1] = d.V
		})
		var cases []c18Case
		readLines(openIn(*casesPath), func(line []byte) {
			var c c18Case
			if err := json.Unmarshal(line, &c); err != nil {
				fatal(fmt.Sprintf("%v in %.300s", err, line))
			}
			cases = append(cases, c)
		})
		w := newNDWriter(*out)
		defer w.Close()
		tw := newNDWriter(*tr)
		defer tw.Close()
		var mu sync.Mutex
		var n, mism, evals int64
		bad := func(kind, text, what, doc string) {
			atomic.AddInt64(&mism, 1)
			w.Write(c18Mismatch{kind, text, what, doc})
		}
		parallelFor(len(cases), func(ci int) {
			c := cases[ci]
			atomic.AddInt64(&n, 1)
			if c.Kind == "enum" {
				text := enumText(c.Items, c.Layout)
				e := enum.New("@E", text)
				chk := guard(e.Check)
				if chk.Kind == "panic" {
					bad("enum", text, "Check panicked: "+chk.Panic, "")
					return
				}
				if c.Dup {
					if chk.OK {
						bad("enum", text, "duplicate values accepted by the rule's Check", "")
					}
					return
				}
				if !chk.OK {
					bad("enum", text, "rule rejected: "+chk.Msg, "")
					return
				}
				vals, err := e.Values()
				{ // comment-only entries (no value) are not literals
					lits := vals[:0:0]
					for _, v := range vals {
						if v.Value != nil {
							lits = append(lits, v)
						}
					}
					vals = lits
				}
				if err != nil || len(vals) != len(c.Items) {
					bad("enum", text, fmt.Sprintf("Values() = %d items, err %v", len(vals), err), "")
				} else {
					for i, v := range vals {
						if want := enumItemType(c.Items[i]); string(v.Type) != want {
							bad("enum", text, fmt.Sprintf("Values()[%d] = %s has type %q, the literal is a %s", i, v.Value, v.Type, want), "")
							break
						}
						if string(v.Value) != enumLit(c.Items[i], c.Layout) {
							bad("enum", text, fmt.Sprintf("Values()[%d] = %s, source has %s", i, v.Value, enumLit(c.Items[i], c.Layout)), "")
							break
						}
					}
				}
				ast, err := e.GetAST()
				{
					lits := ast.Children[:0:0]
					for _, ch := range ast.Children {
						if ch.SchemaType != "comment" {
							lits = append(lits, ch)
						}
					}
					ast.Children = lits
				}
				if err != nil || len(ast.Children) != len(c.Items) {
					bad("enum", text, fmt.Sprintf("GetAST() has %d children, err %v", len(ast.Children), err), "")
				} else {
					for i, ch := range ast.Children {
						want := enumLit(c.Items[i], c.Layout) // the literal as written
						if ch.Value != want {
							bad("enum", text, fmt.Sprintf("GetAST child %d = %q want %q", i, ch.Value, want), "")
							break
						}
					}
				}
				ex := c.Items[0].JSON()
				named := jschema.New("named", ex+" // {enum: @E}")
				if err := named.AddRule("@E", enum.New("@E", text)); err != nil {
					bad("enum", text, "AddRule: "+err.Error(), "")
					return
				}
				// two rules in one schema (added in either order): every property goes by its own list
				mkTwo := func(fFirst bool) *jschema.Schema {
					s2 := jschema.New("two", "{\n  \"a\": "+ex+", // {enum: @E}\n  \"b\": \"zz\" // {enum: @F}\n}")
					add := []func() error{func() error { return s2.AddRule("@E", enum.New("@E", text)) }, func() error { return s2.AddRule("@F", enum.New("@F", "[\"zz\", 99]")) }}
					if fFirst {
						add[0], add[1] = add[1], add[0]
					}
					for _, f := range add {
						if err := f(); err != nil {
							bad("enum", text, "AddRule (two rules): "+err.Error(), "")
						}
					}
					return s2
				}
				two, twoR := mkTwo(false), mkTwo(true)
				// ONE rule object used by two properties of a schema and then by a second schema: every use sees the same list
				shared := enum.New("@E", text)
				mkShared := func() *jschema.Schema {
					s3 := jschema.New("shared", "{\n  \"a\": "+ex+", // {enum: @E}\n  \"b\": "+ex+" // {enum: @E, optional: true}\n}")
					if err := s3.AddRule("@E", shared); err != nil {
						bad("enum", text, "AddRule (shared rule object): "+err.Error(), "")
					}
					return s3
				}
				sh1, sh2 := mkShared(), mkShared()
				inline := jschema.New("inline", ex+" // {enum: "+enumText(c.Items, 0)+"}")
				// the list as the rule writes it (line breaks, // comments), inside a multi-line annotation: the same list
				var inlineML *jschema.Schema
				if c.Layout == 1 || c.Layout == 4 || c.Layout == 5 || c.Layout == 6 || c.Layout == 8 {
					inlineML = jschema.New("inline-ml", ex+" /* {enum: "+text+"} */")
				}
				for di, want := range c.Verdicts {
					d := docs[di].JSON()
					a := guard(func() error { return named.Validate(jdoc.New("d", d)) })
					b := guard(func() error { return inline.Validate(jdoc.New("d", d)) })
					atomic.AddInt64(&evals, 2)
					if want != 2 {
						for _, s3 := range []*jschema.Schema{sh1, sh2, sh1} {
							atomic.AddInt64(&evals, 1)
							if g := guard(func() error { return s3.Validate(jdoc.New("d", "{\"a\": "+ex+", \"b\": "+d+"}")) }); g.OK != (want == 1) {
								bad("enum", text, fmt.Sprintf("one rule object used several times: property b with %s: accepted=%v, membership says %v (%d %s)", d, g.OK, want == 1, g.Code, g.Msg), d)
								break
							}
						}
						for _, s2 := range []*jschema.Schema{two, twoR} {
							atomic.AddInt64(&evals, 2)
							if g := guard(func() error { return s2.Validate(jdoc.New("d", "{\"a\": "+d+", \"b\": \"zz\"}")) }); g.OK != (want == 1) {
								bad("enum", text, fmt.Sprintf("two rules in one schema: property a with %s: accepted=%v, membership in its own list says %v (%s)", d, g.OK, want == 1, g.Msg), d)
								break
							}
							inF := d == "\"zz\"" || d == "99"
							if g := guard(func() error { return s2.Validate(jdoc.New("d", "{\"a\": "+ex+", \"b\": "+d+"}")) }); g.OK != inF {
								bad("enum", text, fmt.Sprintf("two rules in one schema: property b with %s: accepted=%v, membership in [\"zz\", 99] says %v (%s)", d, g.OK, inF, g.Msg), d)
								break
							}
						}
					}
					if inlineML != nil {
						atomic.AddInt64(&evals, 1)
						if m := guard(func() error { return inlineML.Validate(jdoc.New("d", d)) }); m.OK != b.OK || m.Kind == "panic" {
							bad("enum", text, fmt.Sprintf("the list written out in a multi-line annotation %v (%d %s) vs on one line %v (%s)", m.OK, m.Code, m.Msg, b.OK, b.Msg), d)
						}
					}
					if a.OK != b.OK || a.Kind == "panic" || b.Kind == "panic" {
						bad("enum", text, fmt.Sprintf("named %v (%s) vs inline %v (%s)", a.OK, a.Msg, b.OK, b.Msg), d)
					} else if want != 2 && a.OK != (want == 1) {
						bad("enum", text, fmt.Sprintf("both spellings say %v, membership says %v", a.OK, want == 1), d)
					}
				}
				return
			}
			// regex type
			pat := c.Re.Pattern()
			text := "/" + pat + "/"
			r := regex.New("@T", text)
			if p, err := r.Pattern(); err != nil || p != pat {
				bad("regex", text, fmt.Sprintf("Pattern() = %q, %v", p, err), "")
				return
			}
			for _, tail := range []string{"", " tail", "\n/x/", "/"} {
				rt := regex.New("@T", text+tail)
				if l, err := rt.Len(); err != nil || int(l) != len(text) {
					bad("regex", text+tail, fmt.Sprintf("Len() = %d, %v; the /P/ token has %d bytes", l, err, len(text)), "")
				}
			}
			exb, err := r.Example()
			if err != nil {
				bad("regex", text, "Example(): "+err.Error(), "")
				return
			}
			cp := []int{}
			for _, rn := range string(exb) {
				cp = append(cp, int(rn))
			}
			mu.Lock()
			tw.Write(map[string]interface{}{"op": "regex_example", "re": c.Re, "example": cp, "text": text})
			mu.Unlock()
			named := jschema.New("named", "@T")
			if err := named.AddType("@T", regex.New("@T", text)); err != nil {
				bad("regex", text, "AddType: "+err.Error(), "")
				return
			}
			inline := jschema.New("inline", jsonQuote(string(exb))+" // {regex: "+jsonQuote(pat)+"}")
			for di, want := range c.Verdicts {
				d := docs[di].JSON()
				a := guard(func() error { return named.Validate(jdoc.New("d", d)) })
				b := guard(func() error { return inline.Validate(jdoc.New("d", d)) })
				atomic.AddInt64(&evals, 2)
				if a.OK != b.OK || a.Kind == "panic" || b.Kind == "panic" {
					bad("regex", text, fmt.Sprintf("type %v (%s) vs inline %v (%s)", a.OK, a.Msg, b.OK, b.Msg), d)
				} else if a.OK != (want == 1) {
					bad("regex", text, fmt.Sprintf("both spellings say %v, the pattern says %v", a.OK, want == 1), d)
				}
			}
		})
		b, _ := json.Marshal(map[string]int64{"cases": n, "validations": evals, "mismatches": mism})
		fmt.Fprintln(os.Stderr, "@@SUMMARY "+string(b))
		return 0
	})
}

func runesOf(cp []int) []rune {
	r := make([]rune, len(cp))
	for i, c := range cp {
		r[i] = rune(c)
	}
	return r
}
