package main

// C05 / C17(i): transition cover of the reference automaton exported by TLC (JsonRef.tla).
// For every transition (s, c) of the exported graph and every suffix w of a characterisation
// set W (computed from the graph's own verdicts by partition refinement) the string
// access(s)·c·w is given to the real Document.Check; the expected verdict is the table walk
// of the exported graph. All judgement is in the graph; this file only searches it.

import (
	"encoding/json"
	"flag"
	"fmt"
	"os"
	"sort"
	"strconv"
	"strings"
	"sync"
	"sync/atomic"
	"time"

	jdoc "github.com/jsightapi/jsight-schema-go-library/formats/json"
	"github.com/jsightapi/jsight-schema-go-library/notations/jschema"
	"github.com/jsightapi/jsight-schema-go-library/notations/regex"
	"github.com/jsightapi/jsight-schema-go-library/rules/enum"
)

type graph struct {
	N       int      `json:"n"`
	Init    int      `json:"init"`
	Verdict []string `json:"verdict"` // accept | reject | unspec
	Dead    []bool   `json:"dead"`    // state is the dead sink
	Delta   [][]int  `json:"delta"`   // [state][byte] -> state, -1 if byte not in alphabet
	Alpha   []int    `json:"alphabet"`
	Names   []string `json:"names"`
}

func (g *graph) run(s int, w []byte) int {
	for _, c := range w {
		s = g.Delta[s][c]
		if s < 0 {
			return -1
		}
	}
	return s
}

// firstDead returns the offset of the first byte that moves the automaton into the dead sink, or -1.
func (g *graph) firstDead(w []byte) int {
	s := g.Init
	for i, c := range w {
		s = g.Delta[s][c]
		if s < 0 {
			return -1
		}
		if g.Dead[s] {
			return i
		}
	}
	return -1
}

func (g *graph) access() [][]byte {
	acc := make([][]byte, g.N)
	seen := make([]bool, g.N)
	seen[g.Init] = true
	acc[g.Init] = []byte{}
	q := []int{g.Init}
	for len(q) > 0 {
		s := q[0]
		q = q[1:]
		for _, c := range g.Alpha {
			t := g.Delta[s][c]
			if t >= 0 && !seen[t] {
				seen[t] = true
				acc[t] = append(append([]byte{}, acc[s]...), byte(c))
				q = append(q, t)
			}
		}
	}
	return acc
}

// characterisation set by partition refinement on verdicts.
func (g *graph) wset() [][]byte {
	W := [][]byte{{}}
	sig := func(s int) string {
		b := make([]byte, 0, len(W))
		for _, w := range W {
			t := g.run(s, w)
			v := byte('?')
			if t >= 0 {
				v = g.Verdict[t][0]
			}
			b = append(b, v)
		}
		return string(b)
	}
	for round := 0; round < 10000; round++ {
		block := make([]string, g.N)
		for s := 0; s < g.N; s++ {
			block[s] = sig(s)
		}
		// group states per block
		groups := map[string][]int{}
		for s := 0; s < g.N; s++ {
			groups[block[s]] = append(groups[block[s]], s)
		}
		keys := make([]string, 0, len(groups))
		for k := range groups {
			keys = append(keys, k)
		}
		sort.Strings(keys)
		added := false
		have := map[string]bool{}
		for _, w := range W {
			have[string(w)] = true
		}
		for _, k := range keys {
			ss := groups[k]
			if len(ss) < 2 {
				continue
			}
			for _, c := range g.Alpha {
				t0 := g.Delta[ss[0]][c]
				for _, s := range ss[1:] {
					t := g.Delta[s][c]
					if t0 < 0 || t < 0 || block[t] == block[t0] {
						continue
					}
					// find w in W on which t0 and t differ
					for wi := range W {
						if block[t][wi] != block[t0][wi] {
							nw := append([]byte{byte(c)}, W[wi]...)
							if !have[string(nw)] {
								have[string(nw)] = true
								W = append(W, nw)
								added = true
							}
							break
						}
					}
					break
				}
				if added {
					break
				}
			}
		}
		if !added {
			break
		}
	}
	return W
}

type c05Mismatch struct {
	Bytes    []int   `json:"bytes"`
	Trailing bool    `json:"trailing"`
	Want     string  `json:"want"`
	WantPos  int     `json:"want_pos"`
	Got      Outcome `json:"got"`
	What     string  `json:"what"` // verdict | position | panic
}

func checkDoc(b []byte, trailing bool) Outcome {
	return guard(func() error {
		if trailing {
			return jdoc.New("doc", b, jdoc.AllowTrailingNonSpaceCharacters()).Check()
		}
		return jdoc.New("doc", b).Check()
	})
}

type publicResult struct {
	Op  string
	Got Outcome
}

// publicSchemaCalls: the text as a schema through the public entry points (C07 robustness on the transition cover).
func publicSchemaCalls(b []byte) []publicResult {
	mk := func() *jschema.Schema { return jschema.New("s", b) }
	return []publicResult{
		{"Check", guard(func() error { return mk().Check() })},
		{"Len", guard(func() error { _, e := mk().Len(); return e })},
		{"GetAST", guard(func() error { _, e := mk().GetAST(); return e })},
		{"Example", guard(func() error { _, e := mk().Example(); return e })},
		{"UsedUserTypes", guard(func() error { _, e := mk().UsedUserTypes(); return e })},
	}
}

// publicEnumCalls: the text as an enum rule through the public entry points.
func publicEnumCalls(b []byte) []publicResult {
	mk := func() *enum.Enum { return enum.New("e", b) }
	return []publicResult{
		{"Check", guard(func() error { return mk().Check() })},
		{"Len", guard(func() error { _, e := mk().Len(); return e })},
		{"GetAST", guard(func() error { _, e := mk().GetAST(); return e })},
		{"Values", guard(func() error { _, e := mk().Values(); return e })},
	}
}

// publicRegexCalls: the text as a regex type through the public entry points.
func publicRegexCalls(b []byte) []publicResult {
	mk := func() *regex.Schema { return regex.New("@r", b) }
	return []publicResult{
		{"Check", guard(func() error { return mk().Check() })},
		{"Len", guard(func() error { _, e := mk().Len(); return e })},
		{"GetAST", guard(func() error { _, e := mk().GetAST(); return e })},
		{"Example", guard(func() error { _, e := mk().Example(); return e })},
		{"Pattern", guard(func() error { _, e := mk().Pattern(); return e })},
	}
}

func init() {
	register("c05graph", func(args []string) int {
		fs := flag.NewFlagSet("c05graph", flag.ExitOnError)
		gpath := fs.String("graph", "", "graph json")
		trailing := fs.Bool("trailing", false, "AllowTrailingNonSpaceCharacters")
		out := fs.String("out", "-", "mismatch ndjson")
		enumLen := fs.Int("enum", 0, "also enumerate all strings up to this length over -enumalpha")
		enumAlpha := fs.String("enumalpha", "", "bytes of the enumeration alphabet")
		positions := fs.Bool("positions", false, "also compare error positions (C17)")
		sut := fs.String("sut", "json", "json: Document.Check; schema: the schema scanner (graph exported from SchemaRef.tla)")
		notes := fs.String("notes", "", "schema: ndjson of verdict differences (reported, never violations)")
		prefixes := fs.String("prefixes", "", "ndjson of texts (JSON strings): every prefix of every text is judged as well")
		robust := fs.Bool("robust", false, "C07: run the text also where the reference is silent; report panics, foreign errors and positions outside the text only")
		fs.Parse(args)
		var g graph
		data, err := os.ReadFile(*gpath)
		if err != nil {
			fatal(err)
		}
		if err := json.Unmarshal(data, &g); err != nil {
			fatal(err)
		}
		acc := g.access()
		W := g.wset()
		w := newNDWriter(*out)
		defer w.Close()
		var tests, distinctStrings, mism, unspec, lenient, strict, located int64
		var nw *ndWriter
		if *notes != "" {
			nw = newNDWriter(*notes)
			defer nw.Close()
		}
		var transitions int64
		var mu sync.Mutex
		samples := []string{}
		noteCount := map[int]int{}
		// a call of the code under test that has not returned after 20 s is reported (the byte string is the evidence) and ends the run:
		// "fails to terminate" is C07's, and an endless loop would otherwise just look like a slow run
		hw := newHangWatch(20*time.Second, func(in []byte) {
			w.Write(c05Mismatch{Bytes: bytesToInts(in), Want: "returns", WantPos: -1, Got: Outcome{Kind: "timeout", Pos: -1, Msg: "the call has not returned after 20 s"}, What: "hang"})
			w.Close()
		})
		judge := func(b []byte) {
			id := hw.begin(b)
			defer hw.end(id)
			atomic.AddInt64(&tests, 1)
			t := g.run(g.Init, b)
			if t < 0 {
				return
			}
			want := g.Verdict[t]
			wantLen := -1
			if strings.HasPrefix(want, "accept:") { // RegexRef: an accepting state carries the token length
				wantLen, _ = strconv.Atoi(want[7:])
				want = "accept"
			}
			if want == "unspec" && !*robust {
				atomic.AddInt64(&unspec, 1)
				return
			}
			var got Outcome
			switch *sut {
			case "schema":
				got = checkSchemaLex(b)
			case "enum":
				got = guard(func() error { return enum.New("e", b).Check() })
				if got.Code == 810 && !*robust {
					// equal items: refused by the rule, not by its syntax (EnumText leaves it aside)
					atomic.AddInt64(&unspec, 1)
					return
				}
			case "regex":
				got = guard(func() error { return regex.New("@r", b).Check() })
				if got.Code == 1502 && !*robust {
					// the token is complete but its pattern is not a regular expression: not a matter of the token (RegexText)
					atomic.AddInt64(&unspec, 1)
					return
				}
				if !got.OK && wantLen >= 0 && !*robust && (got.Code == 1500 || got.Code == 1501) {
					// a complete token refused as cut off: Len cannot be the length of the token
					atomic.AddInt64(&mism, 1)
					w.Write(c05Mismatch{Bytes: bytesToInts(b), Want: fmt.Sprintf("Len = %d", wantLen), WantPos: -1, Got: got, What: "len"})
					return
				}
				if got.OK && wantLen >= 0 && !*robust {
					if l, err := regex.New("@r", b).Len(); err != nil || int(l) != wantLen {
						atomic.AddInt64(&mism, 1)
						w.Write(c05Mismatch{Bytes: bytesToInts(b), Want: fmt.Sprintf("Len = %d", wantLen), WantPos: -1, Got: Outcome{OK: err == nil, Pos: int(l)}, What: "len"})
						return
					}
				}
			default:
				got = checkDoc(b, *trailing)
			}
			if *robust {
				if got.Kind == "panic" || got.Kind == "foreign" || (!got.OK && (got.Pos < 0 || (got.Pos >= len(b) && len(b) > 0))) {
					atomic.AddInt64(&mism, 1)
					w.Write(c05Mismatch{Bytes: bytesToInts(b), Trailing: *trailing, Want: want, WantPos: -1, Got: got, What: "robust"})
				}
				return
			}
			what := ""
			wantPos := -1
			if got.Kind == "panic" || got.Kind == "foreign" {
				what = "panic"
			} else if got.OK != (want == "accept") {
				what = "verdict"
				if *sut == "schema" || *sut == "enum" || *sut == "regex" {
					// no listed property fixes the exact language of the schema / enum scanner: differences are reported, positions are judged
					what = ""
					n := atomic.AddInt64(&lenient, 0)
					if got.OK {
						n = atomic.AddInt64(&lenient, 1)
					} else {
						n = atomic.AddInt64(&strict, 1)
					}
					_ = n
					if nw != nil {
						mu.Lock()
						noteCount[t]++
						k := noteCount[t]
						mu.Unlock()
						if k <= 2 {
							nw.Write(c05Mismatch{Bytes: bytesToInts(b), Want: want + " in " + g.Names[t], WantPos: g.firstDead(b), Got: got, What: "verdict-note"})
						}
					}
				}
			} else if *positions && !got.OK && len(b) > 0 {
				wantPos = g.firstDead(b)
				if wantPos < 0 {
					wantPos = len(b) - 1
				}
				atomic.AddInt64(&located, 1)
				if got.Pos != wantPos {
					what = "position"
				}
			}
			if what != "" {
				atomic.AddInt64(&mism, 1)
				w.Write(c05Mismatch{Bytes: bytesToInts(b), Trailing: *trailing, Want: want, WantPos: wantPos, Got: got, What: what})
			}
		}
		// byte classes of the exported graph: equal columns
		classOf := make([]int, 256)
		reps := []int{}
		{
			seen := map[string]int{}
			for _, c := range g.Alpha {
				col := make([]byte, 0, g.N*3)
				for s := 0; s < g.N; s++ {
					t := g.Delta[s][c]
					col = append(col, byte(t), byte(t>>8), byte(t>>16))
				}
				k := string(col)
				if id, ok := seen[k]; ok {
					classOf[c] = id
				} else {
					seen[k] = len(reps)
					classOf[c] = len(reps)
					reps = append(reps, c)
				}
			}
		}
		isRep := make([]bool, 256)
		for _, c := range reps {
			isRep[c] = true
		}
		// shortest accepting completion of every state (backward BFS over representative bytes)
		comp := make([][]byte, g.N)
		{
			type edge struct {
				from int
				c    byte
			}
			rev := make([][]edge, g.N)
			for s := 0; s < g.N; s++ {
				for _, c := range reps {
					if t := g.Delta[s][c]; t >= 0 {
						rev[t] = append(rev[t], edge{s, byte(c)})
					}
				}
			}
			q := []int{}
			for s := 0; s < g.N; s++ {
				if g.Verdict[s] == "accept" {
					comp[s] = []byte{}
					q = append(q, s)
				}
			}
			for len(q) > 0 {
				t := q[0]
				q = q[1:]
				for _, e := range rev[t] {
					if comp[e.from] == nil {
						comp[e.from] = append([]byte{e.c}, comp[t]...)
						q = append(q, e.from)
					}
				}
			}
		}
		// W-method. Class representatives get the full characterisation set after the transition;
		// the other bytes of a class get the byte-confusion suite: the accepting completions of every
		// state the implementation would be in had it mistaken the byte for one of another class, or ignored it.
		parallelFor(g.N, func(s int) {
			if acc[s] == nil {
				return
			}
			var confusion [][]byte
			seen := map[int]bool{}
			add := func(q int) {
				if q >= 0 && !seen[q] && comp[q] != nil {
					seen[q] = true
					confusion = append(confusion, comp[q])
				}
			}
			add(s)
			for _, c := range reps {
				add(g.Delta[s][c])
			}
			for _, c := range g.Alpha {
				if g.Delta[s][c] < 0 {
					continue
				}
				atomic.AddInt64(&transitions, 1)
				base := append(append([]byte{}, acc[s]...), byte(c))
				if *robust && (*sut == "schema" || *sut == "enum" || *sut == "regex") {
					calls := publicSchemaCalls
					if *sut == "enum" {
						calls = publicEnumCalls
					}
					if *sut == "regex" {
						calls = publicRegexCalls
					}
					for _, pr := range calls(base) {
						if pr.Got.Kind == "panic" || pr.Got.Kind == "foreign" || (!pr.Got.OK && pr.Got.Kind == "liberr" && pr.Got.Pos > len(base)) {
							atomic.AddInt64(&mism, 1)
							w.Write(c05Mismatch{Bytes: bytesToInts(base), Want: pr.Op, WantPos: -1, Got: pr.Got, What: "robust-public"})
						}
					}
				}
				sufs := W
				if !isRep[c] {
					sufs = append([][]byte{{}}, confusion...)
				}
				for _, suf := range sufs {
					b := append(append([]byte{}, base...), suf...)
					judge(b)
				}
				if s%97 == 0 && c == g.Alpha[len(g.Alpha)/3] {
					mu.Lock()
					if len(samples) < 6 {
						samples = append(samples, fmt.Sprintf("%q", string(append(append([]byte{}, base...), W[len(W)/2]...))))
					}
					mu.Unlock()
				}
			}
		})
		if *sut == "regex" {
			// the W-method picks one representative per byte class; well-formed multi-byte characters inside the pattern are tried as such
			for _, t := range []string{"/\u00e9/", "/\u00e9/ x", "/\u00e9+/\nGET /cats", "/\u20ac/", "/\u043f/\n", "/a\u00e9/", "/\u00e9\u00e9/x", "/^\u00e9$/"} {
				judge([]byte(t))
			}
		}
		// plain enumeration of all strings up to enumLen with dead-prefix pruning (one step past death)
		var enumerated int64
		if *enumLen > 0 {
			alpha := []byte(*enumAlpha)
			var rec func(prefix []byte, s int, deadSteps int)
			var wg sync.WaitGroup
			sem := make(chan struct{}, workers())
			rec = func(prefix []byte, s int, deadSteps int) {
				judge(prefix)
				atomic.AddInt64(&enumerated, 1)
				if len(prefix) >= *enumLen || deadSteps >= 2 {
					return
				}
				for _, c := range alpha {
					t := g.Delta[s][c]
					if t < 0 {
						continue
					}
					np := append(append(make([]byte, 0, len(prefix)+1), prefix...), c)
					ds := deadSteps
					if g.Dead[t] {
						ds++
					}
					if len(np) == 2 {
						wg.Add(1)
						sem <- struct{}{}
						go func(np []byte, t, ds int) {
							defer wg.Done()
							rec(np, t, ds)
							<-sem
						}(np, t, ds)
					} else {
						rec(np, t, ds)
					}
				}
			}
			rec([]byte{}, g.Init, 0)
			wg.Wait()
		}
		// every prefix of real texts (layouts of the Gaps / Bind families): the graph knows all 256 bytes, beyond its nesting bound it has no verdict
		var prefixTests int64
		if *prefixes != "" {
			var texts []string
			readLines(openIn(*prefixes), func(line []byte) {
				var t string
				if json.Unmarshal(line, &t) == nil {
					texts = append(texts, t)
				}
			})
			parallelFor(len(texts), func(i int) {
				b := []byte(texts[i])
				for k := 0; k <= len(b); k++ {
					judge(b[:k])
					atomic.AddInt64(&prefixTests, 1)
				}
			})
		}
		_ = distinctStrings
		sum := map[string]interface{}{
			"prefix_tests": prefixTests,
			"states":       g.N, "transitions": transitions, "wset": len(W), "byte_classes": len(reps), "tests": tests, "enumerated": enumerated,
			"unspecified": unspec, "mismatches": mism, "samples": samples, "lenient": lenient, "strict": strict, "located": located,
		}
		b, _ := json.Marshal(sum)
		fmt.Fprintln(os.Stderr, "@@SUMMARY "+string(b))
		return 0
	})

	// c05one: re-run single strings (reproduction in a fresh process). stdin: ndjson {bytes, trailing}
	register("c05one", func(args []string) int {
		w := newNDWriter("-")
		defer w.Close()
		readLines(os.Stdin, func(line []byte) {
			var in struct {
				Bytes    []int `json:"bytes"`
				Trailing bool  `json:"trailing"`
				Drain    bool  `json:"drain"`
			}
			if err := json.Unmarshal(line, &in); err != nil {
				fatal(err)
			}
			got := checkDoc(intsToBytes(in.Bytes), in.Trailing)
			if in.Drain { // the same call prelude as in the driver: read to the end through NextLexeme, then Check
				got = guard(func() error {
					d := jdocNewOpt(intsToBytes(in.Bytes), in.Trailing)
					for k := 0; k < 10*len(in.Bytes)+10; k++ {
						if _, e := d.NextLexeme(); e != nil {
							break
						}
					}
					return d.Check()
				})
			}
			w.Write(map[string]interface{}{"bytes": in.Bytes, "trailing": in.Trailing, "got": got})
		})
		return 0
	})
}
