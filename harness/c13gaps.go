package main

// C13: fillers in the gaps between the tokens of a schema (spec/Gaps.tla). The filled text must be accepted and mean what the compact
// text means: same AST (the whole of it - fillers are neither notes nor rules), same verdict on every probe document.

import (
	"encoding/json"
	"flag"
	"fmt"
	"os"
	"strings"

	jdoc "github.com/jsightapi/jsight-schema-go-library/formats/json"
	"github.com/jsightapi/jsight-schema-go-library/notations/jschema"
	"github.com/jsightapi/jsight-schema-go-library/rules/enum"
)

type gapCase struct {
	ID   int    `json:"id"`
	Kind string `json:"kind"` // schema | enum
	Base string `json:"base"`
	Text string `json:"text"`
}

type gapMismatch struct {
	Schema string `json:"schema"`
	Base   string `json:"base"`
	Where  string `json:"where"`
}

var gapProbes = []string{`1`, `5`, `10`, `2`, `"x"`, `true`, `{"a": 1, "b": [true, 1], "abc": "s"}`, `{"a": 1, "b": [true, "q"], "abc": "s"}`, `{"a": 1, "b": [], "zzz": "s"}`,
	`{"p": 1, "z": 1, "q": "s"}`, `{"p": 1, "z": 1, "q": 2}`, `{"p": 1}`, `{"ключ": "значение €", "é": "ß"}`, `{"ключ": "я", "é": "日本"}`, `{"ключ": "значение €", "é": "x"}`, `[1, "x"]`, `[-1, "x"]`, `[1, ""]`, `[]`, `null`}

func gapSchema(text string) *jschema.Schema {
	s := jschema.New("root", text)
	_ = s.AddType("@t", jschema.New("@t", "1"))
	_ = s.AddType("@k", jschema.New("@k", "\"abc\" // {regex: \"^a\"}"))
	_ = s.AddType("@o", jschema.New("@o", "{\"z\": 1}"))
	return s
}

// barFree: the text of a type shortcut is kept as written; the blanks around its bars are not part of its meaning.
func barFree(a astNode) astNode {
	if a.TT == "reference" {
		a.V = txt(strings.NewReplacer(" ", "", "\t", "").Replace(string(a.V)))
	}
	for i := range a.Children {
		a.Children[i] = barFree(a.Children[i])
	}
	return a
}

func init() {
	register("c13gaps", func(args []string) int {
		fs := flag.NewFlagSet("c13gaps", flag.ExitOnError)
		casesPath := fs.String("cases", "", "cases ndjson (spec/Gaps.tla)")
		pairsPath := fs.String("pairs", "", "pairs ndjson {a, b}: two texts that differ in a note only")
		out := fs.String("out", "-", "mismatch ndjson")
		lenMode := fs.Bool("len", false, "C14: every accepted spelling that ends with its last token, followed by a line break and foreign text: Len = its length")
		fs.Parse(args)
		w := newNDWriter(*out)
		defer w.Close()
		n, mism, evals := 0, 0, 0
		type baseInfo struct {
			ast      astNode
			verdicts []bool
			refused  string
			example  string
		}
		bases := map[string]*baseInfo{}
		readLines(openIn(*casesPath), func(line []byte) {
			var c gapCase
			if err := json.Unmarshal(line, &c); err != nil {
				fatal(err)
			}
			n++
			if *lenMode {
				last := c.Text[len(c.Text)-1]
				if c.Kind == "doc" || last == ' ' || last == '\t' || last == '\n' || last == '\r' || strings.HasSuffix(c.Text, "###") || strings.Contains(c.Text[strings.LastIndexAny(c.Text, "\n\r")+1:], "#") {
					return // ends in a filler (blank or comment): what "the schema" is there is another question
				}
				for _, tail := range []string{"\nGET /cats", "\n\nx", "\r\n200 any", "\n\tTYPE @x"} {
					evals++
					text := c.Text + tail
					var l uint
					var o Outcome
					if c.Kind == "enum" {
						o = guard(func() error { var e error; l, e = enum.New("@e", text).Len(); return e })
					} else {
						o = guard(func() error { var e error; l, e = jschema.New("root", text).Len(); return e })
					}
					if !o.OK || int(l) != len(c.Text) {
						mism++
						w.Write(gapMismatch{text, c.Base, fmt.Sprintf("Len = %d (%+v), the text before the line break has %d bytes", l, o, len(c.Text))})
					}
				}
				return
			}
			if c.Kind == "doc" {
				// a document: the same verdict (and the same error code) as its compact spelling, against the schema of the first token list
				sch := gapSchema("{\"a\":1,\"b\":[true,@t],@k:\"s\"}")
				want := guard(func() error { return sch.Validate(jdoc.New("d", c.Base)) })
				got := guard(func() error { return sch.Validate(jdoc.New("d", c.Text)) })
				evals++
				if got.OK != want.OK || got.Code != want.Code || got.Kind != want.Kind {
					mism++
					w.Write(gapMismatch{c.Text, c.Base, fmt.Sprintf("document: %+v, its compact spelling: %+v", got, want)})
				}
				return
			}
			if c.Kind == "enum" {
				vals := func(text string) (string, error) {
					e := enum.New("@e", text)
					if err := e.Check(); err != nil {
						return "", err
					}
					vv, err := e.Values()
					out := ""
					for _, v := range vv {
						if v.Value != nil {
							out += string(v.Value) + ";"
						}
					}
					return out, err
				}
				want, err := vals(c.Base)
				if err != nil {
					fatal(fmt.Sprintf("the compact enum %q is not accepted: %v", c.Base, err))
				}
				var got string
				o := guard(func() error { var e error; got, e = vals(c.Text); return e })
				evals++
				if !o.OK {
					mism++
					w.Write(gapMismatch{c.Text, c.Base, fmt.Sprintf("the compact spelling is accepted, this one: %d %s%s at %d", o.Code, o.Msg, o.Panic, o.Pos)})
				} else if got != want {
					mism++
					w.Write(gapMismatch{c.Text, c.Base, "values " + got + " want " + want})
				}
				return
			}
			b, ok := bases[c.Base]
			if !ok {
				s := gapSchema(c.Base)
				b = &baseInfo{}
				if err := s.Check(); err != nil {
					// the token lists are accepted on the tree they were written for; if the compact spelling is refused, every spelling
					// that is accepted shows that the verdict depends on the spelling
					b.refused = fmt.Sprint(err)
					bases[c.Base] = b
				}
			}
			if !ok && b.refused == "" {
				s := gapSchema(c.Base)
				_ = s.Check()
				a, _ := s.GetAST()
				b.ast = barFree(convAST(a))
				for _, d := range gapProbes {
					b.verdicts = append(b.verdicts, s.Validate(jdoc.New("d", d)) == nil)
				}
				if ex, err := s.Example(); err == nil {
					b.example = string(ex)
				} else {
					b.example = "error: " + err.Error()
				}
				bases[c.Base] = b
			}
			bad := func(where string) {
				mism++
				w.Write(gapMismatch{c.Text, c.Base, where})
			}
			s := gapSchema(c.Text)
			o := guard(func() error { return s.Check() })
			evals++
			if b.refused != "" {
				if o.OK {
					bad("this spelling is accepted, the compact one is refused: " + strings.SplitN(b.refused, "\n", 2)[0])
				}
				return
			}
			if !o.OK {
				bad(fmt.Sprintf("the compact spelling is accepted, this one: %d %s%s at %d", o.Code, o.Msg, o.Panic, o.Pos))
				return
			}
			a, err := s.GetAST()
			if err != nil {
				bad("GetAST: " + err.Error())
				return
			}
			if d := diffAST("", b.ast, barFree(convAST(a))); d != "" {
				bad("AST differs from the compact spelling's: " + d)
				return
			}
			// the example has no blanks, comments or annotations in it: every spelling gives the same bytes
			exs := ""
			if ex, err := s.Example(); err == nil {
				exs = string(ex)
			} else {
				exs = "error: " + err.Error()
			}
			evals++
			if exs != b.example {
				bad(fmt.Sprintf("Example() = %s, under the compact spelling %s", exs, b.example))
				return
			}
			for i, d := range gapProbes {
				evals++
				if got := s.Validate(jdoc.New("d", d)) == nil; got != b.verdicts[i] {
					bad(fmt.Sprintf("document %s: accepted=%v, under the compact spelling %v", d, got, b.verdicts[i]))
					return
				}
			}
		})
		if *pairsPath != "" {
			readLines(openIn(*pairsPath), func(line []byte) {
				var p struct{ A, B string }
				if err := json.Unmarshal(line, &p); err != nil {
					fatal(err)
				}
				a := guard(func() error { return gapSchema(p.A).Check() })
				b := guard(func() error { return gapSchema(p.B).Check() })
				evals += 2
				if a.OK != b.OK || a.Kind == "panic" || b.Kind == "panic" {
					mism++
					w.Write(gapMismatch{p.B, p.A, fmt.Sprintf("with the notes: %v (%d %s), without them: %v (%d %s)", b.OK, b.Code, b.Msg, a.OK, a.Code, a.Msg)})
				}
			})
		}
		bb, _ := json.Marshal(map[string]int{"spellings": n, "mismatches": mism, "evaluations": evals, "schemas": len(bases)})
		fmt.Fprintln(os.Stderr, "@@SUMMARY "+string(bb))
		return 0
	})
}
