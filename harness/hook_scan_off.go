//go:build !hscan

package main

// Built without the scanner hooks (see hook_scan.go): the commands that need them say so.

const haveScanHook = false

func schemaEvents(text []byte) (evs []Event, fail string) { fatal("this harness was built without the scanner hooks"); return }
func enumEvents(text []byte) (evs []Event, fail string)   { fatal("this harness was built without the scanner hooks"); return }
func checkSchemaLex(b []byte) Outcome                     { fatal("this harness was built without the scanner hooks"); return Outcome{} }
