package main

// C07: every public method, arbitrary bytes. Plumbing: call everything under recover with a watchdog and log
// {op, kind, code, pos, srclen (of the file the error names), renders}; TraceApi.tla decides.

import (
	"encoding/json"
	stderrors "errors"
	"flag"
	"fmt"
	"io"
	"os"
	"path/filepath"
	"sort"
	"strings"
	"time"

	jlib "github.com/jsightapi/jsight-schema-go-library"
	jerr "github.com/jsightapi/jsight-schema-go-library/errors"
	jdoc "github.com/jsightapi/jsight-schema-go-library/formats/json"
	"github.com/jsightapi/jsight-schema-go-library/fs"
	"github.com/jsightapi/jsight-schema-go-library/kit"
	"github.com/jsightapi/jsight-schema-go-library/notations/jschema"
	"github.com/jsightapi/jsight-schema-go-library/notations/regex"
	"github.com/jsightapi/jsight-schema-go-library/rules/enum"
)

type apiEvent struct {
	Op      string `json:"op"`
	Kind    string `json:"kind"`
	Code    int    `json:"code"`
	Pos     int    `json:"pos"`
	SrcLen  int    `json:"srclen"`
	Renders bool   `json:"renders"`
	File    string `json:"file"`
	Msg     string `json:"msg,omitempty"`
	Input   string `json:"input"`
}

// classify turns the result of one call into an event. sources: file name -> content length.
func classify(op, input string, sources map[string]int, f func() error) (ev apiEvent) {
	ev = apiEvent{Op: op, Input: input, Renders: true, Pos: 0}
	done := make(chan struct{})
	var err error
	var pan interface{}
	go func() {
		defer close(done)
		defer func() { pan = recover() }()
		err = f()
	}()
	select {
	case <-done:
	case <-time.After(10 * time.Second):
		ev.Kind = "timeout"
		return
	}
	if pan != nil {
		ev.Kind, ev.Msg = "panic", fmt.Sprint(pan)
		return
	}
	if err == nil {
		ev.Kind = "ok"
		return
	}
	// unwrap fmt.Errorf("...: %w") wrappers
	var le interface {
		error
		Position() uint
		Message() string
		ErrCode() int
	}
	for e := err; e != nil; {
		if x, ok := e.(interface {
			error
			Position() uint
			Message() string
			ErrCode() int
		}); ok {
			le = x
			break
		}
		u, ok := e.(interface{ Unwrap() error })
		if !ok {
			break
		}
		e = u.Unwrap()
	}
	if le == nil {
		if ve, ok := err.(jlib.ValidationError); ok { // no position by interface: position 0 of the document
			ev.Kind, ev.Code, ev.Msg = "liberr", ve.ErrCode(), ve.Message()
			ev.SrcLen = 1
			func() {
				defer func() {
					if recover() != nil {
						ev.Renders = false
					}
				}()
				_ = ve.Error()
			}()
			return
		}
		ev.Kind, ev.Msg = "foreign", fmt.Sprintf("%T: %.200v", err, err)
		return
	}
	ev.Kind, ev.Code, ev.Pos, ev.Msg = "liberr", le.ErrCode(), int(le.Position()), le.Message()
	if strings.HasPrefix(ev.Msg, "runtime error:") {
		// a Go run-time panic (nil dereference, index out of range, makeslice) which the library recovered and handed out as the
		// text of an error: the call did panic, the caller just is not told so
		ev.Kind, ev.Msg = "panic", "recovered inside the library and returned as an error: "+ev.Msg
		return
	}
	ev.SrcLen = sources[""]
	if fn, ok := le.(interface{ Filename() string }); ok {
		ev.File = fn.Filename()
		if n, ok := sources[ev.File]; ok {
			ev.SrcLen = n
		}
	}
	func() {
		defer func() {
			if r := recover(); r != nil {
				ev.Renders = false
				ev.Msg += " | Error() panics: " + fmt.Sprint(r)
			}
		}()
		_ = err.Error()
		_ = le.Error()
	}()
	return
}

func apiCalls(text string, emit func(apiEvent)) {
	in := text
	if len(in) > 120 {
		in = in[:120] + "..."
	}
	src := func(m map[string]int) map[string]int { m[""] = len(text); return m }
	// as schema
	sch := func() *jschema.Schema { return jschema.New("root", text) }
	emit(classify("schema.Len", in, src(map[string]int{"root": len(text)}), func() error { _, e := sch().Len(); return e }))
	emit(classify("schema.Check", in, src(map[string]int{"root": len(text)}), func() error { return sch().Check() }))
	emit(classify("schema.GetAST", in, src(map[string]int{"root": len(text)}), func() error { _, e := sch().GetAST(); return e }))
	emit(classify("schema.UsedUserTypes", in, src(map[string]int{"root": len(text)}), func() error { _, e := sch().UsedUserTypes(); return e }))
	emit(classify("schema.Example", in, src(map[string]int{"root": len(text)}), func() error { _, e := sch().Example(); return e }))
	emit(classify("schema.Validate", in, src(map[string]int{"root": len(text), "doc": 1}), func() error { return sch().Validate(jdoc.New("doc", "1")) }))
	// the same object once more after a first call, failed or not: what follows stays a library error
	emit(classify("schema.Check;Example", in, src(map[string]int{"root": len(text)}), func() error { s := sch(); _ = s.Check(); _, e := s.Example(); return e }))
	emit(classify("schema.Check;Validate", in, src(map[string]int{"root": len(text), "doc": 1}), func() error {
		s := sch()
		_ = s.Check()
		return s.Validate(jdoc.New("doc", "1"))
	}))
	emit(classify("type.AddType+Check;Example", in, src(map[string]int{"root": 8, "@t": len(text)}), func() error {
		r := jschema.New("root", `{"k": @t}`)
		if e := r.AddType("@t", jschema.New("@t", text)); e != nil {
			return e
		}
		_ = r.Check()
		_, e := r.Example()
		return e
	}))
	emit(classify("type.AddType+Check;Check;Validate", in, src(map[string]int{"root": 8, "@t": len(text), "doc": 7}), func() error {
		r := jschema.New("root", `{"k": @t}`)
		if e := r.AddType("@t", jschema.New("@t", text)); e != nil {
			return e
		}
		_ = r.Check()
		_ = r.Check()
		return r.Validate(jdoc.New("doc", `{"k":1}`))
	}))
	// as user type of a root that names it
	emit(classify("type.AddType+Check", in, src(map[string]int{"root": 2, "@t": len(text)}), func() error {
		r := jschema.New("root", "@t")
		if e := r.AddType("@t", jschema.New("@t", text)); e != nil {
			return e
		}
		return r.Check()
	}))
	emit(classify("type.AddType+Validate", in, src(map[string]int{"root": 2, "@t": len(text), "doc": 2}), func() error {
		r := jschema.New("root", "@t")
		if e := r.AddType("@t", jschema.New("@t", text)); e != nil {
			return e
		}
		return r.Validate(jdoc.New("doc", "{}"))
	}))
	// as user type that is referred to in every other way a schema can refer to a type
	for _, rt := range []string{`1 // {type: "@t"}`, `{@t: 1}`, `1 // {or: ["@t", "integer"]}`, `{} // {additionalProperties: "@t"}`, `{} // {allOf: "@t"}`, `[@t, @t | @t]`} {
		rt := rt
		emit(classify("type.AddType+Check;Validate;Example via "+rt, in, src(map[string]int{"root": len(rt), "@t": len(text), "doc": 1}), func() error {
			r := jschema.New("root", rt)
			if e := r.AddType("@t", jschema.New("@t", text)); e != nil {
				return e
			}
			if e := r.Check(); e != nil {
				_ = r.Validate(jdoc.New("doc", "1"))
				_, _ = r.Example()
				return e
			}
			if _, e := r.Example(); e != nil {
				return e
			}
			return r.Validate(jdoc.New("doc", "1"))
		}))
	}
	// as enum rule
	en := func() *enum.Enum { return enum.New("@e", text) }
	emit(classify("enum.Len", in, src(map[string]int{"@e": len(text)}), func() error { _, e := en().Len(); return e }))
	emit(classify("enum.Check", in, src(map[string]int{"@e": len(text)}), func() error { return en().Check() }))
	emit(classify("enum.Values", in, src(map[string]int{"@e": len(text)}), func() error { _, e := en().Values(); return e }))
	emit(classify("enum.GetAST", in, src(map[string]int{"@e": len(text)}), func() error { _, e := en().GetAST(); return e }))
	emit(classify("enum.AddRule+Check", in, src(map[string]int{"@e": len(text), "root": 16}), func() error {
		r := jschema.New("root", "1 // {enum: @e}")
		if e := r.AddRule("@e", enum.New("@e", text)); e != nil {
			return e
		}
		return r.Check()
	}))
	// as regex type
	re := func() *regex.Schema { return regex.New("@r", text) }
	emit(classify("regex.Pattern", in, src(map[string]int{"@r": len(text)}), func() error { _, e := re().Pattern(); return e }))
	emit(classify("regex.Len", in, src(map[string]int{"@r": len(text)}), func() error { _, e := re().Len(); return e }))
	emit(classify("regex.Example", in, src(map[string]int{"@r": len(text)}), func() error { _, e := re().Example(); return e }))
	emit(classify("regex.Check", in, src(map[string]int{"@r": len(text)}), func() error { return re().Check() }))
	emit(classify("regex.GetAST", in, src(map[string]int{"@r": len(text)}), func() error { _, e := re().GetAST(); return e }))
	emit(classify("regex.AddType+Check", in, src(map[string]int{"@r": len(text), "root": 2}), func() error {
		r := jschema.New("root", "@r")
		if e := r.AddType("@r", regex.New("@r", text)); e != nil {
			return e
		}
		return r.Check()
	}))
	// as document
	emit(classify("doc.Check", in, src(map[string]int{"doc": len(text)}), func() error { return jdoc.New("doc", text).Check() }))
	emit(classify("doc.Len", in, src(map[string]int{"doc": len(text)}), func() error { _, e := jdoc.New("doc", text).Len(); return e }))
	emit(classify("doc.LenTrailing", in, src(map[string]int{"doc": len(text)}), func() error {
		_, e := jdoc.New("doc", text, jdoc.AllowTrailingNonSpaceCharacters()).Len()
		return e
	}))
	// the event interface, read to the end and six calls beyond the first error or io.EOF: every call returns, none panics,
	// and whatever error is returned is a library error (the last one is judged)
	emit(classify("doc.NextLexeme*", in, src(map[string]int{"doc": len(text)}), func() error {
		d := jdoc.New("doc", text)
		var last error
		beyond := 0
		for i := 0; i < 4*len(text)+40 && beyond < 6; i++ {
			_, e := d.NextLexeme()
			if e != nil {
				beyond++
				if !stderrors.Is(e, io.EOF) {
					last = e
				}
			} else if beyond > 0 {
				beyond++
			}
		}
		return last
	}))
	emit(classify("doc.Validate(any)", in, src(map[string]int{"doc": len(text), "root": 18}), func() error {
		return jschema.New("root", `1 // {type: "any"}`).Validate(jdoc.New("doc", text))
	}))
	emit(classify("doc.Validate(number rules)", in, src(map[string]int{"doc": len(text), "root": 40}), func() error {
		if e := jschema.New("root", `1 // {min: 0}`).Validate(jdoc.New("doc", text)); e != nil {
			return e
		}
		return jschema.New("root", `1.5 // {type: "decimal", precision: 2}`).Validate(jdoc.New("doc", text))
	}))
	emit(classify("doc.Validate(object)", in, src(map[string]int{"doc": len(text), "root": 30}), func() error {
		return jschema.New("root", "{\"a\": 1, \"b\": [1] // {optional: true}\n}").Validate(jdoc.New("doc", text))
	}))
	// kit.ConvertError on whatever Check returns
	emit(classify("kit.ConvertError", in, src(map[string]int{"root": len(text)}), func() error {
		e := jschema.New("root", text).Check()
		if e == nil {
			return nil
		}
		ce := kit.ConvertError(fs.NewFile("root", text), e)
		_ = ce.Message()
		if int(ce.Position()) >= len(text) && len(text) > 0 {
			de := jerr.NewDocumentError(fs.NewFile("root", text), jerr.Format(jerr.ErrGeneric, "kit.ConvertError position outside the file"))
			de.SetIndex(jerrIndex(int(ce.Position())))
			return wrapNoRender{de}
		}
		return nil
	}))
	// ... and on an error that lies in an added type: the converted error names a file, and its position lies in THAT file
	emit(classify("kit.ConvertError(type)", in, src(map[string]int{"root": 9, "@t": len(text)}), func() error {
		root := fs.NewFile("root", `{"a": @t}`)
		r := jschema.FromFile(root)
		if e := r.AddType("@t", jschema.New("@t", text)); e != nil {
			// the type does not load: the converted error says what the type's own Check says (file, position, code)
			own, ok := jschema.New("@t", text).Check().(jerr.DocumentError)
			if !ok {
				return nil
			}
			ce := kit.ConvertError(root, e)
			if ce.Filename() != own.Filename() || ce.Position() != own.Position() || ce.ErrCode() != own.ErrCode() {
				de := jerr.NewDocumentError(fs.NewFile("@t", text), jerr.Format(jerr.ErrGeneric, fmt.Sprintf("kit.ConvertError of the AddType error: file %q position %d code %d, the type's own Check: file %q position %d code %d",
					ce.Filename(), ce.Position(), ce.ErrCode(), own.Filename(), own.Position(), own.ErrCode())))
				return wrapForeign{de}
			}
			return nil
		}
		e := r.Check()
		if e == nil {
			return nil
		}
		ce := kit.ConvertError(root, e)
		size := map[string]int{"root": 9, "@t": len(text)}[ce.Filename()]
		if int(ce.Position()) >= size && size > 0 {
			de := jerr.NewDocumentError(fs.NewFile(ce.Filename(), strings.Repeat(" ", size)), jerr.Format(jerr.ErrGeneric, "kit.ConvertError: position outside the file it names"))
			de.SetIndex(jerrIndex(int(ce.Position())))
			return wrapNoRender{de}
		}
		return nil
	}))
}

// wrapNoRender: a library error whose position is reported but whose rendering is not attempted (it would index outside the file)
// wrapForeign is reported as an error that is not a library error (it has none of the accessors).
type wrapForeign struct{ d jerr.DocumentError }

func (w wrapForeign) Error() string { return w.d.Message() }

type wrapNoRender struct{ d jerr.DocumentError }

func (w wrapNoRender) Error() string    { return w.d.Message() }
func (w wrapNoRender) Position() uint   { return w.d.Position() }
func (w wrapNoRender) Message() string  { return w.d.Message() }
func (w wrapNoRender) ErrCode() int     { return w.d.ErrCode() }
func (w wrapNoRender) Filename() string { return w.d.Filename() }

var mutAlpha = []byte("{}[],:\"\\-01.e+ tn/#*@|\n\r\t'xA9\x00\x1f\x7f\xc3\xff")
var insAlpha = []byte("{}[],:\"\\/#*@|\n -")

func init() {
	register("c07trace", func(args []string) int {
		fs := flag.NewFlagSet("c07trace", flag.ExitOnError)
		corpus := fs.String("corpus", "", "directory with sample files (every prefix at -stride is used)")
		stride := fs.Int("stride", 7, "prefix stride")
		maxFiles := fs.Int("maxfiles", 60, "files used")
		casesPath := fs.String("cases", "", "comma separated semCase files: rendered schemas and their mutations")
		nmut := fs.Int("mut", 300, "mutated generated schemas")
		textsPath := fs.String("texts", "", "file of JSON strings: schema texts generated by TLC (GenEdge)")
		out := fs.String("out", "-", "trace")
		fs.Parse(args)
		w := newNDWriter(*out)
		defer w.Close()
		n := 0
		emit := func(e apiEvent) { w.Write(e); n++ }
		r := newRand(7)
		seen := map[string]bool{}
		try := func(text string) {
			if len(text) > 4096 || seen[text] {
				return
			}
			seen[text] = true
			apiCalls(text, emit)
		}
		// fixed witnesses of the findings recorded / repaired so far and a few classics
		for _, t := range []string{"", " ", "1 ##", "1 /* a *", "@a |", "[1] /* a *", "\n[", "{", "/", "//", "/a", "1 // {", "1 // {min", "@", "@a", "{@", "1 // {:1}",
			"[1] // c\nx", "{} ##", "1 #", "###", "### a", "1 // {enum: @", "{\n\n", "\"", "\"\\", "\"\\u", "-", "1.", "1e", "[1,", "{\"a\"", "{\"a\":", "tru", "nul", "/*", "1 /*", "1 /* {", "1 // {or: [", "1 // {or: [{",
			// numerals at the edges of what fits anywhere: long exponents, long mantissas, many leading zeros of the exponent
			"1e0000001", "1E+0000000001", "-0.0e-0000001", "1e99999", "1e-99999", "123456789012345678901234567890", "0." + strings.Repeat("0123456789", 30),
			"-" + strings.Repeat("9", 400), "1e" + strings.Repeat("0", 300) + "1",
			// a type shortcut with an or rule of JSON types (once accepted: Example then returned a bare error code)
			"[\n  @1 // {or:[\"integer\",\"float\"]}\n]", "@t // {or: [\"integer\", \"string\"]}", "{\n  \"k\": @t // {or: [\"null\"], optional: true}\n}",
			// exponents no memory can hold
			"1e9223372036854775807", "1e-9223372036854775807", "1e92233720368547758070", "-1.5E+4000000000", "1e2000000000", "1e-2000000000",
			// regex types the example generator cannot serve (empty classes)
			"/[^\\x00-\\x{10FFFF}]/", "/[^\\s\\S]/", "/a[^\\x00-\\x{10FFFF}]+b/",
			// lines longer than the excerpt of an error message, made of bytes that are not characters on their own
			strings.Repeat("\x80", 300), strings.Repeat("\u00e9", 150) + "x", "{\n" + strings.Repeat("\xbf", 260), strings.Repeat("a", 198) + "\u20ac" + strings.Repeat("b", 50)} {
			try(t)
		}
		// files without names: an error in a property inherited through allOf still lies in the text of the type it was written in
		emit(classify("unnamed-files.Check;render", "@child inheriting x: 5 // {min: 10} at offset 56", map[string]int{"": 70}, func() error {
			r := jschema.New("", "@child")
			if e := r.AddType("@parent", jschema.New("", "{\n"+strings.Repeat(" ", 49)+"\"x\": 5 // {min: 10}\n}")); e != nil {
				return e
			}
			if e := r.AddType("@child", jschema.New("", "{} // {allOf: \"@parent\"}")); e != nil {
				return e
			}
			e := r.Check()
			if de, ok := e.(jerr.DocumentError); ok {
				_ = de.Line()
				_ = de.SourceSubString()
				if !strings.Contains(de.SourceSubString(), "min: 10") {
					return wrapNoRender{jerr.NewDocumentError(nil, jerr.Format(jerr.ErrGeneric, "the line shown is not the line of the error: "+de.SourceSubString()))}
				}
			}
			return e
		}))
		// files without names and an allOf rule that fails (parent missing, not an object, inheriting from itself): still library errors
		for _, parent := range []string{"", "[1]", "{ // {allOf: \"@base\"}\n  \"b\": 2\n}", "{\n  \"a\": 5\n}"} {
			parent := parent
			emit(classify("unnamed-files.allOf;Check", "{ // {allOf: \"@base\"} ...} with @base = "+parent, map[string]int{"": 40}, func() error {
				r := jschema.New("", "{ // {allOf: \"@base\"}\n  \"a\": 1\n}")
				if parent != "" {
					if e := r.AddType("@base", jschema.New("", parent)); e != nil {
						return e
					}
				}
				return r.Check()
			}))
		}
		// a required reference cycle (the recursion error is a recorded finding: its witness is always part of the trace)
		emit(classify("recursion.Check", "@t0 with @t0 = @t0", map[string]int{"": 3, "root": 3, "@t0": 3}, func() error {
			r := jschema.New("root", "@t0")
			if e := r.AddType("@t0", jschema.New("@t0", "@t0")); e != nil {
				return e
			}
			return r.Check()
		}))
		if *corpus != "" {
			var files []string
			filepath.Walk(*corpus, func(p string, info os.FileInfo, err error) error {
				if err == nil && !info.IsDir() && info.Size() < 3000 {
					files = append(files, p)
				}
				return nil
			})
			sort.Strings(files)
			r.Shuffle(len(files), func(i, j int) { files[i], files[j] = files[j], files[i] })
			if len(files) > *maxFiles {
				files = files[:*maxFiles]
			}
			for _, p := range files {
				b, err := os.ReadFile(p)
				if err != nil {
					continue
				}
				off := r.Intn(*stride)
				for k := off; k <= len(b); k += *stride {
					try(string(b[:k]))
				}
				try(string(b))
			}
		}
		if *textsPath != "" {
			readLines(openIn(*textsPath), func(line []byte) {
				var t string
				if json.Unmarshal(line, &t) == nil {
					try(t)
				}
			})
		}
		if *casesPath != "" {
			var texts []string
			for _, path := range strings.Split(*casesPath, ",") {
				readLines(openIn(path), func(line []byte) {
					var c semCase
					if json.Unmarshal(line, &c) == nil {
						texts = append(texts, renderSchema(c.Schema).Text)
					}
				})
			}
			for i := 0; i < *nmut && len(texts) > 0; i++ {
				b := []byte(texts[r.Intn(len(texts))])
				for k := r.Intn(3); k >= 0 && len(b) > 0; k-- {
					p := r.Intn(len(b))
					switch r.Intn(5) {
					case 0:
						b[p] = mutAlpha[r.Intn(len(mutAlpha))]
					case 1:
						b = b[:p]
					case 2:
						b = append(b[:p], b[p+1:]...)
					case 3:
						c := insAlpha[r.Intn(len(insAlpha))]
						b = append(b[:p], append([]byte{c}, b[p:]...)...)
					case 4:
						q := p + r.Intn(len(b)-p)
						seg := append([]byte{}, b[p:q]...)
						b = append(b[:q], append(seg, b[q:]...)...)
					}
				}
				try(string(b))
			}
		}
		fmt.Fprintf(os.Stderr, "@@SUMMARY {\"calls\": %d, \"inputs\": %d}\n", n, len(seen))
		return 0
	})
}
