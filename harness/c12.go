//go:build hyield

package main

// C12: goroutines sharing schemas.
//  c12sched: replays a TLC schedule (Conc.tla) of two first compiles of roots that share an added type with an allOf
//            rule, using the scheduling points committed in the repository (internal/verifhook, build tag verif).
//  c12mix:   goroutine mixes on a shared schema, on private schemas and on schemas sharing type objects; every call's
//            result is compared with the sequential run; built with -race by the check, which reads the detector's report.

import (
	"bytes"
	"encoding/json"
	"flag"
	"fmt"
	"os"
	"runtime"
	"strconv"
	"strings"
	"sync"
	"time"

	jdoc "github.com/jsightapi/jsight-schema-go-library/formats/json"
	"github.com/jsightapi/jsight-schema-go-library/notations/jschema"
	"github.com/jsightapi/jsight-schema-go-library/rules/enum"
	"github.com/jsightapi/jsight-schema-go-library/verifhooks"
)

func goid() int {
	var buf [64]byte
	n := runtime.Stack(buf[:], false)
	f := strings.Fields(strings.TrimPrefix(string(buf[:n]), "goroutine "))
	id, _ := strconv.Atoi(f[0])
	return id
}

type gateSched struct {
	mu      sync.Mutex
	procOf  map[int]string           // goroutine id -> process name
	waiting map[string]chan struct{} // process -> channel it is blocked on
	at      map[string]string        // process -> label it is blocked at
	arrived chan string
}

func (g *gateSched) hook(point string) {
	g.mu.Lock()
	p, ok := g.procOf[goid()]
	if !ok {
		g.mu.Unlock()
		return
	}
	ch := make(chan struct{})
	g.waiting[p] = ch
	g.at[p] = point
	g.mu.Unlock()
	g.arrived <- p
	<-ch
}

func sharedAllOfRoots() (r1, r2 *jschema.Schema) {
	a := jschema.New("@A", "{\n  \"p\": 1\n}")
	c := jschema.New("@C", "{ // {allOf: \"@A\"}\n  \"q\": 2\n}")
	_ = c.AddType("@A", a)
	mk := func(name string) *jschema.Schema {
		r := jschema.New(name, "{\n  \"c\": @C\n}")
		_ = r.AddType("@A", a)
		_ = r.AddType("@C", c)
		return r
	}
	return mk("r1"), mk("r2")
}

// the root of the goroutine mixes: type references, an or rule of rule sets, an or shortcut, enum, regex, a key shortcut
const mixRootText = "{\n  \"a\": @T,\n  \"c\": @C, // {optional: true}\n  \"l\": [ // {optional: true}\n    @T\n  ],\n" +
	"  \"o\": 1, // {optional: true, or: [{type: \"integer\"}, {type: \"string\", maxLength: 3}]}\n  \"u\": @T | @A, // {optional: true}\n" +
	"  \"n\": @T, // {optional: true, nullable: true}\n  \"m\": @A | @T, // {optional: true, nullable: true}\n" +
	"  \"ee\": \"x\", // {optional: true, enum: @E}\n" +
	"  \"e\": \"x\", // {optional: true, enum: [\"x\", \"y\"]}\n  \"r\": \"ab\", // {optional: true, regex: \"^a\"}\n  @K: true // {optional: true}\n}"
const mixKeyText = "\"kk\" // {regex: \"^k\"}"

func init() {
	register("c12sched", func(args []string) int {
		fs := flag.NewFlagSet("c12sched", flag.ExitOnError)
		schedPath := fs.String("sched", "", "ndjson: one schedule per line: [[proc,label],...]")
		fs.Parse(args)
		w := newNDWriter("-")
		defer w.Close()
		// the sequential result
		s1, s2 := sharedAllOfRoots()
		seq := []string{errStr(s1.Check()), errStr(s2.Check())}
		readLines(openIn(*schedPath), func(line []byte) {
			var steps [][]string
			if err := json.Unmarshal(line, &steps); err != nil {
				fatal(err)
			}
			var sel [][]string
			for _, st := range steps {
				if strings.HasPrefix(st[1], "allof.") {
					sel = append(sel, st)
				}
			}
			r1, r2 := sharedAllOfRoots()
			g := &gateSched{procOf: map[int]string{}, waiting: map[string]chan struct{}{}, at: map[string]string{}, arrived: make(chan string, 16)}
			verifhooks.SetYield(g.hook)
			res := map[string]string{}
			done := make(chan string, 2)
			start := func(p string, r *jschema.Schema) {
				go func() {
					g.mu.Lock()
					g.procOf[goid()] = p
					g.mu.Unlock()
					e := errStr(r.Check())
					g.mu.Lock()
					res[p] = e
					delete(g.procOf, goid())
					g.mu.Unlock()
					done <- p
				}()
			}
			start("p1", r1)
			start("p2", r2)
			finished := map[string]bool{}
			blocked := map[string]bool{}
			waitFor := func(p string) bool { // until p is blocked at a gate or finished
				for !blocked[p] && !finished[p] {
					select {
					case q := <-g.arrived:
						blocked[q] = true
					case q := <-done:
						finished[q] = true
					case <-time.After(5 * time.Second):
						return false
					}
				}
				return true
			}
			followed := 0
			for _, st := range sel {
				p := st[0]
				if !waitFor(p) || finished[p] {
					break
				}
				// let p pass gates until it has passed the one the schedule names (the code yields at nodes the model does not have)
				for blocked[p] {
					g.mu.Lock()
					at := g.at[p]
					ch := g.waiting[p]
					g.mu.Unlock()
					blocked[p] = false
					close(ch)
					if at == st[1] {
						followed++
						break
					}
					if !waitFor(p) {
						break
					}
				}
				// p now runs until its next gate; wait for it so that the step is complete before the next one starts
				waitFor(p)
			}
			// release everybody
			verifhooks.SetYield(nil)
			for len(finished) < 2 {
				for _, p := range []string{"p1", "p2"} {
					if blocked[p] {
						g.mu.Lock()
						ch := g.waiting[p]
						g.mu.Unlock()
						blocked[p] = false
						close(ch)
					}
				}
				select {
				case q := <-g.arrived:
					blocked[q] = true
				case q := <-done:
					finished[q] = true
				case <-time.After(5 * time.Second):
					finished["p1"], finished["p2"] = true, true
				}
			}
			w.Write(map[string]interface{}{"schedule": sel, "followed": followed, "sequential": seq, "concurrent": []string{res["p1"], res["p2"]}})
		})
		return 0
	})

	register("c12mix", func(args []string) int {
		fs := flag.NewFlagSet("c12mix", flag.ExitOnError)
		rounds := fs.Int("rounds", 20, "rounds per scenario")
		scenario := fs.String("scenario", "shared", "shared | private | sharedtypes | sharedallof | typeobject")
		fs.Parse(args)
		r := newRand(12)
		type world struct {
			schemas []*jschema.Schema
		}
		docs := []string{`{"a": 1, "c": {"p": 1, "q": 2}}`, `{"a": -1}`, `{"a": 1}`, `[1]`, `{"a": 1, "c": {"p": 1}}`,
			`{"a": 1, "o": "abc", "u": {"p": 1}, "e": "y", "r": "ax", "kz": true}`, `{"a": 1, "o": "abcd"}`, `{"a": 1, "u": 7, "kz": 1}`, `{"a": 1, "n": null, "m": null}`, `{"a": 1, "n": 2, "m": {"p": 1}}`}
		// one enum rule object for all schemas of all goroutines (the private scenario too: a rule is a value the caller hands to many schemas)
		sharedRuleE := enum.New("@E", "[\n  \"x\", // the first \n  \"y\" // the second\t\n]")
		build := func() []*jschema.Schema {
			t := jschema.New("@T", "1 // {min: 0}")
			a := jschema.New("@A", "{\n  \"p\": 1\n}")
			var c *jschema.Schema
			if *scenario == "sharedallof" {
				c = jschema.New("@C", "{ // {allOf: \"@A\"}\n  \"q\": 2\n}")
				_ = c.AddType("@A", a)
			} else {
				c = jschema.New("@C", "{\n  \"p\": 1,\n  \"q\": 2\n}")
			}
			// one enum rule object (with comments) given to every schema of the round
			ruleE := sharedRuleE
			mk := func(name string) *jschema.Schema {
				s := jschema.New(name, mixRootText)
				_ = s.AddRule("@E", ruleE)
				_ = s.AddType("@T", t)
				_ = s.AddType("@A", a)
				_ = s.AddType("@C", c)
				_ = s.AddType("@K", jschema.New("@K", mixKeyText))
				return s
			}
			switch *scenario {
			case "typeobject":
				// a type object that has an added type and an or rule of its own is used directly (Check, Validate, ...) while roots that
				// were given it compile for the first time
				v := jschema.New("@V", "1 // {or: [{type: \"integer\"}, {type: \"string\", maxLength: 3}]}")
				u := jschema.New("@U", "{\n  \"v\": @V,\n  \"w\": @T\n}")
				_ = u.AddType("@T", t)
				_ = u.AddType("@V", v)
				mku := func(name string) *jschema.Schema {
					s := jschema.New(name, "{\n  \"a\": @T,\n  \"x\": @U // {optional: true}\n}")
					_ = s.AddType("@T", t)
					_ = s.AddType("@U", u)
					_ = s.AddType("@V", v)
					return s
				}
				return []*jschema.Schema{mku("s1"), u, mku("s2")}
			case "shared":
				return []*jschema.Schema{mk("s")}
			case "private":
				// every goroutine uses schemas built from its own type objects
				return nil
			default:
				return []*jschema.Schema{mk("s1"), mk("s2"), mk("s3")}
			}
		}
		call := func(s *jschema.Schema, k int) string {
			switch k % 7 {
			case 0:
				return errStr(s.Check())
			case 1, 2:
				return errStr(s.Validate(jdoc.New("d", docs[k%len(docs)])))
			case 3:
				l, err := s.Len()
				return fmt.Sprint(l, errStr(err))
			case 4:
				b, err := s.Example()
				return string(b) + errStr(err)
			case 5:
				a, err := s.GetAST()
				j, _ := json.Marshal(convAST(a))
				return string(j) + errStr(err)
			default:
				u, err := s.UsedUserTypes()
				return fmt.Sprint(u, errStr(err))
			}
		}
		// sequential oracle: the result of every call kind on freshly built objects
		oracle := map[string]string{}
		{
			ss := build()
			if ss == nil {
				*scenario = "sharedtypes"
				ss = build()[:1]
				*scenario = "private"
			}
			for si := range ss {
				for k := 0; k < 35; k++ {
					oracle[fmt.Sprintf("%d/%d", si%len(ss), k%35)] = call(ss[si], k)
				}
			}
		}
		var mu sync.Mutex
		diffs := 0
		var firstDiff string
		calls := 0
		for round := 0; round < *rounds; round++ {
			ss := build()
			ng := 2 + r.Intn(31)
			var wg sync.WaitGroup
			for gi := 0; gi < ng; gi++ {
				wg.Add(1)
				seedK := r.Intn(1000)
				go func(gi, seedK int) {
					defer wg.Done()
					defer func() {
						// a panic while a goroutine builds its own schemas (AddType loads the type): a result that differs from the sequential run
						if r := recover(); r != nil {
							mu.Lock()
							diffs++
							if firstDiff == "" {
								firstDiff = fmt.Sprint("PANIC while building the schemas of a goroutine: ", r)
							}
							mu.Unlock()
						}
					}()
					mine := ss
					if mine == nil { // private scenario: own objects, created and compiled concurrently with everybody else
						sc := *scenario
						_ = sc
						t := jschema.New("@T", "1 // {min: 0}")
						a := jschema.New("@A", "{\n  \"p\": 1\n}")
						c := jschema.New("@C", "{\n  \"p\": 1,\n  \"q\": 2\n}")
						s := jschema.New("s", mixRootText)
						_ = s.AddRule("@E", sharedRuleE)
						_ = s.AddType("@T", t)
						_ = s.AddType("@A", a)
						_ = s.AddType("@C", c)
						_ = s.AddType("@K", jschema.New("@K", mixKeyText))
						mine = []*jschema.Schema{s}
					}
					for i := 0; i < 12; i++ {
						k := (seedK + i*5) % 35
						si := (gi + i) % len(mine)
						got := func() (res string) {
							// a panic of a public call under concurrent use is a result like any other (it differs from the sequential one)
							defer func() {
								if r := recover(); r != nil {
									res = fmt.Sprint("PANIC: ", r)
								}
							}()
							return call(mine[si], k)
						}()
						if i%3 == 0 {
							runtime.Gosched()
						}
						want := oracle[fmt.Sprintf("%d/%d", si%len(mine), k)]
						mu.Lock()
						calls++
						if got != want {
							diffs++
							if firstDiff == "" {
								firstDiff = fmt.Sprintf("call %d on schema %d: sequential %q concurrent %q", k, si, want, got)
							}
						}
						mu.Unlock()
					}
				}(gi, seedK)
			}
			wg.Wait()
		}
		var buf bytes.Buffer
		json.NewEncoder(&buf).Encode(map[string]interface{}{"scenario": *scenario, "calls": calls, "diffs": diffs, "first_diff": firstDiff})
		fmt.Fprint(os.Stderr, "@@SUMMARY "+buf.String())
		return 0
	})
}
