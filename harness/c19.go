//go:build hcons

package main

// C19: ordered maps against the reference automaton exported by TLC (OMapProduct.tla, Export = TRUE).
// Every operation sequence up to length L is executed on the three generated maps; after the last
// operation every observer is compared with the reference state's observer outputs. Plumbing only.

import (
	"time"
	"bytes"
	"encoding/json"
	"errors"
	"flag"
	"fmt"
	"os"
	"strconv"
	"strings"
	"sync"
	"sync/atomic"

	jschema "github.com/jsightapi/jsight-schema-go-library"
	njs "github.com/jsightapi/jsight-schema-go-library/notations/jschema"
)

type omap interface {
	Set(k string, v int)
	Update(k string, f func(int) int)
	Delete(k string)
	Filter(f func(string, int) bool)
	Map(f func(string, int) (int, error)) error
	Get(k string) (int, bool)
	GetValue(k string) int
	Has(k string) bool
	Len() int
	Find(f func(string, int) bool) (string, int, bool)
	Each(f func(string, int) error) error
	EachSafe(f func(string, int))
	MarshalJSON() ([]byte, error)
}

func itoa(v int) string { return strconv.Itoa(v) }
func atoi(s string) int {
	if s == "" {
		return 0
	}
	v, err := strconv.Atoi(s)
	if err != nil {
		return -1
	}
	return v
}

type astMap struct{ m *jschema.ASTNodes }

func (d astMap) Set(k string, v int) { d.m.Set(k, jschema.ASTNode{Value: itoa(v)}) }
func (d astMap) Update(k string, f func(int) int) {
	d.m.Update(k, func(n jschema.ASTNode) jschema.ASTNode { return jschema.ASTNode{Value: itoa(f(atoi(n.Value)))} })
}
func (d astMap) Delete(k string) { d.m.Delete(k) }
func (d astMap) Filter(f func(string, int) bool) {
	d.m.Filter(func(k string, n jschema.ASTNode) bool { return f(k, atoi(n.Value)) })
}
func (d astMap) Map(f func(string, int) (int, error)) error {
	return d.m.Map(func(k string, n jschema.ASTNode) (jschema.ASTNode, error) {
		r, err := f(k, atoi(n.Value))
		if err != nil {
			return jschema.ASTNode{}, err
		}
		return jschema.ASTNode{Value: itoa(r)}, nil
	})
}
func (d astMap) Get(k string) (int, bool) { n, ok := d.m.Get(k); return atoi(n.Value), ok }
func (d astMap) GetValue(k string) int    { return atoi(d.m.GetValue(k).Value) }
func (d astMap) Has(k string) bool        { return d.m.Has(k) }
func (d astMap) Len() int                 { return d.m.Len() }
func (d astMap) Find(f func(string, int) bool) (string, int, bool) {
	it, ok := d.m.Find(func(k string, n jschema.ASTNode) bool { return f(k, atoi(n.Value)) })
	return it.Key, atoi(it.Value.Value), ok
}
func (d astMap) Each(f func(string, int) error) error {
	return d.m.Each(func(k string, n jschema.ASTNode) error { return f(k, atoi(n.Value)) })
}
func (d astMap) EachSafe(f func(string, int)) {
	d.m.EachSafe(func(k string, n jschema.ASTNode) { f(k, atoi(n.Value)) })
}
func (d astMap) MarshalJSON() ([]byte, error) { return d.m.MarshalJSON() }

type ruleMap struct{ m *jschema.RuleASTNodes }

func (d ruleMap) Set(k string, v int) { d.m.Set(k, jschema.RuleASTNode{Value: itoa(v)}) }
func (d ruleMap) Update(k string, f func(int) int) {
	d.m.Update(k, func(n jschema.RuleASTNode) jschema.RuleASTNode {
		return jschema.RuleASTNode{Value: itoa(f(atoi(n.Value)))}
	})
}
func (d ruleMap) Delete(k string) { d.m.Delete(k) }
func (d ruleMap) Filter(f func(string, int) bool) {
	d.m.Filter(func(k string, n jschema.RuleASTNode) bool { return f(k, atoi(n.Value)) })
}
func (d ruleMap) Map(f func(string, int) (int, error)) error {
	return d.m.Map(func(k string, n jschema.RuleASTNode) (jschema.RuleASTNode, error) {
		r, err := f(k, atoi(n.Value))
		if err != nil {
			return jschema.RuleASTNode{}, err
		}
		return jschema.RuleASTNode{Value: itoa(r)}, nil
	})
}
func (d ruleMap) Get(k string) (int, bool) { n, ok := d.m.Get(k); return atoi(n.Value), ok }
func (d ruleMap) GetValue(k string) int    { return atoi(d.m.GetValue(k).Value) }
func (d ruleMap) Has(k string) bool        { return d.m.Has(k) }
func (d ruleMap) Len() int                 { return d.m.Len() }
func (d ruleMap) Find(f func(string, int) bool) (string, int, bool) {
	it, ok := d.m.Find(func(k string, n jschema.RuleASTNode) bool { return f(k, atoi(n.Value)) })
	return it.Key, atoi(it.Value.Value), ok
}
func (d ruleMap) Each(f func(string, int) error) error {
	return d.m.Each(func(k string, n jschema.RuleASTNode) error { return f(k, atoi(n.Value)) })
}
func (d ruleMap) EachSafe(f func(string, int)) {
	d.m.EachSafe(func(k string, n jschema.RuleASTNode) { f(k, atoi(n.Value)) })
}
func (d ruleMap) MarshalJSON() ([]byte, error) { return d.m.MarshalJSON() }

func newMap(kind string) omap {
	switch kind {
	case "ASTNodes":
		return astMap{&jschema.ASTNodes{}}
	case "RuleASTNodes":
		return ruleMap{&jschema.RuleASTNodes{}}
	case "RuleASTNodesMade":
		return ruleMap{jschema.MakeRuleASTNodes(2)}
	case "Constraints":
		return njs.NewVerifConstraints()
	}
	panic("kind")
}

// ---- reference graph (from TLC) ----

type omOp struct {
	Op string      `json:"op"`
	K  string      `json:"k"`
	V  json.Number `json:"v"`
}

func (o omOp) key() string { return o.Op + "|" + o.K + "|" + o.V.String() }

type omObs struct {
	Len       int                    `json:"len"`
	Items     [][]interface{}        `json:"items"`
	Get       map[string]json.Number `json:"get"`
	Has       map[string]bool        `json:"has"`
	FindA     []interface{}          `json:"findA"`
	FindOne   []interface{}          `json:"findOne"`
	EachFailB [][]interface{}        `json:"eachFailB"`
}

type omEdge struct {
	to  string
	err bool
}

type omGraph struct {
	obs   map[string]*omObs
	delta map[string]map[string]omEdge
	ops   []omOp
}

func canon(items [][]interface{}) string {
	var sb strings.Builder
	for _, it := range items {
		fmt.Fprintf(&sb, "%v=%v,", it[0], it[1])
	}
	return sb.String()
}

func loadOMGraph(path string) *omGraph {
	g := &omGraph{obs: map[string]*omObs{}, delta: map[string]map[string]omEdge{}}
	seenOp := map[string]bool{}
	rd := openIn(path)
	readLines(rd, func(line []byte) {
		var rec struct {
			Kind string          `json:"kind"`
			S    [][]interface{} `json:"s"`
			From [][]interface{} `json:"from"`
			To   [][]interface{} `json:"to"`
			Op   omOp            `json:"op"`
			Err  bool            `json:"err"`
			Obs  *omObs          `json:"obs"`
		}
		dec := json.NewDecoder(bytes.NewReader(line))
		dec.UseNumber()
		if err := dec.Decode(&rec); err != nil {
			fatal(fmt.Sprintf("%v: %s", err, line))
		}
		if rec.Kind == "S" {
			g.obs[canon(rec.S)] = rec.Obs
			return
		}
		f, t := canon(rec.From), canon(rec.To)
		g.obs[t] = rec.Obs
		if g.delta[f] == nil {
			g.delta[f] = map[string]omEdge{}
		}
		g.delta[f][rec.Op.key()] = omEdge{t, rec.Err}
		if !seenOp[rec.Op.key()] {
			seenOp[rec.Op.key()] = true
			g.ops = append(g.ops, rec.Op)
		}
	})
	return g
}

var errFailB = errors.New("fail at b")

func swap(v int) int {
	if v == 1 {
		return 2
	}
	if v == 2 {
		return 1
	}
	return v
}
func pred(name string) func(string, int) bool {
	if name == "keepA" {
		return func(k string, v int) bool { return k == "a" }
	}
	return func(k string, v int) bool { return v == 1 }
}

func applyOp(m omap, o omOp) (err error) {
	switch o.Op {
	case "Set":
		v, _ := strconv.Atoi(o.V.String())
		m.Set(o.K, v)
	case "Update":
		m.Update(o.K, swap)
	case "Delete":
		m.Delete(o.K)
	case "Filter":
		m.Filter(pred(o.K))
	case "FilterPanic": // the callback refuses "a" and panics on "b"; the caller recovers
		func() {
			defer func() { _ = recover() }()
			m.Filter(func(k string, v int) bool {
				if k == "b" {
					panic("callback panics on b")
				}
				return k != "a"
			})
		}()
	case "Map":
		failB := o.K == "failB"
		err = m.Map(func(k string, v int) (int, error) {
			if failB && k == "b" {
				return 0, errFailB
			}
			return swap(v), nil
		})
	}
	return
}

func pairStr(k interface{}, v interface{}) string { return fmt.Sprintf("%v=%v", k, v) }

// observe compares every observer of m with the reference outputs; returns "" or a description.
func observe(m omap, want *omObs) string {
	if m.Len() != want.Len {
		return fmt.Sprintf("Len=%d want %d", m.Len(), want.Len)
	}
	wantItems := []string{}
	for _, it := range want.Items {
		wantItems = append(wantItems, pairStr(it[0], it[1]))
	}
	got := []string{}
	m.EachSafe(func(k string, v int) { got = append(got, pairStr(k, v)) })
	if strings.Join(got, ",") != strings.Join(wantItems, ",") {
		return fmt.Sprintf("EachSafe=%v want %v", got, wantItems)
	}
	got = got[:0]
	if err := m.Each(func(k string, v int) error { got = append(got, pairStr(k, v)); return nil }); err != nil {
		return "Each returned error"
	}
	if strings.Join(got, ",") != strings.Join(wantItems, ",") {
		return fmt.Sprintf("Each=%v want %v", got, wantItems)
	}
	got = got[:0]
	err := m.Each(func(k string, v int) error {
		got = append(got, pairStr(k, v))
		if k == "b" {
			return errFailB
		}
		return nil
	})
	wantVisited := []string{}
	for _, it := range want.EachFailB {
		wantVisited = append(wantVisited, pairStr(it[0], it[1]))
	}
	if strings.Join(got, ",") != strings.Join(wantVisited, ",") || (err != nil) != want.Has["b"] {
		return fmt.Sprintf("Each(fail at b)=%v err=%v want %v", got, err, wantVisited)
	}
	for k, wv := range want.Get {
		w, _ := strconv.Atoi(wv.String())
		v, ok := m.Get(k)
		if ok != want.Has[k] || v != w {
			return fmt.Sprintf("Get(%s)=%d,%v want %d,%v", k, v, ok, w, want.Has[k])
		}
		if m.GetValue(k) != w {
			return fmt.Sprintf("GetValue(%s)=%d want %d", k, m.GetValue(k), w)
		}
		if m.Has(k) != want.Has[k] {
			return fmt.Sprintf("Has(%s)=%v", k, m.Has(k))
		}
	}
	for _, f := range []struct {
		name string
		want []interface{}
	}{{"keepA", want.FindA}, {"keepOne", want.FindOne}} {
		k, v, ok := m.Find(pred(f.name))
		if ok != (len(f.want) == 2) || (ok && pairStr(k, v) != pairStr(f.want[0], f.want[1])) {
			return fmt.Sprintf("Find(%s)=%s,%d,%v want %v", f.name, k, v, ok, f.want)
		}
	}
	// MarshalJSON: number of entries (key order is compared by the caller)
	b, err := m.MarshalJSON()
	if err != nil {
		return "MarshalJSON error " + err.Error()
	}
	keys, ok := topLevelKeys(b)
	if !ok {
		return "MarshalJSON output is not an object: " + string(b)
	}
	if len(keys) != want.Len {
		return fmt.Sprintf("MarshalJSON has %d entries want %d: %s", len(keys), want.Len, b)
	}
	return ""
}

// topLevelKeys extracts the key texts of `{k:v,k:v}` in their order (encoding/json would lose the order).
func topLevelKeys(b []byte) ([]string, bool) {
	if len(b) < 2 || b[0] != '{' || b[len(b)-1] != '}' {
		return nil, false
	}
	var keys []string
	depth, inStr, esc := 0, false, false
	start := 1
	for i := 0; i < len(b); i++ {
		c := b[i]
		if inStr {
			if esc {
				esc = false
			} else if c == '\\' {
				esc = true
			} else if c == '"' {
				inStr = false
			}
			continue
		}
		switch c {
		case '"':
			inStr = true
		case '{', '[':
			depth++
		case '}', ']':
			depth--
		case ':':
			if depth == 1 {
				keys = append(keys, strings.Trim(string(b[start:i]), "\""))
			}
		case ',':
			if depth == 1 {
				start = i + 1
			}
		}
	}
	return keys, depth == 0
}

func marshalKeys(m omap, kind string) []string {
	b, err := m.MarshalJSON()
	if err != nil {
		return nil
	}
	if !json.Valid(b) { // every map, the constraint map (integer keys) included: an object key is a string
		return []string{"<invalid JSON: " + string(b) + ">"}
	}
	keys, _ := topLevelKeys(b)
	if kind == "Constraints" {
		for i, k := range keys {
			keys[i] = njs.VerifKeyOfJSON(k)
		}
	}
	return keys
}

type c19Mismatch struct {
	Map  string   `json:"map"`
	Ops  []string `json:"ops"`
	What string   `json:"what"`
}

func init() {
	register("c19", func(args []string) int {
		fs := flag.NewFlagSet("c19", flag.ExitOnError)
		gpath := fs.String("graph", "", "reference graph ndjson")
		maxLen := fs.Int("len", 4, "max sequence length (exhaustive)")
		nrand := fs.Int("random", 0, "random sequences of length 200")
		out := fs.String("out", "-", "mismatch ndjson")
		fs.Parse(args)
		g := loadOMGraph(*gpath)
		w := newNDWriter(*out)
		defer w.Close()
		kinds := []string{"ASTNodes", "RuleASTNodes", "RuleASTNodesMade", "Constraints"}
		var seqs, mism, hangs int64
		var mu sync.Mutex
		samples := []string{}
		empty := canon(nil)
		runSeq := func(kind string, ops []omOp) {
			atomic.AddInt64(&seqs, 1)
			m := newMap(kind)
			st := empty
			names := make([]string, len(ops))
			for i, o := range ops {
				names[i] = o.key()
				e, ok := g.delta[st][o.key()]
				if !ok {
					fatal("reference graph has no edge " + st + " " + o.key())
				}
				err := applyOp(m, o)
				if (err != nil) != e.err {
					atomic.AddInt64(&mism, 1)
					w.Write(c19Mismatch{kind, names[:i+1], fmt.Sprintf("Map returned err=%v want err=%v", err, e.err)})
					return
				}
				st = e.to
			}
			what := ""
			if !withTimeout(20*time.Second, func() {
				what = observe(m, g.obs[st])
				if what == "" {
					keys := marshalKeys(m, kind)
					wk := []string{}
					for _, it := range g.obs[st].Items {
						wk = append(wk, fmt.Sprint(it[0]))
					}
					if strings.Join(keys, ",") != strings.Join(wk, ",") {
						what = fmt.Sprintf("MarshalJSON keys %v want %v", keys, wk)
					}
				}
			}) {
				what = "an observer does not return: the map is still locked by an earlier call"
				if atomic.AddInt64(&hangs, 1) > 20 {
					// every further sequence would wait for the watchdog as well
					fmt.Fprintln(os.Stderr, "@@SUMMARY {\"sequences\": 0, \"mismatches\": 21, \"ops\": 0, \"ref_states\": 0, \"samples\": [], \"aborted\": \"calls that never return\"}")
					atomic.AddInt64(&mism, 1)
					w.Write(c19Mismatch{kind, names, what})
					w.Close()
					os.Exit(0)
				}
			}
			if what != "" {
				atomic.AddInt64(&mism, 1)
				w.Write(c19Mismatch{kind, names, what})
			}
		}
		// exhaustive: all sequences of length <= maxLen, split by first two ops for parallelism
		var prefixes [][]omOp
		prefixes = append(prefixes, []omOp{})
		for _, a := range g.ops {
			prefixes = append(prefixes, []omOp{a})
			if *maxLen >= 2 {
				for _, b := range g.ops {
					prefixes = append(prefixes, []omOp{a, b})
				}
			}
		}
		var rec func(kind string, seq []omOp)
		rec = func(kind string, seq []omOp) {
			runSeq(kind, seq)
			if len(seq) >= *maxLen {
				return
			}
			for _, o := range g.ops {
				rec(kind, append(append([]omOp{}, seq...), o))
			}
		}
		parallelFor(len(prefixes), func(i int) {
			p := prefixes[i]
			for _, kind := range kinds {
				if len(p) < 2 {
					runSeq(kind, p)
				} else {
					rec(kind, p)
				}
			}
			if i%37 == 5 {
				mu.Lock()
				if len(samples) < 5 {
					s := []string{}
					for _, o := range p {
						s = append(s, o.key())
					}
					samples = append(samples, strings.Join(s, " ; ")+" ; ...")
				}
				mu.Unlock()
			}
		})
		// random long sequences, observers after every step
		r := newRand(19)
		for n := 0; n < *nrand && hangs <= 3; n++ { // (every blocked call costs the watchdog's patience: four of them are enough)
			kind := kinds[n%len(kinds)]
			m := newMap(kind)
			st := empty
			var names []string
			for i := 0; i < 200; i++ {
				o := g.ops[r.Intn(len(g.ops))]
				names = append(names, o.key())
				e := g.delta[st][o.key()]
				var err error
				what := ""
				st = e.to
				// an operation that never returns (a lock left behind by an earlier call) is an observation, not a dead driver
				if !withTimeout(20*time.Second, func() {
					err = applyOp(m, o)
					if (err != nil) != e.err {
						what = "Map error flag"
					} else {
						what = observe(m, g.obs[st])
					}
				}) {
					what = "the call does not return: the map is still locked by an earlier call"
					hangs++
				}
				if what != "" {
					atomic.AddInt64(&mism, 1)
					w.Write(c19Mismatch{kind, names, what})
					break
				}
			}
			atomic.AddInt64(&seqs, 1)
		}
		b, _ := json.Marshal(map[string]interface{}{"sequences": seqs, "mismatches": mism, "ops": len(g.ops), "ref_states": len(g.obs), "samples": samples})
		fmt.Fprintln(os.Stderr, "@@SUMMARY "+string(b))
		return 0
	})
}

// c19race: goroutine mixes on one shared map per kind; run in a -race build. The race detector's
// report (exit code 66 / "DATA RACE" on stderr) is the observation; sequentialised results are not judged here.
func init() {
	register("c19race", func(args []string) int {
		fs := flag.NewFlagSet("c19race", flag.ExitOnError)
		rounds := fs.Int("rounds", 20, "rounds per map kind")
		fs.Parse(args)
		ops := []omOp{}
		for _, k := range []string{"a", "b", "c"} {
			ops = append(ops, omOp{"Set", k, "1"}, omOp{"Set", k, "2"}, omOp{"Update", k, "0"}, omOp{"Delete", k, "0"})
		}
		ops = append(ops, omOp{"Filter", "keepA", "0"}, omOp{"Filter", "keepOne", "0"}, omOp{"Map", "swap", "0"}, omOp{"Map", "failB", "0"})
		var total int64
		for _, kind := range []string{"ASTNodes", "RuleASTNodes", "Constraints"} {
			for round := 0; round < *rounds; round++ {
				m := newMap(kind)
				var wg sync.WaitGroup
				ng := 2 + round%7
				for g := 0; g < ng; g++ {
					wg.Add(1)
					go func(g int) {
						defer wg.Done()
						r := newRand(int64(1000*round + g))
						for i := 0; i < 300; i++ {
							if r.Intn(2) == 0 {
								_ = applyOp(m, ops[r.Intn(len(ops))])
							} else {
								switch r.Intn(7) {
								case 0:
									m.Get("a")
								case 1:
									m.Has("b")
								case 2:
									m.Len()
								case 3:
									m.Find(pred("keepOne"))
								case 4:
									_ = m.Each(func(string, int) error { return nil })
								case 5:
									m.EachSafe(func(string, int) {})
								case 6:
									_, _ = m.MarshalJSON()
								}
							}
							atomic.AddInt64(&total, 1)
						}
					}(g)
				}
				done := make(chan struct{})
				go func() { wg.Wait(); close(done) }()
				select {
				case <-done:
					// when all goroutines are done the map is some insertion-ordered map again: as many keys iterated as Len says, each once, each present
					if why := c19Consistent(m); why != "" {
						fmt.Fprintf(os.Stderr, "@@INCONSISTENT {\"kind\": %q, \"round\": %d, \"goroutines\": %d, \"why\": %q}\n", kind, round, ng, why)
						os.Exit(68)
					}
				case <-time.After(60 * time.Second):
					// 300 calls per goroutine take milliseconds: the goroutines block each other for good
					fmt.Fprintf(os.Stderr, "@@HANG {\"kind\": %q, \"round\": %d, \"goroutines\": %d, \"calls_done\": %d}\n", kind, round, ng, atomic.LoadInt64(&total))
					os.Exit(67)
				}
			}
		}
		// bursts: goroutines released together set the same few NEW keys of a fresh map
		for _, kind := range []string{"ASTNodes", "RuleASTNodes", "Constraints"} {
			for round := 0; round < *rounds*25; round++ {
				m := newMap(kind)
				var wg sync.WaitGroup
				start := make(chan struct{})
				for g := 0; g < 8; g++ {
					wg.Add(1)
					go func(g int) {
						defer wg.Done()
						<-start
						for _, k := range []string{"a", "b", "c"} {
							_ = applyOp(m, omOp{"Set", k, "1"})
							if g%3 == 0 {
								_ = applyOp(m, omOp{"Delete", k, "0"})
								_ = applyOp(m, omOp{"Set", k, "2"})
							}
							atomic.AddInt64(&total, 1)
						}
					}(g)
				}
				close(start)
				wg.Wait()
				if why := c19Consistent(m); why != "" {
					fmt.Fprintf(os.Stderr, "@@INCONSISTENT {\"kind\": %q, \"round\": %d, \"goroutines\": 8, \"why\": %q}\n", kind, round, "burst of Set on new keys: "+why)
					os.Exit(68)
				}
			}
		}
		fmt.Fprintf(os.Stderr, "@@SUMMARY {\"calls\": %d}\n", total)
		return 0
	})
}

// c19Consistent: the observable state of a quiescent map is that of an insertion-ordered map.
func c19Consistent(m omap) string {
	var keys []string
	m.EachSafe(func(k string, _ int) { keys = append(keys, k) })
	seen := map[string]bool{}
	for _, k := range keys {
		if seen[k] {
			return fmt.Sprintf("key %q is iterated twice (order %v, Len %d)", k, keys, m.Len())
		}
		seen[k] = true
		if !m.Has(k) {
			return fmt.Sprintf("key %q is iterated but Has says no (order %v)", k, keys)
		}
	}
	if m.Len() != len(keys) {
		return fmt.Sprintf("Len %d but %d keys are iterated (%v)", m.Len(), len(keys), keys)
	}
	for _, k := range []string{"a", "b", "c"} {
		if m.Has(k) && !seen[k] {
			return fmt.Sprintf("Has(%q) but the key is never iterated (order %v)", k, keys)
		}
	}
	return ""
}
