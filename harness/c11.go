package main

// C11: history independence. TLC (Life.tla) enumerates the histories and the expectation of each step; this file
// replays each history on one shared set of objects and compares every result with the same call on freshly built
// objects ("fresh"), with the lexeme TLC computed ("event") or with the terminal outcome; values handed out earlier
// are re-read at the end of the history.

import (
	"encoding/hex"
	"encoding/json"
	"errors"
	"flag"
	"fmt"
	"io"
	"os"
	"sync/atomic"

	jlib "github.com/jsightapi/jsight-schema-go-library"
	jdoc "github.com/jsightapi/jsight-schema-go-library/formats/json"
	"github.com/jsightapi/jsight-schema-go-library/notations/jschema"
	"github.com/jsightapi/jsight-schema-go-library/notations/regex"
	"github.com/jsightapi/jsight-schema-go-library/rules/enum"
)

type lifeOp struct {
	Op  string `json:"op"`
	Obj string `json:"obj"`
	Arg string `json:"arg"`
}

type lifeStep struct {
	O    lifeOp `json:"o"`
	Want struct {
		Kind string `json:"kind"`
		K    int    `json:"k"`
		Ev   *Event  `json:"ev"`
		Evs  []Event `json:"evs"`
		Term string  `json:"term"`
	} `json:"want"`
	Dev bool `json:"dev"` // the I layer predicts a deviation from the fresh result here (known finding)
}

type lifeWorld struct {
	schemas map[string]*jschema.Schema
	docs    map[string]jlib.Document
	en      *enum.Enum
	re      *regex.Schema
}

var lifeDocText = map[string]string{}

var freshDocText = map[string]string{"d1": `{"a": 1, "c": 3, "abc": 2}`, "d2": `{"a": 1}`, "d3": `{"a": `, "d4": `{"c": 3}`,
	"d5": `{"it": {"id": 5}}`, "d6": `{"it": {"id": 5, "name": "x"}}`, "d7": `{"a": 1}`, "d8": `{"a": 1, "b": 2}`, "d9": `{}`, "d10": `{"x": {}}`, "d11": `{"user": {"id": 5}}`, "d12": `{"user": {"id": 0}}`}

func newLifeWorld() *lifeWorld { return newLifeWorldP(false) }

// private: every root gets type objects of its own (the same texts) - what "the same call on freshly built objects" means for a root whose
// type objects are shared with another root in the world under test.
func newLifeWorldP(private bool) *lifeWorld {
	w := &lifeWorld{schemas: map[string]*jschema.Schema{}, docs: map[string]jlib.Document{}}
	mk := func(name, text string, types map[string]string) *jschema.Schema {
		s := jschema.New(name, text)
		for n, t := range types {
			_ = s.AddType(n, jschema.New(n, t))
		}
		return s
	}
	w.schemas["s1"] = mk("s1", "{\n  \"a\": @T,\n  \"c\": 3,\n  \"b\": [ // {optional: true}\n    1\n  ],\n  \"abc\": 2 // {optional: true}\n} # the end", map[string]string{"@T": "1 // {min: 0}"})
	w.schemas["s0"] = mk("s0", "{\n  \"a\": // a note left behind\n ]", nil)
	w.schemas["s2"] = mk("s2", "{\n  \"a\": 1 // {min: 5}\n} ### the end ###", nil)
	w.schemas["s3"] = mk("s3", "{\n  \"a\": 1,\n  \"r\": @Rec // {optional: true}\n}", map[string]string{"@Rec": "{\n  \"r\": @Rec, // {optional: true}\n  \"x\": 1\n}"})
	w.schemas["s4"] = mk("s4", "{\n  @K: 1, // {optional: true}\n  @K2: 2, // {optional: true}\n  \"a\": 1 // {optional: true}\n}",
		map[string]string{"@K": "\"abc\" // {regex: \"^ab\"}", "@K2": "\"abc\" // {minLength: 3}"})
	// two roots that were given the same user-type object; only s6 got the type @item inherits from, so s5 fails to compile
	shared := func(name, text string) func() *jschema.Schema {
		one := jschema.New(name, text)
		return func() *jschema.Schema {
			if private {
				return jschema.New(name, text)
			}
			return one
		}
	}
	item := shared("@item", "{ // {allOf: \"@base\"}\n  \"id\": 1\n}")
	w.schemas["s5"] = jschema.New("s5", "{\n  \"it\": @item\n}")
	_ = w.schemas["s5"].AddType("@item", item())
	w.schemas["s6"] = jschema.New("s6", "{\n  \"it\": @item\n}")
	_ = w.schemas["s6"].AddType("@item", item())
	_ = w.schemas["s6"].AddType("@base", jschema.New("@base", "{\n  \"name\": \"abc\"\n}"))
	// the parents of an allOf rule shared between a root that only names one of them and a root that inherits from both
	pa := shared("@A", "{\n  \"a\": 1\n}")
	pb := shared("@B", "{\n  \"b\": 2\n}")
	w.schemas["s7"] = jschema.New("s7", "@A")
	_ = w.schemas["s7"].AddType("@A", pa())
	w.schemas["s8"] = jschema.New("s8", "{ // {allOf: [\"@A\", \"@B\"]}\n}")
	_ = w.schemas["s8"].AddType("@A", pa())
	_ = w.schemas["s8"].AddType("@B", pb())
	// one type object under a root with KeysAreOptionalByDefault and under a root without it
	pt := shared("@t", "{\n  \"id\": 1\n}")
	w.schemas["s9"] = jschema.New("s9", "{\n  \"x\": @t\n}", jschema.KeysAreOptionalByDefault())
	_ = w.schemas["s9"].AddType("@t", pt())
	w.schemas["s10"] = jschema.New("s10", "@t")
	_ = w.schemas["s10"].AddType("@t", pt())
	// one type object that refers to @id, under a root that has @id and under a root that lacks it
	pu := shared("@user", "{\n  \"id\": @id\n}")
	w.schemas["s11"] = jschema.New("s11", "{\n  \"user\": @user\n}")
	_ = w.schemas["s11"].AddType("@user", pu())
	_ = w.schemas["s11"].AddType("@id", jschema.New("@id", "1 // {min: 1}"))
	w.schemas["s12"] = jschema.New("s12", "{\n  \"user\": @user\n}")
	_ = w.schemas["s12"].AddType("@user", pu())
	for _, x := range []string{"x1", "x2", "x3"} {
		w.docs[x] = jdoc.New(x, lifeDocText[x])
	}
	w.en = enum.New("@e", "[1, \"a\", null] // c")
	w.re = regex.New("@r", "/[a-c]{4}b+[x-z]/")
	return w
}

func errStr(err error) string {
	if err == nil {
		return "ok"
	}
	o := outcomeOf(err)
	return fmt.Sprintf("%s/%d/%d/%s/%s/%s", o.Kind, o.Code, o.Pos, o.Msg, o.File, o.IUT)
}

// doLife performs one operation and returns a canonical result string plus a handle to re-read later (may be nil).
func doLife(w *lifeWorld, o lifeOp) (res string, reread func() string) {
	defer func() {
		if r := recover(); r != nil {
			res = fmt.Sprint("PANIC ", r)
		}
	}()
	switch o.Op {
	case "check":
		return errStr(w.schemas[o.Obj].Check()), nil
	case "len":
		l, err := w.schemas[o.Obj].Len()
		return fmt.Sprintf("%d %s", l, errStr(err)), nil
	case "example":
		b, err := w.schemas[o.Obj].Example()
		return fmt.Sprintf("%s %s", b, errStr(err)), func() string { return string(b) }
	case "getast":
		a, err := w.schemas[o.Obj].GetAST()
		j, _ := json.Marshal(convAST(a))
		return fmt.Sprintf("%s %s", j, errStr(err)), func() string { j2, _ := json.Marshal(convAST(a)); return string(j2) }
	case "used":
		u, err := w.schemas[o.Obj].UsedUserTypes()
		return fmt.Sprintf("%v %s", u, errStr(err)), func() string { return fmt.Sprint(u) }
	case "validate":
		return errStr(w.schemas[o.Obj].Validate(jdoc.New(o.Arg, freshDocText[o.Arg]))), nil
	case "dvalidate":
		return errStr(w.schemas[o.Obj].Validate(w.docs[o.Arg])), nil
	case "dcheck":
		return errStr(w.docs[o.Obj].Check()), nil
	case "dlen":
		l, err := w.docs[o.Obj].Len()
		return fmt.Sprintf("%d %s", l, errStr(err)), nil
	case "dnext":
		lex, err := w.docs[o.Obj].NextLexeme()
		if err != nil {
			if errors.Is(err, io.EOF) {
				return "eof", nil
			}
			return "error " + errStr(err), nil
		}
		return fmt.Sprintf("event %s %d %d", lex.Type(), lex.Begin(), lex.End()), nil
	case "ddrain":
		out := "drain"
		for i := 0; i < 1000; i++ {
			lex, err := w.docs[o.Obj].NextLexeme()
			if err != nil {
				if errors.Is(err, io.EOF) {
					return out + " eof", nil
				}
				return out + " error", nil
			}
			out += fmt.Sprintf(" %s:%d:%d", lex.Type(), lex.Begin(), lex.End())
		}
		return out + " endless", nil
	case "echeck":
		return errStr(w.en.Check()), nil
	case "evalues":
		v, err := w.en.Values()
		s := ""
		for _, x := range v {
			s += fmt.Sprintf("[%s|%s|%s]", x.Value, x.Type, x.Comment)
		}
		return s + " " + errStr(err), func() string {
			s2 := ""
			for _, x := range v {
				s2 += fmt.Sprintf("[%s|%s|%s]", x.Value, x.Type, x.Comment)
			}
			return s2
		}
	case "east":
		a, err := w.en.GetAST()
		j, _ := json.Marshal(convAST(a))
		return fmt.Sprintf("%s %s", j, errStr(err)), nil
	case "elen":
		l, err := w.en.Len()
		return fmt.Sprintf("%d %s", l, errStr(err)), nil
	case "rpattern":
		p, err := w.re.Pattern()
		return p + " " + errStr(err), nil
	case "rexample":
		b, err := w.re.Example()
		return fmt.Sprintf("%s %s", b, errStr(err)), func() string { return string(b) }
	case "rlen":
		l, err := w.re.Len()
		return fmt.Sprintf("%d %s", l, errStr(err)), nil
	}
	return "unknown op " + o.Op, nil
}

func init() {
	register("c11replay", func(args []string) int {
		fs := flag.NewFlagSet("c11replay", flag.ExitOnError)
		casesPath := fs.String("cases", "", "histories from TLC")
		docsPath := fs.String("docs", "", "the @@DOCS line of Life.tla")
		out := fs.String("out", "-", "mismatches")
		fs.Parse(args)
		var dd struct {
			Toks map[string][]tokH   `json:"toks"`
			Tail map[string]string   `json:"tail"`
			Term map[string]string   `json:"terminal"`
		}
		b, err := os.ReadFile(*docsPath)
		if err != nil || json.Unmarshal(b, &dd) != nil {
			fatal("bad docs file")
		}
		for x, toks := range dd.Toks {
			var text []byte
			for _, t := range toks {
				hb, _ := hex.DecodeString(t.H)
				text = append(text, hb...)
			}
			tb, _ := hex.DecodeString(dd.Tail[x])
			lifeDocText[x] = string(append(text, tb...))
		}
		type hist struct {
			History []lifeStep `json:"history"`
		}
		var hs []hist
		readLines(openIn(*casesPath), func(line []byte) {
			var h hist
			if err := json.Unmarshal(line, &h); err != nil {
				fatal(fmt.Sprintf("%v in %.300s", err, line))
			}
			hs = append(hs, h)
		})
		w := newNDWriter(*out)
		defer w.Close()
		// sanity of the fixed objects: s1, s3, s4 are valid schemas, s2 is not
		{
			sw := newLifeWorld()
			for _, n := range []string{"s1", "s3", "s4"} {
				if err := sw.schemas[n].Check(); err != nil {
					fatal("fixture " + n + " is not a valid schema: " + err.Error())
				}
			}
			if sw.schemas["s2"].Check() == nil {
				fatal("fixture s2 should be rejected by Check")
			}
			if err := newLifeWorld().schemas["s6"].Check(); err != nil {
				fatal("fixture s6 is not a valid schema: " + err.Error())
			}
			if newLifeWorld().schemas["s5"].Check() == nil {
				fatal("fixture s5 should be rejected by Check")
			}
			for _, n := range []string{"s7", "s8", "s9", "s10"} {
				if err := newLifeWorld().schemas[n].Check(); err != nil {
					fatal("fixture " + n + " is not a valid schema: " + err.Error())
				}
			}
		}
		// the same call on freshly built objects, computed once per operation instance
		fresh := map[lifeOp]string{}
		for _, h := range hs {
			for _, st := range h.History {
				if _, ok := fresh[st.O]; !ok {
					r, _ := doLife(newLifeWorldP(true), st.O)
					fresh[st.O] = r
				}
			}
		}
		var steps, mism, predicted int64
		parallelFor(len(hs), func(i int) {
			h := hs[i]
			world := newLifeWorld()
			type kept struct {
				idx    int
				first  string
				reread func() string
			}
			var keeps []kept
			names := []string{}
			for si, st := range h.History {
				atomic.AddInt64(&steps, 1)
				names = append(names, st.O.Op+"("+st.O.Obj+st.O.Arg+")")
				got, rr := doLife(world, st.O)
				if rr != nil {
					keeps = append(keeps, kept{si, rr(), rr})
				}
				want, ok := "", true
				switch st.Want.Kind {
				case "fresh":
					want = fresh[st.O]
					ok = got == want
				case "event":
					want = fmt.Sprintf("event %s %d %d", st.Want.Ev.Ty, st.Want.Ev.B, st.Want.Ev.E)
					ok = got == want
				case "drain":
					want = "drain"
					for _, e := range st.Want.Evs {
						want += fmt.Sprintf(" %s:%d:%d", e.Ty, e.B, e.E)
					}
					want += " " + st.Want.Term
					ok = got == want
				case "eof":
					want = "eof"
					ok = got == "eof"
				case "error":
					want = "error ..."
					ok = len(got) > 5 && got[:5] == "error"
				}
				if !ok && st.Dev {
					// the implementation-shaped model (Life.tla, switch SharedTypeCompiledInPlace) predicts this very deviation: reported as
					// predicted, and the rest of the history is still checked
					if atomic.AddInt64(&predicted, 1) <= 3 {
						w.Write(map[string]interface{}{"history": names, "step": si, "want": want, "got": got, "kind": st.Want.Kind, "predicted": true})
					}
					continue
				}
				if !ok {
					atomic.AddInt64(&mism, 1)
					w.Write(map[string]interface{}{"history": names, "step": si, "want": want, "got": got, "kind": st.Want.Kind})
					return
				}
			}
			for _, k := range keeps {
				if now := k.reread(); now != k.first {
					atomic.AddInt64(&mism, 1)
					w.Write(map[string]interface{}{"history": names, "step": k.idx, "want": k.first, "got": now, "kind": "value changed after it was returned"})
					return
				}
			}
		})
		sb, _ := json.Marshal(map[string]int64{"histories": int64(len(hs)), "steps": steps, "mismatches": mism, "predicted_deviations": predicted})
		fmt.Fprintln(os.Stderr, "@@SUMMARY "+string(sb))
		return 0
	})
}

var freshFlip int
var freshKeep [][]byte

// c11fresh: scenarios built from scratch many times in one process; Go randomises every map iteration, so a result that depends on
// it shows up as two different result strings for the same scenario. stdout: one line per scenario {name, results: {string: count}}.
func init() {
	register("c11fresh", func(args []string) int {
		fs := flag.NewFlagSet("c11fresh", flag.ExitOnError)
		reps := fs.Int("reps", 150, "repetitions per scenario")
		fs.Parse(args)
		mk := func(root string, types [][2]string) *jschema.Schema {
			s := jschema.New("root", root)
			for _, t := range types {
				_ = s.AddType(t[0], jschema.New(t[0], t[1]))
			}
			return s
		}
		scenarios := []struct {
			name string
			run  func() string
		}{
			{"nested added types with an or rule: root -> @T -> @U", func() string {
				u := jschema.New("@U", `1 // {or: [{type: "integer"}, {type: "string"}]}`)
				t := jschema.New("@T", `{"u": @U}`)
				_ = t.AddType("@U", u)
				r := jschema.New("root", `{"t": @T}`)
				_ = r.AddType("@T", t)
				return errStr(r.Check()) + " | " + errStr(r.Validate(jdoc.New("d", `{"t":{"u":"x"}}`)))
			}},
			{"a chain of added types five links long, a rule set at its end: root -> @T -> @U -> @V -> @W", func() string {
				w := jschema.New("@W", `1 // {or: [{type: "integer"}, {type: "string"}]}`)
				v := jschema.New("@V", `{"w": @W, "s": 1 // {or: [{type: "integer"}, {type: "null"}]}`+"\n}")
				u := jschema.New("@U", `[@V]`)
				t := jschema.New("@T", `{"u": @U}`)
				r := jschema.New("root", `{"t": @T}`)
				// from the top down: nothing has been compiled before the root is
				_ = r.AddType("@T", t)
				_ = t.AddType("@U", u)
				_ = u.AddType("@V", v)
				_ = v.AddType("@W", w)
				return errStr(r.Check()) + " | " + errStr(r.Validate(jdoc.New("d", `{"t":{"u":[{"w":"x","s":null}]}}`)))
			}},
			{"two broken unnamed types (members of type shortcuts) in two files, the types loaded in either order", func() string {
				freshFlip++
				tt := [][2]string{{"@t0", `@missing | @t1`}, {"@t1", `@missing | @t0`}}
				if freshFlip%2 == 0 {
					tt[0], tt[1] = tt[1], tt[0]
				}
				if freshFlip%3 == 0 {
					freshKeep = append(freshKeep, make([]byte, 64+freshFlip%512)) // moves the allocator on
				}
				return errStr(mk(`@t0`, tt).Check())
			}},
			{"two types with a broken allOf rule", func() string {
				return errStr(mk(`1`, [][2]string{{"@A", "{ // {allOf: \"@X\"}\n}"}, {"@B", "{ // {allOf: \"@I\"}\n}"}, {"@I", "1"}}).Check())
			}},
			{"three broken types of three kinds", func() string {
				return errStr(mk(`{"a": @A, "b": @B, "c": @C}`, [][2]string{{"@A", `5 // {min: 10}`}, {"@B", `"s" // {minLength: 3}`}, {"@C", "{ // {allOf: \"@Z\"}\n}"}}).Check())
			}},
			{"several required keys missing", func() string {
				return errStr(mk(`{"a": 1, "b": 2, "c": 3, "d": 4, "e": 5}`, nil).Validate(jdoc.New("d", `{}`)))
			}},
			{"two unknown keys and two missing keys", func() string {
				return errStr(mk(`{"a": 1, "b": 2, "c": 3}`, nil).Validate(jdoc.New("d", `{"x": 1, "c": 3, "y": 2}`)))
			}},
			{"example and used types of a schema with many types", func() string {
				s := mk(`{"a": @A, "b": @B | @C, "d": [@D], @K: 1}`, [][2]string{{"@A", "1"}, {"@B", `"b"`}, {"@C", "true"}, {"@D", `{"x": @A}`}, {"@K", `"k" // {regex: "k"}`}})
				ex, e1 := s.Example()
				u, e2 := s.UsedUserTypes()
				return string(ex) + errStr(e1) + fmt.Sprint(u) + errStr(e2)
			}},
			{"or of four alternatives against a value none admits", func() string {
				return errStr(mk(`1 // {or: [{type: "integer", min: 5}, {type: "string"}, {type: "boolean"}, "@N"]}`, [][2]string{{"@N", "null"}}).Validate(jdoc.New("d", `2`)))
			}},
		}
		w := newNDWriter("-")
		defer w.Close()
		for _, sc := range scenarios {
			res := map[string]int{}
			for i := 0; i < *reps; i++ {
				r := "?"
				func() {
					defer func() {
						if p := recover(); p != nil {
							r = fmt.Sprint("PANIC ", p)
						}
					}()
					r = sc.run()
				}()
				res[r]++
			}
			w.Write(map[string]interface{}{"name": sc.name, "results": res})
		}
		return 0
	})
}
